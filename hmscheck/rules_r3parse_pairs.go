package main

import (
	"fmt"
	"sort"
	"strings"
)

// R-prec-pairs (C07): the quantifier of the property — "every ordered pair of
// binary operators" — evaluated literally. For the ordered pair (op1, op2) the
// climbing loop builds  a op1 (b op2 c)  iff  left(op2) > right(op1)  (the
// recursive call for op1's right operand takes op2), and  (a op1 b) op2 c
// otherwise. The property fixes the expected grouping from the level order:
// op2 on a tighter level -> inside; on a looser level -> outside; on the same
// level -> inside iff the level is right-associative. R-prec (a) states the same
// condition as a chain of inequalities over the levels; this rule gives the
// witness as the concrete expression whose tree is wrong.

func init() {
	register(&Rule{ID: "R-prec-pairs", Floor: 100, Run: ruleR3parsePrecPairs,
		Doc: "for every ordered pair of levels (L1, L2) of the operator order C07 states (assignment < || < && < | < ^ < & < equality < comparison < shift < additive < multiplicative < as < **) and every operator pair (op1 in L1, op2 in L2): the grouping the precedence-climbing loop builds for `a op1 b op2 c` — op2 goes into op1's right operand iff left(op2) > right(op1), as read from TokenKind.Prec — equals the grouping the level order fixes (tighter level inside, looser level outside, same level: inside iff right-associative). A differing pair is a concrete expression whose tree is not 'the one fixed by the operator table'. (`as` is only used as the second operator: its right operand is a type.)"})
}

func ruleR3parsePrecPairs(c *Ctx) []Obligation {
	r := pxDiscover(c)
	pxIndexDecls(c)
	table, _, fd, _ := r.extractPrec()
	pos := c.Pos(fd.Pos())
	var assignKinds []string
	for _, m := range r.opMaps() {
		if m.m[r.byDisp["="]] != "" && m.m[r.byDisp["+="]] != "" {
			for k := range m.m {
				assignKinds = append(assignKinds, k)
			}
		}
	}
	sort.Strings(assignKinds)
	type level struct {
		name  string
		kinds []string
		right bool
	}
	var levels []level
	for _, lv := range pxPrecLevels {
		L := level{name: lv.name, right: lv.right}
		if lv.lexemes == nil {
			L.kinds = assignKinds
		}
		for _, lx := range lv.lexemes {
			if k := r.byDisp[lx]; k != "" {
				L.kinds = append(L.kinds, k)
			}
		}
		levels = append(levels, L)
	}
	asKind := r.byDisp["as"]
	var obs []Obligation
	for i, L1 := range levels {
		if len(L1.kinds) == 1 && L1.kinds[0] == asKind {
			continue // the right operand of `as` is a type
		}
		for j, L2 := range levels {
			key := "pair " + L1.name + " then " + L2.name
			wantInside := j > i || (j == i && L1.right)
			want := "(a op1 b) op2 c"
			if wantInside {
				want = "a op1 (b op2 c)"
			}
			var fails []string
			n := 0
			for _, k1 := range L1.kinds {
				for _, k2 := range L2.kinds {
					p1, ok1 := table[k1]
					p2, ok2 := table[k2]
					if !ok1 || !ok2 || p1.l == 0 || p2.l == 0 {
						continue // R-prec reports operators without a binding power
					}
					n++
					inside := p2.l > p1.r
					if inside == wantInside {
						continue
					}
					o1, o2 := r.display[k1], r.display[k2]
					good, bad := fmt.Sprintf("(a %s b) %s c", o1, o2), fmt.Sprintf("a %s (b %s c)", o1, o2)
					if wantInside {
						good, bad = bad, good
					}
					if len(fails) < 3 {
						fails = append(fails, fmt.Sprintf("`a %s b %s c` must be %s but the loop builds %s: left(%s)=%d, right(%s)=%d", o1, o2, good, bad, o2, p2.l, o1, p1.r))
					}
				}
			}
			if n == 0 {
				continue
			}
			o := Obligation{Key: key, Pos: pos, Status: Discharged, Nontrivial: true, Detail: fmt.Sprintf("%d operator pair(s) group as %s", n, want)}
			if len(fails) > 0 {
				o.Status, o.Detail = Violated, strings.Join(fails, "; ")
			}
			obs = append(obs, o)
		}
	}
	return obs
}
