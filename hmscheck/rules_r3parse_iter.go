package main

import (
	"fmt"
	"go/ast"
	"go/token"
	"go/types"
	"sort"
	"strings"
)

// R-iter-fresh-element (C07, C15; parser).
//
// A parser loop that builds one element per iteration and appends it to a list
// implements the grammar production  list = item { sep item } : every item is
// described by ITS OWN tokens. Hence the value appended in an iteration may
// depend only on what that iteration produced (tokens it consumed, results of
// the sub-parsers it called, constants) and on loop-invariant inputs
// (parameters, variables the loop body never assigns). A local variable that
// the loop body assigns — typically under a condition: "if the item has a
// modifier, remember it" — and that is read into the appended element must
// have been (re)assigned on every path from the start of the iteration to the
// read. Otherwise the element of iteration k inherits the value an earlier
// item (or the code before the loop) left behind: `import { type T, f }` makes
// `f` a type import.
//
// Documented accumulators are exempt by shape: the list itself (first argument
// of append), variables only ever self-updated in the loop (x++, x op= e,
// x = f(x)), and span starts (decided by R-span-fresh-start, which knows the
// accumulating-tree exception).

func init() {
	register(&Rule{ID: "R-iter-fresh-element", Floor: 12, Run: ruleR3parseIterFresh,
		Doc: "for every append(list, element…) that a parser method executes inside a loop body: the element (every field of the node literal / every argument of the constructor or sub-parser call it is made of, followed through local aliases and opaque computations) does not read a local variable that the loop body assigns (other than by a self-update x++, x op= e, x = f(x)) but whose binding on the path predates the running iteration. Loop-invariant inputs (parameters, variables never assigned in the body) and values produced in the iteration are fine; span/location fields are left to R-span-fresh-start. A loop-carried value makes the k-th item of a list inherit a property of an earlier item (a `type` modifier sticking to the following import items: the item is looked up in the wrong namespace, C15; the tree no longer follows list = item {',' item}, C07)."})
}

func ruleR3parseIterFresh(c *Ctx) []Obligation {
	e := r2parseEngineOf(c)
	var obs []Obligation
	e.stable(func() { obs = r3parseIterFresh(e) })
	return obs
}

func r3parseIterFresh(e *r2parseEngine) []Obligation {
	aggs := &r2parseAggSet{}
	for _, fd := range e.fds {
		fd := fd
		run := e.newRun(fd, nil)
		if len(run.loops) == 0 {
			continue
		}
		fkey := e.funcKey(fd)
		run.obs.call = func(st *r2parseState, call *ast.CallExpr, callee *types.Func, builtin string, args []*r2parseVal) {
			if builtin != "append" || len(args) < 2 || call.Ellipsis != token.NoPos {
				return
			}
			l, ok := run.innermostLoop(call.Pos())
			if !ok {
				return
			}
			key := fkey + "|element appended to " + spShort(exprStr(call.Args[0])) + " in `" + l.label + "`"
			for i, a := range args[1:] {
				carried := r2parseCarried(a, map[*r2parseVal]bool{})
				sort.Strings(carried)
				carried = r3parseUniq(carried)
				st.pend = append(st.pend, r2parsePend{key: key, what: "iter", pos: call.Pos(), v: a, aux: strings.Join(carried, "; "), aux2: exprStr(call.Args[i+1])})
			}
		}
		run.obs.exit = func(st *r2parseState, o outcome, success bool, results []*r2parseVal) {
			if !success {
				return
			}
			for _, p := range st.pend {
				if p.what != "iter" {
					continue
				}
				a := aggs.get(p.key, p.pos)
				a.seen++
				if p.aux == "" {
					a.notes["built from values of the iteration and loop-invariant inputs only ("+p.v.desc+")"] = true
					continue
				}
				a.fail(Violated, fmt.Sprintf("the appended element %s reads loop-carried %s: the item built in this iteration inherits what an earlier item (or the code before the loop) stored there; path %s", spShort(p.aux2), p.aux, st.path()))
			}
		}
		run.walk()
		for _, u := range run.undec {
			aggs.get(fkey+"|walk", fd.Pos()).fail(Undecided, u)
		}
	}
	return aggs.obligations(e.c)
}

func r3parseUniq(in []string) []string {
	var out []string
	for i, s := range in {
		if i == 0 || s != in[i-1] {
			out = append(out, s)
		}
	}
	return out
}
