package main

// Host builtins (C17, C10):
//
//   R-output-atomic   every function that hands text to the host's output
//                     writer does so with at most ONE call per invocation on
//                     every path: the writer is the unit of atomicity.
//   R-sleep-bounded   every time.Sleep of the execution pipeline and of the
//                     host builtins sleeps for a duration bounded by a
//                     constant, and — where a cancellation context is in
//                     reach — inside a loop that polls it on every iteration.

import (
	"fmt"
	"go/ast"
	"go/constant"
	"go/token"
	"go/types"
	"sort"
	"strings"

	"golang.org/x/tools/go/packages"
)

func init() {
	register(&Rule{ID: "R-output-atomic", Floor: 5, Run: ruleOutputAtomic,
		Doc: "C17/C14: the host's output writer (the method of the engines' Executor interface that takes the text and returns an error; the VM's implementation serialises calls with a mutex) is the unit of atomicity of program output: text written by one call appears whole, text written by two calls can be separated by the output of another thread. Every function or builtin closure that writes output must therefore call the writer at most once on every path of one invocation (a call inside a loop, or two calls in sequence, count as several; helpers that write are counted with their own maximum). A `println` that writes the text and the line break separately lets another thread's print land between them."})
	register(&Rule{ID: "R-sleep-bounded", Floor: 5, Run: ruleSleepBounded,
		Doc: "C10/C09: a sleeping thread observes nothing. (a) Every time.Sleep in the execution pipeline (runtime, interpreter, value libraries) and in every function or builtin closure that has a cancellation context in reach sleeps for a duration with a constant upper bound, decided by interval evaluation of the argument: constants, products/sums of bounded terms, min(x, C) is bounded by C, max(x, C) is not, a variable is bounded if every definition is or if it is clamped by `if d > C { d = C }` before the call. (b) Where a context parameter is in reach the sleep sits in a loop whose body calls a cancellation poll (a function receiving from ctx.Done()) on every iteration. Otherwise `time.sleep(3600)` blocks cancellation for an hour: the host's wait does not return promptly."})
}

// ---------------------------------------------------------------------------
// function units with a readable name
// ---------------------------------------------------------------------------

type r3hUnit struct {
	pkg   *packages.Package
	info  *types.Info
	decl  *ast.FuncDecl
	lit   *ast.FuncLit // nil: the declaration itself
	name  string
	outer []*ast.FuncType // enclosing function types, outermost first (including own)
}

func (u *r3hUnit) body() *ast.BlockStmt {
	if u.lit != nil {
		return u.lit.Body
	}
	return u.decl.Body
}

func (u *r3hUnit) ftype() *ast.FuncType {
	if u.lit != nil {
		return u.lit.Type
	}
	return u.decl.Type
}

// r3hUnits: every FuncDecl and FuncLit of the package; literals are named by the chain of
// constant map keys / field names they are stored under ("time"."sleep"), else by ordinal.
func r3hUnits(p *packages.Package) []*r3hUnit {
	var out []*r3hUnit
	for _, f := range p.Syntax {
		if strings.HasSuffix(p.Fset.Position(f.Pos()).Filename, "_test.go") {
			continue
		}
		for _, d := range f.Decls {
			fd, ok := d.(*ast.FuncDecl)
			if !ok || fd.Body == nil {
				continue
			}
			base := strings.TrimPrefix(relPkg(p.PkgPath), "homescript/") + "." + FuncName(fd)
			out = append(out, &r3hUnit{pkg: p, info: p.TypesInfo, decl: fd, name: base, outer: []*ast.FuncType{fd.Type}})
			var stack []ast.Node
			seen := map[string]int{}
			ast.Inspect(fd.Body, func(n ast.Node) bool {
				if n == nil {
					stack = stack[:len(stack)-1]
					return true
				}
				stack = append(stack, n)
				fl, ok := n.(*ast.FuncLit)
				if !ok {
					return true
				}
				var keys []string
				outer := []*ast.FuncType{fd.Type}
				for _, s := range stack {
					switch x := s.(type) {
					case *ast.KeyValueExpr:
						if tv := p.TypesInfo.Types[x.Key]; tv.Value != nil {
							keys = append(keys, tv.Value.ExactString())
						} else if id, ok := x.Key.(*ast.Ident); ok {
							keys = append(keys, id.Name)
						}
					case *ast.FuncLit:
						outer = append(outer, x.Type)
					}
				}
				name := base + "|" + strings.Join(keys, ".")
				if len(keys) == 0 {
					name = base + "|func literal"
				}
				seen[name]++
				if seen[name] > 1 {
					name = fmt.Sprintf("%s #%d", name, seen[name])
				}
				out = append(out, &r3hUnit{pkg: p, info: p.TypesInfo, decl: fd, lit: fl, name: name, outer: outer})
				return true
			})
		}
	}
	return out
}

// ---------------------------------------------------------------------------
// R-output-atomic
// ---------------------------------------------------------------------------

// r3hWriters: the text-writer methods: interface methods `func(string) error` of the value
// libraries' executor interfaces, and the same-named methods of the types implementing them.
func r3hWriters(c *Ctx) (map[*types.Func]bool, []string) {
	writers := map[*types.Func]bool{}
	var names []string
	var ifaces []*types.Interface
	var wnames []string
	for _, rel := range []string{mbRelVM, mbRelInterp} {
		p := c.Pkg(rel)
		scope := p.Types.Scope()
		for _, n := range scope.Names() {
			tn, ok := scope.Lookup(n).(*types.TypeName)
			if !ok {
				continue
			}
			it, ok := tn.Type().Underlying().(*types.Interface)
			if !ok || it.NumMethods() < 3 {
				continue
			}
			var cand []*types.Func
			for i := 0; i < it.NumMethods(); i++ {
				m := it.Method(i)
				sig := m.Type().(*types.Signature)
				if sig.Params().Len() == 1 && sig.Results().Len() == 1 {
					if b, ok := sig.Params().At(0).Type().(*types.Basic); ok && b.Kind() == types.String && sig.Results().At(0).Type().String() == "error" {
						cand = append(cand, m)
					}
				}
			}
			if len(cand) == 1 {
				writers[cand[0]] = true
				ifaces = append(ifaces, it)
				wnames = append(wnames, cand[0].Name())
				names = append(names, relPkg(p.PkgPath)+"."+tn.Name()+"."+cand[0].Name())
			}
		}
	}
	// implementers anywhere in the module
	for _, p := range c.All {
		scope := p.Types.Scope()
		for _, n := range scope.Names() {
			tn, ok := scope.Lookup(n).(*types.TypeName)
			if !ok || tn.IsAlias() {
				continue
			}
			if _, isI := tn.Type().Underlying().(*types.Interface); isI {
				continue
			}
			for i, it := range ifaces {
				if types.Implements(tn.Type(), it) || types.Implements(types.NewPointer(tn.Type()), it) {
					if o, _, _ := types.LookupFieldOrMethod(types.NewPointer(tn.Type()), true, p.Types, wnames[i]); o != nil {
						if fn, ok := o.(*types.Func); ok {
							writers[fn] = true
						}
					}
				}
			}
		}
	}
	sort.Strings(names)
	return writers, names
}

const r3hMany = 1 << 20

// r3hMaxCalls: the maximal number of calls counted by `count` on one path through the statements.
func r3hMaxCalls(list []ast.Stmt, count func(n ast.Node) int) int {
	total := 0
	add := func(k int) {
		total += k
		if total > r3hMany {
			total = r3hMany
		}
	}
	exprs := func(nodes ...ast.Node) int {
		k := 0
		for _, n := range nodes {
			if n != nil && !isNilNode(n) {
				k += count(n)
			}
		}
		return k
	}
	for _, st := range list {
		switch s := st.(type) {
		case *ast.BlockStmt:
			add(r3hMaxCalls(s.List, count))
		case *ast.LabeledStmt:
			add(r3hMaxCalls([]ast.Stmt{s.Stmt}, count))
		case *ast.IfStmt:
			add(exprs(s.Init, s.Cond))
			a := r3hMaxCalls(s.Body.List, count)
			b := 0
			if s.Else != nil {
				b = r3hMaxCalls([]ast.Stmt{s.Else}, count)
			}
			if b > a {
				a = b
			}
			add(a)
		case *ast.ForStmt:
			add(exprs(s.Init))
			if exprs(s.Cond, s.Post)+r3hMaxCalls(s.Body.List, count) > 0 {
				add(r3hMany)
			}
		case *ast.RangeStmt:
			add(exprs(s.X))
			if r3hMaxCalls(s.Body.List, count) > 0 {
				add(r3hMany)
			}
		case *ast.SwitchStmt:
			add(exprs(s.Init, s.Tag))
			m := 0
			for _, cl := range s.Body.List {
				cc := cl.(*ast.CaseClause)
				k := r3hMaxCalls(cc.Body, count)
				for _, e := range cc.List {
					k += count(e)
				}
				if k > m {
					m = k
				}
			}
			add(m)
		case *ast.TypeSwitchStmt:
			add(exprs(s.Init, s.Assign))
			m := 0
			for _, cl := range s.Body.List {
				if k := r3hMaxCalls(cl.(*ast.CaseClause).Body, count); k > m {
					m = k
				}
			}
			add(m)
		case *ast.SelectStmt:
			m := 0
			for _, cl := range s.Body.List {
				cc := cl.(*ast.CommClause)
				k := r3hMaxCalls(cc.Body, count)
				if cc.Comm != nil {
					k += count(cc.Comm)
				}
				if k > m {
					m = k
				}
			}
			add(m)
		default:
			add(count(st))
		}
	}
	return total
}

func isNilNode(n ast.Node) bool {
	switch x := n.(type) {
	case ast.Expr:
		return x == nil
	case ast.Stmt:
		return x == nil
	}
	return false
}

func ruleOutputAtomic(c *Ctx) []Obligation {
	writers, wnames := r3hWriters(c)
	var obs []Obligation
	if len(writers) == 0 {
		return []Obligation{{Key: "output|writer", Status: Undecided, Pos: "?", Detail: "no executor interface with a single func(string) error method found in the value libraries"}}
	}
	// all units; declared functions that (transitively) write, with their maximum
	var units []*r3hUnit
	for _, p := range c.All {
		units = append(units, r3hUnits(p)...)
	}
	declMax := map[*types.Func]int{}
	declOf := map[*types.Func]*r3hUnit{}
	for _, u := range units {
		if u.lit == nil {
			if fn, ok := u.info.Defs[u.decl.Name].(*types.Func); ok {
				declOf[fn] = u
			}
		}
	}
	var countIn func(u *r3hUnit, depth int) (int, []token.Pos)
	countIn = func(u *r3hUnit, depth int) (int, []token.Pos) {
		var sites []token.Pos
		count := func(n ast.Node) int {
			k := 0
			ast.Inspect(n, func(m ast.Node) bool {
				switch x := m.(type) {
				case *ast.FuncLit:
					return false
				case *ast.CallExpr:
					fn := CalleeOf(u.info, x)
					if fn == nil {
						return true
					}
					if writers[fn] {
						k++
						sites = append(sites, x.Pos())
						return true
					}
					if cu := declOf[fn]; cu != nil && depth < 3 {
						mx, ok := declMax[fn]
						if !ok {
							declMax[fn] = 0 // recursion guard
							mx, _ = countIn(cu, depth+1)
							declMax[fn] = mx
						}
						if mx > 0 {
							k += mx
							sites = append(sites, x.Pos())
						}
					}
				}
				return true
			})
			return k
		}
		return r3hMaxCalls(u.body().List, count), sites
	}
	for _, u := range units {
		// the writer implementations themselves are not judged
		if u.lit == nil {
			if fn, ok := u.info.Defs[u.decl.Name].(*types.Func); ok && writers[fn] {
				continue
			}
		}
		mx, sites := countIn(u, 0)
		if len(sites) == 0 {
			continue
		}
		var ps []string
		for _, s := range sites {
			ps = append(ps, c.Pos(s))
		}
		o := Obligation{Key: "output|" + u.name + "|one write per invocation", Pos: c.Pos(sites[0]), Nontrivial: true}
		switch {
		case mx <= 1:
			o.Status, o.Detail = Discharged, fmt.Sprintf("at most one call of the output writer (%s) on every path (%s)", strings.Join(wnames, ", "), strings.Join(ps, ", "))
		case mx >= r3hMany:
			o.Status, o.Detail = Violated, fmt.Sprintf("the output writer is called inside a loop (%s): one invocation performs several writes, and another thread's output can appear between them (each print must appear whole)", strings.Join(ps, ", "))
		default:
			o.Status, o.Detail = Violated, fmt.Sprintf("a path through this function calls the output writer %d times (%s): the pieces are separate atomic writes, another thread's output can appear between them", mx, strings.Join(ps, ", "))
		}
		obs = append(obs, o)
	}
	return obs
}

// ---------------------------------------------------------------------------
// R-sleep-bounded
// ---------------------------------------------------------------------------

func r3hIsContext(t types.Type) bool {
	if p, ok := t.(*types.Pointer); ok {
		t = p.Elem()
	}
	n, ok := types.Unalias(t).(*types.Named)
	return ok && n.Obj().Pkg() != nil && n.Obj().Pkg().Path() == "context" && n.Obj().Name() == "Context"
}

type r3hBound struct {
	u    *r3hUnit
	at   token.Pos
	seen map[types.Object]bool
}

// ub: a constant upper bound of e (nil: none) with an explanation.
func (b *r3hBound) ub(e ast.Expr, depth int) (constant.Value, string) {
	info := b.u.info
	e = ast.Unparen(e)
	if tv, ok := info.Types[e]; ok && tv.Value != nil && (tv.Value.Kind() == constant.Int || tv.Value.Kind() == constant.Float) {
		return tv.Value, "constant " + exprStr(e)
	}
	if depth > 14 {
		return nil, "expression too deep"
	}
	switch x := e.(type) {
	case *ast.BinaryExpr:
		l, lw := b.ub(x.X, depth+1)
		r, rw := b.ub(x.Y, depth+1)
		switch x.Op {
		case token.MUL, token.ADD:
			if l == nil {
				return nil, lw
			}
			if r == nil {
				return nil, rw
			}
			if constant.Sign(l) < 0 || constant.Sign(r) < 0 {
				return nil, "negative bound in " + exprStr(e)
			}
			return constant.BinaryOp(l, x.Op, r), "(" + lw + ") " + x.Op.String() + " (" + rw + ")"
		case token.SUB, token.QUO, token.REM:
			// x - y, x / y, x % y with non-negative operands are bounded by x (y ≥ 1 for / is assumed)
			if l != nil {
				return l, "at most its left operand: " + lw
			}
			if x.Op == token.REM && r != nil {
				return r, "a remainder modulo " + rw
			}
			return nil, lw
		}
		return nil, "operator " + x.Op.String()
	case *ast.CallExpr:
		if tv, ok := info.Types[x.Fun]; ok && tv.IsType() && len(x.Args) == 1 {
			return b.ub(x.Args[0], depth+1) // conversion
		}
		if id, ok := ast.Unparen(x.Fun).(*ast.Ident); ok {
			if bi, ok := info.Uses[id].(*types.Builtin); ok && (bi.Name() == "min" || bi.Name() == "max") {
				var best constant.Value
				var why []string
				for _, a := range x.Args {
					v, w := b.ub(a, depth+1)
					if v == nil {
						if bi.Name() == "max" {
							return nil, "max(…) is at least its unbounded operand " + exprStr(a) + " (" + w + ")"
						}
						continue
					}
					why = append(why, w)
					if best == nil || (bi.Name() == "min" && constant.Compare(v, token.LSS, best)) || (bi.Name() == "max" && constant.Compare(v, token.GTR, best)) {
						best = v
					}
				}
				if best == nil {
					return nil, bi.Name() + "(…) of unbounded operands"
				}
				return best, bi.Name() + "(…) ≤ " + best.ExactString()
			}
		}
		if fn := CalleeOf(info, x); fn != nil && fn.Pkg() != nil && fn.Pkg().Path() == "math" && (fn.Name() == "Min" || fn.Name() == "Max") && len(x.Args) == 2 {
			l, lw := b.ub(x.Args[0], depth+1)
			r, rw := b.ub(x.Args[1], depth+1)
			if fn.Name() == "Min" {
				switch {
				case l != nil && r != nil:
					if constant.Compare(l, token.LSS, r) {
						return l, "math.Min"
					}
					return r, "math.Min"
				case l != nil:
					return l, "math.Min ≤ " + lw
				case r != nil:
					return r, "math.Min ≤ " + rw
				}
				return nil, "math.Min of unbounded operands"
			}
			if l == nil {
				return nil, "math.Max is at least " + exprStr(x.Args[0]) + " (" + lw + ")"
			}
			if r == nil {
				return nil, "math.Max is at least " + exprStr(x.Args[1]) + " (" + rw + ")"
			}
			if constant.Compare(l, token.GTR, r) {
				return l, "math.Max"
			}
			return r, "math.Max"
		}
		return nil, "result of " + exprStr(x.Fun) + " is not bounded"
	case *ast.Ident:
		o := r2tObj(info, x)
		v, ok := o.(*types.Var)
		if !ok || v.IsField() {
			return nil, x.Name + " is not a local variable"
		}
		if b.seen[o] {
			return nil, x.Name + " depends on itself"
		}
		b.seen[o] = true
		defer delete(b.seen, o)
		body := b.u.body()
		if !(body.Pos() <= v.Pos() && v.Pos() <= body.End()) {
			return nil, x.Name + " comes from outside the function (parameter / captured variable)"
		}
		// clamp before the use: if v > C { v = C }
		var clamp constant.Value
		ast.Inspect(body, func(n ast.Node) bool {
			ifs, ok := n.(*ast.IfStmt)
			if !ok || ifs.Pos() > b.at || ifs.Else != nil || len(ifs.Body.List) != 1 {
				return true
			}
			be, ok := ast.Unparen(ifs.Cond).(*ast.BinaryExpr)
			if !ok || (be.Op != token.GTR && be.Op != token.GEQ) || r2tObj(info, be.X) != o {
				return true
			}
			lim := info.Types[be.Y].Value
			as, ok := ifs.Body.List[0].(*ast.AssignStmt)
			if !ok || lim == nil || len(as.Lhs) != 1 || len(as.Rhs) != 1 || r2tObj(info, as.Lhs[0]) != o {
				return true
			}
			if nv := info.Types[as.Rhs[0]].Value; nv != nil && !constant.Compare(nv, token.GTR, lim) {
				clamp = lim
			}
			return true
		})
		if clamp != nil {
			return clamp, x.Name + " is clamped to " + clamp.ExactString() + " before the call"
		}
		var best constant.Value
		n := 0
		why := ""
		bad := ""
		ast.Inspect(body, func(nd ast.Node) bool {
			switch s := nd.(type) {
			case *ast.FuncLit:
				return false
			case *ast.AssignStmt:
				for i, lh := range s.Lhs {
					if r2tObj(info, lh) != o {
						continue
					}
					n++
					if len(s.Rhs) != len(s.Lhs) {
						bad = x.Name + " is assigned from a multi-value expression"
						continue
					}
					if s.Tok != token.DEFINE && s.Tok != token.ASSIGN {
						if s.Tok == token.SUB_ASSIGN || s.Tok == token.QUO_ASSIGN || s.Tok == token.REM_ASSIGN {
							continue // shrinking updates keep the bound
						}
						bad = x.Name + " is updated by " + s.Tok.String()
						continue
					}
					val, w := b.ub(s.Rhs[i], depth+1)
					if val == nil {
						bad = x.Name + " = " + exprStr(s.Rhs[i]) + ": " + w
						continue
					}
					why = w
					if best == nil || constant.Compare(val, token.GTR, best) {
						best = val
					}
				}
			case *ast.ValueSpec:
				for i, nm := range s.Names {
					if info.Defs[nm] != o {
						continue
					}
					n++
					if i < len(s.Values) {
						val, w := b.ub(s.Values[i], depth+1)
						if val == nil {
							bad = x.Name + " = " + exprStr(s.Values[i]) + ": " + w
							continue
						}
						why = w
						if best == nil || constant.Compare(val, token.GTR, best) {
							best = val
						}
					} else if best == nil {
						best = constant.MakeInt64(0)
					}
				}
			case *ast.IncDecStmt:
				if r2tObj(info, s.X) == o && s.Tok == token.INC {
					bad = x.Name + " is incremented"
				}
			case *ast.RangeStmt:
				if r2tObj(info, s.Key) == o || (s.Value != nil && r2tObj(info, s.Value) == o) {
					bad = x.Name + " is a range variable"
				}
			}
			return true
		})
		if bad != "" {
			return nil, bad
		}
		if n == 0 || best == nil {
			return nil, x.Name + " has no visible definition"
		}
		return best, x.Name + " ≤ " + best.ExactString() + " (" + why + ")"
	case *ast.SelectorExpr:
		return nil, exprStr(e) + " is a field / imported variable, not a constant"
	}
	return nil, exprStr(e) + " is not bounded"
}

func ruleSleepBounded(c *Ctx) []Obligation {
	var obs []Obligation
	pipeline := map[string]bool{}
	for _, rel := range determPipelinePkgs {
		pipeline[ModPath+"/"+rel] = true
	}
	// cancellation polls: functions with a result that receive from a context's Done channel
	polls := map[*types.Func]bool{}
	for _, p := range c.All {
		for _, fd := range AllFuncDecls(p) {
			if fd.Type.Results != nil && len(fd.Type.Results.List) > 0 && vmIsDoneRecv(p.TypesInfo, fd.Body) {
				if fn, ok := p.TypesInfo.Defs[fd.Name].(*types.Func); ok {
					polls[fn] = true
				}
			}
		}
	}
	for _, p := range c.All {
		for _, u := range r3hUnits(p) {
			// sleeps directly in this unit (not in nested literals)
			var sleeps []*ast.CallExpr
			var stack []ast.Node
			loopsOf := map[*ast.CallExpr][]ast.Stmt{}
			ast.Inspect(u.body(), func(n ast.Node) bool {
				if n == nil {
					stack = stack[:len(stack)-1]
					return true
				}
				if _, ok := n.(*ast.FuncLit); ok {
					return false // a nested literal is its own unit (no closing nil is delivered for it)
				}
				stack = append(stack, n)
				if call, ok := n.(*ast.CallExpr); ok {
					if fn := CalleeOf(u.info, call); fn != nil && fn.Pkg() != nil && fn.Pkg().Path() == "time" && fn.Name() == "Sleep" && len(call.Args) == 1 {
						sleeps = append(sleeps, call)
						for _, s := range stack {
							switch s.(type) {
							case *ast.ForStmt, *ast.RangeStmt:
								loopsOf[call] = append(loopsOf[call], s.(ast.Stmt))
							}
						}
					}
				}
				return true
			})
			if len(sleeps) == 0 {
				continue
			}
			hasCtx := false
			for _, ft := range u.outer {
				if ft.Params == nil {
					continue
				}
				for _, f := range ft.Params.List {
					if r3hIsContext(u.info.TypeOf(f.Type)) {
						hasCtx = true
					}
				}
			}
			inScope := pipeline[p.PkgPath] || hasCtx
			for i, call := range sleeps {
				suffix := ""
				if len(sleeps) > 1 {
					suffix = fmt.Sprintf(" #%d", i+1)
				}
				base := "sleep|" + u.name + suffix + "|"
				bd := &r3hBound{u: u, at: call.Pos(), seen: map[types.Object]bool{}}
				val, why := bd.ub(call.Args[0], 0)
				o := Obligation{Key: base + "duration bounded by a constant", Pos: c.Pos(call.Pos()), Nontrivial: true}
				switch {
				case val != nil:
					o.Status, o.Detail = Discharged, fmt.Sprintf("time.Sleep(%s) ≤ %s ns: %s", exprStr(call.Args[0]), val.ExactString(), why)
				case !inScope:
					o.Status, o.Detail = Info, fmt.Sprintf("time.Sleep(%s) has no constant bound (%s); the function is outside the execution pipeline and has no cancellation context in reach (host tooling)", exprStr(call.Args[0]), why)
				default:
					o.Status = Violated
					o.Detail = fmt.Sprintf("time.Sleep(%s) has no constant upper bound: %s. One uninterruptible sleep can cover the whole requested duration: cancellation (and the host's wait) is not observed until it ends.", exprStr(call.Args[0]), why)
				}
				obs = append(obs, o)
				if !hasCtx {
					continue
				}
				o2 := Obligation{Key: base + "loop polls cancellation", Pos: c.Pos(call.Pos()), Nontrivial: true}
				loops := loopsOf[call]
				if len(loops) == 0 {
					o2.Status, o2.Detail = Violated, "a cancellation context is in reach but the sleep is not inside a polling loop: the builtin cannot be cancelled while it sleeps"
					obs = append(obs, o2)
					continue
				}
				inner := loops[len(loops)-1]
				var body *ast.BlockStmt
				switch l := inner.(type) {
				case *ast.ForStmt:
					body = l.Body
				case *ast.RangeStmt:
					body = l.Body
				}
				polled := ""
				for _, st := range body.List {
					// unconditional per iteration: a top-level statement of the loop body (its
					// condition / initialiser / expression) calls a poll or selects on Done
					var probe []ast.Node
					switch s := st.(type) {
					case *ast.IfStmt:
						probe = append(probe, s.Init, s.Cond)
					case *ast.SelectStmt:
						if vmIsDoneRecv(u.info, s) {
							polled = "select on Done() at " + c.Pos(s.Pos())
						}
					case *ast.AssignStmt, *ast.ExprStmt, *ast.DeclStmt:
						probe = append(probe, s)
					}
					for _, n := range probe {
						if n == nil || isNilNode(n) {
							continue
						}
						ast.Inspect(n, func(m ast.Node) bool {
							if cl, ok := m.(*ast.CallExpr); ok {
								if fn := CalleeOf(u.info, cl); fn != nil && polls[fn] {
									polled = fn.Name() + " at " + c.Pos(cl.Pos())
								}
							}
							return true
						})
					}
				}
				if polled != "" {
					o2.Status, o2.Detail = Discharged, "every iteration of the enclosing loop polls cancellation: "+polled
				} else {
					o2.Status, o2.Detail = Violated, "the loop around the sleep does not call a cancellation poll on every iteration (no top-level call of a function receiving from ctx.Done())"
				}
				obs = append(obs, o2)
			}
		}
	}
	return obs
}
