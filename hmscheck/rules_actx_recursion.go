package main

import (
	"fmt"
	"go/ast"
	"go/constant"
	"go/token"
	"go/types"
	"sort"
	"strings"

	"golang.org/x/tools/go/ast/astutil"
	"golang.org/x/tools/go/packages"
	"golang.org/x/tools/go/ssa"
)

func init() {
	register(&Rule{ID: "R-recursion-measure", Floor: 250, Run: ruleRecursionMeasure,
		Doc: "every call-graph cycle inside lexer, parser, analyzer, the two AST packages (printers), optimizer and fuzzer has a measure. Edges of a recursive component are classified: (a) structural — a tree-typed argument/receiver is a strict sub-term (field / element / type-assertion chain) of a parameter of the caller (parameters that a function hands on unchanged as method receiver, i.e. the Analyzer/Parser context, do not count); (b) consuming (lexer, parser) — a call that consumes input on success dominates the recursive call; (c) visited-set guarded — the call is reached only on the key-absent outcome of a membership test of a map M under a key k (comma-ok lookup, bool map, or a helper predicate / test-and-insert helper of the package, decided on SSA with arguments substituted), and M[k] is stored before the cycle can be re-entered: in the caller before the call, by the test-and-insert helper, or in the callee before any call back into the component; k is the key handed to the callee, or (self recursion) M and k are the function's own parameters and M is handed on. A closure handed to a helper stands for the tree values it captures (a call through a function parameter is a neutral edge, the closure's own calls are classified against the parameters of the function it is written in). An edge with none of these in a structural component violates; so does a cycle made only of neutral edges (same node handed on / no consumption). Necessary for C05/C15: a cycle without a measure is unbounded recursion on some input (cyclic import graph, self-referential text)."})
}

var actxRecPkgs = []string{"homescript/lexer", "homescript/parser", "homescript/parser/ast", "homescript/analyzer", "homescript/analyzer/ast", "homescript/optimizer", "homescript/fuzzer"}

type actxRecEdge struct {
	from, to *ssa.Function
	site     ssa.CallInstruction
	class    string // D-struct, D-consume, D-guard, N, X
	why      string
}

func actxFnPkg(f *ssa.Function) *types.Package {
	for f != nil && f.Parent() != nil {
		f = f.Parent()
	}
	if f == nil {
		return nil
	}
	if f.Pkg != nil {
		return f.Pkg.Pkg
	}
	if o := f.Object(); o != nil {
		return o.Pkg()
	}
	return nil
}

func actxCompound(t types.Type) bool {
	if t == nil {
		return false
	}
	switch t.Underlying().(type) {
	case *types.Struct, *types.Pointer, *types.Interface, *types.Slice, *types.Map, *types.Array:
		return true
	}
	return false
}

// actxDerive: v is a (strict) sub-term of a parameter of its function.
func actxDerive(v ssa.Value, seen map[ssa.Value]bool) (root *ssa.Parameter, strict, ok bool) {
	if seen[v] {
		return nil, true, true // cycle through a phi: neutral element
	}
	seen[v] = true
	switch x := v.(type) {
	case *ssa.Parameter:
		return x, false, true
	case *ssa.Field:
		r, _, ok := actxDerive(x.X, seen)
		return r, true, ok
	case *ssa.FieldAddr:
		r, _, ok := actxDerive(x.X, seen)
		return r, true, ok
	case *ssa.Index:
		r, _, ok := actxDerive(x.X, seen)
		return r, true, ok
	case *ssa.IndexAddr:
		r, _, ok := actxDerive(x.X, seen)
		return r, true, ok
	case *ssa.Lookup:
		r, _, ok := actxDerive(x.X, seen)
		return r, true, ok
	case *ssa.Slice:
		r, _, ok := actxDerive(x.X, seen)
		return r, true, ok
	case *ssa.UnOp:
		if x.Op == token.MUL {
			return actxDerive(x.X, seen)
		}
	case *ssa.TypeAssert:
		return actxDerive(x.X, seen)
	case *ssa.Extract:
		return actxDerive(x.Tuple, seen)
	case *ssa.Next:
		r, _, ok := actxDerive(x.Iter, seen)
		return r, true, ok
	case *ssa.Range:
		return actxDerive(x.X, seen)
	case *ssa.MakeInterface:
		return actxDerive(x.X, seen)
	case *ssa.ChangeInterface:
		return actxDerive(x.X, seen)
	case *ssa.ChangeType:
		return actxDerive(x.X, seen)
	case *ssa.Convert:
		return actxDerive(x.X, seen)
	case *ssa.FreeVar:
		// a captured variable of a closure: the value bound in the enclosing function
		fn := x.Parent()
		if fn == nil || fn.Parent() == nil {
			return nil, false, false
		}
		idx := -1
		for i, fv := range fn.FreeVars {
			if fv == x {
				idx = i
			}
		}
		for _, b := range fn.Parent().Blocks {
			for _, ins := range b.Instrs {
				if mc, ok := ins.(*ssa.MakeClosure); ok && mc.Fn == ssa.Value(fn) && idx >= 0 && idx < len(mc.Bindings) {
					return actxDerive(mc.Bindings[idx], seen)
				}
			}
		}
		return nil, false, false
	case *ssa.MakeClosure:
		// a closure handed on stands for the tree values it captures (the context receiver aside)
		var root *ssa.Parameter
		strict, any := true, false
		for _, b := range x.Bindings {
			r, s, ok := actxDerive(b, seen)
			if !ok || r == nil {
				continue
			}
			if pf := r.Parent(); pf != nil && pf.Signature.Recv() != nil && len(pf.Params) > 0 && pf.Params[0] == r {
				continue
			}
			if root != nil && r != root {
				return nil, false, false
			}
			root, any = r, true
			strict = strict && s
		}
		return root, strict, any
	case *ssa.Phi:
		var root *ssa.Parameter
		strict, any := true, false
		for _, e := range x.Edges {
			if e == v {
				continue
			}
			r, s, ok := actxDerive(e, seen)
			if !ok {
				return nil, false, false
			}
			if r == nil { // cycle marker
				continue
			}
			if root != nil && r != root {
				return nil, false, false
			}
			root, any = r, true
			strict = strict && s
		}
		return root, strict, any
	case *ssa.Alloc:
		// local copy: every store into it must derive from the same root
		var root *ssa.Parameter
		strict, any := true, false
		for _, ref := range *x.Referrers() {
			st, isStore := ref.(*ssa.Store)
			if !isStore || st.Addr != x {
				continue
			}
			r, s, ok := actxDerive(st.Val, seen)
			if !ok || r == nil {
				return nil, false, false
			}
			if root != nil && r != root {
				return nil, false, false
			}
			root, any = r, true
			strict = strict && s
		}
		return root, strict, any
	}
	return nil, false, false
}

func ruleRecursionMeasure(c *Ctx) []Obligation {
	prog := c.SSA()
	_ = prog
	cg := c.CallGraph()
	inScope := map[*types.Package]string{}
	tokenMeasure := map[*types.Package]bool{}
	for _, rel := range actxRecPkgs {
		p := c.Pkg(rel)
		inScope[p.Types] = rel
		if rel == "homescript/lexer" || rel == "homescript/parser" {
			tokenMeasure[p.Types] = true
		}
	}
	// restricted graph
	type node = *ssa.Function
	succ := map[node][]*actxRecEdge{}
	var nodes []node
	for f, n := range cg.Nodes {
		if f == nil || inScope[actxFnPkg(f)] == "" {
			continue
		}
		nodes = append(nodes, f)
		for _, e := range n.Out {
			g := e.Callee.Func
			if g == nil || inScope[actxFnPkg(g)] == "" || e.Site == nil {
				continue
			}
			succ[f] = append(succ[f], &actxRecEdge{from: f, to: g, site: e.Site})
		}
	}
	sort.Slice(nodes, func(i, j int) bool { return nodes[i].String() < nodes[j].String() })
	// the call graph's edge lists come out in map order: fix the order (callee, then call site)
	for _, es := range succ {
		es := es
		sort.SliceStable(es, func(i, j int) bool {
			if a, b := es[i].to.String(), es[j].to.String(); a != b {
				return a < b
			}
			return actxPosKey(c, es[i].site.Pos()) < actxPosKey(c, es[j].site.Pos())
		})
	}
	// Tarjan
	index, low := map[node]int{}, map[node]int{}
	on := map[node]bool{}
	var stack []node
	comp := map[node]int{}
	var comps [][]node
	idx := 0
	var strong func(v node)
	strong = func(v node) {
		index[v], low[v] = idx, idx
		idx++
		stack = append(stack, v)
		on[v] = true
		for _, e := range succ[v] {
			w := e.to
			if _, seen := index[w]; !seen {
				strong(w)
				if low[w] < low[v] {
					low[v] = low[w]
				}
			} else if on[w] && index[w] < low[v] {
				low[v] = index[w]
			}
		}
		if low[v] == index[v] {
			var cs []node
			for {
				w := stack[len(stack)-1]
				stack = stack[:len(stack)-1]
				on[w] = false
				cs = append(cs, w)
				if w == v {
					break
				}
			}
			for _, w := range cs {
				comp[w] = len(comps)
			}
			comps = append(comps, cs)
		}
	}
	for _, v := range nodes {
		if _, seen := index[v]; !seen {
			strong(v)
		}
	}
	// consuming functions per token-measure package
	consuming := actxConsuming(c, inScope, tokenMeasure)
	// context receivers
	ctxRecv := map[node]bool{}
	for _, f := range nodes {
		if f.Signature.Recv() == nil || len(f.Params) == 0 {
			continue
		}
		for _, b := range f.Blocks {
			for _, ins := range b.Instrs {
				ci, ok := ins.(ssa.CallInstruction)
				if !ok {
					continue
				}
				cc := ci.Common()
				if cc.IsInvoke() {
					continue
				}
				if callee := cc.StaticCallee(); callee != nil && callee.Signature.Recv() != nil && len(cc.Args) > 0 {
					// only calls that stay inside f's recursive component hand on a *context*
					cf, okF := comp[f]
					cg2, okG := comp[callee]
					if !okF || !okG || cf != cg2 {
						continue
					}
					if r, strict, ok := actxDerive(cc.Args[0], map[ssa.Value]bool{}); ok && r == f.Params[0] && !strict {
						ctxRecv[f] = true
					}
				}
			}
		}
	}
	// AST call index for the guard test
	callAt := map[token.Pos]*ast.CallExpr{}
	fileOf := map[token.Pos]*ast.File{}
	pkgOfCall := map[*ast.CallExpr]string{}
	for _, rel := range actxRecPkgs {
		p := c.Pkg(rel)
		for _, file := range p.Syntax {
			f := file
			ast.Inspect(f, func(n ast.Node) bool {
				if ce, ok := n.(*ast.CallExpr); ok {
					callAt[ce.Lparen] = ce
					fileOf[ce.Lparen] = f
					pkgOfCall[ce] = rel
				}
				return true
			})
		}
	}
	var out []Obligation
	keyN := map[string]int{}
	for ci, cs := range comps {
		rec := len(cs) > 1
		if !rec {
			for _, e := range succ[cs[0]] {
				if e.to == cs[0] {
					rec = true
				}
			}
		}
		if !rec {
			continue
		}
		inComp := map[node]bool{}
		for _, f := range cs {
			inComp[f] = true
		}
		sort.Slice(cs, func(i, j int) bool { return cs[i].String() < cs[j].String() })
		isToken := tokenMeasure[actxFnPkg(cs[0])]
		var edges []*actxRecEdge
		for _, f := range cs {
			for _, e := range succ[f] {
				if comp[e.to] == ci && inComp[e.to] {
					edges = append(edges, e)
				}
			}
		}
		name := actxShortFn(cs[0])
		if len(cs) > 1 {
			name = fmt.Sprintf("%s+%d", name, len(cs)-1)
		}
		for _, e := range edges {
			actxClassifyEdge(c, e, isToken, consuming, ctxRecv, callAt, fileOf, inComp)
			argTxt := ""
			if ce := callAt[e.site.Pos()]; ce != nil {
				var as []string
				for _, a := range ce.Args {
					as = append(as, exprStr(a))
				}
				argTxt = strings.Join(as, ", ")
				if sel, ok := ce.Fun.(*ast.SelectorExpr); ok {
					argTxt = exprStr(sel.X) + " . " + argTxt
				}
			}
			key := fmt.Sprintf("%s → %s|(%s)", actxShortFn(e.from), actxShortFn(e.to), argTxt)
			keyN[key]++
			if keyN[key] > 1 {
				key = fmt.Sprintf("%s#%d", key, keyN[key])
			}
			ob := Obligation{Key: key, Pos: c.Pos(e.site.Pos()), Detail: e.class + ": " + e.why, Nontrivial: true}
			switch e.class {
			case "X":
				ob.Status = Violated
				ob.Detail = "recursive edge without a measure: " + e.why
			default:
				ob.Status = Discharged
			}
			out = append(out, ob)
		}
		// neutral cycle?
		nsucc := map[node][]node{}
		for _, e := range edges {
			if e.class == "N" {
				nsucc[e.from] = append(nsucc[e.from], e.to)
			}
		}
		color := map[node]int{}
		var cyc []string
		var dfs func(v node, path []node) bool
		dfs = func(v node, path []node) bool {
			color[v] = 1
			path = append(path, v)
			for _, w := range nsucc[v] {
				if color[w] == 1 {
					start := 0
					for i, p := range path {
						if p == w {
							start = i
						}
					}
					for _, p := range path[start:] {
						cyc = append(cyc, actxShortFn(p))
					}
					cyc = append(cyc, actxShortFn(w))
					return true
				}
				if color[w] == 0 && dfs(w, path) {
					return true
				}
			}
			color[v] = 2
			return false
		}
		found := false
		for _, f := range cs {
			if color[f] == 0 && dfs(f, nil) {
				found = true
				break
			}
		}
		ob := Obligation{Key: "component " + name + "|every cycle decreases", Pos: c.Pos(cs[0].Pos()), Nontrivial: true}
		if found {
			ob.Status = Violated
			ob.Detail = "cycle made only of neutral edges (the same node is handed on / nothing is consumed): " + strings.Join(cyc, " → ")
		} else {
			ob.Status = Discharged
			nD, nN := 0, 0
			for _, e := range edges {
				if e.class == "N" {
					nN++
				} else if e.class != "X" {
					nD++
				}
			}
			ob.Detail = fmt.Sprintf("%d functions, %d recursive edges: %d decreasing, %d neutral; the neutral edges form no cycle", len(cs), len(edges), nD, nN)
		}
		out = append(out, ob)
	}
	return out
}

// actxEnclosedBy: f is an anonymous function written (transitively) inside outer.
func actxEnclosedBy(f, outer *ssa.Function) bool {
	for p := f.Parent(); p != nil; p = p.Parent() {
		if p == outer {
			return true
		}
	}
	return false
}

func actxShortFn(f *ssa.Function) string {
	s := f.String()
	s = strings.ReplaceAll(s, ModPath+"/", "")
	return s
}

// actxConsuming: functions of the lexer/parser that consume input whenever
// they return without an error. Primitive: the lexer method calling
// Location.Advance; the parser method calling Lexer.NextToken. Closure: all
// returns that do not return a non-nil error are dominated by a consuming
// call.
func actxConsuming(c *Ctx, inScope map[*types.Package]string, tokenMeasure map[*types.Package]bool) map[*ssa.Function]bool {
	cons := map[*ssa.Function]bool{}
	var fns []*ssa.Function
	for _, rel := range []string{"homescript/lexer", "homescript/parser"} {
		sp := c.SSAPkg(rel)
		for _, mem := range sp.Members {
			switch m := mem.(type) {
			case *ssa.Function:
				fns = append(fns, m)
			case *ssa.Type:
				for _, t := range []types.Type{m.Type(), types.NewPointer(m.Type())} {
					ms := c.Prog.MethodSets.MethodSet(t)
					for i := 0; i < ms.Len(); i++ {
						if f := c.Prog.MethodValue(ms.At(i)); f != nil && f.Blocks != nil && actxFnPkg(f) == sp.Pkg {
							fns = append(fns, f)
						}
					}
				}
			}
		}
	}
	uniq := map[*ssa.Function]bool{}
	var list []*ssa.Function
	for _, f := range fns {
		if !uniq[f] {
			uniq[f] = true
			list = append(list, f)
		}
	}
	calls := func(f *ssa.Function, name, recvSuffix string) bool {
		for _, b := range f.Blocks {
			for _, ins := range b.Instrs {
				if ci, ok := ins.(ssa.CallInstruction); ok {
					if cal := ci.Common().StaticCallee(); cal != nil && cal.Name() == name && cal.Signature.Recv() != nil && strings.HasSuffix(cal.Signature.Recv().Type().String(), recvSuffix) {
						return true
					}
				}
			}
		}
		return false
	}
	for _, f := range list {
		rel := inScope[actxFnPkg(f)]
		if rel == "homescript/lexer" && calls(f, "Advance", "errors.Location") {
			cons[f] = true
		}
		if rel == "homescript/parser" && calls(f, "NextToken", "lexer.Lexer") {
			cons[f] = true
		}
	}
	if len(cons) == 0 {
		fatalf("anchor unresolved: no input-consuming primitive found in lexer/parser")
	}
	for changed := true; changed; {
		changed = false
		for _, f := range list {
			if cons[f] || f.Blocks == nil {
				continue
			}
			ok, any := true, false
			for _, b := range f.Blocks {
				if len(b.Instrs) == 0 {
					continue
				}
				ret, isRet := b.Instrs[len(b.Instrs)-1].(*ssa.Return)
				if !isRet {
					continue
				}
				// error return?
				isErr := false
				for _, r := range ret.Results {
					if !actxIsErrType(r.Type()) {
						continue
					}
					if k, isConst := r.(*ssa.Const); isConst && k.IsNil() {
						continue
					}
					// a value returned by a consuming call is fine either way (nil → consumed)
					if call, isCall := r.(*ssa.Call); isCall {
						if cal := call.Common().StaticCallee(); cal != nil && cons[cal] {
							continue
						}
					}
					isErr = true
				}
				if isErr {
					continue
				}
				any = true
				if !actxDominatedByConsuming(b, len(b.Instrs)-1, cons) {
					ok = false
				}
			}
			if ok && any {
				cons[f] = true
				changed = true
			}
		}
	}
	return cons
}

// actxDominatedByConsuming: a consuming call precedes instruction idx of b
// on every path from the function entry.
func actxDominatedByConsuming(b *ssa.BasicBlock, idx int, cons map[*ssa.Function]bool) bool {
	has := func(blk *ssa.BasicBlock, upto int) bool {
		for i := 0; i < upto && i < len(blk.Instrs); i++ {
			if ci, ok := blk.Instrs[i].(ssa.CallInstruction); ok {
				if cal := ci.Common().StaticCallee(); cal != nil && cons[cal] {
					return true
				}
			}
		}
		return false
	}
	if has(b, idx) {
		return true
	}
	for d := b.Idom(); d != nil; d = d.Idom() {
		if has(d, len(d.Instrs)) {
			return true
		}
	}
	return false
}

func actxClassifyEdge(c *Ctx, e *actxRecEdge, isToken bool, cons map[*ssa.Function]bool, ctxRecv map[*ssa.Function]bool,
	callAt map[token.Pos]*ast.CallExpr, fileOf map[token.Pos]*ast.File, inComp map[*ssa.Function]bool) {
	ins := e.site.(ssa.Instruction)
	b := ins.Block()
	idx := 0
	for i, x := range b.Instrs {
		if x == ins {
			idx = i
		}
	}
	if isToken {
		if actxDominatedByConsuming(b, idx, cons) {
			e.class, e.why = "D-consume", "an input-consuming call precedes the recursive call on every path"
			return
		}
		e.class, e.why = "N", "no consumption before the call"
		return
	}
	cc := e.site.Common()
	var args []ssa.Value
	if cc.IsInvoke() {
		args = append(args, cc.Value)
	} else if cc.StaticCallee() == nil {
		// a call through a function value (closure parameter / captured closure): the value called
		// carries whatever it captured
		switch cc.Value.(type) {
		case *ssa.Parameter, *ssa.FreeVar, *ssa.MakeClosure:
			args = append(args, cc.Value)
		}
	}
	args = append(args, cc.Args...)
	neutral := ""
	var unrelated []string
	isFuncVal := func(a ssa.Value) bool {
		if _, ok := a.Type().Underlying().(*types.Signature); !ok {
			return false
		}
		switch a.(type) {
		case *ssa.Parameter, *ssa.FreeVar, *ssa.MakeClosure:
			return true
		}
		return false
	}
	for i, a := range args {
		if !actxCompound(a.Type()) && !isFuncVal(a) {
			continue
		}
		root, strict, ok := actxDerive(a, map[ssa.Value]bool{})
		if ok && root != nil {
			// the context (Analyzer / Parser receiver handed on unchanged) of the function — or, for a
			// closure, of the function it is written in
			rootFn := root.Parent()
			isCtx := rootFn != nil && ctxRecv[rootFn] && len(rootFn.Params) > 0 && root == rootFn.Params[0] && rootFn.Signature.Recv() != nil && (rootFn == e.from || actxEnclosedBy(e.from, rootFn))
			if isCtx {
				if !strict && i == 0 {
					continue // the context handed on
				}
				unrelated = append(unrelated, fmt.Sprintf("argument %d is reached through the context receiver %s, not through a node parameter", i, root.Name()))
				continue
			}
			if strict {
				e.class, e.why = "D-struct", fmt.Sprintf("argument %d is a strict sub-term of parameter %s", i, root.Name())
				return
			}
			neutral = fmt.Sprintf("argument %d is parameter %s itself (or a type assertion / copy of it)", i, root.Name())
			continue
		}
		unrelated = append(unrelated, fmt.Sprintf("argument %d (%s) is not derived from a parameter", i, a.Type()))
	}
	// visited-set guard
	gok, gwhy := actxGuarded(c, e, callAt, fileOf, inComp)
	if gok {
		e.class, e.why = "D-guard", gwhy
		return
	}
	if ok2, why2 := actxGuardedSSA(c, e, inComp); ok2 {
		e.class, e.why = "D-guard", why2
		return
	} else if why2 != "" && (gwhy == "" || strings.HasPrefix(gwhy, "the call is not under")) {
		gwhy = why2
	}
	if neutral != "" {
		e.class, e.why = "N", neutral
		return
	}
	if gwhy != "" {
		unrelated = append(unrelated, gwhy)
	}
	if len(unrelated) == 0 {
		unrelated = append(unrelated, "the call passes no tree-typed argument at all")
	}
	e.class, e.why = "X", strings.Join(unrelated, "; ")
}

// actxGuarded implements class (c).
func actxGuarded(c *Ctx, e *actxRecEdge, callAt map[token.Pos]*ast.CallExpr, fileOf map[token.Pos]*ast.File, inComp map[*ssa.Function]bool) (bool, string) {
	ce := callAt[e.site.Pos()]
	file := fileOf[e.site.Pos()]
	if ce == nil || file == nil {
		return false, ""
	}
	var callerPkg, calleePkg = actxPkgOf(c, e.from), actxPkgOf(c, e.to)
	if callerPkg == nil || calleePkg == nil {
		return false, ""
	}
	info := callerPkg.TypesInfo
	path, _ := astutil.PathEnclosingInterval(file, ce.Pos(), ce.End())
	var fd *ast.FuncDecl
	for _, n := range path {
		if d, ok := n.(*ast.FuncDecl); ok {
			fd = d
		}
	}
	if fd == nil {
		return false, ""
	}
	// comma-ok lookups in the caller: ok object → (map field, key expr)
	type lookup struct {
		field *types.Var
		key   ast.Expr
	}
	lookups := map[types.Object]lookup{}
	ast.Inspect(fd.Body, func(n ast.Node) bool {
		as, ok := n.(*ast.AssignStmt)
		if !ok || len(as.Lhs) != 2 || len(as.Rhs) != 1 {
			return true
		}
		ix, ok := ast.Unparen(as.Rhs[0]).(*ast.IndexExpr)
		if !ok {
			return true
		}
		if _, isMap := info.TypeOf(ix.X).Underlying().(*types.Map); !isMap {
			return true
		}
		sel, ok := ast.Unparen(ix.X).(*ast.SelectorExpr)
		if !ok {
			return true
		}
		s := info.Selections[sel]
		if s == nil || s.Kind() != types.FieldVal {
			return true
		}
		if id, ok := as.Lhs[1].(*ast.Ident); ok {
			obj := info.Defs[id]
			if obj == nil {
				obj = info.Uses[id]
			}
			if obj != nil {
				lookups[obj] = lookup{s.Obj().(*types.Var), ix.Index}
			}
		}
		return true
	})
	// is the call under `if !ok` (body) / `if ok {} else` ?
	var found *lookup
	var child ast.Node = ce
	for _, n := range path {
		if ifs, ok := n.(*ast.IfStmt); ok {
			inBody := child == ast.Node(ifs.Body)
			inElse := ifs.Else != nil && child == ifs.Else
			cond := ast.Unparen(ifs.Cond)
			neg := false
			if u, ok := cond.(*ast.UnaryExpr); ok && u.Op == token.NOT {
				neg = true
				cond = ast.Unparen(u.X)
			}
			if id, ok := cond.(*ast.Ident); ok {
				if l, ok := lookups[info.Uses[id]]; ok && ((neg && inBody) || (!neg && inElse)) {
					ll := l
					found = &ll
				}
			}
		}
		child = n
	}
	if found == nil {
		if ok, why := actxGuardedCallerSide(c, info, path, ce); ok {
			return true, why
		}
		if e.from == e.to {
			if ok, why := actxGuardedAtEntry(info, fd, ce); ok {
				return true, why
			}
		}
		return false, "the call is not under a failed map-membership test"
	}
	// which argument carries the key?
	argIdx := -1
	for i, a := range ce.Args {
		if exprStr(a) == exprStr(found.key) {
			argIdx = i
		}
	}
	if argIdx < 0 {
		return false, fmt.Sprintf("the call is guarded by a failed lookup %s[%s] but does not pass that key", found.field.Name(), exprStr(found.key))
	}
	// callee: top-level statement M[param] = … before any call back into the component
	cfd := actxDeclOf(calleePkg, e.to)
	if cfd == nil {
		return false, ""
	}
	cinfo := calleePkg.TypesInfo
	var param types.Object
	i := 0
	for _, fl := range cfd.Type.Params.List {
		for _, n := range fl.Names {
			if i == argIdx {
				param = cinfo.Defs[n]
			}
			i++
		}
	}
	if param == nil {
		return false, ""
	}
	insertEnd := token.NoPos
	for _, st := range cfd.Body.List {
		as, ok := st.(*ast.AssignStmt)
		if !ok || len(as.Lhs) != 1 {
			continue
		}
		ix, ok := as.Lhs[0].(*ast.IndexExpr)
		if !ok {
			continue
		}
		sel, ok := ast.Unparen(ix.X).(*ast.SelectorExpr)
		if !ok {
			continue
		}
		s := cinfo.Selections[sel]
		if s == nil || s.Obj() != types.Object(found.field) {
			continue
		}
		if id, ok := ast.Unparen(ix.Index).(*ast.Ident); ok && cinfo.Uses[id] == param {
			insertEnd = as.End()
			break
		}
	}
	if insertEnd == token.NoPos {
		return false, fmt.Sprintf("guarded by a failed lookup in %s, but %s never stores %s[%s] as a top-level statement", found.field.Name(), e.to.Name(), found.field.Name(), param.Name())
	}
	// first call back into the component
	first := token.NoPos
	for _, b := range e.to.Blocks {
		for _, ins := range b.Instrs {
			ci, ok := ins.(ssa.CallInstruction)
			if !ok {
				continue
			}
			if cal := ci.Common().StaticCallee(); cal != nil && inComp[cal] {
				if first == token.NoPos || ci.Pos() < first {
					first = ci.Pos()
				}
			}
		}
	}
	if first != token.NoPos && first < insertEnd {
		return false, fmt.Sprintf("guarded by a failed lookup in %s, but %s stores %s[%s] only at %s, after it has already called back into the cycle at %s: a cyclic input re-enters before the key is visible", found.field.Name(), e.to.Name(), found.field.Name(), param.Name(), c.Pos(insertEnd), c.Pos(first))
	}
	return true, fmt.Sprintf("under a failed membership test of %s[%s]; %s stores %s[%s] (%s) before any call back into the cycle", found.field.Name(), exprStr(found.key), e.to.Name(), found.field.Name(), param.Name(), c.Pos(insertEnd))
}

func actxPkgOf(c *Ctx, f *ssa.Function) *packages.Package {
	tp := actxFnPkg(f)
	for _, p := range c.All {
		if p.Types == tp {
			return p
		}
	}
	return nil
}

// actxDeclOf finds the declaration of an SSA function by position.
func actxDeclOf(p *packages.Package, f *ssa.Function) *ast.FuncDecl {
	for _, fd := range AllFuncDecls(p) {
		if fd.Name.Pos() == f.Pos() {
			return fd
		}
	}
	return nil
}

// actxGuardedCallerSide recognises the visited-set idiom kept entirely in the
// caller: in a block enclosing the call, before the call,
//
//	if M[k] { continue|return|break }      (or: if _, ok := M[k]; ok { … })
//	M[k] = …
//	… recursive call passing k (and M, when M is not a field) …
//
// or the wrapped form `if !M[k] { M[k] = …; call }`. The same map value must
// reach the callee (field of the receiver, or passed as an argument).
func actxGuardedCallerSide(c *Ctx, info *types.Info, path []ast.Node, ce *ast.CallExpr) (bool, string) {
	memberTest := func(ifs *ast.IfStmt) (m, k string, positive bool, ok bool) {
		cond := ast.Unparen(ifs.Cond)
		positive = true
		if u, isNot := cond.(*ast.UnaryExpr); isNot && u.Op == token.NOT {
			positive = false
			cond = ast.Unparen(u.X)
		}
		if ix, isIx := cond.(*ast.IndexExpr); isIx {
			if _, isMap := info.TypeOf(ix.X).Underlying().(*types.Map); isMap {
				return exprStr(ix.X), exprStr(ix.Index), positive, true
			}
		}
		if id, isId := cond.(*ast.Ident); isId && ifs.Init != nil {
			if as, isAs := ifs.Init.(*ast.AssignStmt); isAs && len(as.Lhs) == 2 && len(as.Rhs) == 1 {
				if okId, isOk := as.Lhs[1].(*ast.Ident); isOk && okId.Name == id.Name {
					if ix, isIx := ast.Unparen(as.Rhs[0]).(*ast.IndexExpr); isIx {
						if _, isMap := info.TypeOf(ix.X).Underlying().(*types.Map); isMap {
							return exprStr(ix.X), exprStr(ix.Index), positive, true
						}
					}
				}
			}
		}
		return "", "", false, false
	}
	exits := func(b *ast.BlockStmt) bool {
		if len(b.List) == 0 {
			return false
		}
		switch x := b.List[len(b.List)-1].(type) {
		case *ast.BranchStmt:
			return x.Tok == token.CONTINUE || x.Tok == token.BREAK
		case *ast.ReturnStmt:
			return true
		}
		return false
	}
	inserts := func(st ast.Stmt, m, k string) bool {
		as, ok := st.(*ast.AssignStmt)
		if !ok || len(as.Lhs) != 1 {
			return false
		}
		ix, ok := as.Lhs[0].(*ast.IndexExpr)
		return ok && exprStr(ix.X) == m && exprStr(ix.Index) == k
	}
	passes := func(m, k string) bool {
		hasK, hasM := false, false
		for _, a := range ce.Args {
			if exprStr(a) == k {
				hasK = true
			}
			if exprStr(a) == m {
				hasM = true
			}
		}
		if sel, ok := ce.Fun.(*ast.SelectorExpr); ok && strings.HasPrefix(m, exprStr(sel.X)+".") {
			hasM = true // field of the receiver handed on
		}
		return hasK && hasM
	}
	var child ast.Node = ce
	for _, n := range path {
		switch blk := n.(type) {
		case *ast.BlockStmt:
			tested, inserted := false, false
			var m, k string
			for _, st := range blk.List {
				if st.Pos() <= child.Pos() && child.End() <= st.End() {
					break // reached the statement containing the call
				}
				if ifs, ok := st.(*ast.IfStmt); ok {
					if mm, kk, positive, ok := memberTest(ifs); ok && positive && exits(ifs.Body) {
						tested, m, k = true, mm, kk
					}
				}
				if tested && inserts(st, m, k) {
					inserted = true
				}
			}
			if tested && inserted && passes(m, k) {
				return true, fmt.Sprintf("visited set: `if %s[%s] { leave }` and `%s[%s] = …` precede the call, which passes %s on", m, k, m, k, k)
			}
		case *ast.IfStmt:
			if child == ast.Node(blk.Body) {
				if mm, kk, positive, ok := memberTest(blk); ok && !positive {
					ins := false
					for _, st := range blk.Body.List {
						if st.Pos() <= ce.Pos() && ce.End() <= st.End() {
							break
						}
						if inserts(st, mm, kk) {
							ins = true
						}
					}
					if ins && passes(mm, kk) {
						return true, fmt.Sprintf("visited set: the call is under `if !%s[%s]` and `%s[%s] = …` precedes it", mm, kk, mm, kk)
					}
				}
			}
		}
		child = n
	}
	return false, ""
}

// actxGuardedAtEntry recognises the visited-set idiom kept at the entry of a
// self-recursive function:
//
//	func f(..., p K, ..., seen map[K]V) {
//	    if _, ok := seen[p]; ok { return … }   (or: if seen[p] { return … })
//	    seen[p] = …
//	    … f(..., q, ..., seen) …
//
// Both statements are top-level statements of the body and precede every call
// back into f; the recursive call hands the same map parameter on. Each
// activation that gets past the test removes one key from the finite set of
// unseen keys, which is the measure.
func actxGuardedAtEntry(info *types.Info, fd *ast.FuncDecl, ce *ast.CallExpr) (bool, string) {
	params := map[types.Object]int{}
	idx := 0
	for _, f := range fd.Type.Params.List {
		for _, n := range f.Names {
			params[info.Defs[n]] = idx
			idx++
		}
	}
	paramOf := func(e ast.Expr) (types.Object, bool) {
		id, ok := ast.Unparen(e).(*ast.Ident)
		if !ok {
			return nil, false
		}
		obj := info.Uses[id]
		_, isParam := params[obj]
		return obj, isParam
	}
	var mapParam, keyParam types.Object
	tested, inserted := false, false
	for _, st := range fd.Body.List {
		if st.Pos() <= ce.Pos() && ce.End() <= st.End() {
			break
		}
		// any earlier call of f itself before the idiom is complete defeats it
		early := false
		ast.Inspect(st, func(n ast.Node) bool {
			if c2, ok := n.(*ast.CallExpr); ok && c2 != ce {
				if fn := CalleeOf(info, c2); fn != nil && fn == info.Defs[fd.Name] && !(tested && inserted) {
					early = true
				}
			}
			return true
		})
		if early {
			return false, ""
		}
		if ifs, ok := st.(*ast.IfStmt); ok && !tested {
			var ix *ast.IndexExpr
			cond := ast.Unparen(ifs.Cond)
			if x, ok := cond.(*ast.IndexExpr); ok {
				ix = x
			} else if id, ok := cond.(*ast.Ident); ok && ifs.Init != nil {
				if as, ok := ifs.Init.(*ast.AssignStmt); ok && len(as.Lhs) == 2 && len(as.Rhs) == 1 {
					if okId, ok := as.Lhs[1].(*ast.Ident); ok && okId.Name == id.Name {
						ix, _ = ast.Unparen(as.Rhs[0]).(*ast.IndexExpr)
					}
				}
			}
			if ix == nil || len(ifs.Body.List) == 0 {
				continue
			}
			if _, isRet := ifs.Body.List[len(ifs.Body.List)-1].(*ast.ReturnStmt); !isRet {
				continue
			}
			m, okM := paramOf(ix.X)
			k, okK := paramOf(ix.Index)
			if okM && okK {
				if _, isMap := m.Type().Underlying().(*types.Map); isMap {
					mapParam, keyParam, tested = m, k, true
				}
			}
			continue
		}
		if as, ok := st.(*ast.AssignStmt); ok && tested && len(as.Lhs) == 1 {
			if ix, ok := as.Lhs[0].(*ast.IndexExpr); ok {
				m, okM := paramOf(ix.X)
				k, okK := paramOf(ix.Index)
				if okM && okK && m == mapParam && k == keyParam {
					inserted = true
				}
			}
		}
	}
	if !tested || !inserted {
		return false, ""
	}
	// the recursive call hands the same map on, in the same position
	mi := params[mapParam]
	if mi >= len(ce.Args) {
		return false, ""
	}
	if obj, ok := paramOf(ce.Args[mi]); !ok || obj != mapParam {
		return false, ""
	}
	return true, fmt.Sprintf("visited set at entry: `if %s[%s] { return }` and `%s[%s] = …` precede every recursive call, which hands %s on", mapParam.Name(), keyParam.Name(), mapParam.Name(), keyParam.Name(), mapParam.Name())
}

// ---------------------------------------------------------------------------
// visited-set guard decided on the SSA form (class (c), any syntactic shape):
// the recursive call is dominated by the "key absent" outcome of a membership
// test of a map M under a key k — written inline (comma-ok lookup, bool map)
// or in a helper predicate / test-and-insert helper — and M[k] is stored
// before the cycle can be re-entered: in the caller before the call, by the
// test-and-insert helper, or in the callee before any call back into the
// component. Either k is the key handed to the callee (the callee's activation
// is new), or — for self recursion — M and k are the function's own
// parameters and M is handed on (each activation removes one unseen key).

type actxMemberTest struct {
	m, k     string
	absent   *ssa.BasicBlock // entered only when the key was absent
	inserted bool            // the test itself stored M[k] on the absent outcome
	at       ssa.Instruction
}

// actxCondSuccs: the successors taken when v is true / false, for an If whose
// condition is v or !v.
func actxCondSuccs(v ssa.Value) (onTrue, onFalse []*ssa.BasicBlock) {
	refs := v.Referrers()
	if refs == nil {
		return nil, nil
	}
	for _, r := range *refs {
		switch x := r.(type) {
		case *ssa.If:
			onTrue = append(onTrue, x.Block().Succs[0])
			onFalse = append(onFalse, x.Block().Succs[1])
		case *ssa.UnOp:
			if x.Op == token.NOT {
				f, t := actxCondSuccs(x)
				onTrue = append(onTrue, t...)
				onFalse = append(onFalse, f...)
			}
		}
	}
	return onTrue, onFalse
}

func actxSinglePred(bs []*ssa.BasicBlock) []*ssa.BasicBlock {
	var out []*ssa.BasicBlock
	for _, b := range bs {
		if len(b.Preds) == 1 {
			out = append(out, b)
		}
	}
	return out
}

// actxLookupOutcome: for a map lookup, the value that tells presence.
func actxLookupPresence(l *ssa.Lookup) ssa.Value {
	if _, isMap := l.X.Type().Underlying().(*types.Map); !isMap {
		return nil
	}
	if l.CommaOk {
		if l.Referrers() == nil {
			return nil
		}
		for _, r := range *l.Referrers() {
			if ex, ok := r.(*ssa.Extract); ok && ex.Index == 1 {
				return ex
			}
		}
		return nil
	}
	if bt, ok := l.Type().Underlying().(*types.Basic); ok && bt.Kind() == types.Bool {
		return l
	}
	return nil
}

// actxHelperMembership summarises a helper h called as `call` from frame fr:
// kind "member" (result true iff M[k] present), "absent" (result true iff
// absent) or "testinsert" (result true iff absent, and then M[k] was stored).
func actxHelperMembership(fr *actxFrame, call *ssa.Call) (kind, m, k string) {
	h := call.Call.StaticCallee()
	if h == nil || h.Blocks == nil || len(h.Blocks) > 12 || h.Signature.Results().Len() != 1 {
		return "", "", ""
	}
	if bt, ok := h.Signature.Results().At(0).Type().Underlying().(*types.Basic); !ok || bt.Kind() != types.Bool {
		return "", "", ""
	}
	sub := fr.enter(&call.Call)
	if sub == nil {
		return "", "", ""
	}
	for _, b := range h.Blocks {
		for _, ins := range b.Instrs {
			l, ok := ins.(*ssa.Lookup)
			if !ok {
				continue
			}
			pres := actxLookupPresence(l)
			if pres == nil {
				continue
			}
			m, k = sub.sym(l.X), sub.sym(l.Index)
			if actxUnknownSym(m) || actxUnknownSym(k) {
				continue
			}
			rets := actxReturns(h)
			// plain predicate: every return hands back the presence flag (or its negation)
			allPres, allNeg := true, true
			for _, r := range rets {
				v := r.Results[0]
				if v != pres {
					allPres = false
				}
				if u, ok := v.(*ssa.UnOp); !ok || u.Op != token.NOT || u.X != pres {
					allNeg = false
				}
			}
			if len(rets) > 0 && allPres {
				return "member", m, k
			}
			if len(rets) > 0 && allNeg {
				return "absent", m, k
			}
			// test-and-insert: present → false; absent → store, true
			onTrue, onFalse := actxCondSuccs(pres)
			onTrue, onFalse = actxSinglePred(onTrue), actxSinglePred(onFalse)
			if len(onTrue) != 1 || len(onFalse) != 1 {
				continue
			}
			okAll := true
			for _, r := range rets {
				kst, isConst := r.Results[0].(*ssa.Const)
				if !isConst || kst.Value == nil {
					okAll = false
					break
				}
				val := constant.BoolVal(kst.Value)
				inPresent := onTrue[0] == r.Block() || onTrue[0].Dominates(r.Block())
				inAbsent := onFalse[0] == r.Block() || onFalse[0].Dominates(r.Block())
				switch {
				case inPresent && !val:
				case inAbsent && val:
					stored := false
					for _, b2 := range h.Blocks {
						for _, i2 := range b2.Instrs {
							if mu, ok := i2.(*ssa.MapUpdate); ok && sub.sym(mu.Map) == m && sub.sym(mu.Key) == k && actxInstrDominates(mu, r) && (onFalse[0] == b2 || onFalse[0].Dominates(b2)) {
								stored = true
							}
						}
					}
					if !stored {
						okAll = false
					}
				default:
					okAll = false
				}
			}
			if okAll && len(rets) > 0 {
				return "testinsert", m, k
			}
		}
	}
	return "", "", ""
}

func actxMemberTests(fr *actxFrame) []actxMemberTest {
	var out []actxMemberTest
	for _, b := range fr.fn.Blocks {
		for _, ins := range b.Instrs {
			switch x := ins.(type) {
			case *ssa.Lookup:
				pres := actxLookupPresence(x)
				if pres == nil {
					continue
				}
				m, k := fr.sym(x.X), fr.sym(x.Index)
				if actxUnknownSym(m) || actxUnknownSym(k) {
					continue
				}
				_, onFalse := actxCondSuccs(pres)
				for _, ab := range actxSinglePred(onFalse) {
					out = append(out, actxMemberTest{m: m, k: k, absent: ab, at: x})
				}
			case *ssa.Call:
				kind, m, k := actxHelperMembership(fr, x)
				if kind == "" {
					continue
				}
				onTrue, onFalse := actxCondSuccs(x)
				switch kind {
				case "member":
					for _, ab := range actxSinglePred(onFalse) {
						out = append(out, actxMemberTest{m: m, k: k, absent: ab, at: x})
					}
				case "absent":
					for _, ab := range actxSinglePred(onTrue) {
						out = append(out, actxMemberTest{m: m, k: k, absent: ab, at: x})
					}
				case "testinsert":
					for _, ab := range actxSinglePred(onTrue) {
						out = append(out, actxMemberTest{m: m, k: k, absent: ab, inserted: true, at: x})
					}
				}
			}
		}
	}
	return out
}

func actxGuardedSSA(c *Ctx, e *actxRecEdge, inComp map[*ssa.Function]bool) (bool, string) {
	site, ok := e.site.(ssa.Instruction)
	if !ok || e.from.Blocks == nil {
		return false, ""
	}
	fr := actxNewFrame(e.from, nil, 0)
	cc := e.site.Common()
	var argSyms []string
	for _, a := range cc.Args {
		argSyms = append(argSyms, fr.sym(a))
	}
	if cc.IsInvoke() {
		argSyms = append(argSyms, fr.sym(cc.Value))
	}
	passes := func(s string) bool {
		for _, a := range argSyms {
			if a == s {
				return true
			}
		}
		return false
	}
	reaches := func(m string) bool { // the callee can reach the same map: handed on, or a field of something handed on
		for _, a := range argSyms {
			if a == m || (!actxUnknownSym(a) && strings.HasPrefix(m, a+".")) {
				return true
			}
		}
		return false
	}
	why := ""
	for _, t := range actxMemberTests(fr) {
		if !(t.absent == site.Block() || t.absent.Dominates(site.Block())) {
			continue
		}
		if !reaches(t.m) {
			why = fmt.Sprintf("guarded by a failed membership test of %s, but that map is not handed to the callee", t.m)
			continue
		}
		// where is M[k] stored?
		inserted, where := t.inserted, "by the test-and-insert helper"
		if !inserted {
			for _, b := range e.from.Blocks {
				for _, ins := range b.Instrs {
					if mu, ok := ins.(*ssa.MapUpdate); ok && fr.sym(mu.Map) == t.m && fr.sym(mu.Key) == t.k && actxInstrDominates(mu, site) && (t.absent == b || t.absent.Dominates(b)) {
						inserted, where = true, "in the caller at "+c.Pos(mu.Pos())
					}
				}
			}
		}
		ownKey := false
		if e.from == e.to {
			// own parameters, map handed on in the same position
			for i, p := range e.from.Params {
				if fr.sym(p) == t.m && i < len(cc.Args) && fr.sym(cc.Args[i]) == t.m {
					for _, q := range e.from.Params {
						if fr.sym(q) == t.k {
							ownKey = true
						}
					}
				}
			}
		}
		if !inserted && passes(t.k) && e.to.Blocks != nil {
			// callee side: stored before any call back into the component
			if call, isCall := site.(*ssa.Call); isCall {
				if sub := fr.enter(&call.Call); sub != nil {
					for _, b := range e.to.Blocks {
						for _, ins := range b.Instrs {
							mu, ok := ins.(*ssa.MapUpdate)
							if !ok || sub.sym(mu.Map) != t.m || sub.sym(mu.Key) != t.k {
								continue
							}
							first := true
							for _, b2 := range e.to.Blocks {
								for _, i2 := range b2.Instrs {
									if ci, ok := i2.(ssa.CallInstruction); ok {
										if g := ci.Common().StaticCallee(); g != nil && inComp[g] && !actxInstrDominates(mu, i2) {
											first = false
										}
									}
								}
							}
							if first {
								inserted, where = true, "by "+e.to.Name()+" at "+c.Pos(mu.Pos())+", before any call back into the cycle"
							} else {
								why = fmt.Sprintf("guarded by a failed membership test of %s, but %s stores the key only after it has already called back into the cycle", t.m, e.to.Name())
							}
						}
					}
				}
			}
		}
		if !inserted {
			if why == "" {
				why = fmt.Sprintf("guarded by a failed membership test of %s[%s], but the key is not stored before the cycle is re-entered", t.m, t.k)
			}
			continue
		}
		if passes(t.k) || ownKey {
			return true, fmt.Sprintf("visited set: the call is reached only when %s[%s] was absent, and the key is stored %s", t.m, t.k, where)
		}
		why = fmt.Sprintf("guarded by a failed membership test of %s[%s], but the call neither passes that key nor hands the function's own visited set on", t.m, t.k)
	}
	return false, why
}
