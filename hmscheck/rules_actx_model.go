package main

// actx group — shared model for the context-discipline rules (R-ctx-restore,
// R-loop-region): per-package discovery of context fields, direct read/write
// classification, static call relation, leaf setters, root-like drivers and
// the region in which returned interrupts can be caught.

import (
	"fmt"
	"go/ast"
	"go/token"
	"go/types"
	"sort"
	"strings"

	"golang.org/x/tools/go/packages"
)

type actxWriteKind int

const (
	actxWSet  actxWriteKind = iota // x.F = e
	actxWPush                      // x.F = append(x.F, ...)
	actxWPop                       // x.F = x.F[:len(x.F)-1]
	actxWInc                       // x.F++
	actxWDec                       // x.F--
)

type actxWrite struct {
	field *types.Var
	kind  actxWriteKind
	rhs   ast.Expr // for actxWSet
	pos   token.Pos
}

type actxCallSite struct {
	caller *types.Func
	call   *ast.CallExpr
}

type actxField struct {
	v        *types.Var
	owner    *types.Named // struct type declaring the field
	evidence []string
	isStack  bool
	isCount  bool
}

type actxPkg struct {
	c     *Ctx
	rel   string
	p     *packages.Package
	info  *types.Info
	decls map[*types.Func]*ast.FuncDecl
	order []*types.Func // deterministic

	fieldOwner map[*types.Var]*types.Named
	writes     map[*types.Func][]actxWrite         // direct writes, any struct field of the package
	reads      map[*types.Func]map[*types.Var]bool // direct reads
	callees    map[*types.Func][]*types.Func       // static callees inside the package (incl. through func literals)
	callers    map[*types.Func][]actxCallSite      // call sites inside the package
	touch      map[*types.Var]map[*types.Func]bool // transitive read-or-write
	ctx        map[*types.Var]*actxField           // discovered context fields
	inlinable  map[*types.Func]bool                // leaf setters, interpreted at their call sites
	rootLike   map[*types.Func]bool                // only ever called from outside the package / from root-like functions
	paramSet   map[*types.Func]map[*types.Var]int  // leaf setter: field := f(param i)  (param index, -1 = not param derived)
	paramExact map[*types.Func]map[*types.Var]bool // ... and the RHS is exactly the parameter
	catchable  map[*types.Func]bool                // an interrupt returned from here can be caught and execution resumed
	hasErrRet  bool
	boolArgs   map[*types.Func]map[int]map[string]bool // param index → constant values passed by non-root callers ("true","false","?")
	boolArgsRt map[*types.Func]map[int]map[string]bool // ... passed by root-like callers
	ctxSorted  []*types.Var
	dynCalls   map[*types.Func]bool // calls a function value (closure parameter, callback field): unknown code of the package may run
}

// actxIsDynCall: a call through a function-typed variable, parameter or field
// (not a declared function, method, conversion or builtin).
func actxIsDynCall(info *types.Info, c *ast.CallExpr) bool {
	var id *ast.Ident
	switch f := ast.Unparen(c.Fun).(type) {
	case *ast.Ident:
		id = f
	case *ast.SelectorExpr:
		id = f.Sel
	default:
		return false
	}
	v, ok := info.Uses[id].(*types.Var)
	if !ok {
		return false
	}
	_, isSig := v.Type().Underlying().(*types.Signature)
	return isSig
}

var actxPkgCache = map[string]*actxPkg{}

// actxPosKey: a position as "file:offset" — comparable across runs (token.Pos
// values depend on the order in which the files happened to be parsed).
func actxPosKey(c *Ctx, p token.Pos) string {
	if !p.IsValid() {
		return "~"
	}
	pp := c.Fset.Position(p)
	return fmt.Sprintf("%s:%09d", pp.Filename, pp.Offset)
}

func actxPosLess(c *Ctx, a, b token.Pos) bool { return actxPosKey(c, a) < actxPosKey(c, b) }

func actxModel(c *Ctx, rel string) *actxPkg {
	key := c.RepoDir + "|" + rel
	if m := actxPkgCache[key]; m != nil && m.c == c {
		return m
	}
	p := c.Pkg(rel)
	m := &actxPkg{c: c, rel: rel, p: p, info: p.TypesInfo,
		decls: map[*types.Func]*ast.FuncDecl{}, fieldOwner: map[*types.Var]*types.Named{},
		writes: map[*types.Func][]actxWrite{}, reads: map[*types.Func]map[*types.Var]bool{},
		callees: map[*types.Func][]*types.Func{}, callers: map[*types.Func][]actxCallSite{},
		touch: map[*types.Var]map[*types.Func]bool{}, ctx: map[*types.Var]*actxField{},
		inlinable: map[*types.Func]bool{}, rootLike: map[*types.Func]bool{},
		paramSet: map[*types.Func]map[*types.Var]int{}, paramExact: map[*types.Func]map[*types.Var]bool{},
		catchable: map[*types.Func]bool{},
		boolArgs:  map[*types.Func]map[int]map[string]bool{}, boolArgsRt: map[*types.Func]map[int]map[string]bool{},
		dynCalls: map[*types.Func]bool{},
	}
	// struct fields declared in this package
	scope := p.Types.Scope()
	for _, name := range scope.Names() {
		tn, ok := scope.Lookup(name).(*types.TypeName)
		if !ok {
			continue
		}
		named, ok := tn.Type().(*types.Named)
		if !ok {
			continue
		}
		st, ok := named.Underlying().(*types.Struct)
		if !ok {
			continue
		}
		for i := 0; i < st.NumFields(); i++ {
			m.fieldOwner[st.Field(i)] = named
		}
	}
	for _, fd := range AllFuncDecls(p) {
		fn, _ := m.info.Defs[fd.Name].(*types.Func)
		if fn == nil {
			continue
		}
		m.decls[fn] = fd
		m.order = append(m.order, fn)
	}
	sort.Slice(m.order, func(i, j int) bool { return actxPosLess(c, m.order[i].Pos(), m.order[j].Pos()) })
	for _, fn := range m.order {
		m.scanFunc(fn)
	}
	m.discover()
	m.computeTouch()
	m.computeInlinable()
	m.computeRoots()
	m.computeBoolArgs()
	m.computeCatchable()
	actxPkgCache[key] = m
	return m
}

// fieldOf resolves e to a struct field of this package (access through any
// path); viaPtr reports whether the path contains a pointer hop (so that a
// write is visible outside the function).
func (m *actxPkg) fieldOf(e ast.Expr) (f *types.Var, viaPtr bool) {
	e = actxStrip(e)
	sel, ok := e.(*ast.SelectorExpr)
	if !ok {
		return nil, false
	}
	s := m.info.Selections[sel]
	if s == nil || s.Kind() != types.FieldVal {
		return nil, false
	}
	v, _ := s.Obj().(*types.Var)
	if v == nil || m.fieldOwner[v] == nil {
		return nil, false
	}
	return v, m.pathHasPtr(sel.X) || s.Indirect()
}

func (m *actxPkg) pathHasPtr(e ast.Expr) bool {
	for {
		switch x := e.(type) {
		case *ast.ParenExpr:
			e = x.X
			continue
		case *ast.StarExpr:
			return true
		case *ast.SelectorExpr:
			if t := m.info.TypeOf(x); t != nil {
				if _, ok := t.Underlying().(*types.Pointer); ok {
					return true
				}
			}
			e = x.X
			continue
		case *ast.Ident:
			if t := m.info.TypeOf(x); t != nil {
				if _, ok := t.Underlying().(*types.Pointer); ok {
					return true
				}
			}
			return false
		case *ast.IndexExpr:
			return true // element of a map/slice: shared storage
		case *ast.CallExpr:
			return true
		}
		return true
	}
}

func actxStrip(e ast.Expr) ast.Expr {
	for {
		switch x := e.(type) {
		case *ast.ParenExpr:
			e = x.X
		case *ast.StarExpr:
			e = x.X
		default:
			return e
		}
	}
}

// stepAssign: `x.F += 1` / `x.F -= 1` (compound assignment by the constant one).
func (m *actxPkg) stepAssign(x *ast.AssignStmt, i int) (actxWriteKind, bool) {
	if (x.Tok != token.ADD_ASSIGN && x.Tok != token.SUB_ASSIGN) || len(x.Lhs) != 1 || len(x.Rhs) != 1 || i != 0 {
		return actxWSet, false
	}
	if tv := m.info.Types[x.Rhs[0]]; tv.Value == nil || tv.Value.ExactString() != "1" {
		return actxWSet, false
	}
	if x.Tok == token.ADD_ASSIGN {
		return actxWInc, true
	}
	return actxWDec, true
}

// classifyWrite recognises the push / pop forms of a stack field and the
// spelled-out counter steps `x.F = x.F + 1` / `x.F = x.F - 1`.
func (m *actxPkg) classifyWrite(f *types.Var, rhs ast.Expr) actxWriteKind {
	rhs = ast.Unparen(rhs)
	if be, ok := rhs.(*ast.BinaryExpr); ok && (be.Op == token.ADD || be.Op == token.SUB) {
		one := func(e ast.Expr) bool {
			tv := m.info.Types[e]
			return tv.Value != nil && tv.Value.ExactString() == "1"
		}
		if g, _ := m.fieldOf(be.X); g == f && one(be.Y) {
			if be.Op == token.ADD {
				return actxWInc
			}
			return actxWDec
		}
		if g, _ := m.fieldOf(be.Y); g == f && one(be.X) && be.Op == token.ADD {
			return actxWInc
		}
	}
	if call, ok := rhs.(*ast.CallExpr); ok {
		if id, ok := call.Fun.(*ast.Ident); ok && id.Name == "append" && len(call.Args) >= 1 {
			if g, _ := m.fieldOf(call.Args[0]); g == f {
				return actxWPush
			}
		}
	}
	if sl, ok := rhs.(*ast.SliceExpr); ok && sl.Low == nil && sl.High != nil {
		if g, _ := m.fieldOf(sl.X); g == f {
			if be, ok := ast.Unparen(sl.High).(*ast.BinaryExpr); ok && be.Op == token.SUB {
				if lit, ok := be.Y.(*ast.BasicLit); ok && lit.Value == "1" {
					return actxWPop
				}
			}
		}
	}
	return actxWSet
}

func (m *actxPkg) scanFunc(fn *types.Func) {
	fd := m.decls[fn]
	m.reads[fn] = map[*types.Var]bool{}
	lhs := map[ast.Expr]bool{}
	seenCallee := map[*types.Func]bool{}
	ast.Inspect(fd.Body, func(n ast.Node) bool {
		switch x := n.(type) {
		case *ast.AssignStmt:
			for i, l := range x.Lhs {
				f, ptr := m.fieldOf(l)
				if f == nil {
					continue
				}
				lhs[actxStrip(l)] = true
				if !ptr {
					continue
				}
				if k, ok := m.stepAssign(x, i); ok {
					// x.F += 1 / x.F -= 1: the counter forms of ++ / --
					m.writes[fn] = append(m.writes[fn], actxWrite{field: f, kind: k, pos: x.Pos()})
					continue
				}
				if x.Tok != token.ASSIGN || len(x.Rhs) != len(x.Lhs) {
					m.writes[fn] = append(m.writes[fn], actxWrite{field: f, kind: actxWSet, pos: x.Pos()})
					continue
				}
				m.writes[fn] = append(m.writes[fn], actxWrite{field: f, kind: m.classifyWrite(f, x.Rhs[i]), rhs: x.Rhs[i], pos: x.Pos()})
			}
		case *ast.IncDecStmt:
			if f, ptr := m.fieldOf(x.X); f != nil && ptr {
				lhs[actxStrip(x.X)] = true
				k := actxWInc
				if x.Tok == token.DEC {
					k = actxWDec
				}
				m.writes[fn] = append(m.writes[fn], actxWrite{field: f, kind: k, pos: x.Pos()})
			}
		case *ast.CallExpr:
			if g := CalleeOf(m.info, x); g != nil && m.decls[g] != nil {
				m.callers[g] = append(m.callers[g], actxCallSite{caller: fn, call: x})
				if !seenCallee[g] {
					seenCallee[g] = true
					m.callees[fn] = append(m.callees[fn], g)
				}
			} else if actxIsDynCall(m.info, x) {
				m.dynCalls[fn] = true
			}
		}
		return true
	})
	ast.Inspect(fd.Body, func(n ast.Node) bool {
		if sel, ok := n.(*ast.SelectorExpr); ok && !lhs[sel] {
			if f, _ := m.fieldOf(sel); f != nil {
				m.reads[fn][f] = true
			}
		}
		return true
	})
}

// discover decides which struct fields of the package are *context* fields:
// state that a construct changes for the duration of a nested analysis and
// must put back. Evidence (any of): saved into a local and written back in
// one function; ++ and -- both occur; push and pop forms both occur; saved
// and handed to a parameter setter; written twice around a package call
// (bracket); co-written by a leaf setter together with such a field.
func (m *actxPkg) discover() {
	add := func(f *types.Var, ev string) {
		cf := m.ctx[f]
		if cf == nil {
			cf = &actxField{v: f, owner: m.fieldOwner[f]}
			m.ctx[f] = cf
		}
		for _, e := range cf.evidence {
			if e == ev {
				return
			}
		}
		cf.evidence = append(cf.evidence, ev)
	}
	kinds := map[*types.Var]map[actxWriteKind]bool{}
	for _, fn := range m.order {
		for _, w := range m.writes[fn] {
			if kinds[w.field] == nil {
				kinds[w.field] = map[actxWriteKind]bool{}
			}
			kinds[w.field][w.kind] = true
		}
	}
	for f, k := range kinds {
		if k[actxWInc] && k[actxWDec] {
			add(f, "++/--")
			m.ctx[f].isCount = true
		}
		if k[actxWPush] && k[actxWPop] {
			add(f, "push/pop")
			m.ctx[f].isStack = true
		}
	}
	// parameter setters: a function with a direct write x.F = <its parameter>
	type pset struct {
		fn  *types.Func
		idx int
	}
	paramSetters := map[*types.Var][]pset{}
	for _, fn := range m.order {
		sig := fn.Type().(*types.Signature)
		for _, w := range m.writes[fn] {
			if w.kind != actxWSet || w.rhs == nil {
				continue
			}
			if id, ok := ast.Unparen(w.rhs).(*ast.Ident); ok {
				for i := 0; i < sig.Params().Len(); i++ {
					if m.info.Uses[id] == sig.Params().At(i) {
						paramSetters[w.field] = append(paramSetters[w.field], pset{fn, i})
					}
				}
			}
		}
	}
	for _, fn := range m.order {
		fd := m.decls[fn]
		// save locals: loc := x.F
		saved := map[types.Object]*types.Var{}
		ast.Inspect(fd.Body, func(n ast.Node) bool {
			as, ok := n.(*ast.AssignStmt)
			if !ok || len(as.Lhs) != len(as.Rhs) {
				return true
			}
			for i, l := range as.Lhs {
				id, ok := l.(*ast.Ident)
				if !ok {
					continue
				}
				if f, _ := m.fieldOf(as.Rhs[i]); f != nil {
					obj := m.info.Defs[id]
					if obj == nil {
						obj = m.info.Uses[id]
					}
					if obj != nil {
						saved[obj] = f
					}
				}
			}
			return true
		})
		if len(saved) > 0 {
			ast.Inspect(fd.Body, func(n ast.Node) bool {
				switch x := n.(type) {
				case *ast.AssignStmt:
					if len(x.Lhs) != len(x.Rhs) {
						return true
					}
					for i, l := range x.Lhs {
						f, ptr := m.fieldOf(l)
						if f == nil || !ptr {
							continue
						}
						if id, ok := ast.Unparen(x.Rhs[i]).(*ast.Ident); ok && saved[m.info.Uses[id]] == f {
							add(f, "saved and written back in "+fn.Name())
						}
					}
				case *ast.CallExpr:
					g := CalleeOf(m.info, x)
					if g == nil {
						return true
					}
					for i, a := range x.Args {
						a = actxStrip(a)
						id, ok := a.(*ast.Ident)
						if !ok {
							continue
						}
						f := saved[m.info.Uses[id]]
						if f == nil {
							// pointer to a save local: p = &loc … g(*p)
							continue
						}
						for _, ps := range paramSetters[f] {
							if ps.fn == g && ps.idx == i {
								add(f, "saved and handed to setter "+g.Name()+" in "+fn.Name())
							}
						}
					}
				}
				return true
			})
		}
	}
	// bracket: two writes of F in one function (one of them direct, not all
	// of the accumulating append form) with a call of a package function
	// in between, in source order.
	writersOf := map[*types.Var]map[*types.Func]bool{}
	for _, fn := range m.order {
		for _, w := range m.writes[fn] {
			if writersOf[w.field] == nil {
				writersOf[w.field] = map[*types.Func]bool{}
			}
			writersOf[w.field][fn] = true
		}
	}
	for _, fn := range m.order {
		fd := m.decls[fn]
		type ev struct {
			pos  token.Pos
			f    *types.Var // write of f (direct or via callee that directly writes it)
			call bool
		}
		var evs []ev
		for _, w := range m.writes[fn] {
			if w.kind == actxWPush && !kinds[w.field][actxWPop] {
				continue // accumulator
			}
			evs = append(evs, ev{pos: w.pos, f: w.field})
		}
		if len(evs) == 0 {
			continue
		}
		ast.Inspect(fd.Body, func(n ast.Node) bool {
			if call, ok := n.(*ast.CallExpr); ok {
				if g := CalleeOf(m.info, call); g != nil && m.decls[g] != nil {
					evs = append(evs, ev{pos: call.End(), call: true})
					for f, ws := range writersOf {
						if ws[g] && len(m.callees[g]) == 0 {
							evs = append(evs, ev{pos: call.Pos(), f: f})
						}
					}
				}
			}
			return true
		})
		sort.SliceStable(evs, func(i, j int) bool { return evs[i].pos < evs[j].pos })
		direct := map[*types.Var]bool{}
		for _, w := range m.writes[fn] {
			if w.kind == actxWSet || w.kind == actxWInc || w.kind == actxWDec {
				direct[w.field] = true
			}
		}
		for f := range direct {
			state := 0 // 0 none, 1 written, 2 written+call
			for _, e := range evs {
				switch {
				case e.f == f && state == 2:
					add(f, "written around a nested call in "+fn.Name())
					state = 1
				case e.f == f:
					state = 1
				case e.call && state == 1:
					state = 2
				}
			}
		}
	}
	// group closure: fields assigned next to a context field by a function
	// that calls nothing in the package (a plain setter).
	for changed := true; changed; {
		changed = false
		for _, fn := range m.order {
			if len(m.callees[fn]) != 0 {
				continue
			}
			has := false
			for _, w := range m.writes[fn] {
				if m.ctx[w.field] != nil {
					has = true
				}
			}
			if !has {
				continue
			}
			for _, w := range m.writes[fn] {
				if m.ctx[w.field] == nil && w.kind == actxWSet && !m.derivedView(w.field) {
					add(w.field, "set together with a context field by "+fn.Name())
					changed = true
				}
			}
		}
	}
	// accumulators are not context
	for f, cf := range m.ctx {
		k := kinds[f]
		if k[actxWPush] && !k[actxWPop] && !k[actxWSet] && !k[actxWInc] {
			delete(m.ctx, f)
		}
		if m.monotoneMarker(f) {
			delete(m.ctx, f)
		}
		_ = cf
	}
}

func (m *actxPkg) computeTouch() {
	for f := range m.ctx {
		t := map[*types.Func]bool{}
		for _, fn := range m.order {
			if m.reads[fn][f] || m.dynCalls[fn] {
				t[fn] = true
			}
			for _, w := range m.writes[fn] {
				if w.field == f {
					t[fn] = true
				}
			}
		}
		for changed := true; changed; {
			changed = false
			for _, fn := range m.order {
				if t[fn] {
					continue
				}
				for _, g := range m.callees[fn] {
					if t[g] {
						t[fn] = true
						changed = true
						break
					}
				}
			}
		}
		m.touch[f] = t
	}
}

func (m *actxPkg) touchesAny(fn *types.Func) bool {
	for _, t := range m.touch {
		if t[fn] {
			return true
		}
	}
	return false
}

func (m *actxPkg) writesCtxDirect(fn *types.Func) bool {
	for _, w := range m.writes[fn] {
		if m.ctx[w.field] != nil {
			return true
		}
	}
	return false
}

// computeInlinable: leaf setters — functions that write a context field and
// whose context-touching callees are leaf setters themselves (no nested
// analysis happens inside them). They are interpreted at their call sites.
func (m *actxPkg) computeInlinable() {
	cand := map[*types.Func]bool{}
	for _, fn := range m.order {
		if m.writesCtxDirect(fn) && !m.dynCalls[fn] {
			cand[fn] = true
		}
	}
	// also pure wrappers around a setter (dropScope → popScope)
	for changed := true; changed; {
		changed = false
		for _, fn := range m.order {
			if cand[fn] {
				continue
			}
			ok, any := true, false
			for _, g := range m.callees[fn] {
				if m.touchesAny(g) {
					any = true
					if !cand[g] {
						ok = false
					}
				}
			}
			if ok && any {
				// only a wrapper if every touching callee is a candidate
				cand[fn] = true
				changed = true
			}
		}
	}
	for changed := true; changed; {
		changed = false
		for fn := range cand {
			for _, g := range m.callees[fn] {
				if g == fn || (m.touchesAny(g) && !cand[g]) {
					delete(cand, fn)
					changed = true
					break
				}
			}
		}
	}
	m.inlinable = cand
	for fn := range cand {
		sig := fn.Type().(*types.Signature)
		for _, w := range m.writes[fn] {
			if w.kind != actxWSet || w.rhs == nil || m.ctx[w.field] == nil {
				continue
			}
			idx, exact := -1, false
			ast.Inspect(w.rhs, func(n ast.Node) bool {
				if id, ok := n.(*ast.Ident); ok {
					for i := 0; i < sig.Params().Len(); i++ {
						if m.info.Uses[id] == sig.Params().At(i) {
							idx = i
						}
					}
				}
				return true
			})
			if id, ok := ast.Unparen(w.rhs).(*ast.Ident); ok && idx >= 0 && m.info.Uses[id] == sig.Params().At(idx) {
				exact = true
			}
			if m.paramSet[fn] == nil {
				m.paramSet[fn] = map[*types.Var]int{}
				m.paramExact[fn] = map[*types.Var]bool{}
			}
			m.paramSet[fn][w.field] = idx
			m.paramExact[fn][w.field] = exact
		}
	}
}

func (m *actxPkg) readsCtx(fn *types.Func) bool {
	for f := range m.ctx {
		if m.reads[fn][f] {
			return true
		}
	}
	return false
}

// computeRoots: a function is root-like when no construct of the package can
// enclose its activation: it has no call site inside the package, or all its
// call sites are in root-like functions (drivers such as Compile →
// compileProgram, Execute). Recursive functions are never root-like.
func (m *actxPkg) computeRoots() {
	for _, fn := range m.order {
		if len(m.callers[fn]) == 0 {
			m.rootLike[fn] = true
		}
	}
	for changed := true; changed; {
		changed = false
		for _, fn := range m.order {
			if m.rootLike[fn] || len(m.callers[fn]) == 0 {
				continue
			}
			ok := true
			for _, cs := range m.callers[fn] {
				if !m.rootLike[cs.caller] || cs.caller == fn {
					ok = false
				}
			}
			if ok {
				m.rootLike[fn] = true
				changed = true
			}
		}
	}
}

func (m *actxPkg) computeBoolArgs() {
	for _, fn := range m.order {
		sig := fn.Type().(*types.Signature)
		for i := 0; i < sig.Params().Len(); i++ {
			if b, ok := sig.Params().At(i).Type().Underlying().(*types.Basic); !ok || b.Kind() != types.Bool {
				continue
			}
			for _, cs := range m.callers[fn] {
				v := "?"
				if i < len(cs.call.Args) {
					if tv := m.info.Types[cs.call.Args[i]]; tv.Value != nil {
						v = tv.Value.String()
					}
				}
				tgt := m.boolArgs
				if m.rootLike[cs.caller] {
					tgt = m.boolArgsRt
				}
				if tgt[fn] == nil {
					tgt[fn] = map[int]map[string]bool{}
				}
				if tgt[fn][i] == nil {
					tgt[fn][i] = map[string]bool{}
				}
				tgt[fn][i][v] = true
			}
		}
	}
}

// isErrType: pointer/interface types used to report a failure to the caller.
func actxIsErrType(t types.Type) bool {
	if t == nil {
		return false
	}
	if types.Identical(t, types.Universe.Lookup("error").Type()) {
		return true
	}
	if p, ok := t.(*types.Pointer); ok {
		if n, ok := p.Elem().(*types.Named); ok {
			name := n.Obj().Name()
			return strings.HasSuffix(name, "Interrupt") || name == "Error" || strings.HasSuffix(name, "Error")
		}
	}
	return false
}

// computeCatchable: functions from which a returned interrupt may be caught
// so that execution continues with the same context object. A catch site is a
// function that inspects the Kind() of an interrupt obtained from a call of a
// package function g and does not return it on every path; everything
// reachable from such a g is catchable.
func (m *actxPkg) computeCatchable() {
	var seeds []*types.Func
	for _, fn := range m.order {
		sig := fn.Type().(*types.Signature)
		for i := 0; i < sig.Results().Len(); i++ {
			if actxIsErrType(sig.Results().At(i).Type()) {
				m.hasErrRet = true
			}
		}
		fd := m.decls[fn]
		src := map[types.Object]*types.Func{} // interrupt variable → callee it came from
		ast.Inspect(fd.Body, func(n ast.Node) bool {
			as, ok := n.(*ast.AssignStmt)
			if !ok || len(as.Rhs) != 1 {
				return true
			}
			call, ok := ast.Unparen(as.Rhs[0]).(*ast.CallExpr)
			if !ok {
				return true
			}
			g := CalleeOf(m.info, call)
			if g == nil || m.decls[g] == nil {
				return true
			}
			for _, l := range as.Lhs {
				id, ok := l.(*ast.Ident)
				if !ok || id.Name == "_" {
					continue
				}
				obj := m.info.Defs[id]
				if obj == nil {
					obj = m.info.Uses[id]
				}
				if obj != nil && actxIsErrType(obj.Type()) {
					src[obj] = g
				}
			}
			return true
		})
		if len(src) == 0 {
			continue
		}
		ast.Inspect(fd.Body, func(n ast.Node) bool {
			call, ok := n.(*ast.CallExpr)
			if !ok {
				return true
			}
			sel, ok := call.Fun.(*ast.SelectorExpr)
			if !ok || sel.Sel.Name != "Kind" {
				return true
			}
			if id, ok := actxStrip(sel.X).(*ast.Ident); ok {
				if g := src[m.info.Uses[id]]; g != nil && m.resumesAfter(fd, call) {
					seeds = append(seeds, g)
				}
			}
			return true
		})
	}
	var visit func(fn *types.Func)
	visit = func(fn *types.Func) {
		if m.catchable[fn] {
			return
		}
		m.catchable[fn] = true
		for _, g := range m.callees[fn] {
			visit(g)
		}
	}
	for _, s := range seeds {
		visit(s)
	}
}

func (m *actxPkg) fname(fn *types.Func) string {
	if fd := m.decls[fn]; fd != nil {
		return relPkg(m.p.PkgPath) + "." + FuncName(fd)
	}
	return fn.FullName()
}

func (m *actxPkg) fieldName(f *types.Var) string {
	if o := m.fieldOwner[f]; o != nil {
		return o.Obj().Name() + "." + f.Name()
	}
	return f.Name()
}

func (m *actxPkg) sortedCtx() []*types.Var {
	if m.ctxSorted != nil && len(m.ctxSorted) == len(m.ctx) {
		return m.ctxSorted
	}
	var out []*types.Var
	for f := range m.ctx {
		out = append(out, f)
	}
	sort.Slice(out, func(i, j int) bool {
		a, b := m.fieldName(out[i]), m.fieldName(out[j])
		if a != b {
			return a < b
		}
		return actxPosLess(m.c, out[i].Pos(), out[j].Pos())
	})
	m.ctxSorted = out
	return out
}

// derivedView: every write of f stores nil or an expression that reads
// another (push/pop or ++/--) field of the package: f is a cached view of
// that field (compiler currScope = &varScopes[top]) and follows it.
func (m *actxPkg) derivedView(f *types.Var) bool {
	n := 0
	for _, fn := range m.order {
		for _, w := range m.writes[fn] {
			if w.field != f {
				continue
			}
			n++
			if w.kind != actxWSet || w.rhs == nil {
				return false
			}
			if id, ok := ast.Unparen(w.rhs).(*ast.Ident); ok && id.Name == "nil" {
				continue
			}
			reads := false
			ast.Inspect(w.rhs, func(x ast.Node) bool {
				if e, ok := x.(ast.Expr); ok {
					if g, _ := m.fieldOf(e); g != nil && g != f && m.ctx[g] != nil {
						reads = true
					}
				}
				return true
			})
			if !reads {
				return false
			}
		}
	}
	return n > 0
}

// monotoneMarker: every write stores the same constant (a "used" mark).
func (m *actxPkg) monotoneMarker(f *types.Var) bool {
	val, n := "", 0
	for _, fn := range m.order {
		for _, w := range m.writes[fn] {
			if w.field != f {
				continue
			}
			if w.kind != actxWSet || w.rhs == nil {
				return false
			}
			tv := m.info.Types[w.rhs]
			if tv.Value == nil {
				return false
			}
			if n > 0 && tv.Value.String() != val {
				return false
			}
			val = tv.Value.String()
			n++
		}
	}
	return n > 0
}

// resumesAfter: the inspection of an interrupt's Kind() is a *catch* only when
// some path from the inspecting statement completes without handing a failure
// on: a return whose error/interrupt results are all nil, a break/continue of
// an enclosing loop, another loop iteration, or falling off the end of the
// function. A function that looks at the kind merely to re-wrap or relabel the
// failure and returns a failure on every path does not let execution resume.
func (m *actxPkg) resumesAfter(fd *ast.FuncDecl, call *ast.CallExpr) bool {
	// chain of enclosing nodes, innermost first
	var chain []ast.Node
	var stack []ast.Node
	ast.Inspect(fd.Body, func(n ast.Node) bool {
		if n == nil {
			stack = stack[:len(stack)-1]
			return true
		}
		stack = append(stack, n)
		if n == ast.Node(call) {
			for i := len(stack) - 1; i >= 0; i-- {
				chain = append(chain, stack[i])
			}
		}
		return true
	})
	if len(chain) == 0 {
		return true
	}
	isErrRet := func(r *ast.ReturnStmt) bool {
		for _, e := range r.Results {
			if !actxIsErrType(m.info.TypeOf(e)) {
				continue
			}
			if id, ok := ast.Unparen(e).(*ast.Ident); ok && id.Name == "nil" {
				continue
			}
			return true
		}
		return false
	}
	var some func(list []ast.Stmt, k func() bool) bool // some path through list (then k) ends without a failure
	some = func(list []ast.Stmt, k func() bool) bool {
		if len(list) == 0 {
			return k()
		}
		rest := func() bool { return some(list[1:], k) }
		switch x := list[0].(type) {
		case *ast.ReturnStmt:
			return !isErrRet(x)
		case *ast.BranchStmt:
			return true
		case *ast.ExprStmt:
			if IsPanicCall(m.info, x) {
				return false
			}
			return rest()
		case *ast.BlockStmt:
			return some(x.List, rest)
		case *ast.LabeledStmt:
			return some([]ast.Stmt{x.Stmt}, rest)
		case *ast.IfStmt:
			if some(x.Body.List, rest) {
				return true
			}
			if x.Else != nil {
				return some([]ast.Stmt{x.Else}, rest)
			}
			return rest()
		case *ast.SwitchStmt, *ast.TypeSwitchStmt:
			var body *ast.BlockStmt
			if sw, ok := x.(*ast.SwitchStmt); ok {
				body = sw.Body
			} else {
				body = x.(*ast.TypeSwitchStmt).Body
			}
			hasDefault := false
			for _, cl := range body.List {
				cc := cl.(*ast.CaseClause)
				if cc.List == nil {
					hasDefault = true
				}
				if some(cc.Body, rest) {
					return true
				}
			}
			if !hasDefault {
				return rest()
			}
			return false
		case *ast.ForStmt, *ast.RangeStmt:
			return true // another iteration / leaving the loop normally
		}
		return rest()
	}
	// continuation after a node of the chain completes normally
	var after func(i int) func() bool
	after = func(i int) func() bool {
		return func() bool {
			for j := i + 1; j < len(chain); j++ {
				var list []ast.Stmt
				switch p := chain[j].(type) {
				case *ast.BlockStmt:
					list = p.List
				case *ast.CaseClause:
					list = p.Body
				case *ast.ForStmt, *ast.RangeStmt:
					return true
				case *ast.FuncLit:
					return true
				default:
					continue
				}
				child := chain[j-1]
				for idx, st := range list {
					if ast.Node(st) == child {
						return some(list[idx+1:], after(j))
					}
				}
			}
			return true // end of the function body
		}
	}
	// the innermost statement that contains the inspection
	for i, n := range chain {
		st, ok := n.(ast.Stmt)
		if !ok {
			continue
		}
		switch st.(type) {
		case *ast.IfStmt, *ast.SwitchStmt, *ast.ExprStmt, *ast.AssignStmt, *ast.ReturnStmt, *ast.DeclStmt:
			return some([]ast.Stmt{st}, after(i))
		}
	}
	return true
}
