package main

import (
	"fmt"
	"go/ast"
	"go/token"
	"go/types"
	"sort"
	"strings"
)

func init() {
	register(&Rule{ID: "R-opcode-shape", Floor: 70, Run: ruleOpcodeShape,
		Doc: "for every opcode: (a) if the compiler can build an instruction with it (composite literals of the instruction structs, through their constructors, including the in-place rewrites that run inside Compile) and it is not filtered out before Compile returns, the VM's instruction dispatch has a case for it — otherwise the VM panics with 'illegal instruction' on a compiled program; (b) the instruction struct the VM asserts in that case is the struct the compiler finally leaves in the function body for that opcode (after the rewrites) — otherwise the assertion panics; (c) cases for opcodes that are never emitted are dead (informational). A rewrite that asserts a struct other than the one emitted for its opcode panics at compile time and is reported under (b)"})
}

type tblOpBuild struct {
	Struct *types.Named
	Where  string
	Fn     *tblFn
	Call   ast.Node
}

type tblOpRewrite struct {
	Op       string // constant value
	From, To *types.Named
	Where    string
	Fn       *tblFn
}

type tblOpModel struct {
	m        *tblModel
	iface    *types.Named
	method   string
	enum     *Enum
	structs  map[*types.TypeName]*types.Var // instruction struct → its opcode field
	vmFn     *tblFn
	vmSwitch *ast.SwitchStmt
	vmParam  types.Object

	emitted   map[string][]tblOpBuild // opcode value → builds outside rewrites
	rewrites  []tblOpRewrite
	stripped  map[string]string // opcode value → why
	problems  []Obligation
	compileFn *tblFn
	postFns   map[*tblFn]int // functions called unconditionally from Compile (order)
	final     map[string]map[*types.TypeName]string
	vmCases   map[string]*ast.CaseClause
	vmAsserts map[string]map[*types.TypeName]token.Pos
}

func (o *tblOpModel) name(v string) string {
	if ks := o.enum.ByVal[v]; len(ks) > 0 {
		return ks[0].Name()
	}
	return v
}

func (m *tblModel) opcodeModel() *tblOpModel {
	tblModelMu.Lock()
	if m.opModel != nil {
		defer tblModelMu.Unlock()
		return m.opModel
	}
	tblModelMu.Unlock()
	c := m.c
	o := &tblOpModel{m: m, structs: map[*types.TypeName]*types.Var{}, emitted: map[string][]tblOpBuild{}, stripped: map[string]string{},
		postFns: map[*tblFn]int{}, vmCases: map[string]*ast.CaseClause{}, vmAsserts: map[string]map[*types.TypeName]token.Pos{}}
	cp := c.Pkg("homescript/compiler")
	rp := c.Pkg("homescript/runtime")
	// 1. the VM dispatch: a function of package runtime with a parameter whose type is an interface
	// of package compiler, switching on a zero-argument enum-valued method of that parameter.
	for _, fd := range AllFuncDecls(rp) {
		f := m.fnByDecl[fd]
		if f == nil {
			continue
		}
		sig := f.Obj.Type().(*types.Signature)
		for i := 0; i < sig.Params().Len(); i++ {
			pv := sig.Params().At(i)
			nt, ok := types.Unalias(pv.Type()).(*types.Named)
			if !ok || nt.Obj().Pkg() != cp.Types {
				continue
			}
			if _, isI := nt.Underlying().(*types.Interface); !isI {
				continue
			}
			ast.Inspect(fd.Body, func(n ast.Node) bool {
				sw, ok := n.(*ast.SwitchStmt)
				if !ok || sw.Tag == nil || o.vmSwitch != nil {
					return true
				}
				call, ok := ast.Unparen(sw.Tag).(*ast.CallExpr)
				if !ok || len(call.Args) != 0 {
					return true
				}
				se, ok := ast.Unparen(call.Fun).(*ast.SelectorExpr)
				if !ok {
					return true
				}
				id, ok := ast.Unparen(se.X).(*ast.Ident)
				if !ok || rp.TypesInfo.Uses[id] != types.Object(pv) {
					return true
				}
				en := m.enumOf(rp.TypesInfo.TypeOf(sw.Tag))
				if en == nil || en.Type.Obj().Pkg() != cp.Types {
					return true
				}
				o.vmFn, o.vmSwitch, o.vmParam, o.iface, o.method, o.enum = f, sw, pv, nt, se.Sel.Name, en
				return false
			})
		}
	}
	if o.vmSwitch == nil {
		fatalf("anchor unresolved: no function of package runtime dispatches on an enum-valued method of a compiler interface (the VM's instruction switch)")
	}
	it := o.iface.Underlying().(*types.Interface)
	// 2. instruction structs and their opcode field
	for _, nt := range m.allNamed {
		if nt.Obj().Pkg() != cp.Types {
			continue
		}
		st, ok := nt.Underlying().(*types.Struct)
		if !ok || !(types.Implements(nt, it) || types.Implements(types.NewPointer(nt), it)) {
			continue
		}
		sel := types.NewMethodSet(types.NewPointer(nt)).Lookup(cp.Types, o.method)
		if sel == nil {
			continue
		}
		mf := m.fns[sel.Obj().(*types.Func)]
		if mf == nil {
			continue
		}
		var field *types.Var
		ast.Inspect(mf.Decl.Body, func(n ast.Node) bool {
			if rs, ok := n.(*ast.ReturnStmt); ok && len(rs.Results) == 1 {
				if se, ok := ast.Unparen(rs.Results[0]).(*ast.SelectorExpr); ok {
					if s := cp.TypesInfo.Selections[se]; s != nil && s.Kind() == types.FieldVal {
						field, _ = s.Obj().(*types.Var)
					}
				}
			}
			return true
		})
		_ = st
		if field == nil {
			o.problems = append(o.problems, Obligation{Key: "struct " + nt.Obj().Name() + "|opcode field", Pos: c.Pos(mf.Decl.Pos()), Status: Undecided,
				Detail: o.method + "() does not return a field of the struct"})
			continue
		}
		o.structs[nt.Obj()] = field
	}
	if len(o.structs) < 2 {
		fatalf("anchor unresolved: fewer than 2 instruction structs implement %s", tblTypeName(o.iface))
	}
	// 3. Compile and the post-passes it always runs
	o.compileFn = m.fnByDecl[FuncDecl(cp, "Compiler", "Compile")]
	if o.compileFn == nil {
		fatalf("anchor unresolved: compiler.Compiler.Compile")
	}
	for i, s := range o.compileFn.Decl.Body.List {
		es, ok := s.(*ast.ExprStmt)
		if !ok {
			continue
		}
		if call, ok := es.X.(*ast.CallExpr); ok {
			if fn := CalleeOf(cp.TypesInfo, call); fn != nil {
				if f := m.fns[fn.Origin()]; f != nil {
					o.postFns[f] = i + 1
				}
			}
		}
	}
	// 4. build sites
	o.collectBuilds()
	// 5. strips
	o.collectStrips()
	// 6. final shapes
	o.final = map[string]map[*types.TypeName]string{}
	for v, bs := range o.emitted {
		o.final[v] = map[*types.TypeName]string{}
		for _, b := range bs {
			if _, ok := o.final[v][b.Struct.Obj()]; !ok {
				o.final[v][b.Struct.Obj()] = b.Where
			}
		}
	}
	sort.SliceStable(o.rewrites, func(i, j int) bool { return o.postFns[o.rewrites[i].Fn] < o.postFns[o.rewrites[j].Fn] })
	for _, rw := range o.rewrites {
		fs := o.final[rw.Op]
		if fs == nil {
			continue // rewrite of an opcode nobody emits: dead
		}
		if _, ok := fs[rw.From.Obj()]; ok {
			delete(fs, rw.From.Obj())
			fs[rw.To.Obj()] = rw.Where + " (rewrite of " + rw.From.Obj().Name() + ")"
		}
	}
	// 7. the VM's cases
	info := o.vmFn.Pkg.TypesInfo
	for _, cl := range o.vmSwitch.Body.List {
		cc := cl.(*ast.CaseClause)
		var vals []string
		for _, e := range cc.List {
			if k := ConstOf(info, e); k != nil {
				vals = append(vals, k.Val().ExactString())
			} else {
				o.problems = append(o.problems, Obligation{Key: "vm|case " + exprStr(e), Pos: c.Pos(e.Pos()), Status: Undecided, Detail: "case label is not a constant"})
			}
		}
		asserts := map[*types.TypeName]token.Pos{}
		for _, s := range cc.Body {
			ast.Inspect(s, func(n ast.Node) bool {
				ta, ok := n.(*ast.TypeAssertExpr)
				if !ok || ta.Type == nil {
					return true
				}
				id, ok := ast.Unparen(ta.X).(*ast.Ident)
				if !ok || info.Uses[id] != o.vmParam {
					return true
				}
				if nt, ok := types.Unalias(info.TypeOf(ta.Type)).(*types.Named); ok {
					asserts[nt.Obj()] = ta.Pos()
				}
				return true
			})
		}
		for _, v := range vals {
			o.vmCases[v] = cc
			o.vmAsserts[v] = asserts
		}
	}
	tblModelMu.Lock()
	m.opModel = o
	tblModelMu.Unlock()
	return o
}

// opcodesAt: the opcode constants expression e can denote at this point.
func (o *tblOpModel) opcodesAt(f *tblFn, e ast.Expr, at ast.Node) (map[string]bool, string) {
	info := f.Pkg.TypesInfo
	e = ast.Unparen(e)
	if k := ConstOf(info, e); k != nil {
		return map[string]bool{k.Val().ExactString(): true}, ""
	}
	if tv, ok := info.Types[e]; ok && tv.Value != nil {
		return map[string]bool{tv.Value.ExactString(): true}, ""
	}
	g := o.m.guardFor(f)
	// x.Opcode() under a case of switch x.Opcode()
	if p := g.pathOf(e); p != nil {
		if ft := g.factsAt(at).get(p); ft != nil {
			return ft.Allowed, ""
		}
	}
	// local variable: every constant assigned to it in the function (flow-insensitive)
	if id, ok := e.(*ast.Ident); ok {
		obj := info.Uses[id]
		if v, ok := obj.(*types.Var); ok && v.Parent() != nil && v.Pkg() != nil && v.Parent() != v.Pkg().Scope() && !v.IsField() {
			if _, isParam := tblParamIndex(f, v); !isParam {
				set := map[string]bool{}
				bad := ""
				note := func(rhs ast.Expr) {
					if tv, ok := info.Types[rhs]; ok && tv.Value != nil {
						set[tv.Value.ExactString()] = true
					} else {
						bad = exprStr(rhs)
					}
				}
				ast.Inspect(f.Decl.Body, func(n ast.Node) bool {
					switch x := n.(type) {
					case *ast.AssignStmt:
						for i, l := range x.Lhs {
							lid, ok := ast.Unparen(l).(*ast.Ident)
							if !ok {
								continue
							}
							lo := info.Defs[lid]
							if lo == nil {
								lo = info.Uses[lid]
							}
							if lo != obj {
								continue
							}
							if len(x.Lhs) == len(x.Rhs) && (x.Tok == token.ASSIGN || x.Tok == token.DEFINE) {
								note(x.Rhs[i])
							} else {
								bad = "multi-value assignment"
							}
						}
					case *ast.ValueSpec:
						for i, nm := range x.Names {
							if info.Defs[nm] == obj {
								if i < len(x.Values) {
									note(x.Values[i])
								} else {
									set["0"] = true
								}
							}
						}
					case *ast.UnaryExpr:
						if x.Op == token.AND {
							if r := tblRootObj(info, x.X); r == obj {
								bad = "address taken"
							}
						}
					}
					return true
				})
				if bad == "" && len(set) > 0 {
					return set, ""
				}
				return nil, "variable " + id.Name + " is assigned the non-constant " + bad
			}
		}
	}
	return nil, "cannot reduce " + exprStr(e) + " to opcode constants"
}

func (o *tblOpModel) collectBuilds() {
	m := o.m
	c := m.c
	type ctor struct {
		fn     *tblFn
		param  int
		strct  *types.Named
		fixed  map[string]bool
		reason string
	}
	ctors := map[*tblFn][]ctor{}
	addEmit := func(vals map[string]bool, b tblOpBuild) {
		for v := range vals {
			o.emitted[v] = append(o.emitted[v], b)
		}
	}
	// every composite literal of an instruction struct in the module
	for _, p := range c.All {
		info := p.TypesInfo
		for _, fd := range AllFuncDecls(p) {
			f := m.fnByDecl[fd]
			if f == nil {
				continue
			}
			ast.Inspect(fd.Body, func(n ast.Node) bool {
				cl, ok := n.(*ast.CompositeLit)
				if !ok {
					return true
				}
				nt, ok := types.Unalias(info.TypeOf(cl)).(*types.Named)
				if !ok {
					return true
				}
				field := o.structs[nt.Obj()]
				if field == nil {
					return true
				}
				var val ast.Expr
				st := nt.Underlying().(*types.Struct)
				for i, el := range cl.Elts {
					if kv, ok := el.(*ast.KeyValueExpr); ok {
						if id, ok := kv.Key.(*ast.Ident); ok && id.Name == field.Name() {
							val = kv.Value
						}
					} else if i < st.NumFields() && st.Field(i) == field {
						val = el
					}
				}
				key := fmt.Sprintf("build|%s|%s literal", f.name(), nt.Obj().Name())
				if val == nil {
					// zero opcode
					addEmit(map[string]bool{"0": true}, tblOpBuild{Struct: nt, Where: c.Pos(cl.Pos()), Fn: f, Call: cl})
					return true
				}
				if id, ok := ast.Unparen(val).(*ast.Ident); ok {
					if idx, isParam := tblParamIndex(f, info.Uses[id]); isParam && idx >= 0 {
						ctors[f] = append(ctors[f], ctor{fn: f, param: idx, strct: nt})
						return true
					}
				}
				vals, why := o.opcodesAt(f, val, cl)
				if vals == nil {
					o.problems = append(o.problems, Obligation{Key: key, Pos: c.Pos(cl.Pos()), Status: Undecided, Detail: why})
					return true
				}
				addEmit(vals, tblOpBuild{Struct: nt, Where: c.Pos(cl.Pos()), Fn: f, Call: cl})
				return true
			})
		}
	}
	// constructor call sites
	var fs []*tblFn
	for f := range ctors {
		fs = append(fs, f)
	}
	sort.Slice(fs, func(i, j int) bool { return fs[i].name() < fs[j].name() })
	seen := map[string]int{}
	for _, cf := range fs {
		for _, ct := range ctors[cf] {
			for _, u := range m.uses[cf.Obj] {
				if u.Call == nil || u.In == nil {
					o.problems = append(o.problems, Obligation{Key: tblUniq(seen, "build|"+cf.name()+" used as a value"), Pos: c.Pos(u.Ident.Pos()), Status: Undecided,
						Detail: "instruction constructor used other than by a direct call"})
					continue
				}
				if ct.param >= len(u.Call.Args) {
					continue
				}
				arg := u.Call.Args[ct.param]
				vals, why := o.opcodesAt(u.In, arg, u.Call)
				if vals == nil {
					o.problems = append(o.problems, Obligation{Key: tblUniq(seen, fmt.Sprintf("build|%s|%s(%s)", u.In.name(), cf.Decl.Name.Name, exprStr(arg))), Pos: c.Pos(u.Call.Pos()), Status: Undecided, Detail: why})
					continue
				}
				b := tblOpBuild{Struct: ct.strct, Where: c.Pos(u.Call.Pos()), Fn: u.In, Call: u.Call}
				if rw, ok := o.asRewrite(u.In, u.Call, vals, ct.strct); ok {
					o.rewrites = append(o.rewrites, rw...)
					continue
				}
				addEmit(vals, b)
			}
		}
	}
}

// asRewrite: the constructed instruction replaces, in place, the element of an
// instruction slice that is being visited by the enclosing range loop, inside
// a case of a switch on that element's opcode, in a function that Compile
// always calls.
func (o *tblOpModel) asRewrite(f *tblFn, call *ast.CallExpr, vals map[string]bool, to *types.Named) ([]tblOpRewrite, bool) {
	info := f.Pkg.TypesInfo
	g := o.m.guardFor(f)
	as, ok := g.parents[call].(*ast.AssignStmt)
	if !ok || len(as.Lhs) != 1 || as.Tok != token.ASSIGN {
		return nil, false
	}
	ix, ok := ast.Unparen(as.Lhs[0]).(*ast.IndexExpr)
	if !ok || !o.isInstrSlice(info.TypeOf(ix.X)) {
		return nil, false
	}
	idxId, ok := ast.Unparen(ix.Index).(*ast.Ident)
	if !ok {
		return nil, false
	}
	// enclosing range loop whose key is idx and which ranges over an instruction slice
	var loop *ast.RangeStmt
	var clause *ast.CaseClause
	for n := ast.Node(as); n != nil; n = g.parents[n] {
		if cc, ok := n.(*ast.CaseClause); ok && clause == nil {
			clause = cc
		}
		if rs, ok := n.(*ast.RangeStmt); ok {
			if kid, ok := rs.Key.(*ast.Ident); ok && info.Defs[kid] != nil && info.Defs[kid] == info.Uses[idxId] && o.isInstrSlice(info.TypeOf(rs.X)) {
				loop = rs
			}
			break
		}
	}
	if loop == nil || clause == nil {
		return nil, false
	}
	elem, ok := loop.Value.(*ast.Ident)
	if !ok {
		return nil, false
	}
	elemObj := info.Defs[elem]
	// the struct asserted on the visited element in this clause
	var from *types.Named
	for _, s := range clause.Body {
		ast.Inspect(s, func(n ast.Node) bool {
			if ta, ok := n.(*ast.TypeAssertExpr); ok && ta.Type != nil {
				if id, ok := ast.Unparen(ta.X).(*ast.Ident); ok && info.Uses[id] == elemObj {
					if nt, ok := types.Unalias(info.TypeOf(ta.Type)).(*types.Named); ok {
						from = nt
					}
				}
			}
			return true
		})
	}
	if from == nil {
		return nil, false
	}
	if o.postFns[f] == 0 {
		var ns []string
		for v := range vals {
			ns = append(ns, o.name(v))
		}
		sort.Strings(ns)
		o.problems = append(o.problems, Obligation{Key: "rewrite|" + f.name() + "|" + strings.Join(ns, ",") + "|not called from Compile", Pos: o.m.c.Pos(call.Pos()), Status: Undecided,
			Detail: "an in-place instruction rewrite lives in a function that Compile does not call unconditionally"})
		return nil, false
	}
	var out []tblOpRewrite
	for v := range vals {
		out = append(out, tblOpRewrite{Op: v, From: from, To: to, Where: o.m.c.Pos(call.Pos()), Fn: f})
	}
	sort.Slice(out, func(i, j int) bool { return out[i].Op < out[j].Op })
	return out, true
}

func (o *tblOpModel) isInstrSlice(t types.Type) bool {
	if t == nil {
		return false
	}
	sl, ok := types.Unalias(t).Underlying().(*types.Slice)
	if !ok {
		return false
	}
	nt, ok := types.Unalias(sl.Elem()).(*types.Named)
	return ok && nt.Obj() == o.iface.Obj()
}

// collectStrips: in a function Compile always calls, a range loop over an
// instruction slice copies the visited element to an output slice only when
// its opcode differs from K, and the output slice then replaces an
// instruction-slice field.
func (o *tblOpModel) collectStrips() {
	for f := range o.postFns {
		info := f.Pkg.TypesInfo
		g := o.m.guardFor(f)
		ast.Inspect(f.Decl.Body, func(n ast.Node) bool {
			rs, ok := n.(*ast.RangeStmt)
			if !ok || !o.isInstrSlice(info.TypeOf(rs.X)) {
				return true
			}
			elem, ok := rs.Value.(*ast.Ident)
			if !ok || info.Defs[elem] == nil {
				return true
			}
			elemObj := info.Defs[elem]
			// appends of the element inside the loop body
			type app struct {
				call *ast.CallExpr
				dst  types.Object
			}
			var apps []app
			ast.Inspect(rs.Body, func(n ast.Node) bool {
				as, ok := n.(*ast.AssignStmt)
				if !ok || len(as.Lhs) != 1 || len(as.Rhs) != 1 {
					return true
				}
				call, ok := ast.Unparen(as.Rhs[0]).(*ast.CallExpr)
				if !ok || len(call.Args) != 2 {
					return true
				}
				if id, ok := call.Fun.(*ast.Ident); !ok || id.Name != "append" {
					return true
				}
				if _, isB := info.Uses[call.Fun.(*ast.Ident)].(*types.Builtin); !isB {
					return true
				}
				if aid, ok := ast.Unparen(call.Args[1]).(*ast.Ident); !ok || info.Uses[aid] != elemObj {
					return true
				}
				if did, ok := ast.Unparen(as.Lhs[0]).(*ast.Ident); ok && o.isInstrSlice(info.TypeOf(as.Lhs[0])) {
					apps = append(apps, app{call, info.Uses[did]})
				}
				return true
			})
			if len(apps) != 1 {
				return true
			}
			// the output slice must replace an instruction-slice field after the loop
			replaced := false
			ast.Inspect(f.Decl.Body, func(n ast.Node) bool {
				as, ok := n.(*ast.AssignStmt)
				if !ok || as.Pos() < rs.End() || len(as.Lhs) != 1 || len(as.Rhs) != 1 {
					return true
				}
				if rid, ok := ast.Unparen(as.Rhs[0]).(*ast.Ident); ok && info.Uses[rid] == apps[0].dst {
					if _, isSel := ast.Unparen(as.Lhs[0]).(*ast.SelectorExpr); isSel && o.isInstrSlice(info.TypeOf(as.Lhs[0])) {
						replaced = true
					}
				}
				return true
			})
			if !replaced {
				return true
			}
			// what is known about elem.Opcode() where it is appended
			ep := &tblPath{Root: elemObj, Parts: "." + o.method + "()"}
			ep.Key = tblRootKey(elemObj) + ep.Parts
			ft := g.factsAt(apps[0].call).get(ep)
			if ft == nil {
				return true
			}
			for v := range o.enum.ByVal {
				if !ft.Allowed[v] {
					o.stripped[v] = fmt.Sprintf("%s copies an instruction to the function body only when %s", f.name(), ft.Why)
				}
			}
			return true
		})
	}
}

func ruleOpcodeShape(c *Ctx) []Obligation {
	m := tblModelOf(c)
	o := m.opcodeModel()
	var obs []Obligation
	obs = append(obs, o.problems...)
	vmName := o.vmFn.name()
	for _, k := range o.enum.Consts {
		v := k.Val().ExactString()
		if o.enum.ByVal[v][0] != k {
			continue
		}
		name := k.Name()
		cc := o.vmCases[v]
		fin := o.final[v]
		strip, isStripped := o.stripped[v]
		var shapes []string
		for tn, where := range fin {
			shapes = append(shapes, fmt.Sprintf("%s (%s)", tn.Name(), where))
		}
		sort.Strings(shapes)
		emitted := len(o.emitted[v]) > 0
		// (c) dead / unused
		if !emitted {
			if cc != nil {
				obs = append(obs, Obligation{Key: name + "|dead case", Pos: c.Pos(cc.Pos()), Status: Info,
					Detail: vmName + " has a case for an opcode the compiler never builds"})
			} else {
				obs = append(obs, Obligation{Key: name + "|unused", Pos: c.Pos(k.Pos()), Status: Info, Detail: "opcode is neither built by the compiler nor handled by the VM"})
			}
			continue
		}
		// (a)
		switch {
		case isStripped && cc == nil:
			obs = append(obs, Obligation{Key: name + "|handled", Pos: c.Pos(k.Pos()), Status: Discharged, Nontrivial: true,
				Detail: "built by the compiler, but never reaches the VM: " + strip})
		case isStripped && cc != nil:
			obs = append(obs, Obligation{Key: name + "|handled", Pos: c.Pos(cc.Pos()), Status: Discharged, Nontrivial: true,
				Detail: "filtered out before execution (" + strip + "); the VM case is dead"})
		case cc == nil:
			obs = append(obs, Obligation{Key: name + "|handled", Pos: c.Pos(o.vmSwitch.Pos()), Status: Violated, Nontrivial: true,
				Detail: fmt.Sprintf("the compiler builds %s with this opcode and nothing filters it out, but %s has no case for it: executing it hits the panicking default", strings.Join(shapes, ", "), vmName)})
			continue
		default:
			obs = append(obs, Obligation{Key: name + "|handled", Pos: c.Pos(cc.Pos()), Status: Discharged,
				Detail: fmt.Sprintf("built as %s; case present in %s", strings.Join(shapes, ", "), vmName)})
		}
		if isStripped {
			continue
		}
		// rewrites whose source struct is not what is emitted
		for _, rw := range o.rewrites {
			if rw.Op != v {
				continue
			}
			for _, b := range o.emitted[v] {
				if b.Struct.Obj() != rw.From.Obj() {
					obs = append(obs, Obligation{Key: fmt.Sprintf("%s|rewrite source|%s", name, b.Struct.Obj().Name()), Pos: rw.Where, Status: Violated, Nontrivial: true,
						Detail: fmt.Sprintf("%s asserts %s for this opcode, but %s is built with it at %s: Compile panics", rw.Fn.name(), rw.From.Obj().Name(), b.Struct.Obj().Name(), b.Where)})
					break
				}
			}
		}
		// (b)
		asserts := o.vmAsserts[v]
		if len(asserts) == 0 {
			obs = append(obs, Obligation{Key: name + "|shape", Pos: c.Pos(cc.Pos()), Status: Discharged,
				Detail: "the VM case asserts no instruction struct (shape-agnostic); final form " + strings.Join(shapes, ", ")})
			continue
		}
		var bad []string
		for tn, pos := range asserts {
			for ftn, where := range fin {
				if ftn != tn {
					bad = append(bad, fmt.Sprintf("the VM asserts %s (%s) but the compiler leaves %s (%s)", tn.Name(), c.Pos(pos), ftn.Name(), where))
				}
			}
		}
		sort.Strings(bad)
		var an []string
		for tn := range asserts {
			an = append(an, tn.Name())
		}
		sort.Strings(an)
		if len(bad) > 0 {
			obs = append(obs, Obligation{Key: name + "|shape", Pos: c.Pos(cc.Pos()), Status: Violated, Nontrivial: true, Detail: strings.Join(bad, "; ")})
			continue
		}
		obs = append(obs, Obligation{Key: name + "|shape", Pos: c.Pos(cc.Pos()), Status: Discharged, Nontrivial: true,
			Detail: fmt.Sprintf("the VM asserts %s; the compiler's final form is %s", strings.Join(an, ","), strings.Join(shapes, ", "))})
	}
	// cases for constants outside the enum cannot exist (type-checked); done
	return obs
}
