package main

import (
	"fmt"
	"go/ast"
	"go/token"
	"go/types"
	"sort"
	"strings"
)

func init() {
	register(&Rule{ID: "R-opcode-shape", Floor: 70, Run: ruleOpcodeShape,
		Doc: "for every opcode: (a) if the compiler can build an instruction with it (composite literals of the instruction structs, through their constructors, including the in-place rewrites that run inside Compile) and it is not filtered out before Compile returns, the VM's instruction dispatch has a case for it — otherwise the VM panics with 'illegal instruction' on a compiled program; (b) the instruction struct the VM asserts in that case is the struct the compiler finally leaves in the function body for that opcode (after the rewrites) — otherwise the assertion panics; (c) cases for opcodes that are never emitted are dead (informational). A rewrite that asserts a struct other than the one emitted for its opcode panics at compile time and is reported under (b)"})
}

type tblOpBuild struct {
	Struct *types.Named
	Where  string
	Fn     *tblFn
	Call   ast.Node
}

type tblOpRewrite struct {
	Op       string // constant value
	From, To *types.Named
	Where    string
	Fn       *tblFn
}

type tblOpModel struct {
	m        *tblModel
	iface    *types.Named
	method   string
	enum     *Enum
	structs  map[*types.TypeName]*types.Var // instruction struct → its opcode field
	vmFn     *tblFn
	vmSwitch *ast.SwitchStmt
	vmParam  types.Object

	emitted   map[string][]tblOpBuild // opcode value → builds outside rewrites
	rewrites  []tblOpRewrite
	stripped  map[string]string // opcode value → why
	problems  []Obligation
	compileFn *tblFn
	postFns   map[*tblFn]int // functions called unconditionally from Compile (order)
	final     map[string]map[*types.TypeName]string
	vmCases   map[string]ast.Node // the clause (or the `if tag == K` statement) that handles the opcode
	vmAsserts map[string]map[*types.TypeName]token.Pos
}

func (o *tblOpModel) name(v string) string {
	if ks := o.enum.ByVal[v]; len(ks) > 0 {
		return ks[0].Name()
	}
	return v
}

func (m *tblModel) opcodeModel() *tblOpModel {
	tblModelMu.Lock()
	if m.opModel != nil {
		defer tblModelMu.Unlock()
		return m.opModel
	}
	tblModelMu.Unlock()
	c := m.c
	o := &tblOpModel{m: m, structs: map[*types.TypeName]*types.Var{}, emitted: map[string][]tblOpBuild{}, stripped: map[string]string{},
		postFns: map[*tblFn]int{}, vmCases: map[string]ast.Node{}, vmAsserts: map[string]map[*types.TypeName]token.Pos{}}
	cp := c.Pkg("homescript/compiler")
	rp := c.Pkg("homescript/runtime")
	// 1. the VM dispatch: a function of package runtime with a parameter whose type is an interface
	// of package compiler, switching on a zero-argument enum-valued method of that parameter.
	// (the instruction may be a parameter or a local of the dispatching function; when several
	// switches qualify, the one with the most clauses is the dispatch)
	for _, fd := range AllFuncDecls(rp) {
		f := m.fnByDecl[fd]
		if f == nil {
			continue
		}
		var g *tblGuard
		ast.Inspect(fd.Body, func(n ast.Node) bool {
			sw, ok := n.(*ast.SwitchStmt)
			if !ok || sw.Tag == nil {
				return true
			}
			en := m.enumOf(rp.TypesInfo.TypeOf(sw.Tag))
			if en == nil || en.Type.Obj().Pkg() != cp.Types {
				return true
			}
			if g == nil {
				g = m.guardFor(f)
			}
			call, ok := g.defOf(sw.Tag).(*ast.CallExpr)
			if !ok || len(call.Args) != 0 {
				return true
			}
			se, ok := ast.Unparen(call.Fun).(*ast.SelectorExpr)
			if !ok {
				return true
			}
			id, ok := ast.Unparen(se.X).(*ast.Ident)
			if !ok {
				return true
			}
			pv, ok := rp.TypesInfo.Uses[id].(*types.Var)
			if !ok {
				return true
			}
			nt, ok := types.Unalias(pv.Type()).(*types.Named)
			if !ok || nt.Obj().Pkg() != cp.Types {
				return true
			}
			if _, isI := nt.Underlying().(*types.Interface); !isI {
				return true
			}
			if o.vmSwitch == nil || len(sw.Body.List) > len(o.vmSwitch.Body.List) {
				o.vmFn, o.vmSwitch, o.vmParam, o.iface, o.method, o.enum = f, sw, pv, nt, se.Sel.Name, en
			}
			return true
		})
	}
	if o.vmSwitch == nil {
		fatalf("anchor unresolved: no function of package runtime dispatches on an enum-valued method of a compiler interface (the VM's instruction switch)")
	}
	it := o.iface.Underlying().(*types.Interface)
	// 2. instruction structs and their opcode field
	for _, nt := range m.allNamed {
		if nt.Obj().Pkg() != cp.Types {
			continue
		}
		st, ok := nt.Underlying().(*types.Struct)
		if !ok || !(types.Implements(nt, it) || types.Implements(types.NewPointer(nt), it)) {
			continue
		}
		sel := types.NewMethodSet(types.NewPointer(nt)).Lookup(cp.Types, o.method)
		if sel == nil {
			continue
		}
		mf := m.fns[sel.Obj().(*types.Func)]
		if mf == nil {
			continue
		}
		var field *types.Var
		ast.Inspect(mf.Decl.Body, func(n ast.Node) bool {
			if rs, ok := n.(*ast.ReturnStmt); ok && len(rs.Results) == 1 {
				if se, ok := ast.Unparen(rs.Results[0]).(*ast.SelectorExpr); ok {
					if s := cp.TypesInfo.Selections[se]; s != nil && s.Kind() == types.FieldVal {
						field, _ = s.Obj().(*types.Var)
					}
				}
			}
			return true
		})
		_ = st
		if field == nil {
			o.problems = append(o.problems, Obligation{Key: "struct " + nt.Obj().Name() + "|opcode field", Pos: c.Pos(mf.Decl.Pos()), Status: Undecided,
				Detail: o.method + "() does not return a field of the struct"})
			continue
		}
		o.structs[nt.Obj()] = field
	}
	if len(o.structs) < 2 {
		fatalf("anchor unresolved: fewer than 2 instruction structs implement %s", tblTypeName(o.iface))
	}
	// 3. Compile and the post-passes it always runs
	o.compileFn = m.fnByDecl[FuncDecl(cp, "Compiler", "Compile")]
	if o.compileFn == nil {
		fatalf("anchor unresolved: compiler.Compiler.Compile")
	}
	o.collectPostFns()
	// 4. build sites
	o.collectBuilds()
	// 5. strips
	o.collectStrips()
	// 6. final shapes
	o.final = map[string]map[*types.TypeName]string{}
	for v, bs := range o.emitted {
		o.final[v] = map[*types.TypeName]string{}
		for _, b := range bs {
			if _, ok := o.final[v][b.Struct.Obj()]; !ok {
				o.final[v][b.Struct.Obj()] = b.Where
			}
		}
	}
	sort.SliceStable(o.rewrites, func(i, j int) bool { return o.postFns[o.rewrites[i].Fn] < o.postFns[o.rewrites[j].Fn] })
	for _, rw := range o.rewrites {
		fs := o.final[rw.Op]
		if fs == nil {
			continue // rewrite of an opcode nobody emits: dead
		}
		if _, ok := fs[rw.From.Obj()]; ok {
			delete(fs, rw.From.Obj())
			fs[rw.To.Obj()] = rw.Where + " (rewrite of " + rw.From.Obj().Name() + ")"
		}
	}
	// 7. the VM's cases
	o.collectVMCases(o.vmFn, o.vmSwitch, o.vmParam, 0)
	tblModelMu.Lock()
	m.opModel = o
	tblModelMu.Unlock()
	return o
}

// collectVMCases: the clauses of the dispatch; a default clause that hands the
// instruction on to another function continues the dispatch in that function's
// switch on the same method (a dispatch split over several functions).
func (o *tblOpModel) collectVMCases(f *tblFn, sw *ast.SwitchStmt, param types.Object, depth int) {
	info := f.Pkg.TypesInfo
	c := o.m.c
	o.collectVMIfCases(f, sw, param)
	for _, cl := range sw.Body.List {
		cc := cl.(*ast.CaseClause)
		var vals []string
		for _, e := range cc.List {
			if k := ConstOf(info, e); k != nil {
				vals = append(vals, k.Val().ExactString())
			} else {
				o.problems = append(o.problems, Obligation{Key: "vm|case " + exprStr(e), Pos: c.Pos(e.Pos()), Status: Undecided, Detail: "case label is not a constant"})
			}
		}
		asserts := map[*types.TypeName]token.Pos{}
		for _, s := range cc.Body {
			o.assertsOn(f, param, s, vals, asserts, 0)
		}
		for _, v := range vals {
			if _, dup := o.vmCases[v]; dup {
				continue
			}
			o.vmCases[v] = cc
			o.vmAsserts[v] = asserts
		}
		if cc.List != nil || depth >= 2 {
			continue
		}
		for _, s := range cc.Body {
			ast.Inspect(s, func(n ast.Node) bool {
				call, ok := n.(*ast.CallExpr)
				if !ok {
					return true
				}
				fn := CalleeOf(info, call)
				if fn == nil {
					return true
				}
				cf := o.m.fns[fn.Origin()]
				if cf == nil || cf == f {
					return true
				}
				sig := cf.Obj.Type().(*types.Signature)
				for i, a := range call.Args {
					id, ok := ast.Unparen(a).(*ast.Ident)
					if !ok || info.Uses[id] != param || i >= sig.Params().Len() {
						continue
					}
					po := sig.Params().At(i)
					g2 := o.m.guardFor(cf)
					var next *ast.SwitchStmt
					ast.Inspect(cf.Decl.Body, func(n ast.Node) bool {
						sw2, ok := n.(*ast.SwitchStmt)
						if !ok || sw2.Tag == nil {
							return true
						}
						if tc, ok := g2.defOf(sw2.Tag).(*ast.CallExpr); ok && len(tc.Args) == 0 {
							if se, ok := ast.Unparen(tc.Fun).(*ast.SelectorExpr); ok && se.Sel.Name == o.method {
								if rid, ok := ast.Unparen(se.X).(*ast.Ident); ok && cf.Pkg.TypesInfo.Uses[rid] == types.Object(po) {
									if next == nil || len(sw2.Body.List) > len(next.Body.List) {
										next = sw2
									}
								}
							}
						}
						// the opcode itself handed over next to the instruction: switch on that parameter
						if tid, ok := g2.defOf(sw2.Tag).(*ast.Ident); ok {
							if j, isParam := tblParamIndex(cf, cf.Pkg.TypesInfo.Uses[tid]); isParam && j >= 0 && j < len(call.Args) && g2.written[cf.Pkg.TypesInfo.Uses[tid]] == 0 {
								if ac, ok := o.m.guardFor(f).defOf(call.Args[j]).(*ast.CallExpr); ok && len(ac.Args) == 0 {
									if se, ok := ast.Unparen(ac.Fun).(*ast.SelectorExpr); ok && se.Sel.Name == o.method {
										if rid, ok := ast.Unparen(se.X).(*ast.Ident); ok && info.Uses[rid] == param {
											if next == nil || len(sw2.Body.List) > len(next.Body.List) {
												next = sw2
											}
										}
									}
								}
							}
						}
						return true
					})
					if next != nil {
						o.collectVMCases(cf, next, po, depth+1)
					}
				}
				return true
			})
		}
	}
}

// collectVMIfCases: opcodes peeled off before the dispatch switch by
// `if tag == K { …; return }` statements (also else-if chains and `||`) in the
// statement list that contains the switch.
func (o *tblOpModel) collectVMIfCases(f *tblFn, sw *ast.SwitchStmt, param types.Object) {
	info := f.Pkg.TypesInfo
	g := o.m.guardFor(f)
	isTag := func(e ast.Expr) bool {
		call, ok := g.defOf(e).(*ast.CallExpr)
		if !ok || len(call.Args) != 0 {
			return false
		}
		se, ok := ast.Unparen(call.Fun).(*ast.SelectorExpr)
		if !ok || se.Sel.Name != o.method {
			return false
		}
		id, ok := ast.Unparen(se.X).(*ast.Ident)
		return ok && info.Uses[id] == param
	}
	var constsOf func(cond ast.Expr) []string
	constsOf = func(cond ast.Expr) []string {
		be, ok := ast.Unparen(cond).(*ast.BinaryExpr)
		if !ok {
			return nil
		}
		switch be.Op {
		case token.LOR:
			a, b := constsOf(be.X), constsOf(be.Y)
			if a == nil || b == nil {
				return nil
			}
			return append(a, b...)
		case token.EQL:
			for _, pr := range [][2]ast.Expr{{be.X, be.Y}, {be.Y, be.X}} {
				if isTag(pr[0]) {
					if k := ConstOf(info, ast.Unparen(pr[1])); k != nil {
						return []string{k.Val().ExactString()}
					}
				}
			}
		}
		return nil
	}
	var stmt ast.Node = sw
	if ls, ok := g.parents[sw].(*ast.LabeledStmt); ok {
		stmt = ls
	}
	blk, ok := g.parents[stmt].(*ast.BlockStmt)
	if !ok {
		return
	}
	for _, s := range blk.List {
		if ast.Node(s) == stmt {
			break
		}
		for is, _ := s.(*ast.IfStmt); is != nil; {
			vals := constsOf(is.Cond)
			if vals != nil && o.m.tblTerminates(info, is.Body.List) {
				asserts := map[*types.TypeName]token.Pos{}
				o.assertsOn(f, param, is.Body, vals, asserts, 0)
				for _, v := range vals {
					if _, dup := o.vmCases[v]; !dup {
						o.vmCases[v] = is
						o.vmAsserts[v] = asserts
					}
				}
			}
			next, _ := is.Else.(*ast.IfStmt)
			is = next
		}
	}
}

// assertsOn: the instruction structs asserted on variable obj inside node, also
// in module functions that node passes obj to (two levels).
func (o *tblOpModel) assertsOn(f *tblFn, obj types.Object, node ast.Node, vals []string, out map[*types.TypeName]token.Pos, depth int) {
	info := f.Pkg.TypesInfo
	ast.Inspect(node, func(n ast.Node) bool {
		switch x := n.(type) {
		case *ast.TypeAssertExpr:
			if x.Type == nil {
				return true
			}
			id, ok := ast.Unparen(x.X).(*ast.Ident)
			if !ok || info.Uses[id] != obj {
				return true
			}
			if depth > 0 {
				// inside a helper: an assertion under the helper's own opcode test for other opcodes is not
				// executed for this clause
				ep := &tblPath{Root: obj, Parts: "." + o.method + "()"}
				ep.Key = tblRootKey(obj) + ep.Parts
				if ft := o.m.guardFor(f).factsAt(x).get(ep); ft != nil {
					any := false
					for _, v := range vals {
						any = any || ft.Allowed[v]
					}
					if !any {
						return true
					}
				}
			}
			if nt, ok := types.Unalias(info.TypeOf(x.Type)).(*types.Named); ok {
				if _, seen := out[nt.Obj()]; !seen {
					out[nt.Obj()] = x.Pos()
				}
			}
		case *ast.CallExpr:
			if depth >= 2 {
				return true
			}
			fn := CalleeOf(info, x)
			if fn == nil {
				return true
			}
			cf := o.m.fns[fn.Origin()]
			if cf == nil || cf == f {
				return true
			}
			sig := fn.Type().(*types.Signature)
			for i, a := range x.Args {
				if id, ok := ast.Unparen(a).(*ast.Ident); ok && info.Uses[id] == obj && i < sig.Params().Len() && !(sig.Variadic() && i >= sig.Params().Len()-1) {
					// the callee's own parameter object (Origin for generics)
					if po := cf.Obj.Type().(*types.Signature).Params().At(i); po != nil {
						o.assertsOn(cf, po, cf.Decl.Body, vals, out, depth+1)
					}
				}
			}
		}
		return true
	})
}

// opcodesAt: the opcode constants expression e can denote at this point.
func (o *tblOpModel) opcodesAt(f *tblFn, e ast.Expr, at ast.Node) (map[string]bool, string) {
	info := f.Pkg.TypesInfo
	e = ast.Unparen(e)
	if k := ConstOf(info, e); k != nil {
		return map[string]bool{k.Val().ExactString(): true}, ""
	}
	if tv, ok := info.Types[e]; ok && tv.Value != nil {
		return map[string]bool{tv.Value.ExactString(): true}, ""
	}
	g := o.m.guardFor(f)
	// what the guards in force allow (x.Opcode() under a case of switch x.Opcode(); `if op != K`)
	var allowed map[string]bool
	if p := g.pathOf(e); p != nil {
		if ft := g.factsAt(at).get(p); ft != nil {
			allowed = ft.Allowed
		}
	}
	// what can be stored there: the constants assigned / returned / held by the tables it is read from
	prod, why := o.opcodeProducers(f, e)
	if prod == nil {
		if ts := o.m.origin().constValues(f, e); ts.unknown == "" && len(ts.consts) > 0 {
			prod = map[string]bool{}
			for v := range ts.consts {
				prod[v] = true
			}
		} else if ts.unknown != "" && why == "" {
			why = ts.unknown
		}
	}
	switch {
	case prod != nil && allowed != nil:
		out := map[string]bool{}
		for v := range prod {
			if allowed[v] {
				out[v] = true
			}
		}
		return out, ""
	case prod != nil:
		return prod, ""
	case allowed != nil:
		return allowed, "" // nothing known about the producers (an instruction in hand): the guard alone
	}
	if why == "" {
		why = "cannot reduce " + exprStr(e) + " to opcode constants"
	}
	return nil, why
}

// opcodeProducers: the opcode constants a local variable / call result / table
// lookup can yield (flow-insensitive).
func (o *tblOpModel) opcodeProducers(f *tblFn, e ast.Expr) (map[string]bool, string) {
	info := f.Pkg.TypesInfo
	// local variable: every constant assigned to it in the function (flow-insensitive)
	if id, ok := e.(*ast.Ident); ok {
		obj := info.Uses[id]
		if v, ok := obj.(*types.Var); ok && v.Parent() != nil && v.Pkg() != nil && v.Parent() != v.Pkg().Scope() && !v.IsField() {
			if _, isParam := tblParamIndex(f, v); !isParam {
				set := map[string]bool{}
				bad := ""
				note := func(rhs ast.Expr) {
					if tv, ok := info.Types[rhs]; ok && tv.Value != nil {
						set[tv.Value.ExactString()] = true
						return
					}
					// a lookup in a constant table (a missing map key yields the zero value)
					if ix, ok := ast.Unparen(rhs).(*ast.IndexExpr); ok {
						if vals, _ := o.m.tableValues(f, ix.X, 0); vals != nil {
							for v := range vals {
								set[v] = true
							}
							if _, isMap := types.Unalias(info.TypeOf(ix.X)).Underlying().(*types.Map); isMap {
								set["0"] = true
							}
							return
						}
					}
					// the result of a module function that returns constants only
					if call, ok := ast.Unparen(rhs).(*ast.CallExpr); ok {
						if fn := CalleeOf(info, call); fn != nil {
							if cf := o.m.fns[fn.Origin()]; cf != nil && cf != f && fn.Type().(*types.Signature).Results().Len() == 1 {
								if ks, why := o.m.constResultsAt(cf, 0, 0); why == "" && len(ks) > 0 {
									for _, k := range ks {
										set[k.Val().ExactString()] = true
									}
									return
								}
							}
						}
					}
					bad = exprStr(rhs)
				}
				ast.Inspect(f.Decl.Body, func(n ast.Node) bool {
					switch x := n.(type) {
					case *ast.AssignStmt:
						for i, l := range x.Lhs {
							lid, ok := ast.Unparen(l).(*ast.Ident)
							if !ok {
								continue
							}
							lo := info.Defs[lid]
							if lo == nil {
								lo = info.Uses[lid]
							}
							if lo != obj {
								continue
							}
							if len(x.Lhs) == len(x.Rhs) && (x.Tok == token.ASSIGN || x.Tok == token.DEFINE) {
								note(x.Rhs[i])
							} else if _, isIdx := ast.Unparen(x.Rhs[0]).(*ast.IndexExpr); isIdx && i == 0 && len(x.Rhs) == 1 && len(x.Lhs) == 2 {
								note(x.Rhs[0]) // v, ok := table[k]
							} else if call, isCall := ast.Unparen(x.Rhs[0]).(*ast.CallExpr); isCall && len(x.Rhs) == 1 {
								// a, b := f(…): the constants f returns in that position
								noted := false
								if fn := CalleeOf(info, call); fn != nil {
									if cf := o.m.fns[fn.Origin()]; cf != nil && cf != f {
										if ks, why := o.m.constResultsAt(cf, i, 0); why == "" && len(ks) > 0 {
											for _, k := range ks {
												set[k.Val().ExactString()] = true
											}
											noted = true
										}
									}
								}
								if !noted {
									bad = "result of " + exprStr(call.Fun)
								}
							} else {
								bad = "multi-value assignment"
							}
						}
					case *ast.ValueSpec:
						for i, nm := range x.Names {
							if info.Defs[nm] == obj {
								if i < len(x.Values) {
									note(x.Values[i])
								} else {
									set["0"] = true
								}
							}
						}
					case *ast.UnaryExpr:
						if x.Op == token.AND {
							if r := tblRootObj(info, x.X); r == obj {
								bad = "address taken"
							}
						}
					}
					return true
				})
				if bad == "" && len(set) > 0 {
					return set, ""
				}
				return nil, "variable " + id.Name + " is assigned the non-constant " + bad
			}
		}
	}
	// f(…): the constants a module function returns
	if call, ok := e.(*ast.CallExpr); ok {
		if fn := CalleeOf(info, call); fn != nil {
			if cf := o.m.fns[fn.Origin()]; cf != nil && cf != f && fn.Type().(*types.Signature).Results().Len() == 1 {
				if ks, why := o.m.constResultsAt(cf, 0, 0); why == "" && len(ks) > 0 {
					set := map[string]bool{}
					for _, k := range ks {
						set[k.Val().ExactString()] = true
					}
					return set, ""
				}
			}
		}
	}
	// table[key]: any value of a constant table
	if ix, ok := e.(*ast.IndexExpr); ok {
		if set, why := o.m.tableValues(f, ix.X, 0); set != nil {
			if _, isMap := types.Unalias(info.TypeOf(ix.X)).Underlying().(*types.Map); isMap {
				set["0"] = true
			}
			return set, ""
		} else if why != "" {
			return nil, why
		}
	}
	return nil, "cannot reduce " + exprStr(e) + " to opcode constants"
}

func (o *tblOpModel) collectBuilds() {
	m := o.m
	c := m.c
	type ctor struct {
		fn     *tblFn
		param  int
		strct  *types.Named
		fixed  map[string]bool
		reason string
	}
	ctors := map[*tblFn][]ctor{}
	addEmit := func(vals map[string]bool, b tblOpBuild) {
		for v := range vals {
			o.emitted[v] = append(o.emitted[v], b)
		}
	}
	// every composite literal of an instruction struct in the module
	for _, p := range c.All {
		info := p.TypesInfo
		for _, fd := range AllFuncDecls(p) {
			f := m.fnByDecl[fd]
			if f == nil {
				continue
			}
			ast.Inspect(fd.Body, func(n ast.Node) bool {
				cl, ok := n.(*ast.CompositeLit)
				if !ok {
					return true
				}
				nt, ok := types.Unalias(info.TypeOf(cl)).(*types.Named)
				if !ok {
					return true
				}
				field := o.structs[nt.Obj()]
				if field == nil {
					return true
				}
				val := tblFieldValueInLit(info, cl, field, 0)
				key := fmt.Sprintf("build|%s|%s literal", f.name(), nt.Obj().Name())
				if val == nil {
					// zero opcode
					addEmit(map[string]bool{"0": true}, tblOpBuild{Struct: nt, Where: c.Pos(cl.Pos()), Fn: f, Call: cl})
					return true
				}
				if id, ok := ast.Unparen(val).(*ast.Ident); ok {
					if idx, isParam := tblParamIndex(f, info.Uses[id]); isParam && idx >= 0 {
						ctors[f] = append(ctors[f], ctor{fn: f, param: idx, strct: nt})
						return true
					}
				}
				vals, why := o.opcodesAt(f, val, cl)
				if vals == nil {
					o.problems = append(o.problems, Obligation{Key: key, Pos: c.Pos(cl.Pos()), Status: Undecided, Detail: why})
					return true
				}
				// a literal written over the visited element of an instruction slice is a rewrite, like a
				// constructor call in that position
				if rw, ok := o.asRewrite(f, cl, vals, nt); ok {
					o.rewrites = append(o.rewrites, rw...)
					return true
				}
				addEmit(vals, tblOpBuild{Struct: nt, Where: c.Pos(cl.Pos()), Fn: f, Call: cl})
				return true
			})
		}
	}
	// constructor call sites (a constructor that forwards its opcode parameter to another constructor
	// is a constructor too)
	var work []ctor
	{
		var fs []*tblFn
		for f := range ctors {
			fs = append(fs, f)
		}
		sort.Slice(fs, func(i, j int) bool { return fs[i].name() < fs[j].name() })
		for _, cf := range fs {
			work = append(work, ctors[cf]...)
		}
	}
	seen := map[string]int{}
	queued := map[string]bool{}
	for len(work) > 0 {
		ct := work[0]
		work = work[1:]
		cf := ct.fn
		for _, u := range m.uses[cf.Obj] {
			if u.Call == nil || u.In == nil {
				o.problems = append(o.problems, Obligation{Key: tblUniq(seen, "build|"+cf.name()+" used as a value"), Pos: c.Pos(u.Ident.Pos()), Status: Undecided,
					Detail: "instruction constructor used other than by a direct call"})
				continue
			}
			if ct.param >= len(u.Call.Args) {
				continue
			}
			arg := u.Call.Args[ct.param]
			if id, ok := ast.Unparen(arg).(*ast.Ident); ok {
				if idx, isParam := tblParamIndex(u.In, u.In.Pkg.TypesInfo.Uses[id]); isParam && idx >= 0 && o.m.guardFor(u.In).written[u.In.Pkg.TypesInfo.Uses[id]] == 0 {
					k := fmt.Sprintf("%s|%d|%s", u.In.name(), idx, ct.strct.Obj().Name())
					if !queued[k] && len(queued) < 64 {
						queued[k] = true
						work = append(work, ctor{fn: u.In, param: idx, strct: ct.strct})
					}
					continue
				}
			}
			vals, why := o.opcodesAt(u.In, arg, u.Call)
			if vals == nil {
				o.problems = append(o.problems, Obligation{Key: tblUniq(seen, fmt.Sprintf("build|%s|%s(%s)", u.In.name(), cf.Decl.Name.Name, exprStr(arg))), Pos: c.Pos(u.Call.Pos()), Status: Undecided, Detail: why})
				continue
			}
			b := tblOpBuild{Struct: ct.strct, Where: c.Pos(u.Call.Pos()), Fn: u.In, Call: u.Call}
			if rw, ok := o.asRewrite(u.In, u.Call, vals, ct.strct); ok {
				o.rewrites = append(o.rewrites, rw...)
				continue
			}
			addEmit(vals, b)
		}
	}
}

// tblFieldValueInLit: the expression a composite literal gives to struct field
// `field`, also when the field belongs to a struct embedded (or nested by
// value) in the literal's type and is set through a nested literal; nil when
// the literal leaves it zero (or sets it in a way that cannot be followed).
func tblFieldValueInLit(info *types.Info, cl *ast.CompositeLit, field *types.Var, depth int) ast.Expr {
	t := types.Unalias(info.TypeOf(cl))
	if p, ok := t.(*types.Pointer); ok {
		t = types.Unalias(p.Elem())
	}
	st, ok := t.Underlying().(*types.Struct)
	if !ok || depth > 2 {
		return nil
	}
	for i, el := range cl.Elts {
		var fv *types.Var
		val := el
		if kv, ok := el.(*ast.KeyValueExpr); ok {
			val = kv.Value
			if id, ok := kv.Key.(*ast.Ident); ok {
				for j := 0; j < st.NumFields(); j++ {
					if st.Field(j).Name() == id.Name {
						fv = st.Field(j)
					}
				}
			}
		} else if i < st.NumFields() {
			fv = st.Field(i)
		}
		if fv == nil {
			continue
		}
		if fv == field {
			return val
		}
		if inner, ok := ast.Unparen(val).(*ast.CompositeLit); ok {
			if v := tblFieldValueInLit(info, inner, field, depth+1); v != nil {
				return v
			}
		}
	}
	return nil
}

// collectPostFns: the functions Compile runs on every compilation, in order:
// those it calls in a statement that is not under a condition (loops are
// fine: "for every function of every module"), and, transitively, the
// functions these call in the same way. The number is the visiting order
// (statement order, depth first), i.e. the order in which the passes run.
func (o *tblOpModel) collectPostFns() {
	cnt := 0
	var visit func(f *tblFn, depth int)
	var scan func(f *tblFn, n ast.Node, depth int)
	scan = func(f *tblFn, n ast.Node, depth int) {
		if n == nil || tblNilNode(n) {
			return
		}
		info := f.Pkg.TypesInfo
		ast.Inspect(n, func(n ast.Node) bool {
			switch x := n.(type) {
			case *ast.FuncLit, *ast.SwitchStmt, *ast.TypeSwitchStmt, *ast.SelectStmt, *ast.GoStmt:
				return false
			case *ast.IfStmt:
				// the init statement and the condition always run; the branches do not
				scan(f, x.Init, depth)
				scan(f, x.Cond, depth)
				return false
			case *ast.BinaryExpr:
				if x.Op == token.LAND || x.Op == token.LOR {
					scan(f, x.X, depth)
					return false
				}
			case *ast.CallExpr:
				if fn := CalleeOf(info, x); fn != nil {
					if cf := o.m.fns[fn.Origin()]; cf != nil && cf.Pkg == o.compileFn.Pkg {
						visit(cf, depth+1)
					}
				}
			}
			return true
		})
	}
	visit = func(f *tblFn, depth int) {
		if _, ok := o.postFns[f]; ok || depth > 3 {
			return
		}
		cnt++
		o.postFns[f] = cnt
		for _, s := range f.Decl.Body.List {
			scan(f, s, depth)
			// statements below a conditional exit run only on some compilations; passes still count
			// (a compile error aborts the whole compilation), so do not stop here
		}
	}
	for _, s := range o.compileFn.Decl.Body.List {
		scan(o.compileFn, s, 0)
	}
}

// tblShallow visits the nodes of a statement that are evaluated whenever the
// statement runs (not the bodies of nested control statements or closures).
func tblShallow(s ast.Node, fn func(ast.Node)) {
	ast.Inspect(s, func(n ast.Node) bool {
		switch n.(type) {
		case *ast.BlockStmt, *ast.CaseClause, *ast.CommClause, *ast.FuncLit:
			if n != s {
				return false
			}
		}
		if n != nil {
			fn(n)
		}
		return true
	})
}

// tblLoopVarOf: the enclosing loop statements of n inside f, innermost first,
// stopping at a closure boundary.
func tblEnclosingLoops(g *tblGuard, n ast.Node) []ast.Stmt {
	var out []ast.Stmt
	for p := g.parents[n]; p != nil; p = g.parents[p] {
		switch x := p.(type) {
		case *ast.FuncLit:
			return out
		case *ast.RangeStmt:
			out = append(out, x)
		case *ast.ForStmt:
			out = append(out, x)
		}
	}
	return out
}

// assertedInCallee: the call passes an instruction to a module function; the
// instruction struct that function (or one it forwards the instruction to)
// asserts on that parameter.
func (o *tblOpModel) assertedInCallee(f *tblFn, call *ast.CallExpr, depth int) *types.Named {
	info := f.Pkg.TypesInfo
	fn := CalleeOf(info, call)
	if fn == nil || depth > 1 {
		return nil
	}
	cf := o.m.fns[fn.Origin()]
	if cf == nil || cf == f {
		return nil
	}
	sig := cf.Obj.Type().(*types.Signature)
	var from *types.Named
	for i, a := range call.Args {
		if i >= sig.Params().Len() || (sig.Variadic() && i >= sig.Params().Len()-1) {
			break
		}
		at, ok := types.Unalias(info.TypeOf(a)).(*types.Named)
		if !ok || at.Obj() != o.iface.Obj() {
			continue
		}
		po := sig.Params().At(i)
		cinfo := cf.Pkg.TypesInfo
		ast.Inspect(cf.Decl.Body, func(n ast.Node) bool {
			switch x := n.(type) {
			case *ast.FuncLit:
				return false
			case *ast.TypeAssertExpr:
				if x.Type == nil {
					return true
				}
				if id, ok := ast.Unparen(x.X).(*ast.Ident); ok && cinfo.Uses[id] == types.Object(po) {
					if nt, ok := types.Unalias(cinfo.TypeOf(x.Type)).(*types.Named); ok && o.structs[nt.Obj()] != nil && from == nil {
						from = nt
					}
				}
			case *ast.CallExpr:
				if from == nil {
					for _, a2 := range x.Args {
						if id, ok := ast.Unparen(a2).(*ast.Ident); ok && cinfo.Uses[id] == types.Object(po) {
							if nt := o.assertedInCallee(cf, x, depth+1); nt != nil {
								from = nt
							}
						}
					}
				}
			}
			return true
		})
	}
	return from
}

// asRewrite: the built instruction (constructor call or literal) replaces, in
// place, the element of an instruction slice at the index the enclosing loop
// is visiting, in a function that Compile always runs. The struct the pass
// expects to find there is the one it asserts on an instruction on the way to
// the store (same iteration).
func (o *tblOpModel) asRewrite(f *tblFn, built ast.Expr, vals map[string]bool, to *types.Named) ([]tblOpRewrite, bool) {
	info := f.Pkg.TypesInfo
	g := o.m.guardFor(f)
	// the built value may be wrapped in parentheses / a conversion to the interface
	var cur ast.Node = built
	for {
		p := g.parents[cur]
		if pe, ok := p.(*ast.ParenExpr); ok {
			cur = pe
			continue
		}
		if ce, ok := p.(*ast.CallExpr); ok && len(ce.Args) == 1 && ce.Args[0] == cur {
			if tv, has := info.Types[ce.Fun]; has && tv.IsType() {
				cur = ce
				continue
			}
		}
		break
	}
	as, ok := g.parents[cur].(*ast.AssignStmt)
	if !ok || as.Tok != token.ASSIGN || len(as.Lhs) != len(as.Rhs) {
		return nil, false
	}
	var lhs ast.Expr
	for i, r := range as.Rhs {
		if ast.Node(r) == cur {
			lhs = as.Lhs[i]
		}
	}
	if lhs == nil {
		return nil, false
	}
	ix, ok := ast.Unparen(lhs).(*ast.IndexExpr)
	if !ok || !o.isInstrSlice(info.TypeOf(ix.X)) {
		return nil, false
	}
	idxId, ok := ast.Unparen(ix.Index).(*ast.Ident)
	if !ok {
		return nil, false
	}
	idxObj := info.Uses[idxId]
	// the loop whose induction variable is the index
	var loop ast.Stmt
	for _, l := range tblEnclosingLoops(g, as) {
		switch x := l.(type) {
		case *ast.RangeStmt:
			if kid, ok := x.Key.(*ast.Ident); ok && x.Tok == token.DEFINE && info.Defs[kid] != nil && info.Defs[kid] == idxObj {
				t := info.TypeOf(x.X)
				if b, isB := types.Unalias(t).Underlying().(*types.Basic); o.isInstrSlice(t) || (isB && b.Info()&types.IsInteger != 0) {
					loop = x
				}
			}
		case *ast.ForStmt:
			if init, ok := x.Init.(*ast.AssignStmt); ok && init.Tok == token.DEFINE {
				for _, l := range init.Lhs {
					if id, ok := l.(*ast.Ident); ok && info.Defs[id] != nil && info.Defs[id] == idxObj {
						loop = x
					}
				}
			}
		}
		if loop != nil {
			break
		}
	}
	if loop == nil {
		return nil, false
	}
	// the struct asserted on an instruction on the way to the store: nearest first
	var from *types.Named
	look := func(s ast.Node) {
		tblShallow(s, func(n ast.Node) {
			ta, ok := n.(*ast.TypeAssertExpr)
			if !ok || ta.Type == nil {
				return
			}
			xt, ok := types.Unalias(info.TypeOf(ta.X)).(*types.Named)
			if !ok || xt.Obj() != o.iface.Obj() {
				return
			}
			if nt, ok := types.Unalias(info.TypeOf(ta.Type)).(*types.Named); ok && o.structs[nt.Obj()] != nil {
				from = nt
			}
		})
	}
	for ch, pa := ast.Node(as), g.parents[as]; pa != nil && from == nil; ch, pa = pa, g.parents[pa] {
		var list []ast.Stmt
		switch x := pa.(type) {
		case *ast.BlockStmt:
			list = x.List
		case *ast.CaseClause:
			list = x.Body
		case *ast.IfStmt:
			if x.Init != nil && ch != ast.Node(x.Init) {
				look(x.Init)
			}
		}
		at := -1
		for i, st := range list {
			if ast.Node(st) == ch {
				at = i
			}
		}
		if ch == ast.Node(as) {
			look(as)
		}
		for i := at - 1; i >= 0 && from == nil; i-- {
			look(list[i])
		}
		if pa == ast.Node(loop) {
			break
		}
	}
	if from == nil {
		// the old instruction is handed to the helper that builds the new one: the struct that helper
		// asserts on it
		if call, ok := ast.Unparen(built).(*ast.CallExpr); ok {
			from = o.assertedInCallee(f, call, 0)
		}
	}
	if from == nil {
		return nil, false
	}
	if o.postFns[f] == 0 {
		var ns []string
		for v := range vals {
			ns = append(ns, o.name(v))
		}
		sort.Strings(ns)
		o.problems = append(o.problems, Obligation{Key: "rewrite|" + f.name() + "|" + strings.Join(ns, ",") + "|not called from Compile", Pos: o.m.c.Pos(built.Pos()), Status: Undecided,
			Detail: "an in-place instruction rewrite lives in a function that Compile does not run unconditionally"})
		return nil, false
	}
	var out []tblOpRewrite
	for v := range vals {
		out = append(out, tblOpRewrite{Op: v, From: from, To: to, Where: o.m.c.Pos(built.Pos()), Fn: f})
	}
	sort.Slice(out, func(i, j int) bool { return out[i].Op < out[j].Op })
	return out, true
}

func (o *tblOpModel) isInstrSlice(t types.Type) bool {
	if t == nil {
		return false
	}
	sl, ok := types.Unalias(t).Underlying().(*types.Slice)
	if !ok {
		return false
	}
	nt, ok := types.Unalias(sl.Elem()).(*types.Named)
	return ok && nt.Obj() == o.iface.Obj()
}

// collectStrips: in a function Compile always runs, an output instruction
// slice is filled only by `out = append(out, x)` inside loops, where x is an
// instruction whose opcode is known (from the guards in force at the append)
// to differ from K, and the output slice then replaces an instruction-slice
// field (directly, or by being returned to a caller that stores it in one):
// instructions with opcode K are filtered out of the function body.
func (o *tblOpModel) collectStrips() {
	var fs []*tblFn
	for f := range o.postFns {
		fs = append(fs, f)
	}
	sort.Slice(fs, func(i, j int) bool { return o.postFns[fs[i]] < o.postFns[fs[j]] })
	for _, f := range fs {
		info := f.Pkg.TypesInfo
		g := o.m.guardFor(f)
		type app struct {
			call *ast.CallExpr
			elem types.Object // nil: something other than a plain instruction variable is appended
		}
		apps := map[types.Object][]app{}
		inLoop := func(n ast.Node) bool { return len(tblEnclosingLoops(g, n)) > 0 }
		ast.Inspect(f.Decl.Body, func(n ast.Node) bool {
			as, ok := n.(*ast.AssignStmt)
			if !ok {
				return true
			}
			for i, l := range as.Lhs {
				did, ok := ast.Unparen(l).(*ast.Ident)
				if !ok || !o.isInstrSlice(info.TypeOf(l)) {
					continue
				}
				dst := info.Uses[did]
				if dst == nil {
					dst = info.Defs[did]
				}
				if dst == nil || len(as.Lhs) != len(as.Rhs) {
					continue
				}
				call, ok := ast.Unparen(as.Rhs[i]).(*ast.CallExpr)
				if !ok {
					continue
				}
				fid, ok := ast.Unparen(call.Fun).(*ast.Ident)
				if !ok {
					continue
				}
				if b, isB := info.Uses[fid].(*types.Builtin); !isB || b.Name() != "append" || len(call.Args) < 1 {
					continue
				}
				if bid, ok := ast.Unparen(call.Args[0]).(*ast.Ident); !ok || info.Uses[bid] != dst {
					continue
				}
				if len(call.Args) == 1 {
					continue
				}
				a := app{call: call}
				if len(call.Args) == 2 && !call.Ellipsis.IsValid() && inLoop(as) {
					if aid, ok := ast.Unparen(call.Args[1]).(*ast.Ident); ok {
						if v, isVar := info.Uses[aid].(*types.Var); isVar {
							if nt, ok := types.Unalias(v.Type()).(*types.Named); ok && nt.Obj() == o.iface.Obj() {
								a.elem = v
							}
						}
					}
				}
				apps[dst] = append(apps[dst], a)
			}
			return true
		})
		var dsts []types.Object
		for d := range apps {
			dsts = append(dsts, d)
		}
		sort.Slice(dsts, func(i, j int) bool { return dsts[i].Pos() < dsts[j].Pos() })
		for _, dst := range dsts {
			as := apps[dst]
			filtered := true
			for _, a := range as {
				if a.elem == nil {
					filtered = false
				}
			}
			if !filtered || !o.replacesBody(f, dst, as[0].call.Pos(), 0) {
				continue
			}
			// what is known about x.Opcode() where x is appended: the opcodes excluded at every append
			var excluded map[string]bool
			why := ""
			for _, a := range as {
				ep := &tblPath{Root: a.elem, Parts: "." + o.method + "()"}
				ep.Key = tblRootKey(a.elem) + ep.Parts
				ft := g.factsAt(a.call).get(ep)
				ex := map[string]bool{}
				if ft != nil {
					for v := range o.enum.ByVal {
						if !ft.Allowed[v] {
							ex[v] = true
						}
					}
					if why == "" {
						why = ft.Why
					}
				}
				if excluded == nil {
					excluded = ex
				} else {
					for v := range excluded {
						if !ex[v] {
							delete(excluded, v)
						}
					}
				}
			}
			for v := range excluded {
				if _, done := o.stripped[v]; !done {
					o.stripped[v] = fmt.Sprintf("%s copies an instruction to the function body only when %s", f.name(), why)
				}
			}
		}
	}
}

// replacesBody: after position `after`, the local slice dst is stored into an
// instruction-slice field, or returned to callers that all store that result
// into one.
func (o *tblOpModel) replacesBody(f *tblFn, dst types.Object, after token.Pos, depth int) bool {
	info := f.Pkg.TypesInfo
	replaced := false
	retIdx := -1
	ast.Inspect(f.Decl.Body, func(n ast.Node) bool {
		switch x := n.(type) {
		case *ast.FuncLit:
			return false
		case *ast.AssignStmt:
			if x.Pos() < after || len(x.Lhs) != len(x.Rhs) {
				return true
			}
			for i, r := range x.Rhs {
				if rid, ok := ast.Unparen(r).(*ast.Ident); ok && info.Uses[rid] == dst {
					if _, isSel := ast.Unparen(x.Lhs[i]).(*ast.SelectorExpr); isSel && o.isInstrSlice(info.TypeOf(x.Lhs[i])) {
						replaced = true
					}
				}
			}
		case *ast.ReturnStmt:
			if x.Pos() < after {
				return true
			}
			for i, r := range x.Results {
				if rid, ok := ast.Unparen(r).(*ast.Ident); ok && info.Uses[rid] == dst {
					retIdx = i
				}
			}
		}
		return true
	})
	if replaced {
		return true
	}
	if retIdx < 0 || depth > 1 {
		return false
	}
	if closed, _ := o.m.reach().isClosed(f.Obj); !closed {
		return false
	}
	uses := o.m.uses[f.Obj]
	if len(uses) == 0 {
		return false
	}
	for _, u := range uses {
		if u.Call == nil || u.In == nil {
			return false
		}
		g := o.m.guardFor(u.In)
		as, ok := g.parents[u.Call].(*ast.AssignStmt)
		if !ok || len(as.Rhs) != 1 || retIdx >= len(as.Lhs) {
			return false
		}
		l := ast.Unparen(as.Lhs[retIdx])
		if !o.isInstrSlice(u.In.Pkg.TypesInfo.TypeOf(l)) {
			return false
		}
		if _, isSel := l.(*ast.SelectorExpr); isSel {
			continue
		}
		// stored in a local of the caller that then replaces a field
		id, ok := l.(*ast.Ident)
		if !ok {
			return false
		}
		lo := u.In.Pkg.TypesInfo.Uses[id]
		if lo == nil {
			lo = u.In.Pkg.TypesInfo.Defs[id]
		}
		if lo == nil || !o.replacesBody(u.In, lo, as.End(), depth+1) {
			return false
		}
	}
	return true
}

func ruleOpcodeShape(c *Ctx) []Obligation {
	m := tblModelOf(c)
	o := m.opcodeModel()
	var obs []Obligation
	obs = append(obs, o.problems...)
	vmName := o.vmFn.name()
	for _, k := range o.enum.Consts {
		v := k.Val().ExactString()
		if o.enum.ByVal[v][0] != k {
			continue
		}
		name := k.Name()
		cc := o.vmCases[v]
		fin := o.final[v]
		strip, isStripped := o.stripped[v]
		var shapes []string
		for tn, where := range fin {
			shapes = append(shapes, fmt.Sprintf("%s (%s)", tn.Name(), where))
		}
		sort.Strings(shapes)
		emitted := len(o.emitted[v]) > 0
		// (c) dead / unused
		if !emitted {
			if cc != nil {
				obs = append(obs, Obligation{Key: name + "|dead case", Pos: c.Pos(cc.Pos()), Status: Info,
					Detail: vmName + " has a case for an opcode the compiler never builds"})
			} else {
				obs = append(obs, Obligation{Key: name + "|unused", Pos: c.Pos(k.Pos()), Status: Info, Detail: "opcode is neither built by the compiler nor handled by the VM"})
			}
			continue
		}
		// (a)
		switch {
		case isStripped && cc == nil:
			obs = append(obs, Obligation{Key: name + "|handled", Pos: c.Pos(k.Pos()), Status: Discharged, Nontrivial: true,
				Detail: "built by the compiler, but never reaches the VM: " + strip})
		case isStripped && cc != nil:
			obs = append(obs, Obligation{Key: name + "|handled", Pos: c.Pos(cc.Pos()), Status: Discharged, Nontrivial: true,
				Detail: "filtered out before execution (" + strip + "); the VM case is dead"})
		case cc == nil:
			obs = append(obs, Obligation{Key: name + "|handled", Pos: c.Pos(o.vmSwitch.Pos()), Status: Violated, Nontrivial: true,
				Detail: fmt.Sprintf("the compiler builds %s with this opcode and nothing filters it out, but %s has no case for it: executing it hits the panicking default", strings.Join(shapes, ", "), vmName)})
			continue
		default:
			obs = append(obs, Obligation{Key: name + "|handled", Pos: c.Pos(cc.Pos()), Status: Discharged,
				Detail: fmt.Sprintf("built as %s; case present in %s", strings.Join(shapes, ", "), vmName)})
		}
		if isStripped {
			continue
		}
		// rewrites whose source struct is not what is emitted
		for _, rw := range o.rewrites {
			if rw.Op != v {
				continue
			}
			for _, b := range o.emitted[v] {
				if b.Struct.Obj() != rw.From.Obj() {
					obs = append(obs, Obligation{Key: fmt.Sprintf("%s|rewrite source|%s", name, b.Struct.Obj().Name()), Pos: rw.Where, Status: Violated, Nontrivial: true,
						Detail: fmt.Sprintf("%s asserts %s for this opcode, but %s is built with it at %s: Compile panics", rw.Fn.name(), rw.From.Obj().Name(), b.Struct.Obj().Name(), b.Where)})
					break
				}
			}
		}
		// (b)
		asserts := o.vmAsserts[v]
		if len(asserts) == 0 {
			obs = append(obs, Obligation{Key: name + "|shape", Pos: c.Pos(cc.Pos()), Status: Discharged,
				Detail: "the VM case asserts no instruction struct (shape-agnostic); final form " + strings.Join(shapes, ", ")})
			continue
		}
		var bad []string
		for tn, pos := range asserts {
			for ftn, where := range fin {
				if ftn != tn {
					bad = append(bad, fmt.Sprintf("the VM asserts %s (%s) but the compiler leaves %s (%s)", tn.Name(), c.Pos(pos), ftn.Name(), where))
				}
			}
		}
		sort.Strings(bad)
		var an []string
		for tn := range asserts {
			an = append(an, tn.Name())
		}
		sort.Strings(an)
		if len(bad) > 0 {
			obs = append(obs, Obligation{Key: name + "|shape", Pos: c.Pos(cc.Pos()), Status: Violated, Nontrivial: true, Detail: strings.Join(bad, "; ")})
			continue
		}
		obs = append(obs, Obligation{Key: name + "|shape", Pos: c.Pos(cc.Pos()), Status: Discharged, Nontrivial: true,
			Detail: fmt.Sprintf("the VM asserts %s; the compiler's final form is %s", strings.Join(an, ","), strings.Join(shapes, ", "))})
	}
	// cases for constants outside the enum cannot exist (type-checked); done
	return obs
}
