package main

import (
	"fmt"
	"go/ast"
	"go/token"
	"go/types"
	"sort"
	"strings"
)

func init() {
	register(&Rule{ID: "R-stack-effect", Floor: 40, Run: ruleVMStackEffect,
		Doc: "for every opcode case of the VM's instruction dispatcher, all paths that complete normally (reach the common exit / return nil) have the same net operand-stack effect (+1 per call of the method that appends to Core.Stack, -1 per call of the method that shrinks it; a loop whose every iteration has the same non-zero effect d contributes d*tripcount symbolically; a push guarded by a nil/null test of the pushed value contributes the indicator [value!=null]; paths that transfer control to a callee frame are compared among themselves). Paths returning a non-nil interrupt or panicking are exempt. Necessary for C01/C16: the compiler emits code against ONE effect per opcode; an opcode with two effects leaves a residue (or underflows) on one of its paths"})
}

// vmLin is a linear expression over symbols: c + Σ coef·sym.
type vmLin struct {
	c int
	t map[string]int
}

func (l vmLin) add(o vmLin) vmLin {
	n := vmLin{c: l.c + o.c, t: map[string]int{}}
	for k, v := range l.t {
		n.t[k] += v
	}
	for k, v := range o.t {
		n.t[k] += v
	}
	for k, v := range n.t {
		if v == 0 {
			delete(n.t, k)
		}
	}
	return n
}

func (l vmLin) isConst() bool { return len(l.t) == 0 }

func (l vmLin) String() string {
	var keys []string
	for k := range l.t {
		keys = append(keys, k)
	}
	sort.Strings(keys)
	s := fmt.Sprintf("%+d", l.c)
	if l.c == 0 && len(keys) > 0 {
		s = ""
	}
	for _, k := range keys {
		v := l.t[k]
		switch {
		case v == 1:
			s += " + " + k
		case v == -1:
			s += " - " + k
		case v > 0:
			s += fmt.Sprintf(" + %d*%s", v, k)
		default:
			s += fmt.Sprintf(" - %d*%s", -v, k)
		}
	}
	s = strings.TrimSpace(s)
	if s == "" {
		s = "0"
	}
	if s == "+0" {
		s = "0"
	}
	return s
}

type vmSymLoop struct {
	d   int
	sym string
}
type vmIndicator struct{ text string }

// vmVMRoles: anchors of the VM resolved by role.
type vmVMRoles struct {
	c         *Ctx
	fns       []*vmFn
	dispatch  *vmFn // the *Core method switching over compiler.Opcode
	dispSw    *ast.SwitchStmt
	opEnum    *Enum
	stack     *vmStackRoles // Core.Stack
	callStack *vmStackRoles // Core.CallStack
	run       *vmFn
}

var vmRolesCache = map[*Ctx]*vmVMRoles{}

func vmRoles(c *Ctx) *vmVMRoles {
	if r := vmRolesCache[c]; r != nil {
		return r
	}
	rt := c.Pkg("homescript/runtime")
	r := &vmVMRoles{c: c, fns: vmFuncs(c, "homescript/runtime")}
	opT := c.Pkg("homescript/compiler").Types.Scope().Lookup("Opcode")
	if opT == nil {
		fatalf("anchor unresolved: compiler.Opcode")
	}
	r.opEnum = c.EnumOf(opT.Type())
	if r.opEnum == nil {
		fatalf("anchor unresolved: compiler.Opcode is not an enum")
	}
	for _, fn := range r.fns {
		if fn.fd.Recv == nil || recvTypeName(fn.fd.Recv.List[0].Type) != "Core" {
			continue
		}
		for _, sw := range vmTopSwitches(c, fn.info, fn.fd.Body) {
			if types.Identical(fn.info.TypeOf(sw.Tag), opT.Type()) {
				if r.dispatch != nil {
					fatalf("anchor ambiguous: two *Core methods dispatch on compiler.Opcode")
				}
				r.dispatch, r.dispSw = fn, sw
			}
		}
	}
	if r.dispatch == nil {
		fatalf("anchor unresolved: no *Core method with a statement-level switch over compiler.Opcode")
	}
	sf := vmStructField(rt, "Core", "Stack")
	cf := vmStructField(rt, "Core", "CallStack")
	if sf == nil || cf == nil {
		fatalf("anchor unresolved: runtime.Core.Stack / Core.CallStack")
	}
	r.stack = vmDiscoverStack(r.fns, sf)
	r.callStack = vmDiscoverStack(r.fns, cf)
	if len(r.stack.push) == 0 || len(r.stack.pop) == 0 {
		fatalf("anchor unresolved: no push/pop method for Core.Stack (%s)", r.stack.names())
	}
	if len(r.callStack.push) == 0 || len(r.callStack.pop) == 0 {
		fatalf("anchor unresolved: no push/pop method for Core.CallStack (%s)", r.callStack.names())
	}
	r.run = vmMustFn(c, "homescript/runtime", "Core", "Run")
	vmRolesCache[c] = r
	return r
}

// ---- effect of one trace

type vmStackEval struct {
	r       *vmVMRoles
	fn      *vmFn
	problem []string
	memo    map[*types.Func]*vmLin
	busy    map[*types.Func]bool
}

func (se *vmStackEval) evEffect(e vmEv) vmLin {
	z := vmLin{}
	switch e.K {
	case evCall:
		if e.Fn == nil {
			return z
		}
		if n, ok := se.r.stack.push[e.Fn]; ok {
			return vmLin{c: n}
		}
		if n, ok := se.r.stack.pop[e.Fn]; ok {
			return vmLin{c: -n}
		}
		if l, ok := se.calleeEffect(e.Fn, e.Call); ok {
			return l
		}
	case evAssign:
		if vmFieldOf(se.fn.info, vmBaseOfIndex(e.Lhs)) == se.r.stack.field {
			if _, isIdx := ast.Unparen(e.Lhs).(*ast.IndexExpr); !isIdx {
				se.problem = append(se.problem, "direct write to Core.Stack at "+se.r.c.Pos(e.Pos))
			}
		}
	case evMarker:
		switch p := e.Payload.(type) {
		case vmSymLoop:
			return vmLin{t: map[string]int{p.sym: p.d}}
		case vmIndicator:
			return vmLin{t: map[string]int{"[" + p.text + "]": 1}}
		}
	}
	return z
}

// calleeEffect: effect of a call of another function of package runtime on
// the *caller's* operand stack: pushes/pops the callee performs on its own
// receiver (or a *Core parameter) when called on the caller's receiver.
func (se *vmStackEval) calleeEffect(f *types.Func, call *ast.CallExpr) (vmLin, bool) {
	callee := vmDeclIndex(se.r.c).of(f)
	if callee == nil || callee.pkg != se.r.dispatch.pkg {
		return vmLin{}, false
	}
	if l, ok := se.memo[f]; ok {
		if l == nil {
			return vmLin{}, false
		}
		return *l, true
	}
	if se.busy[f] {
		return vmLin{}, false
	}
	// which objects of the callee denote "the same core"?
	same := map[types.Object]bool{}
	if callee.fd.Recv != nil && len(callee.fd.Recv.List[0].Names) > 0 && vmIsNamed(callee.info.TypeOf(callee.fd.Recv.List[0].Type), "homescript/runtime", "Core") {
		same[callee.info.Defs[callee.fd.Recv.List[0].Names[0]]] = true
	}
	for _, p := range callee.fd.Type.Params.List {
		if vmIsNamed(callee.info.TypeOf(p.Type), "homescript/runtime", "Core") {
			for _, n := range p.Names {
				same[callee.info.Defs[n]] = true
			}
		}
	}
	touches := false
	ast.Inspect(callee.fd.Body, func(n ast.Node) bool {
		switch x := n.(type) {
		case *ast.CallExpr:
			g := CalleeOf(callee.info, x)
			if g == nil {
				return true
			}
			_, isPush := se.r.stack.push[g]
			_, isPop := se.r.stack.pop[g]
			if isPush || isPop {
				if sel, ok := ast.Unparen(x.Fun).(*ast.SelectorExpr); ok && same[vmObjOf(callee.info, vmRootOf(sel.X))] {
					touches = true
				}
			}
		case *ast.AssignStmt:
			for _, l := range x.Lhs {
				if vmFieldOf(callee.info, vmBaseOfIndex(l)) == se.r.stack.field {
					if _, isIdx := ast.Unparen(l).(*ast.IndexExpr); !isIdx {
						touches = true
					}
				}
			}
		}
		return true
	})
	if !touches {
		z := vmLin{}
		se.memo[f] = &z
		return z, true
	}
	// summarise the callee with the same path analysis
	se.busy[f] = true
	defer delete(se.busy, f)
	sub := &vmStackEval{r: se.r, fn: callee, memo: se.memo, busy: se.busy}
	res := vmWalk(vmWalkOpts{fn: callee})
	var effs []string
	var one vmLin
	for i := range res.paths {
		p := &res.paths[i]
		if p.o.kind == cPanic {
			continue
		}
		l := vmLin{}
		for _, e := range p.ev {
			l = l.add(sub.evEffect(e))
		}
		one = l
		effs = append(effs, l.String())
	}
	effs = vmUniq(effs)
	if len(effs) != 1 || len(sub.problem) > 0 || res.overflow {
		se.memo[f] = nil
		se.problem = append(se.problem, fmt.Sprintf("callee %s has a path-dependent operand-stack effect %v: not summarised", callee.name, effs))
		return vmLin{}, false
	}
	se.memo[f] = &one
	return one, true
}

func vmRootOf(e ast.Expr) ast.Expr {
	for {
		e = ast.Unparen(e)
		switch x := e.(type) {
		case *ast.SelectorExpr:
			e = x.X
		case *ast.StarExpr:
			e = x.X
		case *ast.IndexExpr:
			e = x.X
		case *ast.CallExpr:
			if s, ok := ast.Unparen(x.Fun).(*ast.SelectorExpr); ok {
				e = s.X
			} else {
				return e
			}
		default:
			return e
		}
	}
}

func (se *vmStackEval) traceEffect(ev []vmEv) vmLin {
	l := vmLin{}
	for _, e := range ev {
		l = l.add(se.evEffect(e))
	}
	return l
}

// ---- loop / indicator pre-pass

type vmStackPrep struct {
	se      *vmStackEval
	repl    map[ast.Stmt]any
	problem map[ast.Stmt]string // loops that cannot be summarised
}

func (sp *vmStackPrep) replace(s ast.Stmt) (any, bool) {
	p, ok := sp.repl[s]
	return p, ok
}

// indicator: `if <cond mentioning x> { push(x) }` with no else.
func (sp *vmStackPrep) indicatorOf(s *ast.IfStmt) (vmIndicator, bool) {
	info := sp.se.fn.info
	if s.Init != nil || s.Else != nil || len(s.Body.List) != 1 {
		return vmIndicator{}, false
	}
	es, ok := s.Body.List[0].(*ast.ExprStmt)
	if !ok {
		return vmIndicator{}, false
	}
	call, ok := es.X.(*ast.CallExpr)
	if !ok || len(call.Args) != 1 {
		return vmIndicator{}, false
	}
	if _, isPush := sp.se.r.stack.push[CalleeOf(info, call)]; !isPush {
		return vmIndicator{}, false
	}
	arg := ast.Unparen(call.Args[0])
	if u, ok := arg.(*ast.UnaryExpr); ok && u.Op == token.AND {
		arg = u.X
	}
	obj := vmObjOf(info, arg)
	if obj == nil || !vmMentionsObj(info, s.Cond, obj) {
		return vmIndicator{}, false
	}
	// every atom of the condition must be about the pushed value
	onlyAbout := true
	var atoms func(e ast.Expr)
	atoms = func(e ast.Expr) {
		e = ast.Unparen(e)
		if b, ok := e.(*ast.BinaryExpr); ok && (b.Op == token.LAND || b.Op == token.LOR) {
			atoms(b.X)
			atoms(b.Y)
			return
		}
		if !vmMentionsObj(info, e, obj) {
			onlyAbout = false
		}
	}
	atoms(s.Cond)
	if !onlyAbout {
		return vmIndicator{}, false
	}
	return vmIndicator{text: exprStr(s.Cond)}, true
}

func (sp *vmStackPrep) prepare(n ast.Node) {
	// inner constructs first
	ast.Inspect(n, func(m ast.Node) bool {
		if m == n {
			return true
		}
		switch x := m.(type) {
		case *ast.FuncLit:
			return false
		case *ast.ForStmt:
			sp.prepare(x.Body)
			sp.loop(x, x.Body)
			return false
		case *ast.RangeStmt:
			sp.prepare(x.Body)
			sp.loop(x, x.Body)
			return false
		case *ast.IfStmt:
			if ind, ok := sp.indicatorOf(x); ok {
				sp.repl[x] = ind
				return false
			}
		}
		return true
	})
}

func (sp *vmStackPrep) loop(loop ast.Stmt, body *ast.BlockStmt) {
	res := vmWalk(vmWalkOpts{fn: sp.se.fn, body: body, replace: sp.replace})
	if res.overflow {
		sp.problem[loop] = "path cap exceeded in loop body"
		return
	}
	var iters []string
	var d vmLin
	for i := range res.paths {
		p := &res.paths[i]
		l := sp.se.traceEffect(p.ev)
		switch p.o.kind {
		case cNormal, cContinue:
			iters = append(iters, l.String())
			d = l
		case cBreak:
			if l.String() != "0" {
				sp.problem[loop] = "a path that breaks out of the loop has stack effect " + l.String()
				return
			}
		case cReturn:
			// a return from inside a loop: only interrupt returns are tolerated (exempt paths)
			if len(p.o.ret.Results) > 0 && vmIsNil(sp.se.fn.info, p.o.ret.Results[len(p.o.ret.Results)-1]) && l.String() != "0" {
				sp.problem[loop] = "a normal return from inside the loop has stack effect " + l.String()
				return
			}
		}
	}
	iters = vmUniq(iters)
	switch {
	case len(iters) == 0:
		return
	case len(iters) > 1:
		sp.problem[loop] = fmt.Sprintf("the per-iteration stack effect depends on the path: %v", iters)
	case d.String() == "0":
		return
	case !d.isConst():
		sp.problem[loop] = "nested symbolic loop effect " + d.String()
	default:
		sp.repl[loop] = vmSymLoop{d: d.c, sym: vmTripSymbol(sp.se.fn.info, loop)}
	}
}

func vmTripSymbol(info *types.Info, loop ast.Stmt) string {
	switch x := loop.(type) {
	case *ast.ForStmt:
		if b, ok := ast.Unparen(x.Cond).(*ast.BinaryExpr); ok && (b.Op == token.LSS || b.Op == token.LEQ || b.Op == token.NEQ) {
			return exprStr(vmStripConv(info, b.Y))
		}
		if b, ok := ast.Unparen(x.Cond).(*ast.BinaryExpr); ok && (b.Op == token.GTR || b.Op == token.GEQ) {
			return exprStr(vmStripConv(info, b.X))
		}
	case *ast.RangeStmt:
		return "len(" + exprStr(x.X) + ")"
	}
	return "n"
}

// ---- the rule

func ruleVMStackEffect(c *Ctx) []Obligation {
	r := vmRoles(c)
	fn := r.dispatch
	info := fn.info
	se := &vmStackEval{r: r, fn: fn, memo: map[*types.Func]*vmLin{}, busy: map[*types.Func]bool{}}
	sp := &vmStackPrep{se: se, repl: map[ast.Stmt]any{}, problem: map[ast.Stmt]string{}}
	sp.prepare(fn.fd.Body)
	res := vmWalk(vmWalkOpts{fn: fn, replace: sp.replace})
	tops := map[token.Pos]bool{r.dispSw.Pos(): true}
	prefix := fn.name + "|"

	type pathInfo struct {
		eff   vmLin
		group string
		p     *vmPath
	}
	type unitInfo struct {
		normal   []pathInfo
		exempt   int
		panics   int
		problems []string
		pos      token.Pos
		defs     map[string]string
		maybeNil []string
	}
	units := map[string]*unitInfo{}
	get := func(u string) *unitInfo {
		if units[u] == nil {
			units[u] = &unitInfo{defs: map[string]string{}}
		}
		return units[u]
	}
	// clause positions + loop problems per unit
	for _, cl := range r.dispSw.Body.List {
		cc := cl.(*ast.CaseClause)
		if cc.List == nil {
			continue
		}
		var names []string
		for _, e := range cc.List {
			if k := ConstOf(info, e); k != nil {
				names = append(names, k.Name())
			}
		}
		u := get("case " + strings.Join(names, ","))
		u.pos = cc.Pos()
		for loop, why := range sp.problem {
			if loop.Pos() >= cc.Pos() && loop.End() <= cc.End() {
				u.problems = append(u.problems, fmt.Sprintf("loop at %s: %s", c.Pos(loop.Pos()), why))
			}
		}
	}
	var obs []Obligation
	if res.overflow {
		obs = append(obs, Obligation{Key: prefix + "<paths>", Pos: c.Pos(fn.fd.Pos()), Status: Undecided, Detail: "path cap exceeded"})
	}
	for _, p := range res.unsupported {
		obs = append(obs, Obligation{Key: prefix + "<unsupported control flow>", Pos: c.Pos(p), Status: Undecided, Detail: "goto/fallthrough in the dispatcher"})
	}
	for i := range res.paths {
		p := &res.paths[i]
		uname := vmUnitOf(info, tops, p)
		if uname == "" || uname == "default" {
			continue
		}
		u := get(uname)
		se.problem = nil
		eff := se.traceEffect(p.ev)
		u.problems = append(u.problems, se.problem...)
		for _, e := range p.ev {
			if e.K == evAssign && e.Rhs != nil {
				if id, ok := e.Lhs.(*ast.Ident); ok {
					u.defs[id.Name] = exprStr(e.Rhs)
				}
			}
		}
		switch p.o.kind {
		case cPanic:
			u.panics++
			continue
		case cReturn:
			if len(p.o.ret.Results) == 1 && !vmIsNil(info, p.o.ret.Results[0]) {
				if vmKnownNonNil(c, info, p, p.o.ret.Results[0]) {
					u.exempt++
					continue
				}
				u.maybeNil = append(u.maybeNil, fmt.Sprintf("`return %s` at %s is not provably non-nil: treated as a normal completion", exprStr(p.o.ret.Results[0]), c.Pos(p.o.at)))
			}
		}
		group := "same frame"
		for _, e := range p.ev {
			if e.K == evCall && e.Fn != nil {
				if _, ok := r.callStack.push[e.Fn]; ok {
					group = "enters callee"
				}
				if _, ok := r.callStack.pop[e.Fn]; ok {
					group = "leaves frame"
				}
			}
		}
		u.normal = append(u.normal, pathInfo{eff: eff, group: group, p: p})
	}
	var names []string
	for n := range units {
		names = append(names, n)
	}
	sort.Strings(names)
	var table []string
	for _, n := range names {
		u := units[n]
		byGroup := map[string]map[string]*vmPath{}
		for _, pi := range u.normal {
			if byGroup[pi.group] == nil {
				byGroup[pi.group] = map[string]*vmPath{}
			}
			if byGroup[pi.group][pi.eff.String()] == nil {
				byGroup[pi.group][pi.eff.String()] = pi.p
			}
		}
		var groups []string
		for g := range byGroup {
			groups = append(groups, g)
		}
		sort.Strings(groups)
		status := Discharged
		var parts, wit []string
		for _, g := range groups {
			var effs []string
			for e := range byGroup[g] {
				effs = append(effs, e)
			}
			sort.Strings(effs)
			label := ""
			if len(groups) > 1 || g != "same frame" {
				label = " (" + g + ")"
			}
			parts = append(parts, strings.Join(effs, " | ")+label)
			if len(effs) > 1 {
				status = Violated
				for _, e := range effs {
					wit = append(wit, fmt.Sprintf("effect %s on path [%s] → %s", e, byGroup[g][e].decisions(), byGroup[g][e].exitStr(c)))
				}
			}
		}
		if len(u.normal) == 0 {
			parts = []string{"no normally completing path"}
		}
		detail := fmt.Sprintf("net effect %s; %d normal path(s), %d interrupt-return path(s) exempt, %d panic path(s) exempt", strings.Join(parts, " ; "), len(u.normal), u.exempt, u.panics)
		// definitions of the symbols used
		for _, part := range parts {
			for name, def := range u.defs {
				if strings.Contains(part, name) && !strings.Contains(detail, "where "+name+" =") && len(name) > 2 {
					detail += fmt.Sprintf("; where %s = %s", name, vmTrunc(def, 80))
				}
			}
		}
		if len(wit) > 0 {
			detail += "; INCONSISTENT: " + strings.Join(wit, " || ")
		}
		if len(u.maybeNil) > 0 {
			detail += "; " + strings.Join(vmUniq(u.maybeNil), "; ")
		}
		if pr := vmUniq(u.problems); len(pr) > 0 {
			status = Undecided
			detail += "; cannot decide: " + strings.Join(pr, "; ")
		}
		obs = append(obs, Obligation{Key: prefix + n + "|net operand-stack effect is path-independent", Pos: c.Pos(u.pos), Status: status, Detail: detail, Nontrivial: true})
		mark := ""
		if status != Discharged {
			mark = "  !! " + status.String()
		}
		table = append(table, fmt.Sprintf("%-28s %s%s", strings.TrimPrefix(n, "case "), strings.Join(parts, " ; "), mark))
	}
	// opcodes without a case (informational: R-opcode-shape owns that obligation)
	var missing []string
	for _, k := range r.opEnum.Consts {
		if vmClauseOf(info, r.dispSw, k) == nil {
			missing = append(missing, k.Name())
		}
	}
	obs = append(obs, Obligation{Key: prefix + "effect table", Pos: c.Pos(r.dispSw.Pos()), Status: Info,
		Detail: fmt.Sprintf("operand-stack roles: %s; call-stack roles: %s; per-opcode effect table (%d cases; opcodes without a case: %v):\n      %s", r.stack.names(), r.callStack.names(), len(names), missing, strings.Join(table, "\n      "))})
	return obs
}

// vmKnownNonNil: the returned expression is non-nil on this path: an
// identifier whose nil test was decided on the path, or a call of a function
// that never returns nil.
func vmKnownNonNil(c *Ctx, info *types.Info, p *vmPath, e ast.Expr) bool {
	e = ast.Unparen(e)
	switch x := e.(type) {
	case *ast.Ident:
		return vmDecidedNonNil(info, p, x)
	case *ast.CallExpr:
		f := CalleeOf(info, x)
		return f != nil && vmNeverNil(c, f, map[*types.Func]bool{})
	case *ast.UnaryExpr:
		return x.Op == token.AND
	}
	return false
}

// vmDecidedNonNil: the last nil comparison of identifier id decided on the
// path says "non-nil".
func vmDecidedNonNil(info *types.Info, p *vmPath, id *ast.Ident) bool {
	obj := vmObjOf(info, id)
	res := false
	for _, e := range p.ev {
		switch e.K {
		case evCond:
			b, ok := ast.Unparen(e.X).(*ast.BinaryExpr)
			if !ok || (b.Op != token.NEQ && b.Op != token.EQL) {
				continue
			}
			var other ast.Expr
			if vmObjOf(info, b.X) == obj && obj != nil {
				other = b.Y
			} else if vmObjOf(info, b.Y) == obj && obj != nil {
				other = b.X
			} else {
				continue
			}
			if !vmIsNil(info, other) {
				continue
			}
			res = (b.Op == token.NEQ) == e.Taken
		case evAssign:
			if vmObjOf(info, e.Lhs) == obj && obj != nil {
				res = false
			}
		}
	}
	return res
}
