package main

import (
	"fmt"
	"go/ast"
	"go/token"
	"go/types"
	"sort"
	"strings"
)

func init() {
	register(&Rule{ID: "R-stack-effect", Floor: 40, Run: ruleVMStackEffect,
		Doc: "for every opcode case of the VM's instruction dispatcher (a tree of functions: the *Core method switching over compiler.Opcode, the functions its clauses hand the same instruction to, and per-opcode handler methods, all spliced into one walk; push/pop primitives are recognised by the shape of their write to Core.Stack), all paths that complete normally (reach the common exit / return nil) have the same net operand-stack effect (+1 per call of the method that appends to Core.Stack, -1 per call of the method that shrinks it; a loop whose every iteration has the same non-zero effect d contributes d*tripcount symbolically; a push guarded by a nil/null test of the pushed value contributes the indicator [value!=null]; paths that transfer control to a callee frame are compared among themselves). Paths returning a non-nil interrupt or panicking are exempt. Necessary for C01/C16: the compiler emits code against ONE effect per opcode; an opcode with two effects leaves a residue (or underflows) on one of its paths"})
}

// vmLin is a linear expression over symbols: c + Σ coef·sym.
type vmLin struct {
	c int
	t map[string]int
}

func (l vmLin) add(o vmLin) vmLin {
	n := vmLin{c: l.c + o.c, t: map[string]int{}}
	for k, v := range l.t {
		n.t[k] += v
	}
	for k, v := range o.t {
		n.t[k] += v
	}
	for k, v := range n.t {
		if v == 0 {
			delete(n.t, k)
		}
	}
	return n
}

func (l vmLin) isConst() bool { return len(l.t) == 0 }

func (l vmLin) String() string {
	var keys []string
	for k := range l.t {
		keys = append(keys, k)
	}
	sort.Strings(keys)
	s := fmt.Sprintf("%+d", l.c)
	if l.c == 0 && len(keys) > 0 {
		s = ""
	}
	for _, k := range keys {
		v := l.t[k]
		switch {
		case v == 1:
			s += " + " + k
		case v == -1:
			s += " - " + k
		case v > 0:
			s += fmt.Sprintf(" + %d*%s", v, k)
		default:
			s += fmt.Sprintf(" - %d*%s", -v, k)
		}
	}
	s = strings.TrimSpace(s)
	if s == "" {
		s = "0"
	}
	if s == "+0" {
		s = "0"
	}
	return s
}

type vmSymLoop struct {
	d   int
	sym string
}
type vmIndicator struct {
	text string
	adj  int // constant part (-1 for the early-exit form, whose push follows unconditionally)
}

// vmVMRoles: anchors of the VM resolved by role.
//
// The instruction dispatcher is a TREE of functions: the root is the *Core
// method with a statement-level switch over compiler.Opcode that no other such
// function calls; a clause (or the default clause) of a dispatcher may hand the
// same instruction to another function with its own opcode switch, and a
// clause may hand the instruction to a per-opcode handler method. dispSw is the
// flattened view: one switch (positioned at the root switch) whose clauses are
// the LEAF clauses of the tree, so `vmClauseOf(info, r.dispSw, op)` finds the
// code of an opcode wherever it is written. Walking r.dispatch with vmWalk
// splices the sub-dispatchers and handler methods in (vmDefaultInline), and
// vmUnitOf names the paths by the opcode they handle.
type vmVMRoles struct {
	c         *Ctx
	fns       []*vmFn
	dispatch  *vmFn           // root of the dispatch tree
	dispSw    *ast.SwitchStmt // flattened switch (leaf clauses of the whole tree)
	rootSw    *ast.SwitchStmt // the root's own switch statement
	opEnum    *Enum
	stack     *vmStackRoles // Core.Stack
	callStack *vmStackRoles // Core.CallStack
	run       *vmFn

	nodes    map[*types.Func]*vmDispNode // every function of the dispatch tree
	clauseFn map[*ast.CaseClause]*vmFn   // leaf clause → the function it is written in
	handlers map[*types.Func]*vmFn       // functions spliced into the dispatcher walk (sub-dispatchers and handler methods)
}

type vmDispNode struct {
	fn     *vmFn
	obj    *types.Func
	sw     *ast.SwitchStmt   // the first opcode switch of the function
	sws    []*ast.SwitchStmt // all its statement-level opcode switches over the same subject, in order
	subj   types.Object      // the parameter holding the instruction (or its opcode)
	isOp   bool              // subj is the opcode itself
	subjIx int               // index of subj among the parameters
	edges  map[*ast.CaseClause]*vmDispNode
	called bool
}

var vmRolesCache = map[*Ctx]*vmVMRoles{}

// registries read by vmWalk / vmUnitOf (one analysed tree per process)
var (
	vmDispatchInline = map[*ast.FuncDecl]func(callee *vmFn, call *ast.CallExpr) bool{}
	vmContSwitchPos  = map[token.Pos]bool{} // opcode switches of the non-root dispatch functions
	vmDispRootPos    token.Pos
	vmDispEnum       []*types.Const
)

func vmDefaultInline(fn *vmFn) func(callee *vmFn, call *ast.CallExpr) bool {
	return vmDispatchInline[fn.fd]
}

// vmParamIndex: the parameter objects of a function in order.
func vmParamObjs(fn *vmFn) []types.Object {
	var out []types.Object
	for _, f := range fn.fd.Type.Params.List {
		if len(f.Names) == 0 {
			out = append(out, nil)
		}
		for _, n := range f.Names {
			out = append(out, fn.info.Defs[n])
		}
	}
	return out
}

// vmSingleDef: the expression a local is defined with, when it is assigned exactly once.
func vmSingleDef(fn *vmFn, obj types.Object) ast.Expr {
	var def ast.Expr
	n := 0
	ast.Inspect(fn.fd.Body, func(m ast.Node) bool {
		switch x := m.(type) {
		case *ast.AssignStmt:
			for i, l := range x.Lhs {
				if vmObjOf(fn.info, l) == obj {
					n++
					if len(x.Lhs) == len(x.Rhs) {
						def = x.Rhs[i]
					} else {
						def = nil
						n++
					}
				}
			}
		case *ast.IncDecStmt:
			if vmObjOf(fn.info, x.X) == obj {
				n += 2
			}
		case *ast.UnaryExpr:
			if x.Op == token.AND && vmObjOf(fn.info, x.X) == obj {
				n += 2
			}
		}
		return true
	})
	if n == 1 {
		return def
	}
	return nil
}

// vmOpcodeSubject: which parameter does an opcode-typed switch tag examine?
func vmOpcodeSubject(fn *vmFn, tag ast.Expr, depth int) (subj types.Object, isOp bool) {
	tag = ast.Unparen(tag)
	params := vmParamObjs(fn)
	isParam := func(o types.Object) bool {
		for _, p := range params {
			if p != nil && p == o {
				return true
			}
		}
		return false
	}
	switch x := tag.(type) {
	case *ast.Ident:
		o := vmObjOf(fn.info, x)
		if isParam(o) {
			return o, true
		}
		if depth < 3 {
			if def := vmSingleDef(fn, o); def != nil {
				return vmOpcodeSubject(fn, def, depth+1)
			}
		}
	case *ast.CallExpr:
		if sel, ok := ast.Unparen(x.Fun).(*ast.SelectorExpr); ok && len(x.Args) == 0 {
			recv := ast.Unparen(sel.X)
			if ta, isTA := recv.(*ast.TypeAssertExpr); isTA {
				recv = ast.Unparen(ta.X)
			}
			if o := vmObjOf(fn.info, recv); isParam(o) {
				return o, false
			}
		}
	}
	return nil, false
}

func vmRoles(c *Ctx) *vmVMRoles {
	if r := vmRolesCache[c]; r != nil {
		return r
	}
	rt := c.Pkg("homescript/runtime")
	r := &vmVMRoles{c: c, fns: vmFuncs(c, "homescript/runtime"), nodes: map[*types.Func]*vmDispNode{}, clauseFn: map[*ast.CaseClause]*vmFn{}, handlers: map[*types.Func]*vmFn{}}
	opT := c.Pkg("homescript/compiler").Types.Scope().Lookup("Opcode")
	if opT == nil {
		fatalf("anchor unresolved: compiler.Opcode")
	}
	r.opEnum = c.EnumOf(opT.Type())
	if r.opEnum == nil {
		fatalf("anchor unresolved: compiler.Opcode is not an enum")
	}
	var order []*vmDispNode
	for _, fn := range r.fns {
		if fn.fd.Recv == nil || recvTypeName(fn.fd.Recv.List[0].Type) != "Core" {
			continue
		}
		obj, _ := fn.info.Defs[fn.fd.Name].(*types.Func)
		if obj == nil {
			continue
		}
		for _, sw := range vmTopSwitches(c, fn.info, fn.fd.Body) {
			if !types.Identical(fn.info.TypeOf(sw.Tag), opT.Type()) {
				continue
			}
			subj, isOp := vmOpcodeSubject(fn, sw.Tag, 0)
			if n := r.nodes[obj]; n != nil {
				// a second switch over the opcode of the same instruction: the dispatch continues there
				// for the opcodes the earlier switches did not return for
				if subj == nil || subj != n.subj || isOp != n.isOp {
					fatalf("anchor ambiguous: %s has two statement-level switches over compiler.Opcode that examine different values", fn.name)
				}
				n.sws = append(n.sws, sw)
				continue
			}
			n := &vmDispNode{fn: fn, obj: obj, sw: sw, sws: []*ast.SwitchStmt{sw}, edges: map[*ast.CaseClause]*vmDispNode{}}
			n.subj, n.isOp = subj, isOp
			for i, p := range vmParamObjs(fn) {
				if p != nil && p == n.subj {
					n.subjIx = i
				}
			}
			r.nodes[obj] = n
			order = append(order, n)
		}
	}
	if len(order) == 0 {
		fatalf("anchor unresolved: no *Core method with a statement-level switch over compiler.Opcode")
	}
	// edges: a clause hands the instruction under dispatch to another dispatch function
	sameSubject := func(d *vmDispNode, e *vmDispNode, call *ast.CallExpr) bool {
		if d.subj == nil || e.subj == nil || e.subjIx >= len(call.Args) {
			return false
		}
		arg := ast.Unparen(call.Args[e.subjIx])
		switch {
		case d.isOp == e.isOp:
			return vmObjOf(d.fn.info, arg) == d.subj
		case e.isOp && !d.isOp:
			// f(instruction.Opcode(), …)
			if cx, ok := arg.(*ast.CallExpr); ok {
				if sel, ok := ast.Unparen(cx.Fun).(*ast.SelectorExpr); ok && len(cx.Args) == 0 {
					return vmObjOf(d.fn.info, sel.X) == d.subj
				}
			}
			if o := vmObjOf(d.fn.info, arg); o != nil {
				if def := vmSingleDef(d.fn, o); def != nil {
					if s2, isOp := vmOpcodeSubject(d.fn, def, 0); s2 == d.subj && !isOp {
						return true
					}
				}
			}
		}
		return false
	}
	for _, d := range order {
		for _, cl := range d.clauses() {
			cc := cl.(*ast.CaseClause)
			for _, s := range cc.Body {
				ast.Inspect(s, func(m ast.Node) bool {
					if _, isLit := m.(*ast.FuncLit); isLit {
						return false
					}
					if call, ok := m.(*ast.CallExpr); ok {
						if e := r.nodes[vmOrigin(CalleeOf(d.fn.info, call))]; e != nil && e != d && sameSubject(d, e, call) {
							if prev := d.edges[cc]; prev != nil && prev != e {
								fatalf("anchor ambiguous: a clause of %s hands the instruction to two dispatch functions", d.fn.name)
							}
							d.edges[cc] = e
							e.called = true
						}
					}
					return true
				})
			}
		}
	}
	var root *vmDispNode
	for _, n := range order {
		if !n.called {
			if root != nil {
				fatalf("anchor ambiguous: two *Core methods dispatch on compiler.Opcode and neither hands its instruction to the other (%s, %s)", root.fn.name, n.fn.name)
			}
			root = n
		}
	}
	if root == nil {
		fatalf("anchor unresolved: the *Core methods that switch over compiler.Opcode call each other in a cycle")
	}
	r.dispatch, r.rootSw = root.fn, root.sw
	// flattened switch
	listed := func(n *vmDispNode, sw *ast.SwitchStmt) map[*types.Const]bool {
		m := map[*types.Const]bool{}
		for _, cl := range sw.Body.List {
			for _, e := range cl.(*ast.CaseClause).List {
				if k := ConstOf(n.fn.info, e); k != nil {
					m[k] = true
				}
			}
		}
		return m
	}
	var flatten func(n *vmDispNode, allowed map[*types.Const]bool, withDefault bool, depth int) []ast.Stmt
	flatten = func(n *vmDispNode, allowed map[*types.Const]bool, withDefault bool, depth int) []ast.Stmt {
		if depth > 6 {
			fatalf("anchor unresolved: dispatch tree deeper than 6 functions")
		}
		var out []ast.Stmt
		for si, sw := range n.sws {
			last := si == len(n.sws)-1
			mine := listed(n, sw)
			for _, cl := range sw.Body.List {
				cc := cl.(*ast.CaseClause)
				sub := map[*types.Const]bool{}
				if cc.List == nil {
					if !(withDefault && last) && n.edges[cc] == nil {
						continue
					}
					for _, k := range r.opEnum.Consts {
						if !mine[k] && (allowed == nil || allowed[k]) {
							sub[k] = true
						}
					}
				} else {
					for _, e := range cc.List {
						if k := ConstOf(n.fn.info, e); k != nil && (allowed == nil || allowed[k]) {
							sub[k] = true
						}
					}
					if len(sub) == 0 {
						continue
					}
				}
				if e := n.edges[cc]; e != nil {
					out = append(out, flatten(e, sub, cc.List == nil && withDefault && last, depth+1)...)
					continue
				}
				r.clauseFn[cc] = n.fn
				out = append(out, cc)
			}
			if !last {
				// the opcodes an earlier switch lists are handled there: a later switch only sees the rest
				rest := map[*types.Const]bool{}
				for _, k := range r.opEnum.Consts {
					if !mine[k] && (allowed == nil || allowed[k]) {
						rest[k] = true
					}
				}
				allowed = rest
			}
		}
		return out
	}
	r.dispSw = &ast.SwitchStmt{Switch: root.sw.Switch, Init: root.sw.Init, Tag: root.sw.Tag,
		Body: &ast.BlockStmt{Lbrace: root.sw.Body.Lbrace, Rbrace: root.sw.Body.Rbrace, List: flatten(root, nil, true, 0)}}
	vmDispRootPos = root.sw.Pos()
	vmDispEnum = r.opEnum.Consts
	for _, n := range order {
		for i, sw := range n.sws {
			if n != root || i > 0 {
				vmContSwitchPos[sw.Pos()] = true
			}
		}
		if n != root {
			r.handlers[n.obj] = n.fn
		}
	}
	// handler methods: functions of the package that receive the instruction under dispatch
	instrT := c.Pkg("homescript/compiler").Types.Scope().Lookup("Instruction")
	var instrIface *types.Interface
	if instrT != nil {
		instrIface, _ = instrT.Type().Underlying().(*types.Interface)
	}
	isInstr := func(t types.Type) bool {
		if t == nil || instrIface == nil {
			return false
		}
		if types.Identical(t, instrT.Type()) {
			return true
		}
		n := vmNamed(t)
		return n != nil && n.Obj().Pkg() == instrT.Pkg() && types.Implements(t, instrIface)
	}
	want := func(callee *vmFn, call *ast.CallExpr) bool {
		if callee.pkg != root.fn.pkg {
			return false
		}
		obj, _ := callee.info.Defs[callee.fd.Name].(*types.Func)
		if n := r.nodes[obj]; n != nil {
			return n != root
		}
		for _, a := range call.Args {
			if isInstr(callee.info.TypeOf(a)) {
				return true
			}
		}
		return false
	}
	vmDispatchInline[root.fn.fd] = want
	for _, n := range order {
		for _, cl := range n.clauses() {
			for _, s := range cl.(*ast.CaseClause).Body {
				ast.Inspect(s, func(m ast.Node) bool {
					if call, ok := m.(*ast.CallExpr); ok {
						if g := vmDeclIndex(c).of(CalleeOf(n.fn.info, call)); g != nil && want(g, call) {
							if obj, ok := g.info.Defs[g.fd.Name].(*types.Func); ok {
								r.handlers[obj] = g
							}
						}
					}
					return true
				})
			}
		}
	}
	sf := vmStructField(rt, "Core", "Stack")
	cf := vmStructField(rt, "Core", "CallStack")
	if sf == nil || cf == nil {
		fatalf("anchor unresolved: runtime.Core.Stack / Core.CallStack")
	}
	r.stack = vmDiscoverStack(r.fns, sf)
	r.callStack = vmDiscoverStack(r.fns, cf)
	if len(r.stack.push) == 0 || len(r.stack.pop) == 0 {
		fatalf("anchor unresolved: no push/pop method for Core.Stack (%s)", r.stack.names())
	}
	if len(r.callStack.push) == 0 || len(r.callStack.pop) == 0 {
		fatalf("anchor unresolved: no push/pop method for Core.CallStack (%s)", r.callStack.names())
	}
	r.run = vmMustFn(c, "homescript/runtime", "Core", "Run")
	vmRolesCache[c] = r
	return r
}

// clauses: the clauses of all opcode switches of the function, in order.
func (n *vmDispNode) clauses() []ast.Stmt {
	var out []ast.Stmt
	for _, sw := range n.sws {
		out = append(out, sw.Body.List...)
	}
	return out
}

func vmOrigin(f *types.Func) *types.Func {
	if f == nil {
		return nil
	}
	return f.Origin()
}

// handlerNodes: everything that executes for opcode k: its leaf clause and the
// bodies of the handler methods the clause hands the instruction to.
func (r *vmVMRoles) handlerNodes(k *types.Const) (cl *ast.CaseClause, nodes []ast.Node) {
	cl = vmClauseOf(r.dispatch.info, r.dispSw, k)
	if cl == nil {
		return nil, nil
	}
	seen := map[*vmFn]bool{}
	var visit func(n ast.Node, depth int)
	visit = func(n ast.Node, depth int) {
		nodes = append(nodes, n)
		if depth > 3 {
			return
		}
		ast.Inspect(n, func(m ast.Node) bool {
			if call, ok := m.(*ast.CallExpr); ok {
				if g := r.handlers[vmOrigin(CalleeOf(r.dispatch.info, call))]; g != nil && r.nodes[vmOrigin(CalleeOf(r.dispatch.info, call))] == nil && !seen[g] {
					seen[g] = true
					visit(g.fd.Body, depth+1)
				}
			}
			return true
		})
	}
	for _, s := range cl.Body {
		visit(s, 0)
	}
	return cl, nodes
}

// ---- effect of one trace

type vmStackEval struct {
	r       *vmVMRoles
	fn      *vmFn
	problem []string
	memo    map[*types.Func]*vmLin
	busy    map[*types.Func]bool
}

func (se *vmStackEval) evEffect(e vmEv) vmLin {
	z := vmLin{}
	switch e.K {
	case evCall:
		if e.Fn == nil {
			return z
		}
		if n, ok := se.r.stack.push[e.Fn]; ok {
			return vmLin{c: n}
		}
		if n, ok := se.r.stack.pop[e.Fn]; ok {
			return vmLin{c: -n}
		}
		if l, ok := se.calleeEffect(e.Fn, e.Call); ok {
			return l
		}
	case evAssign:
		if vmFieldOf(se.fn.info, vmBaseOfIndex(e.Lhs)) == se.r.stack.field {
			if _, isIdx := ast.Unparen(e.Lhs).(*ast.IndexExpr); !isIdx {
				se.problem = append(se.problem, "direct write to Core.Stack at "+se.r.c.Pos(e.Pos))
			}
		}
	case evMarker:
		switch p := e.Payload.(type) {
		case vmSymLoop:
			return vmLin{t: map[string]int{p.sym: p.d}}
		case vmIndicator:
			return vmLin{c: p.adj, t: map[string]int{"[" + p.text + "]": 1}}
		}
	}
	return z
}

// calleeEffect: effect of a call of another function of package runtime on
// the *caller's* operand stack: pushes/pops the callee performs on its own
// receiver (or a *Core parameter) when called on the caller's receiver.
func (se *vmStackEval) calleeEffect(f *types.Func, call *ast.CallExpr) (vmLin, bool) {
	callee := vmDeclIndex(se.r.c).of(f)
	if callee == nil || callee.pkg != se.r.dispatch.pkg {
		return vmLin{}, false
	}
	// a symbolic term named after a parameter of the callee (the trip count of `for i := 0; i < n; i++`)
	// is the caller's argument
	atCall := func(l vmLin) vmLin {
		if call == nil || len(l.t) == 0 {
			return l
		}
		names := map[string]string{}
		i := 0
		for _, fl := range callee.fd.Type.Params.List {
			for _, n := range fl.Names {
				if i < len(call.Args) && !call.Ellipsis.IsValid() {
					names[n.Name] = exprStr(vmStripConv(se.fn.info, call.Args[i]))
				}
				i++
			}
			if len(fl.Names) == 0 {
				i++
			}
		}
		out := vmLin{c: l.c, t: map[string]int{}}
		for k, v := range l.t {
			if a, ok := names[k]; ok {
				k = a
			}
			out.t[k] += v
		}
		return out
	}
	if l, ok := se.memo[f]; ok {
		if l == nil {
			return vmLin{}, false
		}
		return atCall(*l), true
	}
	if se.busy[f] {
		return vmLin{}, false
	}
	// which objects of the callee denote "the same core"?
	same := map[types.Object]bool{}
	if callee.fd.Recv != nil && len(callee.fd.Recv.List[0].Names) > 0 && vmIsNamed(callee.info.TypeOf(callee.fd.Recv.List[0].Type), "homescript/runtime", "Core") {
		same[callee.info.Defs[callee.fd.Recv.List[0].Names[0]]] = true
	}
	for _, p := range callee.fd.Type.Params.List {
		if vmIsNamed(callee.info.TypeOf(p.Type), "homescript/runtime", "Core") {
			for _, n := range p.Names {
				same[callee.info.Defs[n]] = true
			}
		}
	}
	touches := false
	ast.Inspect(callee.fd.Body, func(n ast.Node) bool {
		switch x := n.(type) {
		case *ast.CallExpr:
			g := CalleeOf(callee.info, x)
			if g == nil {
				return true
			}
			_, isPush := se.r.stack.push[g]
			_, isPop := se.r.stack.pop[g]
			if isPush || isPop {
				if sel, ok := ast.Unparen(x.Fun).(*ast.SelectorExpr); ok && same[vmObjOf(callee.info, vmRootOf(sel.X))] {
					touches = true
				}
			}
		case *ast.AssignStmt:
			for _, l := range x.Lhs {
				if vmFieldOf(callee.info, vmBaseOfIndex(l)) == se.r.stack.field {
					if _, isIdx := ast.Unparen(l).(*ast.IndexExpr); !isIdx {
						touches = true
					}
				}
			}
		}
		return true
	})
	if !touches {
		z := vmLin{}
		se.memo[f] = &z
		return z, true
	}
	// summarise the callee with the same path analysis (its loops summarised symbolically first)
	se.busy[f] = true
	defer delete(se.busy, f)
	sub := &vmStackEval{r: se.r, fn: callee, memo: se.memo, busy: se.busy}
	sp := &vmStackPrep{se: sub, repl: map[ast.Stmt]any{}, problem: map[ast.Stmt]string{}}
	sp.prepare(callee, callee.fd.Body)
	for loop, why := range sp.problem {
		sub.problem = append(sub.problem, fmt.Sprintf("loop at %s: %s", se.r.c.Pos(loop.Pos()), why))
	}
	res := vmWalk(vmWalkOpts{fn: callee, replace: sp.replace})
	var effs []string
	var one vmLin
	for i := range res.paths {
		p := &res.paths[i]
		if p.o.kind == cPanic {
			continue
		}
		l := vmLin{}
		for _, e := range p.ev {
			l = l.add(sub.evEffect(e))
		}
		one = l
		effs = append(effs, l.String())
	}
	effs = vmUniq(effs)
	if len(effs) != 1 || len(sub.problem) > 0 || res.overflow {
		se.memo[f] = nil
		se.problem = append(se.problem, fmt.Sprintf("callee %s has a path-dependent operand-stack effect %v: not summarised", callee.name, effs))
		return vmLin{}, false
	}
	se.memo[f] = &one
	return atCall(one), true
}

func vmRootOf(e ast.Expr) ast.Expr {
	for {
		e = ast.Unparen(e)
		switch x := e.(type) {
		case *ast.SelectorExpr:
			e = x.X
		case *ast.StarExpr:
			e = x.X
		case *ast.IndexExpr:
			e = x.X
		case *ast.CallExpr:
			if s, ok := ast.Unparen(x.Fun).(*ast.SelectorExpr); ok {
				e = s.X
			} else {
				return e
			}
		default:
			return e
		}
	}
}

func (se *vmStackEval) traceEffect(ev []vmEv) vmLin {
	l := vmLin{}
	for _, e := range ev {
		l = l.add(se.evEffect(e))
	}
	return l
}

// ---- loop / indicator pre-pass

type vmStackPrep struct {
	se      *vmStackEval
	repl    map[ast.Stmt]any
	problem map[ast.Stmt]string // loops that cannot be summarised
}

func (sp *vmStackPrep) replace(s ast.Stmt) (any, bool) {
	p, ok := sp.repl[s]
	return p, ok
}

// pushOf: the statement is `push(x)` / `push(&x)` of the operand stack: returns the pushed variable.
func (sp *vmStackPrep) pushOf(info *types.Info, s ast.Stmt) types.Object {
	es, ok := s.(*ast.ExprStmt)
	if !ok {
		return nil
	}
	call, ok := es.X.(*ast.CallExpr)
	if !ok || len(call.Args) != 1 {
		return nil
	}
	if _, isPush := sp.se.r.stack.push[CalleeOf(info, call)]; !isPush {
		return nil
	}
	arg := ast.Unparen(call.Args[0])
	if u, ok := arg.(*ast.UnaryExpr); ok && u.Op == token.AND {
		arg = u.X
	}
	return vmObjOf(info, arg)
}

// aboutOnly: every atom of the condition mentions obj (the test is a property of the pushed value).
func vmAboutOnly(info *types.Info, cond ast.Expr, obj types.Object) bool {
	if obj == nil || !vmMentionsObj(info, cond, obj) {
		return false
	}
	onlyAbout := true
	var atoms func(e ast.Expr)
	atoms = func(e ast.Expr) {
		e = ast.Unparen(e)
		if u, ok := e.(*ast.UnaryExpr); ok && u.Op == token.NOT {
			atoms(u.X)
			return
		}
		if b, ok := e.(*ast.BinaryExpr); ok && (b.Op == token.LAND || b.Op == token.LOR) {
			atoms(b.X)
			atoms(b.Y)
			return
		}
		if !vmMentionsObj(info, e, obj) {
			onlyAbout = false
		}
	}
	atoms(cond)
	return onlyAbout
}

// condOf: the condition of an if, a boolean local that is defined exactly once looked
// through (`producesValue := res != nil && …; if producesValue {…}`) provided the value it
// describes is not assigned between the definition and the test.
func (sp *vmStackPrep) condOf(fn *vmFn, s *ast.IfStmt, about types.Object) ast.Expr {
	id, ok := ast.Unparen(s.Cond).(*ast.Ident)
	if !ok {
		return s.Cond
	}
	obj := vmObjOf(fn.info, id)
	def := vmSingleDef(fn, obj)
	if def == nil || obj == nil {
		return s.Cond
	}
	stale := false
	ast.Inspect(fn.fd.Body, func(n ast.Node) bool {
		if as, ok := n.(*ast.AssignStmt); ok && as.Pos() > def.Pos() && as.Pos() < s.Pos() {
			for _, l := range as.Lhs {
				if vmObjOf(fn.info, l) == about {
					stale = true
				}
			}
		}
		return true
	})
	if stale {
		return s.Cond
	}
	return def
}

// vmNegText renders the negation of a condition (De Morgan, comparison operators flipped).
func vmNegText(e ast.Expr) string {
	e = ast.Unparen(e)
	switch x := e.(type) {
	case *ast.UnaryExpr:
		if x.Op == token.NOT {
			return exprStr(ast.Unparen(x.X))
		}
	case *ast.BinaryExpr:
		flip := map[token.Token]token.Token{token.EQL: token.NEQ, token.NEQ: token.EQL, token.LSS: token.GEQ, token.GEQ: token.LSS, token.GTR: token.LEQ, token.LEQ: token.GTR}
		switch {
		case x.Op == token.LOR:
			return vmNegText(x.X) + " && " + vmNegText(x.Y)
		case x.Op == token.LAND:
			return "(" + vmNegText(x.X) + " || " + vmNegText(x.Y) + ")"
		case flip[x.Op] != token.ILLEGAL:
			return exprStr(x.X) + " " + flip[x.Op].String() + " " + exprStr(x.Y)
		}
	}
	return "!(" + exprStr(e) + ")"
}

// indicator: `if <cond about x> { push(x) }` with no else: the push contributes [cond].
func (sp *vmStackPrep) indicatorOf(fn *vmFn, s *ast.IfStmt) (vmIndicator, bool) {
	info := fn.info
	if s.Init != nil || s.Else != nil || len(s.Body.List) != 1 {
		return vmIndicator{}, false
	}
	obj := sp.pushOf(info, s.Body.List[0])
	if obj == nil {
		return vmIndicator{}, false
	}
	cond := sp.condOf(fn, s, obj)
	if !vmAboutOnly(info, cond, obj) {
		return vmIndicator{}, false
	}
	return vmIndicator{text: exprStr(cond)}, true
}

// earlyExitIndicator: the same guard written with an early exit at the end of a switch clause,
//
//	if <!cond about x> { break }
//	push(x)            // last statement of the clause
//
// Falling out of the clause and `break` continue at the same place, so the pair is
// `if cond { push(x) }`: the if statement contributes [cond]-1 and the push its +1.
func (sp *vmStackPrep) earlyExitIndicator(fn *vmFn, list []ast.Stmt) {
	if len(list) < 2 {
		return
	}
	s, ok := list[len(list)-2].(*ast.IfStmt)
	if !ok || s.Init != nil || s.Else != nil || len(s.Body.List) != 1 {
		return
	}
	br, ok := s.Body.List[0].(*ast.BranchStmt)
	if !ok || br.Tok != token.BREAK || br.Label != nil {
		return
	}
	obj := sp.pushOf(fn.info, list[len(list)-1])
	if obj == nil {
		return
	}
	cond := sp.condOf(fn, s, obj)
	if !vmAboutOnly(fn.info, cond, obj) {
		return
	}
	sp.repl[s] = vmIndicator{text: vmNegText(cond), adj: -1}
}

func (sp *vmStackPrep) prepare(fn *vmFn, n ast.Node) {
	// inner constructs first
	ast.Inspect(n, func(m ast.Node) bool {
		if m == n {
			return true
		}
		switch x := m.(type) {
		case *ast.FuncLit:
			return false
		case *ast.ForStmt:
			sp.prepare(fn, x.Body)
			sp.loop(fn, x, x.Body)
			return false
		case *ast.RangeStmt:
			sp.prepare(fn, x.Body)
			sp.loop(fn, x, x.Body)
			return false
		case *ast.IfStmt:
			if _, done := sp.repl[x]; done {
				return false
			}
			if ind, ok := sp.indicatorOf(fn, x); ok {
				sp.repl[x] = ind
				return false
			}
		case *ast.CaseClause:
			sp.earlyExitIndicator(fn, x.Body)
		}
		return true
	})
}

func (sp *vmStackPrep) loop(fn *vmFn, loop ast.Stmt, body *ast.BlockStmt) {
	res := vmWalk(vmWalkOpts{fn: fn, body: body, replace: sp.replace, inline: vmDefaultInline(sp.se.fn)})
	if res.overflow {
		sp.problem[loop] = "path cap exceeded in loop body"
		return
	}
	var iters []string
	var d vmLin
	for i := range res.paths {
		p := &res.paths[i]
		l := sp.se.traceEffect(p.ev)
		switch p.o.kind {
		case cNormal, cContinue:
			iters = append(iters, l.String())
			d = l
		case cBreak:
			if l.String() != "0" {
				sp.problem[loop] = "a path that breaks out of the loop has stack effect " + l.String()
				return
			}
		case cReturn:
			// a return from inside a loop: only interrupt returns are tolerated (exempt paths)
			if len(p.o.ret.Results) > 0 && vmIsNil(sp.se.fn.info, p.o.ret.Results[len(p.o.ret.Results)-1]) && l.String() != "0" {
				sp.problem[loop] = "a normal return from inside the loop has stack effect " + l.String()
				return
			}
		}
	}
	iters = vmUniq(iters)
	switch {
	case len(iters) == 0:
		return
	case len(iters) > 1:
		sp.problem[loop] = fmt.Sprintf("the per-iteration stack effect depends on the path: %v", iters)
	case d.String() == "0":
		return
	case !d.isConst():
		sp.problem[loop] = "nested symbolic loop effect " + d.String()
	default:
		sp.repl[loop] = vmSymLoop{d: d.c, sym: vmTripSymbol(sp.se.fn.info, loop)}
	}
}

func vmTripSymbol(info *types.Info, loop ast.Stmt) string {
	switch x := loop.(type) {
	case *ast.ForStmt:
		if b, ok := ast.Unparen(x.Cond).(*ast.BinaryExpr); ok && (b.Op == token.LSS || b.Op == token.LEQ || b.Op == token.NEQ) {
			return exprStr(vmStripConv(info, b.Y))
		}
		if b, ok := ast.Unparen(x.Cond).(*ast.BinaryExpr); ok && (b.Op == token.GTR || b.Op == token.GEQ) {
			return exprStr(vmStripConv(info, b.X))
		}
	case *ast.RangeStmt:
		return "len(" + exprStr(x.X) + ")"
	}
	return "n"
}

// ---- the rule

func ruleVMStackEffect(c *Ctx) []Obligation {
	r := vmRoles(c)
	fn := r.dispatch
	info := fn.info
	se := &vmStackEval{r: r, fn: fn, memo: map[*types.Func]*vmLin{}, busy: map[*types.Func]bool{}}
	sp := &vmStackPrep{se: se, repl: map[ast.Stmt]any{}, problem: map[ast.Stmt]string{}}
	sp.prepare(fn, fn.fd.Body)
	// loops in the functions the dispatcher hands its instruction to (sub-dispatchers, handler methods)
	var hobjs []*types.Func
	for o := range r.handlers {
		hobjs = append(hobjs, o)
	}
	sort.Slice(hobjs, func(i, j int) bool { return hobjs[i].Pos() < hobjs[j].Pos() })
	for _, o := range hobjs {
		sp.prepare(r.handlers[o], r.handlers[o].fd.Body)
	}
	res := vmWalk(vmWalkOpts{fn: fn, replace: sp.replace})
	tops := map[token.Pos]bool{r.dispSw.Pos(): true}
	prefix := fn.name + "|"

	type pathInfo struct {
		eff   vmLin
		group string
		p     *vmPath
	}
	type unitInfo struct {
		normal   []pathInfo
		exempt   int
		panics   int
		problems []string
		pos      token.Pos
		defs     map[string]string
		maybeNil []string
	}
	units := map[string]*unitInfo{}
	get := func(u string) *unitInfo {
		if units[u] == nil {
			units[u] = &unitInfo{defs: map[string]string{}}
		}
		return units[u]
	}
	// clause positions + loop problems per unit
	for _, cl := range r.dispSw.Body.List {
		cc := cl.(*ast.CaseClause)
		if cc.List == nil {
			continue
		}
		var names []string
		for _, e := range cc.List {
			if k := ConstOf(info, e); k != nil {
				names = append(names, k.Name())
			}
		}
		u := get("case " + strings.Join(names, ","))
		u.pos = cc.Pos()
		var scope []ast.Node
		if len(names) > 0 {
			if k := ConstOf(info, cc.List[0]); k != nil {
				_, scope = r.handlerNodes(k)
			}
		}
		for loop, why := range sp.problem {
			for _, n := range scope {
				if loop.Pos() >= n.Pos() && loop.End() <= n.End() {
					u.problems = append(u.problems, fmt.Sprintf("loop at %s: %s", c.Pos(loop.Pos()), why))
					break
				}
			}
		}
	}
	var obs []Obligation
	if res.overflow {
		obs = append(obs, Obligation{Key: prefix + "<paths>", Pos: c.Pos(fn.fd.Pos()), Status: Undecided, Detail: "path cap exceeded"})
	}
	for _, p := range res.unsupported {
		obs = append(obs, Obligation{Key: prefix + "<unsupported control flow>", Pos: c.Pos(p), Status: Undecided, Detail: "goto/fallthrough in the dispatcher"})
	}
	for i := range res.paths {
		p := &res.paths[i]
		uname := vmUnitOf(info, tops, p)
		if uname == "" || uname == "default" {
			continue
		}
		u := get(uname)
		se.problem = nil
		eff := se.traceEffect(p.ev)
		u.problems = append(u.problems, se.problem...)
		for _, e := range p.ev {
			if e.K == evAssign && e.Rhs != nil {
				if id, ok := e.Lhs.(*ast.Ident); ok {
					u.defs[id.Name] = exprStr(e.Rhs)
				}
			}
		}
		switch p.o.kind {
		case cPanic:
			u.panics++
			continue
		case cReturn:
			if len(p.o.ret.Results) == 1 && !vmIsNil(info, p.o.ret.Results[0]) {
				if vmKnownNonNil(c, info, p, p.o.ret.Results[0]) {
					u.exempt++
					continue
				}
				u.maybeNil = append(u.maybeNil, fmt.Sprintf("`return %s` at %s is not provably non-nil: treated as a normal completion", exprStr(p.o.ret.Results[0]), c.Pos(p.o.at)))
			}
		}
		group := "same frame"
		for _, e := range p.ev {
			if e.K == evCall && e.Fn != nil {
				if _, ok := r.callStack.push[e.Fn]; ok {
					group = "enters callee"
				}
				if _, ok := r.callStack.pop[e.Fn]; ok {
					group = "leaves frame"
				}
			}
		}
		u.normal = append(u.normal, pathInfo{eff: eff, group: group, p: p})
	}
	var names []string
	for n := range units {
		names = append(names, n)
	}
	sort.Strings(names)
	var table []string
	for _, n := range names {
		u := units[n]
		byGroup := map[string]map[string]*vmPath{}
		for _, pi := range u.normal {
			if byGroup[pi.group] == nil {
				byGroup[pi.group] = map[string]*vmPath{}
			}
			if byGroup[pi.group][pi.eff.String()] == nil {
				byGroup[pi.group][pi.eff.String()] = pi.p
			}
		}
		var groups []string
		for g := range byGroup {
			groups = append(groups, g)
		}
		sort.Strings(groups)
		status := Discharged
		var parts, wit []string
		for _, g := range groups {
			var effs []string
			for e := range byGroup[g] {
				effs = append(effs, e)
			}
			sort.Strings(effs)
			label := ""
			if len(groups) > 1 || g != "same frame" {
				label = " (" + g + ")"
			}
			parts = append(parts, strings.Join(effs, " | ")+label)
			if len(effs) > 1 {
				status = Violated
				for _, e := range effs {
					wit = append(wit, fmt.Sprintf("effect %s on path [%s] → %s", e, byGroup[g][e].decisions(), byGroup[g][e].exitStr(c)))
				}
			}
		}
		if len(u.normal) == 0 {
			parts = []string{"no normally completing path"}
		}
		detail := fmt.Sprintf("net effect %s; %d normal path(s), %d interrupt-return path(s) exempt, %d panic path(s) exempt", strings.Join(parts, " ; "), len(u.normal), u.exempt, u.panics)
		// definitions of the symbols used
		for _, part := range parts {
			for name, def := range u.defs {
				if strings.Contains(part, name) && !strings.Contains(detail, "where "+name+" =") && len(name) > 2 {
					detail += fmt.Sprintf("; where %s = %s", name, vmTrunc(def, 80))
				}
			}
		}
		if len(wit) > 0 {
			detail += "; INCONSISTENT: " + strings.Join(wit, " || ")
		}
		if len(u.maybeNil) > 0 {
			detail += "; " + strings.Join(vmUniq(u.maybeNil), "; ")
		}
		if pr := vmUniq(u.problems); len(pr) > 0 {
			status = Undecided
			detail += "; cannot decide: " + strings.Join(pr, "; ")
		}
		obs = append(obs, Obligation{Key: prefix + n + "|net operand-stack effect is path-independent", Pos: c.Pos(u.pos), Status: status, Detail: detail, Nontrivial: true})
		mark := ""
		if status != Discharged {
			mark = "  !! " + status.String()
		}
		table = append(table, fmt.Sprintf("%-28s %s%s", strings.TrimPrefix(n, "case "), strings.Join(parts, " ; "), mark))
	}
	// opcodes without a case (informational: R-opcode-shape owns that obligation)
	var missing []string
	for _, k := range r.opEnum.Consts {
		if vmClauseOf(info, r.dispSw, k) == nil {
			missing = append(missing, k.Name())
		}
	}
	obs = append(obs, Obligation{Key: prefix + "effect table", Pos: c.Pos(r.dispSw.Pos()), Status: Info,
		Detail: fmt.Sprintf("operand-stack roles: %s; call-stack roles: %s; per-opcode effect table (%d cases; opcodes without a case: %v):\n      %s", r.stack.names(), r.callStack.names(), len(names), missing, strings.Join(table, "\n      "))})
	return obs
}

// vmKnownNonNil: the returned expression is non-nil on this path: an
// identifier whose nil test was decided on the path, or a call of a function
// that never returns nil.
func vmKnownNonNil(c *Ctx, info *types.Info, p *vmPath, e ast.Expr) bool {
	e = ast.Unparen(e)
	switch x := e.(type) {
	case *ast.Ident:
		if vmDecidedNonNil(info, p, x) {
			return true
		}
		// a local that holds a value known to be non-nil (`thrown := value.NewVMThrowInterrupt(…); return thrown`)
		isNil, known := vmNilnessAt(c, info, p.binds, p.ev, len(p.ev), x)
		return known && !isNil
	case *ast.CallExpr:
		f := CalleeOf(info, x)
		return f != nil && vmNeverNil(c, f, map[*types.Func]bool{})
	case *ast.UnaryExpr:
		return x.Op == token.AND
	}
	return false
}

// vmDecidedNonNil: the last nil comparison of identifier id decided on the
// path says "non-nil".
func vmDecidedNonNil(info *types.Info, p *vmPath, id *ast.Ident) bool {
	obj := vmObjOf(info, id)
	res := false
	for _, e := range p.ev {
		switch e.K {
		case evCond:
			b, ok := ast.Unparen(e.X).(*ast.BinaryExpr)
			if !ok || (b.Op != token.NEQ && b.Op != token.EQL) {
				continue
			}
			var other ast.Expr
			if vmObjOf(info, b.X) == obj && obj != nil {
				other = b.Y
			} else if vmObjOf(info, b.Y) == obj && obj != nil {
				other = b.X
			} else {
				continue
			}
			if !vmIsNil(info, other) {
				continue
			}
			res = (b.Op == token.NEQ) == e.Taken
		case evAssign:
			if vmObjOf(info, e.Lhs) == obj && obj != nil {
				res = false
			}
		}
	}
	return res
}
