package main

// mbSym: a small path-sensitive symbolic executor over the typed AST of one
// function (or one case clause), used by the twin tables of R-twin-tables.
//
// The result of executing a statement list is a set of *outcomes* (normal
// return with its values, panic) each with the condition under which it is
// reached. Values and conditions are rendered by mbNorm with a flow-sensitive
// environment (a local is replaced by the symbolic value it holds on the
// path), conditions are boolean formulas over canonical atoms and are compared
// as boolean *functions* (reduced ordered decision form), not as text.
//
// Consequences (what makes a table row independent of where code is written):
//   * in-package helpers are executed, not named: `x = wrap(x, n)` with
//     `func wrap(i, n) { if i < 0 { return i + n }; return i }` and the inline
//     `if x < 0 { x += n }` give the same paths; `return helper(args)` gives
//     the helper's outcomes (two duplicated pieces merged into one helper);
//   * early return <-> nesting, if-chain <-> switch, `a || b` <-> two ifs,
//     `!(a && b)` <-> `!a || !b`, `i >= n` <-> `!(i < n)` <-> `n <= i`: equal
//     boolean functions over the same atoms;
//   * locals, temporaries and parameter names do not occur in the result;
//   * a loop is summarised by what one iteration does to the variables that
//     outlive it (and by the exits it takes), with `for i := 0; i < len(X);
//     i++ {… X[i] …}` read as `range X`.
// Not attempted: arithmetic identities beyond commutativity of + and *,
// relations between atoms (i < 0 and i >= n are independent atoms), loops
// rewritten into a different iteration scheme, statement-level helpers with
// side effects reordered against other effects.

import (
	"fmt"
	"go/ast"
	"go/token"
	"go/types"
	"sort"
	"strings"
)

// ---------------------------------------------------------------------------
// boolean formulas
// ---------------------------------------------------------------------------

type mbB struct {
	op   byte // 'a' atom, '&', '|', '!', 'T', 'F'
	atom string
	x, y *mbB
}

var (
	mbTrue  = &mbB{op: 'T'}
	mbFalse = &mbB{op: 'F'}
)

func mbAtomB(s string) *mbB {
	switch s {
	case "true":
		return mbTrue
	case "false":
		return mbFalse
	}
	return &mbB{op: 'a', atom: s}
}

func mbNotB(a *mbB) *mbB {
	switch a.op {
	case 'T':
		return mbFalse
	case 'F':
		return mbTrue
	case '!':
		return a.x
	}
	return &mbB{op: '!', x: a}
}

func mbAndB(a, b *mbB) *mbB {
	switch {
	case a.op == 'F' || b.op == 'F':
		return mbFalse
	case a.op == 'T':
		return b
	case b.op == 'T':
		return a
	}
	return &mbB{op: '&', x: a, y: b}
}

func mbOrB(a, b *mbB) *mbB {
	switch {
	case a.op == 'T' || b.op == 'T':
		return mbTrue
	case a.op == 'F':
		return b
	case b.op == 'F':
		return a
	}
	return &mbB{op: '|', x: a, y: b}
}

func (b *mbB) collect(set map[string]bool) {
	switch b.op {
	case 'a':
		set[b.atom] = true
	case '!':
		b.x.collect(set)
	case '&', '|':
		b.x.collect(set)
		b.y.collect(set)
	}
}

func (b *mbB) eval(asg map[string]bool) bool {
	switch b.op {
	case 'T':
		return true
	case 'F':
		return false
	case 'a':
		return asg[b.atom]
	case '!':
		return !b.x.eval(asg)
	case '&':
		return b.x.eval(asg) && b.y.eval(asg)
	case '|':
		return b.x.eval(asg) || b.y.eval(asg)
	}
	return false
}

func (b *mbB) raw() string {
	switch b.op {
	case 'T':
		return "T"
	case 'F':
		return "F"
	case 'a':
		return b.atom
	case '!':
		return "¬" + b.x.raw()
	case '&':
		return "(" + b.x.raw() + " ∧ " + b.y.raw() + ")"
	case '|':
		return "(" + b.x.raw() + " ∨ " + b.y.raw() + ")"
	}
	return "?"
}

const mbMaxAtoms = 14

func mbTruthTable(b *mbB) (atoms []string, tab []bool, ok bool) {
	set := map[string]bool{}
	b.collect(set)
	for a := range set {
		atoms = append(atoms, a)
	}
	sort.Strings(atoms)
	k := len(atoms)
	if k > mbMaxAtoms {
		return atoms, nil, false
	}
	tab = make([]bool, 1<<k)
	asg := map[string]bool{}
	for m := range tab {
		for i, a := range atoms {
			// atom 0 is the most significant bit: set = first half … wait: bit set means true
			asg[a] = m&(1<<(k-1-i)) != 0
		}
		tab[m] = b.eval(asg)
	}
	return atoms, tab, true
}

// mbSatB: the formula is not identically false (atoms are independent).
func mbSatB(b *mbB) bool {
	if b.op == 'T' {
		return true
	}
	if b.op == 'F' {
		return false
	}
	_, tab, ok := mbTruthTable(b)
	if !ok {
		return true
	}
	for _, v := range tab {
		if v {
			return true
		}
	}
	return false
}

// mbCanonB renders the boolean function denoted by b in a canonical form: a
// reduced ordered decision form over the sorted atoms. Two formulas denoting
// the same function of their atoms render alike.
func mbCanonB(b *mbB) string {
	atoms, tab, ok := mbTruthTable(b)
	if !ok {
		return "?" + b.raw()
	}
	var build func(lo, n, level int) string
	build = func(lo, n, level int) string {
		all := true
		for i := lo + 1; i < lo+n; i++ {
			if tab[i] != tab[lo] {
				all = false
				break
			}
		}
		if all {
			if tab[lo] {
				return "T"
			}
			return "F"
		}
		h := n / 2
		f := build(lo, h, level+1)   // atom false
		t := build(lo+h, h, level+1) // atom true
		a := atoms[level]
		switch {
		case t == f:
			return t
		case t == "T" && f == "F":
			return a
		case t == "F" && f == "T":
			return "¬(" + a + ")"
		case t == "T":
			return "(" + a + " ∨ " + f + ")"
		case f == "F":
			return "(" + a + " ∧ " + t + ")"
		case t == "F":
			return "(¬(" + a + ") ∧ " + f + ")"
		case f == "T":
			return "(¬(" + a + ") ∨ " + t + ")"
		}
		return "(" + a + " ? " + t + " : " + f + ")"
	}
	return build(0, len(tab), 0)
}

// ---------------------------------------------------------------------------
// formulas from expressions
// ---------------------------------------------------------------------------

func mbEqAtom(a, b string) *mbB {
	if a == b {
		return mbTrue
	}
	if b < a {
		a, b = b, a
	}
	return mbAtomB(a + " == " + b)
}

func mbLtAtom(a, b string) *mbB {
	if a == b {
		return mbFalse
	}
	return mbAtomB(a + " < " + b)
}

func (n *mbNorm) isIntrPtr(e ast.Expr) bool {
	if n.l == nil || n.l.intrT == nil {
		return false
	}
	t := n.info.TypeOf(e)
	if t == nil {
		return false
	}
	p, ok := t.(*types.Pointer)
	return ok && types.Identical(p.Elem(), n.l.intrT)
}

func (n *mbNorm) cmpB(op token.Token, X, Y ast.Expr, depth int) *mbB {
	if op == token.EQL || op == token.NEQ {
		// bool == bool: equivalence of the two formulas
		isB := func(e ast.Expr) bool {
			t := n.info.TypeOf(e)
			if t == nil {
				return false
			}
			b, ok := t.Underlying().(*types.Basic)
			return ok && b.Info()&types.IsBoolean != 0
		}
		if isB(X) && isB(Y) {
			f, g := n.formula(X, depth+1), n.formula(Y, depth+1)
			eq := mbOrB(mbAndB(f, g), mbAndB(mbNotB(f), mbNotB(g)))
			if op == token.NEQ {
				return mbNotB(eq)
			}
			return eq
		}
	}
	a, b := n.strD(X, depth), n.strD(Y, depth)
	if op == token.EQL || op == token.NEQ {
		// a freshly built value / interrupt is not nil
		built := func(s string) bool {
			return strings.HasPrefix(s, "error:") || strings.HasPrefix(s, "mk") && strings.Contains(s, "(") || strings.HasPrefix(s, "&")
		}
		if (a == "nil" && built(b)) || (b == "nil" && built(a)) {
			if op == token.EQL {
				return mbFalse
			}
			return mbTrue
		}
	}
	if n.noIntr && (op == token.EQL || op == token.NEQ) {
		// "no callee raised an interrupt": the twins differ in how interrupts
		// travel (third result vs. none), the tables compare the normal paths.
		// An interrupt built by an executed helper is known (handled above);
		// what remains is the opaque result of a callee.
		if (mbIsNil(n.info, Y) && n.isIntrPtr(X)) || (mbIsNil(n.info, X) && n.isIntrPtr(Y)) {
			if op == token.EQL {
				return mbTrue
			}
			return mbFalse
		}
	}
	if n.reg != nil && (op == token.EQL || op == token.NEQ) {
		// selector atoms: <subject> == <constant of a kind enumeration>
		if k := ConstOf(n.info, Y); k != nil && mbIsEnumConst(k) {
			n.reg.note(mbEqAtom(a, b), a, b)
			n.reg.consts[b] = k
		} else if k := ConstOf(n.info, X); k != nil && mbIsEnumConst(k) {
			n.reg.note(mbEqAtom(a, b), b, a)
			n.reg.consts[a] = k
		}
	}
	switch op {
	case token.EQL:
		return mbEqAtom(a, b)
	case token.NEQ:
		return mbNotB(mbEqAtom(a, b))
	case token.LSS:
		return mbLtAtom(a, b)
	case token.GEQ:
		return mbNotB(mbLtAtom(a, b))
	case token.GTR:
		return mbLtAtom(b, a)
	case token.LEQ:
		return mbNotB(mbLtAtom(b, a))
	}
	return mbAtomB(a + " " + op.String() + " " + b)
}

// formula: the boolean expression e as a formula over canonical atoms
// (comparisons are brought to `a == b` / `a < b` with a polarity; negations,
// &&, ||, single-definition locals, bool locals of the symbolic environment
// and one-line helpers are looked through).
func (n *mbNorm) formula(e ast.Expr, depth int) *mbB {
	if depth > 12 {
		return mbAtomB("…")
	}
	if tv, ok := n.info.Types[e]; ok && tv.Value != nil {
		return mbAtomB(tv.Value.ExactString())
	}
	switch x := e.(type) {
	case *ast.ParenExpr:
		return n.formula(x.X, depth)
	case *ast.UnaryExpr:
		if x.Op == token.NOT {
			return mbNotB(n.formula(x.X, depth))
		}
	case *ast.BinaryExpr:
		switch x.Op {
		case token.LAND:
			return mbAndB(n.formula(x.X, depth), n.formula(x.Y, depth))
		case token.LOR:
			return mbOrB(n.formula(x.X, depth), n.formula(x.Y, depth))
		case token.EQL, token.NEQ, token.LSS, token.LEQ, token.GTR, token.GEQ:
			return n.cmpB(x.Op, x.X, x.Y, depth)
		}
	case *ast.Ident:
		o := n.info.Uses[x]
		if o == nil {
			o = n.info.Defs[x]
		}
		if o != nil {
			if f, ok := n.boolEnv[o]; ok {
				return f
			}
			if r, isRole := n.roles[o]; isRole {
				return mbAtomB(r)
			}
			if !n.busy[o] {
				if ds := n.defs[o]; len(ds) == 1 && !ds[0].zero && !ds[0].isSet {
					d := ds[0]
					n.busy[o] = true
					var res *mbB
					if d.tupleIdx >= 0 {
						if call, isCall := ast.Unparen(d.rhs).(*ast.CallExpr); isCall {
							res = n.inlineB(call, d.tupleIdx, depth+1)
						}
					} else {
						res = n.formula(d.rhs, depth+1)
					}
					delete(n.busy, o)
					if res != nil {
						return res
					}
				}
			}
		}
	case *ast.CallExpr:
		if cv, ok := n.callVals[x]; ok && len(cv.vals) == 1 {
			if len(cv.bvals) == 1 && cv.bvals[0] != nil {
				return cv.bvals[0]
			}
			return mbAtomB(cv.vals[0])
		}
		if f := n.inlineB(x, -1, depth+1); f != nil {
			return f
		}
	}
	return mbAtomB(n.strD(e, depth))
}

// inlineB: like inline, for a boolean result, as a formula.
func (n *mbNorm) inlineB(call *ast.CallExpr, idx int, depth int) *mbB {
	sub, res := n.inlineTarget(call, idx, depth)
	if sub == nil {
		return nil
	}
	if b, ok := n.info.TypeOf(res).Underlying().(*types.Basic); !ok || b.Info()&types.IsBoolean == 0 {
		return nil
	}
	return sub.formula(res, 0)
}

// mbAtomReg: the selector atoms met during an execution — comparisons of a
// subject with a constant of a named constant type (`v.Kind() == ListKind`)
// and the type tests of type switches (`v is ValueList`). A table is read per
// selector value by restricting the outcome conditions (mbRestrictB).
type mbSelAtom struct{ subject, label string }

type mbAtomReg struct {
	sel    map[string]mbSelAtom
	consts map[string]*types.Const // label -> the constant it renders
}

func (r *mbAtomReg) note(atom *mbB, subject, label string) {
	if r == nil || atom.op != 'a' {
		return
	}
	r.sel[atom.atom] = mbSelAtom{subject, label}
}

func mbIsEnumConst(k *types.Const) bool {
	if k.Pkg() == nil {
		return false
	}
	_, named := types.Unalias(k.Type()).(*types.Named)
	return named
}

// labelsOf: labels tested against subject, sorted.
func (r *mbAtomReg) labelsOf(subject string) []string {
	set := map[string]bool{}
	for _, s := range r.sel {
		if s.subject == subject {
			set[s.label] = true
		}
	}
	return mbSortedKeys(set)
}

// subjects: all subjects, sorted.
func (r *mbAtomReg) subjects() []string {
	set := map[string]bool{}
	for _, s := range r.sel {
		set[s.subject] = true
	}
	return mbSortedKeys(set)
}

// mainSubject: the subject with the most selector atoms.
func (r *mbAtomReg) mainSubject() string {
	cnt := map[string]int{}
	for _, s := range r.sel {
		cnt[s.subject]++
	}
	best := ""
	for s, c := range cnt {
		if c > cnt[best] || (c == cnt[best] && s < best) {
			best = s
		}
	}
	return best
}

// selecting: the assignment "subject has exactly the value `label`" ("" = none
// of the tested values).
func (r *mbAtomReg) selecting(subject, label string) map[string]bool {
	asg := map[string]bool{}
	for a, s := range r.sel {
		if s.subject == subject {
			asg[a] = s.label == label
		}
	}
	return asg
}

func mbRestrictB(b *mbB, asg map[string]bool) *mbB {
	switch b.op {
	case 'a':
		if v, ok := asg[b.atom]; ok {
			if v {
				return mbTrue
			}
			return mbFalse
		}
		return b
	case '!':
		return mbNotB(mbRestrictB(b.x, asg))
	case '&':
		return mbAndB(mbRestrictB(b.x, asg), mbRestrictB(b.y, asg))
	case '|':
		return mbOrB(mbRestrictB(b.x, asg), mbRestrictB(b.y, asg))
	}
	return b
}

// mbSymRestrict: the outcomes under an assignment of selector atoms.
func mbSymRestrict(outs []mbSymOut, asg map[string]bool) []mbSymOut {
	var res []mbSymOut
	for _, o := range outs {
		o.cond = mbRestrictB(o.cond, asg)
		if o.cond.op == 'F' {
			continue
		}
		res = append(res, o)
	}
	return res
}

// ---------------------------------------------------------------------------
// executor
// ---------------------------------------------------------------------------

type mbCallVal struct {
	vals  []string
	bvals []*mbB
	exprs []ast.Expr
	norm  *mbNorm
}

type mbSymSt struct {
	n    *mbNorm
	cond *mbB     // condition of the path, local to the innermost enclosing loop body
	eff  []string // side effects so far (stores to non-locals, calls for effect), in order
	exit string   // "", "break", "continue"
	// enclosing loop bodies the path is inside of (innermost last). A path that
	// leaves a helper from inside a loop stays "inside" that loop: what the
	// caller tests afterwards is tested for the same iteration.
	frames []mbSymFrame
}

func (st *mbSymSt) clone() *mbSymSt {
	c := &mbSymSt{n: st.n.fork(), cond: st.cond, exit: st.exit}
	c.eff = append([]string(nil), st.eff...)
	c.frames = append([]mbSymFrame(nil), st.frames...)
	return c
}

type mbSymOut struct {
	kind   string       // "return" | "panic"
	frames []mbSymFrame // captured helper returns only
	cond   *mbB
	eff    []string
	vals   []string
	bvals  []*mbB
	exprs  []ast.Expr // the result expressions, to be read with norm
	norm   *mbNorm
}

type mbSymFrame struct {
	hdr   string
	outer *mbB
}

type mbSym struct {
	l           *mbLib
	outs        []mbSymOut
	stack       []*types.Func
	capture     *[]mbSymOut
	nstates     int
	incomplete  string
	helperDepth int
}

const mbSymBudget = 3000

const mbSymHelperMaxStmts = 150

var mbStmtCountCache = map[*ast.BlockStmt]int{}

func mbStmtCount(b *ast.BlockStmt) int {
	if n, ok := mbStmtCountCache[b]; ok {
		return n
	}
	n := 0
	ast.Inspect(b, func(nd ast.Node) bool {
		if _, ok := nd.(ast.Stmt); ok {
			if _, isBlock := nd.(*ast.BlockStmt); !isBlock {
				n++
			}
		}
		return true
	})
	mbStmtCountCache[b] = n
	return n
}

func (x *mbSym) giveUp(why string) {
	if x.incomplete == "" {
		x.incomplete = why
	}
}

// fullCond: the condition of st seen from loop depth `from`: each enclosing
// loop body contributes "some iteration satisfies <local condition>".
func (x *mbSym) fullCond(st *mbSymSt, from int) *mbB {
	c := st.cond
	for i := len(st.frames) - 1; i >= from; i-- {
		fr := st.frames[i]
		c = mbAndB(fr.outer, mbAtomB("∃"+fr.hdr+": "+mbCanonB(c)))
	}
	return c
}

func (x *mbSym) emit(kind string, st *mbSymSt, cv mbCallVal) {
	o := mbSymOut{kind: kind, eff: append([]string(nil), st.eff...), vals: cv.vals, bvals: cv.bvals, exprs: cv.exprs, norm: cv.norm}
	if kind == "return" && x.capture != nil {
		o.cond = st.cond
		o.frames = append([]mbSymFrame(nil), st.frames...)
		*x.capture = append(*x.capture, o)
		return
	}
	o.cond = x.fullCond(st, 0)
	x.outs = append(x.outs, o)
}

// mbSymExec executes body with normaliser n (whose roles are the initial
// environment). noIntr: interrupt-typed values are assumed nil ("no callee
// raised an interrupt"), so that interrupt plumbing does not show.
func mbSymExec(l *mbLib, n *mbNorm, body []ast.Stmt, noIntr bool) (outs []mbSymOut, reg *mbAtomReg, incomplete string) {
	return mbSymExecDepth(l, n, body, noIntr, 2)
}

// mbSymExecDepth: helpers are executed up to helperDepth levels (0: the body
// only; calls stay opaque / one-line helpers are substituted).
func mbSymExecDepth(l *mbLib, n *mbNorm, body []ast.Stmt, noIntr bool, helperDepth int) (outs []mbSymOut, reg *mbAtomReg, incomplete string) {
	x := &mbSym{l: l, helperDepth: helperDepth}
	root := n.fork()
	root.noIntr = noIntr
	root.symMode = true
	root.reg = &mbAtomReg{sel: map[string]mbSelAtom{}, consts: map[string]*types.Const{}}
	end := x.list(body, []*mbSymSt{{n: root, cond: mbTrue}})
	for _, st := range end {
		if st.exit == "" {
			x.outs = append(x.outs, mbSymOut{kind: "fall", cond: x.fullCond(st, 0), eff: st.eff, norm: st.n})
		}
	}
	return x.outs, root.reg, x.incomplete
}

func (x *mbSym) list(stmts []ast.Stmt, in []*mbSymSt) []*mbSymSt {
	cur := in
	var done []*mbSymSt
	for _, s := range stmts {
		var next []*mbSymSt
		for _, st := range cur {
			if st.exit != "" {
				done = append(done, st)
				continue
			}
			next = append(next, x.stmt(s, st)...)
		}
		cur = next
		if len(cur) == 0 {
			break
		}
	}
	return append(done, cur...)
}

func (x *mbSym) fork(st *mbSymSt, f *mbB) *mbSymSt {
	c := mbAndB(st.cond, f)
	if !mbSatB(c) {
		return nil
	}
	x.nstates++
	if x.nstates > mbSymBudget {
		x.giveUp("path budget exceeded")
		return nil
	}
	ns := st.clone()
	ns.cond = c
	return ns
}

// ---- helpers that are executed rather than named ----

// symHelper: call is a call of an in-package function/method with a body that
// is more than `return <expr>` (those are substituted by mbNorm.inline), not a
// value/interrupt constructor, not the function under analysis, not already
// being executed.
func (x *mbSym) symHelper(n *mbNorm, call *ast.CallExpr) (*types.Func, *ast.FuncDecl) {
	if n.l == nil || len(x.stack) >= x.helperDepth {
		return nil, nil
	}
	fn := CalleeOf(n.info, call)
	if fn == nil || fn == n.selfFn {
		return nil, nil
	}
	fd := n.l.decls[fn]
	if fd == nil || fd.Body == nil {
		return nil, nil
	}
	for _, s := range x.stack {
		if s == fn {
			return nil, nil
		}
	}
	if n.l.ctorOf(fn) != nil || n.l.errClass(call) != "" {
		return nil, nil
	}
	if len(fd.Body.List) == 1 {
		if _, ok := fd.Body.List[0].(*ast.ReturnStmt); ok {
			return nil, nil
		}
	}
	// safety bound against path explosion
	if mbStmtCount(fd.Body) > mbSymHelperMaxStmts {
		return nil, nil
	}
	// a recursive function of the library (a marshaller, the cast worker) is a
	// table of its own: it is executed only as part of the recursion scheme of
	// the function under analysis (a helper that calls back into it)
	if n.l.reaches(fn, fn) && !(n.selfFn != nil && n.l.reaches(fn, n.selfFn) && n.l.reaches(n.selfFn, fn)) {
		return nil, nil
	}
	// a helper that (transitively, one level) calls the function under analysis
	// is part of the recursion scheme and is executed as well; nothing to exclude
	return fn, fd
}

// hoist executes the helper calls occurring in exprs (innermost first) and
// returns the resulting states, each with the calls bound to their results.
func (x *mbSym) hoist(st *mbSymSt, exprs ...ast.Expr) []*mbSymSt {
	var calls []*ast.CallExpr
	for _, e := range exprs {
		if e == nil {
			continue
		}
		var walk func(nd ast.Node)
		walk = func(nd ast.Node) {
			ast.Inspect(nd, func(c ast.Node) bool {
				switch y := c.(type) {
				case *ast.FuncLit:
					return false
				case *ast.CallExpr:
					// children first
					walk(y.Fun)
					for _, a := range y.Args {
						walk(a)
					}
					if _, fd := x.symHelper(st.n, y); fd != nil {
						calls = append(calls, y)
					}
					return false
				}
				return true
			})
		}
		walk(e)
	}
	cur := []*mbSymSt{st}
	for _, call := range calls {
		var next []*mbSymSt
		for _, s := range cur {
			if _, done := s.n.callVals[call]; done {
				next = append(next, s)
				continue
			}
			next = append(next, x.runHelper(s, call)...)
		}
		cur = next
	}
	return cur
}

func (x *mbSym) runHelper(st *mbSymSt, call *ast.CallExpr) []*mbSymSt {
	n := st.n
	fn, fd := x.symHelper(n, call)
	if fd == nil {
		return []*mbSymSt{st}
	}
	sub := n.subNorm(call, fd, 0)
	sub.selfFn = n.selfFn
	sub.noIntr, sub.symMode = n.noIntr, true
	// named results start as zero values
	var named []types.Object
	if fd.Type.Results != nil {
		for _, f := range fd.Type.Results.List {
			for _, nm := range f.Names {
				if o := n.info.Defs[nm]; o != nil {
					sub.roles[o] = "zero"
					named = append(named, o)
				}
			}
		}
	}
	hst := &mbSymSt{n: sub, cond: st.cond, eff: append([]string(nil), st.eff...), frames: append([]mbSymFrame(nil), st.frames...)}
	var rets []mbSymOut
	savedCap := x.capture
	x.capture = &rets
	x.stack = append(x.stack, fn)
	end := x.list(fd.Body.List, []*mbSymSt{hst})
	x.stack = x.stack[:len(x.stack)-1]
	x.capture = savedCap
	for _, e := range end {
		if e.exit != "" {
			continue
		}
		o := mbSymOut{kind: "return", cond: e.cond, eff: e.eff, norm: e.n, frames: e.frames}
		for _, r := range named {
			o.vals = append(o.vals, e.n.roles[r])
			o.bvals = append(o.bvals, e.n.boolEnv[r])
		}
		rets = append(rets, o)
	}
	var out []*mbSymSt
	for _, r := range rets {
		if !mbSatB(r.cond) {
			continue
		}
		if len(r.frames) > len(st.frames)+2 {
			x.giveUp("helper left from inside nested loops")
			return out
		}
		x.nstates++
		if x.nstates > mbSymBudget {
			x.giveUp("path budget exceeded")
			return out
		}
		ns := st.clone()
		ns.cond = r.cond
		ns.frames = append([]mbSymFrame(nil), r.frames...)
		ns.eff = append([]string(nil), r.eff...)
		ns.n.callVals[call] = mbCallVal{vals: r.vals, bvals: r.bvals, exprs: r.exprs, norm: r.norm}
		out = append(out, ns)
	}
	return out
}

// ---- statements ----

func (x *mbSym) isLocal(n *mbNorm, o types.Object) bool {
	v, ok := o.(*types.Var)
	if !ok || v.IsField() {
		return false
	}
	return v.Parent() != nil && v.Pkg() != nil && v.Parent() != v.Pkg().Scope()
}

func (x *mbSym) isBool(n *mbNorm, e ast.Expr) bool {
	t := n.info.TypeOf(e)
	if t == nil {
		return false
	}
	b, ok := t.Underlying().(*types.Basic)
	return ok && b.Info()&types.IsBoolean != 0
}

func (x *mbSym) bind(st *mbSymSt, lhs ast.Expr, val string, bval *mbB) {
	n := st.n
	switch lx := ast.Unparen(lhs).(type) {
	case *ast.Ident:
		if lx.Name == "_" {
			return
		}
		o := n.obj(lx)
		if o != nil && x.isLocal(n, o) {
			n.roles[o] = val
			if bval != nil {
				n.boolEnv[o] = bval
			} else {
				delete(n.boolEnv, o)
			}
			return
		}
	case *ast.IndexExpr:
		if id, ok := ast.Unparen(lx.X).(*ast.Ident); ok {
			if o := n.obj(id); o != nil && x.isLocal(n, o) {
				if _, isPtr := o.Type().Underlying().(*types.Pointer); !isPtr {
					n.roles[o] = "upd(" + n.strD(id, 0) + ")[" + n.strD(lx.Index, 0) + "]=" + val
					return
				}
			}
		}
	}
	st.eff = append(st.eff, "store "+n.strD(lhs, 0)+" := "+val)
}

func (x *mbSym) assign(st *mbSymSt, s *ast.AssignStmt) []*mbSymSt {
	var scan []ast.Expr
	scan = append(scan, s.Rhs...)
	for _, l := range s.Lhs {
		if ix, ok := ast.Unparen(l).(*ast.IndexExpr); ok {
			scan = append(scan, ix.Index)
		}
	}
	var out []*mbSymSt
	for _, st := range x.hoist(st, scan...) {
		n := st.n
		switch {
		case len(s.Lhs) == len(s.Rhs):
			vals := make([]string, len(s.Rhs))
			bvals := make([]*mbB, len(s.Rhs))
			for i, r := range s.Rhs {
				e := r
				if s.Tok != token.ASSIGN && s.Tok != token.DEFINE {
					op := token.Token(int(s.Tok) - int(token.ADD_ASSIGN) + int(token.ADD))
					e = &ast.BinaryExpr{X: s.Lhs[i], Op: op, Y: r}
					vals[i] = "(" + n.binStr(op, n.operand(s.Lhs[i], 0), n.operand(r, 0), n.info.TypeOf(s.Lhs[i])) + ")"
				} else {
					vals[i] = n.argStr(e, 0)
					if x.isBool(n, r) {
						bvals[i] = n.formula(r, 0)
					}
				}
			}
			for i, l := range s.Lhs {
				x.bind(st, l, vals[i], bvals[i])
			}
		case len(s.Rhs) == 1:
			r := ast.Unparen(s.Rhs[0])
			var cv *mbCallVal
			call, isCall := r.(*ast.CallExpr)
			if isCall {
				if v, ok := n.callVals[call]; ok {
					cv = &v
				}
			}
			vals := make([]string, len(s.Lhs))
			bvals := make([]*mbB, len(s.Lhs))
			for i := range s.Lhs {
				switch {
				case cv != nil && i < len(cv.vals):
					vals[i] = cv.vals[i]
					if i < len(cv.bvals) {
						bvals[i] = cv.bvals[i]
					}
				default:
					vals[i] = n.defStr(mbDef{rhs: s.Rhs[0], tupleIdx: i}, 0)
				}
			}
			for i, l := range s.Lhs {
				x.bind(st, l, vals[i], bvals[i])
			}
		default:
			x.giveUp("assignment shape")
		}
		out = append(out, st)
	}
	return out
}

func (x *mbSym) returns(st *mbSymSt, s *ast.ReturnStmt) {
	for _, st := range x.hoist(st, s.Results...) {
		n := st.n
		if len(s.Results) == 1 {
			if call, ok := ast.Unparen(s.Results[0]).(*ast.CallExpr); ok {
				if cv, ok := n.callVals[call]; ok && len(cv.vals) != 1 {
					x.emit("return", st, cv)
					continue
				}
			}
		}
		cv := mbCallVal{norm: n}
		for _, r := range s.Results {
			if call, ok := ast.Unparen(r).(*ast.CallExpr); ok {
				if hv, ok := n.callVals[call]; ok && len(hv.vals) == 1 {
					// the value was computed by a helper: keep the helper's own expression
					cv.vals = append(cv.vals, hv.vals[0])
					cv.bvals = append(cv.bvals, hv.bvals[0])
					if len(hv.exprs) == 1 {
						cv.exprs = append(cv.exprs, hv.exprs[0])
					} else {
						cv.exprs = append(cv.exprs, r)
					}
					continue
				}
			}
			if x.capture != nil {
				cv.vals = append(cv.vals, n.argStr(r, 0)) // will be substituted at the call site
			} else {
				cv.vals = append(cv.vals, n.strD(r, 0))
			}
			if x.isBool(n, r) {
				cv.bvals = append(cv.bvals, n.formula(r, 0))
			} else {
				cv.bvals = append(cv.bvals, nil)
			}
			cv.exprs = append(cv.exprs, r)
		}
		x.emit("return", st, cv)
	}
}

func (x *mbSym) branch(st *mbSymSt, cond ast.Expr, then func(*mbSymSt) []*mbSymSt, els func(*mbSymSt) []*mbSymSt) []*mbSymSt {
	var out []*mbSymSt
	for _, st := range x.hoist(st, cond) {
		f := st.n.formula(cond, 0)
		if a := x.fork(st, f); a != nil {
			out = append(out, then(a)...)
		}
		if b := x.fork(st, mbNotB(f)); b != nil {
			out = append(out, els(b)...)
		}
	}
	return out
}

func (x *mbSym) stmt(s ast.Stmt, st *mbSymSt) []*mbSymSt {
	if x.incomplete != "" {
		return nil
	}
	n := st.n
	switch s := s.(type) {
	case nil, *ast.EmptyStmt:
		return []*mbSymSt{st}
	case *ast.BlockStmt:
		return x.list(s.List, []*mbSymSt{st})
	case *ast.LabeledStmt:
		return x.stmt(s.Stmt, st)
	case *ast.AssignStmt:
		return x.assign(st, s)
	case *ast.IncDecStmt:
		op := token.ADD
		if s.Tok == token.DEC {
			op = token.SUB
		}
		x.bind(st, s.X, "("+n.binStr(op, n.strD(s.X, 0), "1", n.info.TypeOf(s.X))+")", nil)
		return []*mbSymSt{st}
	case *ast.DeclStmt:
		gd, ok := s.Decl.(*ast.GenDecl)
		if !ok || gd.Tok != token.VAR {
			return []*mbSymSt{st}
		}
		cur := []*mbSymSt{st}
		for _, sp := range gd.Specs {
			vs, ok := sp.(*ast.ValueSpec)
			if !ok {
				continue
			}
			var next []*mbSymSt
			for _, c := range cur {
				for _, h := range x.hoist(c, vs.Values...) {
					for i, nm := range vs.Names {
						switch {
						case len(vs.Values) == len(vs.Names):
							var bv *mbB
							if x.isBool(h.n, vs.Values[i]) {
								bv = h.n.formula(vs.Values[i], 0)
							}
							x.bind(h, nm, h.n.argStr(vs.Values[i], 0), bv)
						case len(vs.Values) == 1:
							x.bind(h, nm, h.n.defStr(mbDef{rhs: vs.Values[0], tupleIdx: i}, 0), nil)
						default:
							x.bind(h, nm, "zero", nil)
						}
					}
					next = append(next, h)
				}
			}
			cur = next
		}
		return cur
	case *ast.ExprStmt:
		if IsPanicCall(n.info, s) {
			x.emit("panic", st, mbCallVal{norm: n})
			return nil
		}
		var out []*mbSymSt
		for _, h := range x.hoist(st, s.X) {
			if call, ok := ast.Unparen(s.X).(*ast.CallExpr); ok {
				if _, done := h.n.callVals[call]; !done {
					h.eff = append(h.eff, "call "+h.n.strD(call, 0))
				}
			}
			out = append(out, h)
		}
		return out
	case *ast.ReturnStmt:
		x.returns(st, s)
		return nil
	case *ast.IfStmt:
		var out []*mbSymSt
		for _, st := range x.stmt(s.Init, st) {
			if st.exit != "" {
				out = append(out, st)
				continue
			}
			out = append(out, x.branch(st, s.Cond,
				func(a *mbSymSt) []*mbSymSt { return x.list(s.Body.List, []*mbSymSt{a}) },
				func(b *mbSymSt) []*mbSymSt {
					if s.Else == nil {
						return []*mbSymSt{b}
					}
					return x.stmt(s.Else, b)
				})...)
		}
		return out
	case *ast.SwitchStmt:
		return x.switchStmt(st, s)
	case *ast.TypeSwitchStmt:
		return x.typeSwitch(st, s)
	case *ast.RangeStmt:
		return x.loop(st, s, s.Body)
	case *ast.ForStmt:
		return x.loop(st, s, s.Body)
	case *ast.BranchStmt:
		if s.Label != nil {
			x.giveUp("labelled " + s.Tok.String())
			return nil
		}
		switch s.Tok {
		case token.BREAK:
			st.exit = "break"
		case token.CONTINUE:
			st.exit = "continue"
		default:
			x.giveUp(s.Tok.String())
			return nil
		}
		return []*mbSymSt{st}
	case *ast.DeferStmt:
		st.eff = append(st.eff, "defer "+n.strD(s.Call, 0))
		return []*mbSymSt{st}
	case *ast.GoStmt:
		st.eff = append(st.eff, "go "+n.strD(s.Call, 0))
		return []*mbSymSt{st}
	}
	x.giveUp(fmt.Sprintf("statement %T", s))
	return nil
}

func (x *mbSym) switchStmt(st *mbSymSt, s *ast.SwitchStmt) []*mbSymSt {
	var out []*mbSymSt
	for _, st := range x.stmt(s.Init, st) {
		if st.exit != "" {
			out = append(out, st)
			continue
		}
		var scan []ast.Expr
		if s.Tag != nil {
			scan = append(scan, s.Tag)
		}
		for _, c := range s.Body.List {
			scan = append(scan, c.(*ast.CaseClause).List...)
		}
		for _, st := range x.hoist(st, scan...) {
			n := st.n
			none := mbTrue // no earlier clause matched
			var deflt *ast.CaseClause
			run := func(cc *ast.CaseClause, m *mbB) {
				a := x.fork(st, m)
				if a == nil {
					return
				}
				for _, e := range x.list(cc.Body, []*mbSymSt{a}) {
					if e.exit == "break" {
						e.exit = ""
					}
					out = append(out, e)
				}
			}
			for _, c := range s.Body.List {
				cc := c.(*ast.CaseClause)
				if cc.List == nil {
					deflt = cc
					continue
				}
				for _, b := range cc.Body {
					if br, ok := b.(*ast.BranchStmt); ok && br.Tok == token.FALLTHROUGH {
						x.giveUp("fallthrough")
						return nil
					}
				}
				m := mbFalse
				for _, v := range cc.List {
					if s.Tag != nil {
						m = mbOrB(m, n.cmpB(token.EQL, s.Tag, v, 0))
					} else {
						m = mbOrB(m, n.formula(v, 0))
					}
				}
				run(cc, mbAndB(none, m))
				none = mbAndB(none, mbNotB(m))
			}
			if deflt != nil {
				run(deflt, none)
			} else if a := x.fork(st, none); a != nil {
				out = append(out, a)
			}
		}
	}
	return out
}

func (x *mbSym) typeSwitch(st *mbSymSt, s *ast.TypeSwitchStmt) []*mbSymSt {
	var out []*mbSymSt
	for _, st := range x.stmt(s.Init, st) {
		if st.exit != "" {
			out = append(out, st)
			continue
		}
		var subj ast.Expr
		switch a := s.Assign.(type) {
		case *ast.AssignStmt:
			if ta, ok := ast.Unparen(a.Rhs[0]).(*ast.TypeAssertExpr); ok {
				subj = ta.X
			}
		case *ast.ExprStmt:
			if ta, ok := ast.Unparen(a.X).(*ast.TypeAssertExpr); ok {
				subj = ta.X
			}
		}
		if subj == nil {
			x.giveUp("type switch subject")
			return nil
		}
		for _, st := range x.hoist(st, subj) {
			n := st.n
			sub := n.strD(subj, 0)
			none := mbTrue
			var deflt *ast.CaseClause
			run := func(cc *ast.CaseClause, m *mbB) {
				a := x.fork(st, m)
				if a == nil {
					return
				}
				if o := n.info.Implicits[cc]; o != nil {
					a.n.roles[o] = sub
				}
				for _, e := range x.list(cc.Body, []*mbSymSt{a}) {
					if e.exit == "break" {
						e.exit = ""
					}
					out = append(out, e)
				}
			}
			for _, c := range s.Body.List {
				cc := c.(*ast.CaseClause)
				if cc.List == nil {
					deflt = cc
					continue
				}
				m := mbFalse
				for _, v := range cc.List {
					if mbIsNil(n.info, v) {
						m = mbOrB(m, mbEqAtom(sub, "nil"))
						n.reg.note(mbEqAtom(sub, "nil"), sub, "nil")
					} else {
						ts := mbTwin(types.TypeString(n.info.TypeOf(v), func(*types.Package) string { return "" }))
						at := mbAtomB(sub + " is " + ts)
						n.reg.note(at, sub, ts)
						m = mbOrB(m, at)
					}
				}
				run(cc, mbAndB(none, m))
				none = mbAndB(none, mbNotB(m))
			}
			if deflt != nil {
				run(deflt, none)
			} else if a := x.fork(st, none); a != nil {
				out = append(out, a)
			}
		}
	}
	return out
}

// assignedOuter: locals declared outside `body` that a statement of body
// (not a nested function literal) assigns, in declaration order.
func (x *mbSym) assignedOuter(n *mbNorm, nodes ...ast.Node) []types.Object {
	var lo, hi token.Pos
	for _, nd := range nodes {
		if nd == nil {
			continue
		}
		if lo == token.NoPos || nd.Pos() < lo {
			lo = nd.Pos()
		}
		if nd.End() > hi {
			hi = nd.End()
		}
	}
	set := map[types.Object]bool{}
	note := func(e ast.Expr) {
		e = ast.Unparen(e)
		if ix, ok := e.(*ast.IndexExpr); ok {
			e = ast.Unparen(ix.X)
		}
		id, ok := e.(*ast.Ident)
		if !ok || id.Name == "_" {
			return
		}
		o := n.obj(id)
		if o == nil || !x.isLocal(n, o) {
			return
		}
		if o.Pos() >= lo && o.Pos() < hi {
			return
		}
		set[o] = true
	}
	for _, nd := range nodes {
		if nd == nil {
			continue
		}
		mbInspectNoLit(nd, func(c ast.Node) bool {
			switch y := c.(type) {
			case *ast.AssignStmt:
				if y.Tok != token.DEFINE {
					for _, l := range y.Lhs {
						note(l)
					}
				} else {
					for _, l := range y.Lhs {
						if id, ok := l.(*ast.Ident); ok && n.info.Defs[id] == nil {
							note(l) // redeclaration list re-using an outer variable
						}
					}
				}
			case *ast.IncDecStmt:
				note(y.X)
			}
			return true
		})
	}
	var out []types.Object
	for o := range set {
		out = append(out, o)
	}
	sort.Slice(out, func(i, j int) bool { return out[i].Pos() < out[j].Pos() })
	return out
}

// indexLoop recognises `for i := 0; i < len(X); i++ { … }` (i not assigned in
// the body): the range-over-X reading of the loop.
func (x *mbSym) indexLoop(n *mbNorm, f *ast.ForStmt) (types.Object, ast.Expr) {
	as, ok := f.Init.(*ast.AssignStmt)
	if !ok || as.Tok != token.DEFINE || len(as.Lhs) != 1 || len(as.Rhs) != 1 {
		return nil, nil
	}
	id, ok := as.Lhs[0].(*ast.Ident)
	if !ok {
		return nil, nil
	}
	if tv := n.info.Types[as.Rhs[0]]; tv.Value == nil || tv.Value.ExactString() != "0" {
		return nil, nil
	}
	iv := n.info.Defs[id]
	inc, ok := f.Post.(*ast.IncDecStmt)
	if !ok || inc.Tok != token.INC {
		return nil, nil
	}
	if pid, ok := ast.Unparen(inc.X).(*ast.Ident); !ok || n.info.Uses[pid] != iv {
		return nil, nil
	}
	be, ok := ast.Unparen(f.Cond).(*ast.BinaryExpr)
	if !ok || be.Op != token.LSS {
		return nil, nil
	}
	if cid, ok := ast.Unparen(be.X).(*ast.Ident); !ok || n.info.Uses[cid] != iv {
		return nil, nil
	}
	call, ok := ast.Unparen(be.Y).(*ast.CallExpr)
	if !ok || len(call.Args) != 1 {
		return nil, nil
	}
	if fid, ok := call.Fun.(*ast.Ident); !ok || fid.Name != "len" {
		return nil, nil
	} else if _, isB := n.info.Uses[fid].(*types.Builtin); !isB {
		return nil, nil
	}
	for _, o := range x.assignedOuter(n, f.Body) {
		if o == iv {
			return nil, nil
		}
	}
	assigned := false
	mbInspectNoLit(f.Body, func(c ast.Node) bool {
		switch y := c.(type) {
		case *ast.AssignStmt:
			for _, l := range y.Lhs {
				if lid, ok := ast.Unparen(l).(*ast.Ident); ok && n.obj(lid) == iv {
					assigned = true
				}
			}
		case *ast.IncDecStmt:
			if lid, ok := ast.Unparen(y.X).(*ast.Ident); ok && n.obj(lid) == iv {
				assigned = true
			}
		}
		return true
	})
	if assigned {
		return nil, nil
	}
	return iv, call.Args[0]
}

func (x *mbSym) loop(st *mbSymSt, s ast.Stmt, body *ast.BlockStmt) []*mbSymSt {
	var out []*mbSymSt
	var pre []*mbSymSt
	var hdrOf func(n *mbNorm) string
	var carried []types.Object
	var condE ast.Expr
	var post ast.Stmt
	switch l := s.(type) {
	case *ast.RangeStmt:
		pre = x.hoist(st, l.X)
		hdrOf = func(n *mbNorm) string { return "range " + n.strD(l.X, 0) }
		carried = x.assignedOuter(st.n, l.Body)
		if l.Tok == token.ASSIGN {
			x.giveUp("range with assignment to existing variables")
			return nil
		}
	case *ast.ForStmt:
		if iv, X := x.indexLoop(st.n, l); iv != nil {
			pre = x.hoist(st, X)
			hdrOf = func(n *mbNorm) string {
				xs := n.strD(X, 0)
				n.roles[iv] = "key(" + xs + ")"
				return "range " + xs
			}
			carried = x.assignedOuter(st.n, l.Body)
		} else {
			pre = x.stmt(l.Init, st)
			carried = x.assignedOuter(st.n, l.Body, l.Post, l.Init)
			// variables declared by Init and changed by Post/body are loop state too
			if as, ok := l.Init.(*ast.AssignStmt); ok && as.Tok == token.DEFINE {
				chg := map[types.Object]bool{}
				mbInspectNoLit(l.Body, func(c ast.Node) bool {
					switch y := c.(type) {
					case *ast.AssignStmt:
						for _, lh := range y.Lhs {
							if id, ok := ast.Unparen(lh).(*ast.Ident); ok {
								chg[st.n.obj(id)] = true
							}
						}
					case *ast.IncDecStmt:
						if id, ok := ast.Unparen(y.X).(*ast.Ident); ok {
							chg[st.n.obj(id)] = true
						}
					}
					return true
				})
				if l.Post != nil {
					mbInspectNoLit(l.Post, func(c ast.Node) bool {
						switch y := c.(type) {
						case *ast.AssignStmt:
							for _, lh := range y.Lhs {
								if id, ok := ast.Unparen(lh).(*ast.Ident); ok {
									chg[st.n.obj(id)] = true
								}
							}
						case *ast.IncDecStmt:
							if id, ok := ast.Unparen(y.X).(*ast.Ident); ok {
								chg[st.n.obj(id)] = true
							}
						}
						return true
					})
				}
				for _, lh := range as.Lhs {
					if id, ok := lh.(*ast.Ident); ok {
						if o := st.n.info.Defs[id]; o != nil && chg[o] {
							dup := false
							for _, c := range carried {
								if c == o {
									dup = true
								}
							}
							if !dup {
								carried = append(carried, o)
							}
						}
					}
				}
				sort.Slice(carried, func(i, j int) bool { return carried[i].Pos() < carried[j].Pos() })
			}
			condE, post = l.Cond, l.Post
			hdrOf = func(n *mbNorm) string {
				if condE == nil {
					return "for"
				}
				return "for " + mbCanonB(n.formula(condE, 0))
			}
		}
	}
	for _, st := range pre {
		if st.exit != "" {
			out = append(out, st)
			continue
		}
		n := st.n
		name := func(i int) string {
			if len(carried) == 1 {
				return "·"
			}
			return fmt.Sprintf("·%d", i+1)
		}
		inits := make([]string, len(carried))
		bs := &mbSymSt{n: n.fork(), cond: mbTrue}
		for i, o := range carried {
			id := &ast.Ident{Name: o.Name()}
			_ = id
			if r, ok := n.roles[o]; ok {
				inits[i] = r
			} else {
				inits[i] = o.Name()
			}
			bs.n.roles[o] = name(i)
			delete(bs.n.boolEnv, o)
		}
		hdr := hdrOf(bs.n)
		bs.frames = append(append([]mbSymFrame(nil), st.frames...), mbSymFrame{hdr: hdr, outer: st.cond})
		depth := len(bs.frames)
		ends := x.list(body.List, []*mbSymSt{bs})
		if post != nil {
			var e2 []*mbSymSt
			for _, e := range ends {
				if e.exit == "break" {
					e2 = append(e2, e)
					continue
				}
				was := e.exit
				e.exit = ""
				for _, p := range x.stmt(post, e) {
					p.exit = was
					e2 = append(e2, p)
				}
			}
			ends = e2
		}
		if x.incomplete != "" {
			return nil
		}
		// what one iteration does
		effs := map[string]*mbB{}
		for _, e := range ends {
			var parts []string
			for i, o := range carried {
				if v := e.n.roles[o]; v != name(i) {
					parts = append(parts, name(i)+" := "+v)
				}
			}
			for _, f := range e.eff {
				parts = append(parts, f)
			}
			if e.exit == "break" {
				parts = append(parts, "break")
			}
			if len(parts) == 0 {
				continue
			}
			k := strings.Join(parts, ", ")
			ec := x.fullCond(e, depth) // a path that ends inside a helper's loop: folded up to this body
			if old, ok := effs[k]; ok {
				effs[k] = mbOrB(old, ec)
			} else {
				effs[k] = ec
			}
		}
		var items []string
		for k, c := range effs {
			cs := mbCanonB(c)
			if cs == "F" {
				continue
			}
			if cs == "T" {
				items = append(items, k)
			} else {
				items = append(items, k+" ⇐ "+cs)
			}
		}
		sort.Strings(items)
		summary := "{" + strings.Join(items, "; ") + "}"
		hasEff := false
		for _, e := range ends {
			if len(e.eff) > 0 {
				hasEff = true
			}
		}
		for i, o := range carried {
			st.n.roles[o] = "fold(" + hdr + "; " + name(i) + "=" + inits[i] + ")" + summary
			delete(st.n.boolEnv, o)
		}
		if hasEff {
			st.eff = append(st.eff, "loop("+hdr+")"+summary)
		}
		out = append(out, st)
	}
	return out
}

// ---------------------------------------------------------------------------
// tables from outcomes
// ---------------------------------------------------------------------------

// mbSymSplitBool: a returned boolean expression (result idx) is read as two
// outcomes, `true` under the expression and `false` under its negation, so
// that `return a && b` and `if !a { return false }; return b` agree.
func mbSymSplitBool(outs []mbSymOut, idx int) []mbSymOut {
	var res []mbSymOut
	for _, o := range outs {
		if o.kind != "return" || idx >= len(o.bvals) || o.bvals[idx] == nil || idx >= len(o.vals) {
			res = append(res, o)
			continue
		}
		f := o.bvals[idx]
		for _, tv := range []bool{true, false} {
			c := f
			if !tv {
				c = mbNotB(f)
			}
			cc := mbAndB(o.cond, c)
			if !mbSatB(cc) {
				continue
			}
			d := o
			d.cond = cc
			d.vals = append([]string(nil), o.vals...)
			d.vals[idx] = fmt.Sprint(tv)
			d.bvals = append([]*mbB(nil), o.bvals...)
			d.bvals[idx] = nil
			res = append(res, d)
		}
	}
	return res
}

// mbSymTable: canonical "outcome ⇐ condition" list. keyOf names an outcome
// ("" drops it).
func mbSymTable(outs []mbSymOut, keyOf func(o *mbSymOut) string) string {
	conds := map[string]*mbB{}
	for i := range outs {
		o := &outs[i]
		k := keyOf(o)
		if k == "" {
			continue
		}
		if len(o.eff) > 0 {
			k += " after {" + strings.Join(o.eff, "; ") + "}"
		}
		if old, ok := conds[k]; ok {
			conds[k] = mbOrB(old, o.cond)
		} else {
			conds[k] = o.cond
		}
	}
	var items []string
	for k, c := range conds {
		cs := mbCanonB(c)
		switch cs {
		case "F":
		case "T":
			items = append(items, k)
		default:
			items = append(items, k+" ⇐ "+cs)
		}
	}
	sort.Strings(items)
	return strings.Join(items, " || ")
}

// reaches: function `to` is reachable from the body of `from` over static
// calls of functions declared in the library (function literals included).
func (l *mbLib) reaches(from, to *types.Func) bool {
	if l.callees == nil {
		l.callees = map[*types.Func][]*types.Func{}
		for fn, fd := range l.decls {
			if fd.Body == nil {
				continue
			}
			seen := map[*types.Func]bool{}
			ast.Inspect(fd.Body, func(nd ast.Node) bool {
				if call, ok := nd.(*ast.CallExpr); ok {
					if cal := CalleeOf(l.info, call); cal != nil && l.decls[cal] != nil && !seen[cal] {
						seen[cal] = true
						l.callees[fn] = append(l.callees[fn], cal)
					}
				}
				return true
			})
		}
	}
	seen := map[*types.Func]bool{}
	var dfs func(f *types.Func) bool
	dfs = func(f *types.Func) bool {
		for _, c := range l.callees[f] {
			if c == to {
				return true
			}
			if !seen[c] {
				seen[c] = true
				if dfs(c) {
					return true
				}
			}
		}
		return false
	}
	return dfs(from)
}
