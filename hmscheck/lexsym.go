package main

import (
	"fmt"
	"go/ast"
	"go/constant"
	"go/token"
	"go/types"
	"sort"
	"strings"

	"golang.org/x/tools/go/packages"
)

// Symbolic model of the hand-written scanner (package lexer). The cursor is
// abstracted to "number of advance() calls so far" (off); the input is a
// sequence of unknown runes about which a path accumulates facts. Roles are
// discovered, not named: the advance method is the *Lexer method that calls
// errors.Location.Advance; the cursor fields are the *rune fields of Lexer
// (the one assigned from program[index] is "current", from program[index+1]
// is "next"); the location field has type errors.Location; the filename field
// is the string field.

type lexRoles struct {
	pkg      *packages.Package
	info     *types.Info
	lexerT   *types.Named
	advance  *types.Func
	curF     *types.Var // *rune at cursor
	nextF    *types.Var // *rune at cursor+1
	locF     *types.Var
	fileF    *types.Var
	newToken *types.Func // func(kind, value, span) Token
	tokenT   *types.Named
	kindT    *types.Named
	spanT    *types.Named
	until    *types.Func
	preds    map[*types.Func]runeSet // pure rune predicates (util.IsDigit ...)
	recvVars   map[types.Object]bool          // receiver variables of the lexer type's methods
	desugared  map[*ast.FuncDecl]*ast.BlockStmt // condition-desugared bodies
}

type lvKind int

const (
	lvUnknown lvKind = iota
	lvCharPtr        // pointer to rune at off
	lvChar           // rune at off
	lvLoc            // location after off advances
	lvFile           // the lexer's filename
	lvConst          // compile-time constant (incl. enum constants)
	lvSpan
	lvToken
	lvNil
	lvStrOfChar // string(rune at off)
	lvLexer     // the receiver
)

type lv struct {
	k     lvKind
	off   int
	c     constant.Value
	cobj  *types.Const
	parts []lv // span: start,end,file ; token: kind,value,span
	desc  string
}

func (v lv) String() string {
	switch v.k {
	case lvCharPtr:
		return fmt.Sprintf("&ch[%d]", v.off)
	case lvChar:
		return fmt.Sprintf("ch[%d]", v.off)
	case lvLoc:
		return fmt.Sprintf("loc@%d", v.off)
	case lvFile:
		return "filename"
	case lvConst:
		if v.cobj != nil {
			return v.cobj.Name()
		}
		return v.c.ExactString()
	case lvSpan:
		return fmt.Sprintf("Span{%v,%v,%v}", v.parts[0], v.parts[1], v.parts[2])
	case lvToken:
		return fmt.Sprintf("Token{%v,%v,%v}", v.parts[0], v.parts[1], v.parts[2])
	case lvNil:
		return "nil"
	case lvStrOfChar:
		return fmt.Sprintf("string(ch[%d])", v.off)
	case lvLexer:
		return "self"
	}
	if v.desc != "" {
		return "?(" + v.desc + ")"
	}
	return "?"
}

type factKind int

const (
	fEq factKind = iota
	fNe
	fNil    // position is past the end of input
	fNonNil // position holds a rune
	fIn     // rune ∈ set
	fNotIn
)

type charFact struct {
	off  int
	kind factKind
	r    rune
	set  *runeSet
	name string
}

type runeSet struct{ ranges [][2]rune }

func (s runeSet) has(r rune) bool {
	for _, x := range s.ranges {
		if r >= x[0] && r <= x[1] {
			return true
		}
	}
	return false
}

func (s runeSet) String() string {
	var b []string
	for _, x := range s.ranges {
		if x[0] == x[1] {
			b = append(b, fmt.Sprintf("%q", x[0]))
		} else {
			b = append(b, fmt.Sprintf("%q-%q", x[0], x[1]))
		}
	}
	return "{" + strings.Join(b, ",") + "}"
}

func (s runeSet) norm() runeSet {
	r := append([][2]rune(nil), s.ranges...)
	sort.Slice(r, func(i, j int) bool { return r[i][0] < r[j][0] })
	var out [][2]rune
	for _, x := range r {
		if n := len(out); n > 0 && x[0] <= out[n-1][1]+1 {
			if x[1] > out[n-1][1] {
				out[n-1][1] = x[1]
			}
			continue
		}
		out = append(out, x)
	}
	return runeSet{out}
}

func (s runeSet) equal(o runeSet) bool {
	a, b := s.norm(), o.norm()
	if len(a.ranges) != len(b.ranges) {
		return false
	}
	for i := range a.ranges {
		if a.ranges[i] != b.ranges[i] {
			return false
		}
	}
	return true
}

type lexState struct {
	off     int
	facts   []charFact
	env     map[types.Object]lv
	events  []lexEvent // observable actions in order
	decided []string   // branch decisions, for the witness
}

type lexEvent struct {
	kind string // "advance" | "append" | "token" | "error" | "call"
	off  int
	v    lv
	pos  token.Pos
	what string
}

func cloneLex(s *lexState) *lexState {
	n := &lexState{off: s.off, env: make(map[types.Object]lv, len(s.env))}
	n.facts = append([]charFact(nil), s.facts...)
	n.events = append([]lexEvent(nil), s.events...)
	n.decided = append([]string(nil), s.decided...)
	for k, v := range s.env {
		n.env[k] = v
	}
	return n
}

// knows: what the facts say about the rune at off.
// returns (isNil, isNonNil, eq rune ok, excluded runes)
func (s *lexState) known(off int) (isNil, nonNil bool, eq rune, hasEq bool) {
	for _, f := range s.facts {
		switch {
		case f.kind == fNil && f.off <= off:
			isNil = true
		case f.kind == fNonNil && f.off >= off:
			nonNil = true
		case f.off == off && f.kind == fEq:
			eq, hasEq, nonNil = f.r, true, true
		case f.off == off && (f.kind == fNe || f.kind == fIn || f.kind == fNotIn):
			// a dereference happened, so the position holds a rune on this path
			// (an unguarded dereference is reported where it happens)
			nonNil = true
		}
	}
	return
}

// excludes reports whether the facts imply ch[off] != r (or end of input).
func (s *lexState) excludes(off int, r rune) bool {
	isNil, _, eq, hasEq := s.known(off)
	if isNil {
		return true
	}
	if hasEq {
		return eq != r
	}
	for _, f := range s.facts {
		if f.off != off {
			continue
		}
		switch f.kind {
		case fNe:
			if f.r == r {
				return true
			}
		case fIn:
			if !f.set.has(r) {
				return true
			}
		case fNotIn:
			if f.set.has(r) {
				return true
			}
		}
	}
	return false
}

// add returns false when the new fact contradicts the path.
func (s *lexState) add(f charFact) bool {
	isNil, nonNil, eq, hasEq := s.known(f.off)
	switch f.kind {
	case fNil:
		if nonNil {
			return false
		}
	case fNonNil:
		if isNil {
			return false
		}
	case fEq:
		if isNil || (hasEq && eq != f.r) || s.excludes(f.off, f.r) {
			return false
		}
	case fNe:
		if hasEq && eq == f.r {
			return false
		}
	case fIn:
		if isNil || (hasEq && !f.set.has(eq)) {
			return false
		}
		for _, g := range s.facts {
			if g.off == f.off && g.kind == fNotIn && subsetOf(*f.set, *g.set) {
				return false
			}
		}
	case fNotIn:
		if hasEq && f.set.has(eq) {
			return false
		}
		for _, g := range s.facts {
			if g.off == f.off && g.kind == fIn && subsetOf(*g.set, *f.set) {
				return false
			}
		}
	}
	s.facts = append(s.facts, f)
	return true
}

func (s *lexState) factString() string {
	var b []string
	for _, f := range s.facts {
		switch f.kind {
		case fEq:
			b = append(b, fmt.Sprintf("ch[%d]==%q", f.off, f.r))
		case fNe:
			b = append(b, fmt.Sprintf("ch[%d]!=%q", f.off, f.r))
		case fNil:
			b = append(b, fmt.Sprintf("ch[%d]=EOF", f.off))
		case fNonNil:
			b = append(b, fmt.Sprintf("ch[%d]!=EOF", f.off))
		case fIn:
			b = append(b, fmt.Sprintf("ch[%d] in %s", f.off, f.name))
		case fNotIn:
			b = append(b, fmt.Sprintf("ch[%d] not in %s", f.off, f.name))
		}
	}
	return strings.Join(b, " ∧ ")
}

// ---------------------------------------------------------------------

func discoverLexRoles(c *Ctx) *lexRoles {
	p := c.Pkg("homescript/lexer")
	r := &lexRoles{pkg: p, info: p.TypesInfo, preds: map[*types.Func]runeSet{}}
	obj := p.Types.Scope().Lookup("Lexer")
	if obj == nil {
		fatalf("anchor unresolved: lexer.Lexer")
	}
	r.lexerT = obj.Type().(*types.Named)
	st, ok := r.lexerT.Underlying().(*types.Struct)
	if !ok {
		fatalf("lexer.Lexer is not a struct")
	}
	var runePtrs []*types.Var
	for i := 0; i < st.NumFields(); i++ {
		f := st.Field(i)
		switch t := f.Type().(type) {
		case *types.Pointer:
			if b, ok := t.Elem().(*types.Basic); ok && b.Kind() == types.Int32 {
				runePtrs = append(runePtrs, f)
			}
		case *types.Named:
			if t.Obj().Name() == "Location" && strings.HasSuffix(t.Obj().Pkg().Path(), "/errors") {
				r.locF = f
			}
		case *types.Basic:
			if t.Kind() == types.String {
				r.fileF = f
			}
		}
	}
	if len(runePtrs) != 2 || r.locF == nil || r.fileF == nil {
		fatalf("lexer.Lexer: cannot identify cursor fields (2 *rune, Location, string)")
	}
	// the advance method: calls (*errors.Location).Advance
	for _, fd := range AllFuncDecls(p) {
		if fd.Recv == nil || recvTypeName(fd.Recv.List[0].Type) != "Lexer" {
			continue
		}
		found := false
		ast.Inspect(fd.Body, func(n ast.Node) bool {
			if call, ok := n.(*ast.CallExpr); ok {
				if fn := CalleeOf(p.TypesInfo, call); fn != nil && fn.Name() == "Advance" && fn.Pkg() != nil && strings.HasSuffix(fn.Pkg().Path(), "/errors") {
					found = true
				}
			}
			return true
		})
		if found {
			if r.advance != nil {
				fatalf("two lexer methods call Location.Advance: %s and %s", r.advance.Name(), fd.Name.Name)
			}
			r.advance = p.TypesInfo.Defs[fd.Name].(*types.Func)
			// which *rune field is assigned from program[index] vs program[index+1]
			ast.Inspect(fd.Body, func(n ast.Node) bool {
				as, ok := n.(*ast.AssignStmt)
				if !ok || len(as.Lhs) != 1 || len(as.Rhs) != 1 {
					return true
				}
				sel, ok := as.Lhs[0].(*ast.SelectorExpr)
				if !ok {
					return true
				}
				fv, _ := p.TypesInfo.Uses[sel.Sel].(*types.Var)
				un, ok := as.Rhs[0].(*ast.UnaryExpr)
				if !ok || un.Op != token.AND {
					return true
				}
				ix, ok := un.X.(*ast.IndexExpr)
				if !ok {
					return true
				}
				if _, isBin := ast.Unparen(ix.Index).(*ast.BinaryExpr); isBin {
					r.nextF = fv
				} else {
					r.curF = fv
				}
				return true
			})
		}
	}
	if r.advance == nil || r.curF == nil || r.nextF == nil || r.curF == r.nextF {
		fatalf("lexer: cannot identify the advance method and its current/next cursor fields")
	}
	r.tokenT = p.Types.Scope().Lookup("Token").Type().(*types.Named)
	r.kindT = p.Types.Scope().Lookup("TokenKind").Type().(*types.Named)
	// the token constructor, by signature: the package-level function (TokenKind, string, Span) -> Token
	for _, n := range p.Types.Scope().Names() {
		fn, ok := p.Types.Scope().Lookup(n).(*types.Func)
		if !ok {
			continue
		}
		sig := fn.Type().(*types.Signature)
		if sig.Recv() == nil && sig.Results().Len() == 1 && types.Identical(sig.Results().At(0).Type(), r.tokenT) &&
			sig.Params().Len() == 3 && types.Identical(sig.Params().At(0).Type(), r.kindT) {
			if r.newToken != nil {
				fatalf("anchor ambiguous: two package-level token constructors in lexer (%s, %s)", r.newToken.Name(), fn.Name())
			}
			r.newToken = fn
		}
	}
	if r.newToken == nil {
		fatalf("anchor unresolved: the lexer's token constructor (TokenKind, string, Span) -> Token")
	}
	ep := c.Pkg("homescript/errors")
	r.spanT = ep.Types.Scope().Lookup("Span").Type().(*types.Named)
	locT := ep.Types.Scope().Lookup("Location").Type().(*types.Named)
	for i := 0; i < locT.NumMethods(); i++ {
		if locT.Method(i).Name() == "Until" {
			r.until = locT.Method(i)
		}
	}
	r.recvVars = map[types.Object]bool{}
	for _, fd := range AllFuncDecls(p) {
		if fd.Recv != nil && recvTypeName(fd.Recv.List[0].Type) == "Lexer" && len(fd.Recv.List[0].Names) > 0 {
			if o := p.TypesInfo.Defs[fd.Recv.List[0].Names[0]]; o != nil {
				r.recvVars[o] = true
			}
		}
	}
	// rune predicates of lexer/util
	r.loadPreds(c)
	return r
}

// loadPreds extracts, statically, the rune set of every `func(rune) bool` in
// lexer/util whose body is a single return of IsRuneInRange(char, RuneRange{..}...)
// or a boolean combination of rune comparisons / other predicates.
func (r *lexRoles) loadPreds(c *Ctx) {
	r.loadPredsOf(c, c.Pkg("homescript/lexer/util"))
	r.loadPredsOf(c, r.pkg)
}

func (r *lexRoles) loadPredsOf(c *Ctx, up *packages.Package) {
	info := up.TypesInfo
	decls := map[*types.Func]*ast.FuncDecl{}
	for _, fd := range AllFuncDecls(up) {
		if fd.Recv != nil {
			continue
		}
		if fn, ok := info.Defs[fd.Name].(*types.Func); ok {
			decls[fn] = fd
		}
	}
	var eval func(fn *types.Func, depth int) (runeSet, bool)
	var evalExpr func(e ast.Expr, param *types.Var, depth int) (runeSet, bool)
	evalExpr = func(e ast.Expr, param *types.Var, depth int) (runeSet, bool) {
		e = ast.Unparen(e)
		switch x := e.(type) {
		case *ast.CallExpr:
			fn := CalleeOf(info, x)
			if fn == nil {
				return runeSet{}, false
			}
			// variadic range helper: first arg is the rune, rest are composite literals {min,max}
			if len(x.Args) >= 1 && isParamRef(info, x.Args[0], param) {
				if sig := fn.Type().(*types.Signature); sig.Variadic() {
					var rs runeSet
					for _, a := range x.Args[1:] {
						cl, ok := a.(*ast.CompositeLit)
						if !ok {
							return runeSet{}, false
						}
						var lo, hi int64
						var okLo, okHi bool
						// which field is the lower / upper bound is read from the helper's own comparison
						loF, hiF := inclusiveRangeFields(info, decls[fn])
						if loF == nil || hiF == nil {
							return runeSet{}, false
						}
						st, _ := info.TypeOf(cl).Underlying().(*types.Struct)
						for i, el := range cl.Elts {
							var fld *types.Var
							val := el
							if kv, ok := el.(*ast.KeyValueExpr); ok {
								if kid, ok := kv.Key.(*ast.Ident); ok {
									fld, _ = info.Uses[kid].(*types.Var)
								}
								val = kv.Value
							} else if st != nil && i < st.NumFields() {
								fld = st.Field(i)
							}
							tv := info.Types[val]
							if tv.Value == nil || fld == nil {
								return runeSet{}, false
							}
							n, _ := constant.Int64Val(constant.ToInt(tv.Value))
							if fld == loF {
								lo, okLo = n, true
							} else if fld == hiF {
								hi, okHi = n, true
							}
						}
						if !okLo || !okHi {
							return runeSet{}, false
						}
						rs.ranges = append(rs.ranges, [2]rune{rune(lo), rune(hi)})
					}
					return rs.norm(), true
				}
				if len(x.Args) == 1 && depth < 4 {
					return eval(fn, depth+1)
				}
			}
		case *ast.BinaryExpr:
			switch x.Op {
			case token.LOR:
				a, ok1 := evalExpr(x.X, param, depth)
				b, ok2 := evalExpr(x.Y, param, depth)
				if ok1 && ok2 {
					return runeSet{append(a.ranges, b.ranges...)}.norm(), true
				}
			case token.EQL:
				if isParamRef(info, x.X, param) {
					if tv := info.Types[x.Y]; tv.Value != nil {
						n, _ := constant.Int64Val(constant.ToInt(tv.Value))
						return runeSet{[][2]rune{{rune(n), rune(n)}}}, true
					}
				}
			case token.LAND:
				// lo <= c && c <= hi
				lo, ok1 := boundOf(info, x.X, param, true)
				hi, ok2 := boundOf(info, x.Y, param, false)
				if ok1 && ok2 {
					return runeSet{[][2]rune{{lo, hi}}}, true
				}
			}
		}
		return runeSet{}, false
	}
	eval = func(fn *types.Func, depth int) (runeSet, bool) {
		fd := decls[fn]
		if fd == nil || len(fd.Body.List) != 1 || fd.Type.Params.NumFields() != 1 {
			return runeSet{}, false
		}
		ret, ok := fd.Body.List[0].(*ast.ReturnStmt)
		if !ok || len(ret.Results) != 1 {
			return runeSet{}, false
		}
		param := info.Defs[fd.Type.Params.List[0].Names[0]].(*types.Var)
		return evalExpr(ret.Results[0], param, depth)
	}
	for fn, fd := range decls {
		sig := fn.Type().(*types.Signature)
		if sig.Params().Len() != 1 || sig.Results().Len() != 1 || sig.Variadic() {
			continue
		}
		if b, ok := sig.Params().At(0).Type().(*types.Basic); !ok || b.Kind() != types.Int32 {
			continue
		}
		if rs, ok := eval(fn, 0); ok {
			r.preds[fn] = rs
		} else {
			_ = fd
		}
	}
}

func isParamRef(info *types.Info, e ast.Expr, param *types.Var) bool {
	e = ast.Unparen(e)
	if c, ok := e.(*ast.CallExpr); ok && len(c.Args) == 1 && info.Types[c.Fun].IsType() {
		e = ast.Unparen(c.Args[0])
	}
	id, ok := e.(*ast.Ident)
	return ok && param != nil && info.Uses[id] == param
}

func boundOf(info *types.Info, e ast.Expr, param *types.Var, lower bool) (rune, bool) {
	b, ok := ast.Unparen(e).(*ast.BinaryExpr)
	if !ok {
		return 0, false
	}
	val := func(x ast.Expr) (rune, bool) {
		if tv := info.Types[x]; tv.Value != nil {
			n, _ := constant.Int64Val(constant.ToInt(tv.Value))
			return rune(n), true
		}
		return 0, false
	}
	if isParamRef(info, b.X, param) {
		v, ok := val(b.Y)
		if !ok {
			return 0, false
		}
		switch {
		case lower && b.Op == token.GEQ:
			return v, true
		case lower && b.Op == token.GTR:
			return v + 1, true
		case !lower && b.Op == token.LEQ:
			return v, true
		case !lower && b.Op == token.LSS:
			return v - 1, true
		}
	}
	if isParamRef(info, b.Y, param) {
		v, ok := val(b.X)
		if !ok {
			return 0, false
		}
		switch {
		case lower && b.Op == token.LEQ:
			return v, true
		case lower && b.Op == token.LSS:
			return v + 1, true
		case !lower && b.Op == token.GEQ:
			return v, true
		case !lower && b.Op == token.GTR:
			return v - 1, true
		}
	}
	return 0, false
}

// isInclusiveRangeHelper verifies the shape of IsRuneInRange: a loop over the
// variadic ranges returning true iff x >= r.min && x <= r.max, else false.
func isInclusiveRangeHelper(info *types.Info, fd *ast.FuncDecl) bool {
	lo, hi := inclusiveRangeFields(info, fd)
	return lo != nil && hi != nil
}

// inclusiveRangeFields: the helper returns true iff x >= r.LO && x <= r.HI for one of its
// variadic ranges, else false; the result names the two struct fields by their role.
func inclusiveRangeFields(info *types.Info, fd *ast.FuncDecl) (loF, hiF *types.Var) {
	if fd == nil {
		return nil, nil
	}
	ast.Inspect(fd.Body, func(n ast.Node) bool {
		ifs, isIf := n.(*ast.IfStmt)
		if !isIf {
			return true
		}
		b, isB := ast.Unparen(ifs.Cond).(*ast.BinaryExpr)
		if !isB || b.Op != token.LAND {
			return true
		}
		// each conjunct: x >= r.F (lower), x <= r.F (upper), or mirrored r.F <= x / r.F >= x
		var subj string
		var lo, hi *types.Var
		okAll := true
		for _, cj := range []ast.Expr{b.X, b.Y} {
			c, ok := ast.Unparen(cj).(*ast.BinaryExpr)
			if !ok {
				okAll = false
				break
			}
			fieldOf := func(e ast.Expr) *types.Var {
				if s, ok := ast.Unparen(e).(*ast.SelectorExpr); ok {
					if v, ok := info.Uses[s.Sel].(*types.Var); ok && v.IsField() {
						return v
					}
				}
				return nil
			}
			x, f, op := c.X, fieldOf(c.Y), c.Op
			if f == nil {
				// mirrored
				x, f = c.Y, fieldOf(c.X)
				switch op {
				case token.LEQ:
					op = token.GEQ
				case token.GEQ:
					op = token.LEQ
				}
			}
			if f == nil || (subj != "" && subj != exprStr(x)) {
				okAll = false
				break
			}
			subj = exprStr(x)
			switch op {
			case token.GEQ:
				lo = f
			case token.LEQ:
				hi = f
			default:
				okAll = false
			}
		}
		if okAll && lo != nil && hi != nil && len(ifs.Body.List) == 1 {
			if ret, isRet := ifs.Body.List[0].(*ast.ReturnStmt); isRet && len(ret.Results) == 1 && exprStr(ret.Results[0]) == "true" {
				loF, hiF = lo, hi
			}
		}
		return true
	})
	// final statement returns false
	if n := len(fd.Body.List); n == 0 {
		return nil, nil
	} else if ret, isRet := fd.Body.List[n-1].(*ast.ReturnStmt); !isRet || len(ret.Results) != 1 || exprStr(ret.Results[0]) != "false" {
		return nil, nil
	}
	return loF, hiF
}

// ---------------------------------------------------------------------
// expression evaluation

type lexEval struct {
	r    *lexRoles
	recv *types.Var // receiver of the function being walked
}

func (e *lexEval) fieldOfSelf(x ast.Expr) *types.Var {
	sel, ok := ast.Unparen(x).(*ast.SelectorExpr)
	if !ok {
		return nil
	}
	id, ok := ast.Unparen(sel.X).(*ast.Ident)
	if !ok || !e.isSelf(e.r.info.Uses[id]) {
		return nil
	}
	fv, _ := e.r.info.Uses[sel.Sel].(*types.Var)
	return fv
}

func (e *lexEval) eval(s *lexState, x ast.Expr) lv {
	info := e.r.info
	x = ast.Unparen(x)
	if tv, ok := info.Types[x]; ok && tv.Value != nil {
		v := lv{k: lvConst, c: tv.Value}
		v.cobj = ConstOf(info, x)
		return v
	}
	switch t := x.(type) {
	case *ast.Ident:
		if t.Name == "nil" {
			return lv{k: lvNil}
		}
		if obj := info.Uses[t]; obj != nil {
			if e.isSelf(obj) {
				return lv{k: lvLexer}
			}
			if v, ok := s.env[obj]; ok {
				return v
			}
		}
		return lv{desc: t.Name}
	case *ast.SelectorExpr:
		if fv := e.fieldOfSelf(t); fv != nil {
			switch fv {
			case e.r.curF:
				return lv{k: lvCharPtr, off: s.off}
			case e.r.nextF:
				return lv{k: lvCharPtr, off: s.off + 1}
			case e.r.locF:
				return lv{k: lvLoc, off: s.off}
			case e.r.fileF:
				return lv{k: lvFile}
			}
		}
		return lv{desc: exprStr(t)}
	case *ast.StarExpr:
		p := e.eval(s, t.X)
		if p.k == lvCharPtr {
			return lv{k: lvChar, off: p.off}
		}
	case *ast.CompositeLit:
		if tt := info.TypeOf(t); tt != nil && types.Identical(tt, e.r.spanT) {
			parts := []lv{{desc: "zero"}, {desc: "zero"}, {desc: "zero"}}
			for i, el := range t.Elts {
				if kv, ok := el.(*ast.KeyValueExpr); ok {
					switch kv.Key.(*ast.Ident).Name {
					case "Start":
						parts[0] = e.eval(s, kv.Value)
					case "End":
						parts[1] = e.eval(s, kv.Value)
					case "Filename":
						parts[2] = e.eval(s, kv.Value)
					}
				} else if i < 3 {
					parts[i] = e.eval(s, el)
				}
			}
			return lv{k: lvSpan, parts: parts}
		}
	case *ast.CallExpr:
		// conversion string(x)
		if info.Types[t.Fun].IsType() && len(t.Args) == 1 {
			a := e.eval(s, t.Args[0])
			if b, ok := info.TypeOf(t).Underlying().(*types.Basic); ok && b.Kind() == types.String {
				if a.k == lvChar {
					return lv{k: lvStrOfChar, off: a.off}
				}
				if a.k == lvConst && a.c.Kind() == constant.Int {
					n, _ := constant.Int64Val(a.c)
					return lv{k: lvConst, c: constant.MakeString(string(rune(n)))}
				}
			}
			return a
		}
		fn := CalleeOf(info, t)
		if fn != nil && fn.Pkg() != nil && fn.Pkg().Path() == "strings" && fn.Name() == "ReplaceAll" && len(t.Args) == 3 {
			a1, a2 := info.Types[t.Args[1]], info.Types[t.Args[2]]
			if a1.Value != nil && a2.Value != nil && constant.StringVal(a1.Value) == "_" && constant.StringVal(a2.Value) == "" {
				return lv{desc: "stripped(_)"}
			}
		}
		if fn == e.r.newToken && len(t.Args) == 3 {
			return lv{k: lvToken, parts: []lv{e.eval(s, t.Args[0]), e.eval(s, t.Args[1]), e.eval(s, t.Args[2])}}
		}
		if fn != nil && fn == e.r.until && len(t.Args) == 2 {
			if sel, ok := ast.Unparen(t.Fun).(*ast.SelectorExpr); ok {
				return lv{k: lvSpan, parts: []lv{e.eval(s, sel.X), e.eval(s, t.Args[0]), e.eval(s, t.Args[1])}}
			}
		}
		if fn != nil {
			return lv{desc: "call " + fn.Name()}
		}
	}
	return lv{desc: exprStr(x)}
}

// condFact turns an atomic condition into a fact; ok=false when the atom is
// not about the input (then the decision is unconstrained).
func (e *lexEval) condFact(s *lexState, cond ast.Expr, taken bool) (charFact, bool) {
	info := e.r.info
	cond = ast.Unparen(cond)
	switch c := cond.(type) {
	case *ast.BinaryExpr:
		if c.Op != token.EQL && c.Op != token.NEQ {
			return charFact{}, false
		}
		eq := (c.Op == token.EQL) == taken
		l, r := e.eval(s, c.X), e.eval(s, c.Y)
		if r.k == lvCharPtr || r.k == lvChar {
			l, r = r, l
		}
		switch {
		case l.k == lvCharPtr && r.k == lvNil:
			if eq {
				return charFact{off: l.off, kind: fNil}, true
			}
			return charFact{off: l.off, kind: fNonNil}, true
		case l.k == lvChar && r.k == lvConst && r.c.Kind() == constant.Int:
			n, _ := constant.Int64Val(r.c)
			if eq {
				return charFact{off: l.off, kind: fEq, r: rune(n)}, true
			}
			return charFact{off: l.off, kind: fNe, r: rune(n)}, true
		}
	case *ast.CallExpr:
		fn := CalleeOf(info, c)
		if fn != nil && len(c.Args) == 1 {
			if rs, ok := e.r.preds[fn]; ok {
				a := e.eval(s, c.Args[0])
				if a.k == lvChar {
					set := rs
					if taken {
						return charFact{off: a.off, kind: fIn, set: &set, name: fn.Name()}, true
					}
					return charFact{off: a.off, kind: fNotIn, set: &set, name: fn.Name()}, true
				}
			}
		}
	}
	return charFact{}, false
}

func subsetOf(a, b runeSet) bool {
	for _, x := range a.norm().ranges {
		ok := false
		for _, y := range b.norm().ranges {
			if x[0] >= y[0] && x[1] <= y[1] {
				ok = true
			}
		}
		if !ok {
			return false
		}
	}
	return true
}


// isSelf: the receiver of the walked function, or the receiver of any other method of the
// lexer type (predicate helpers are inlined into conditions; all receivers denote one lexer).
func (e *lexEval) isSelf(obj types.Object) bool {
	if obj == nil {
		return false
	}
	if obj == e.recv {
		return true
	}
	return e.r.recvVars[obj]
}

// ---------------------------------------------------------------------
// condition desugaring: calls of parameterless boolean helper methods of the lexer
// (`self.atEnd()`) and boolean locals bound in an if-initialiser (`if ok := c; ok`) are
// replaced by the condition they stand for, so that the path walker decomposes them into
// atoms over the cursor like an inline condition. Only conditions are rewritten; statements
// are shared with the original tree.

func (r *lexRoles) desugar(fd *ast.FuncDecl) *ast.BlockStmt {
	if r.desugared == nil {
		r.desugared = map[*ast.FuncDecl]*ast.BlockStmt{}
	}
	if b, ok := r.desugared[fd]; ok {
		return b
	}
	b := r.dsBlock(fd.Body, map[types.Object]ast.Expr{})
	r.desugared[fd] = b
	return b
}

func (r *lexRoles) dsBlock(b *ast.BlockStmt, binds map[types.Object]ast.Expr) *ast.BlockStmt {
	if b == nil {
		return nil
	}
	out := &ast.BlockStmt{Lbrace: b.Lbrace, Rbrace: b.Rbrace}
	for _, s := range b.List {
		out.List = append(out.List, r.dsStmt(s, binds))
	}
	return out
}

func (r *lexRoles) dsStmt(s ast.Stmt, binds map[types.Object]ast.Expr) ast.Stmt {
	switch x := s.(type) {
	case *ast.BlockStmt:
		return r.dsBlock(x, binds)
	case *ast.LabeledStmt:
		c := *x
		c.Stmt = r.dsStmt(x.Stmt, binds)
		return &c
	case *ast.IfStmt:
		c := *x
		local := binds
		init := x.Init
		// if ok := <bool expr>; … : the local stands for the expression inside this statement
		if as, ok := x.Init.(*ast.AssignStmt); ok && as.Tok == token.DEFINE && len(as.Lhs) == 1 && len(as.Rhs) == 1 {
			if id, ok := as.Lhs[0].(*ast.Ident); ok {
				if obj := r.info.Defs[id]; obj != nil {
					if bt, ok := obj.Type().Underlying().(*types.Basic); ok && bt.Kind() == types.Bool {
						local = map[types.Object]ast.Expr{}
						for k, v := range binds {
							local[k] = v
						}
						local[obj] = as.Rhs[0]
						init = nil
					}
				}
			}
		}
		c.Init = init
		c.Cond = r.dsExpr(x.Cond, local, 0)
		c.Body = r.dsBlock(x.Body, local)
		if x.Else != nil {
			c.Else = r.dsStmt(x.Else, local)
		}
		return &c
	case *ast.ForStmt:
		c := *x
		if x.Cond != nil {
			c.Cond = r.dsExpr(x.Cond, binds, 0)
		}
		c.Body = r.dsBlock(x.Body, binds)
		return &c
	case *ast.RangeStmt:
		c := *x
		c.Body = r.dsBlock(x.Body, binds)
		return &c
	case *ast.SwitchStmt:
		c := *x
		nb := &ast.BlockStmt{Lbrace: x.Body.Lbrace, Rbrace: x.Body.Rbrace}
		for _, cl := range x.Body.List {
			cc := *(cl.(*ast.CaseClause))
			if x.Tag == nil {
				var list []ast.Expr
				for _, e := range cc.List {
					list = append(list, r.dsExpr(e, binds, 0))
				}
				cc.List = list
			}
			var body []ast.Stmt
			for _, st := range cc.Body {
				body = append(body, r.dsStmt(st, binds))
			}
			cc.Body = body
			nb.List = append(nb.List, &cc)
		}
		c.Body = nb
		return &c
	}
	return s
}

func (r *lexRoles) dsExpr(e ast.Expr, binds map[types.Object]ast.Expr, depth int) ast.Expr {
	if depth > 6 {
		return e
	}
	switch x := e.(type) {
	case *ast.ParenExpr:
		return &ast.ParenExpr{Lparen: x.Lparen, X: r.dsExpr(x.X, binds, depth), Rparen: x.Rparen}
	case *ast.UnaryExpr:
		if x.Op == token.NOT {
			return &ast.UnaryExpr{OpPos: x.OpPos, Op: x.Op, X: r.dsExpr(x.X, binds, depth)}
		}
	case *ast.BinaryExpr:
		if x.Op == token.LAND || x.Op == token.LOR {
			return &ast.BinaryExpr{X: r.dsExpr(x.X, binds, depth), OpPos: x.OpPos, Op: x.Op, Y: r.dsExpr(x.Y, binds, depth)}
		}
	case *ast.Ident:
		if rep, ok := binds[r.info.Uses[x]]; ok {
			return &ast.ParenExpr{X: r.dsExpr(rep, binds, depth+1)}
		}
	case *ast.CallExpr:
		if len(x.Args) != 0 {
			return e
		}
		fn := CalleeOf(r.info, x)
		if fn == nil {
			return e
		}
		sig, _ := fn.Type().(*types.Signature)
		if sig == nil || sig.Recv() == nil || recvNamed(sig.Recv().Type()) != r.lexerT || sig.Results().Len() != 1 {
			return e
		}
		if bt, ok := sig.Results().At(0).Type().Underlying().(*types.Basic); !ok || bt.Kind() != types.Bool {
			return e
		}
		fd := FuncDecl(r.pkg, "Lexer", fn.Name())
		if fd == nil || fd.Body == nil {
			return e
		}
		if pe := r.predExpr(fd, depth+1); pe != nil {
			return &ast.ParenExpr{X: pe}
		}
	}
	return e
}

// predExpr: the boolean expression a side-effect-free predicate method computes:
// { if C1 { return K1 }; …; return E }  ≡  K-folded chain.
func (r *lexRoles) predExpr(fd *ast.FuncDecl, depth int) ast.Expr {
	n := len(fd.Body.List)
	if n == 0 {
		return nil
	}
	last, ok := fd.Body.List[n-1].(*ast.ReturnStmt)
	if !ok || len(last.Results) != 1 {
		return nil
	}
	res := r.dsExpr(last.Results[0], map[types.Object]ast.Expr{}, depth)
	for i := n - 2; i >= 0; i-- {
		ifs, ok := fd.Body.List[i].(*ast.IfStmt)
		if !ok || ifs.Init != nil || ifs.Else != nil || len(ifs.Body.List) != 1 {
			return nil
		}
		ret, ok := ifs.Body.List[0].(*ast.ReturnStmt)
		if !ok || len(ret.Results) != 1 {
			return nil
		}
		k, ok := ast.Unparen(ret.Results[0]).(*ast.Ident)
		if !ok || (k.Name != "true" && k.Name != "false") {
			return nil
		}
		cond := &ast.ParenExpr{X: r.dsExpr(ifs.Cond, map[types.Object]ast.Expr{}, depth)}
		if k.Name == "true" {
			res = &ast.BinaryExpr{X: cond, Op: token.LOR, Y: &ast.ParenExpr{X: res}}
		} else {
			res = &ast.BinaryExpr{X: &ast.UnaryExpr{Op: token.NOT, X: cond}, Op: token.LAND, Y: &ast.ParenExpr{X: res}}
		}
	}
	return res
}
