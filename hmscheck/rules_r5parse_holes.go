package main

import (
	"fmt"
	"go/ast"
	"go/types"
	"sort"
)

// R-list-no-holes (C05, C07; parser).
//
// A list the parser hands to the later phases holds exactly the elements it
// constructed. A slice created with a non-zero length — make([]T, n), n > 0 —
// starts with n zero-valued slots; for the node interfaces of package ast that is
// a nil element, which every consumer (type switches of the analyzer, printers)
// dereferences or panics on. Hence on every successful path every slot of such a
// slice has been stored before the function returns. (Slices of length 0 only
// grow by append: nothing to decide.)

func init() {
	register(&Rule{ID: "R-list-no-holes", Floor: 14, Run: ruleR5parseNoHoles,
		Doc: "for every make([]T, n, …) in a parser method: n is the constant 0 (the list only grows by append), or on every successful path every slot 0..n-1 is stored (xs[i] = v with a constant index; a store at an unresolved index counts for all slots) before the method returns — followed through append, aliases and the nodes the slice is put into. A pre-sized slice with an unset slot is a list with a nil element: the parser reports no syntax error, and the analyzer's type switch over the element panics (C05: parsing and analysis are total; C07: the tree holds exactly the parsed items). A non-constant length is Undecided."})
}

func ruleR5parseNoHoles(c *Ctx) []Obligation {
	e := r2parseEngineOf(c)
	var obs []Obligation
	e.stable(func() { obs = r5parseNoHoles(e) })
	return obs
}

func r5parseHoles(v *r2parseVal, seen map[*r2parseVal]bool, out *[]*r2parseVal) {
	if v == nil || seen[v] {
		return
	}
	seen[v] = true
	if v.hole {
		*out = append(*out, v)
	}
	names := make([]string, 0, len(v.fields))
	for n := range v.fields {
		names = append(names, n)
	}
	sort.Strings(names)
	for _, n := range names {
		r5parseHoles(v.fields[n], seen, out)
	}
	for _, a := range v.elems {
		r5parseHoles(a, seen, out)
	}
	for _, a := range v.args {
		r5parseHoles(a, seen, out)
	}
	r5parseHoles(v.base, seen, out)
}

func r5parseNoHoles(e *r2parseEngine) []Obligation {
	aggs := &r2parseAggSet{}
	for _, fd := range e.fds {
		fd := fd
		fkey := e.funcKey(fd)
		// the make sites of this method
		keyOf := map[ast.Node]string{}
		count := map[string]int{}
		var sites []*ast.CallExpr
		ast.Inspect(fd.Body, func(n ast.Node) bool {
			call, ok := n.(*ast.CallExpr)
			if !ok {
				return true
			}
			id, ok := ast.Unparen(call.Fun).(*ast.Ident)
			if !ok {
				return true
			}
			if b, ok := e.info.Uses[id].(*types.Builtin); !ok || b.Name() != "make" {
				return true
			}
			t := e.info.Types[call].Type
			if t == nil {
				return true
			}
			if _, isSlice := t.Underlying().(*types.Slice); !isSlice {
				return true
			}
			base := fkey + "|make(" + types.TypeString(t, func(p *types.Package) string { return p.Name() }) + ")"
			count[base]++
			k := base
			if count[base] > 1 {
				k = fmt.Sprintf("%s#%d", base, count[base])
			}
			keyOf[call] = k
			sites = append(sites, call)
			return true
		})
		if len(sites) == 0 {
			continue
		}
		needWalk := false
		for _, call := range sites {
			a := aggs.get(keyOf[call], call.Pos())
			if len(call.Args) < 2 {
				a.notes["no length: empty"] = true
				continue
			}
			if tv := e.info.Types[call.Args[1]]; tv.Value != nil && tv.Value.ExactString() == "0" {
				a.notes["length 0: the list only grows by append"] = true
				continue
			}
			needWalk = true
		}
		if !needWalk {
			continue
		}
		run := e.newRun(fd, nil)
		run.obs.exit = func(st *r2parseState, o outcome, success bool, results []*r2parseVal) {
			if !success {
				return
			}
			var holes []*r2parseVal
			seen := map[*r2parseVal]bool{}
			for _, r := range results {
				r5parseHoles(r, seen, &holes)
			}
			var objs []types.Object
			for o := range st.env {
				objs = append(objs, o)
			}
			sort.Slice(objs, func(i, j int) bool { return objs[i].Pos() < objs[j].Pos() })
			for _, o := range objs {
				r5parseHoles(st.env[o], seen, &holes)
			}
			bad := map[ast.Node][]*r2parseVal{}
			for _, h := range holes {
				bad[h.lit] = append(bad[h.lit], h)
			}
			for _, call := range sites {
				if len(call.Args) < 2 {
					continue
				}
				if tv := e.info.Types[call.Args[1]]; tv.Value != nil && tv.Value.ExactString() == "0" {
					continue
				}
				a := aggs.get(keyOf[call], call.Pos())
				a.seen++
				hs := bad[call]
				switch {
				case len(hs) == 0:
					a.notes["every slot is stored on every successful path"] = true
				case hs[0].holeN:
					a.fail(Undecided, "the length "+exprStr(call.Args[1])+" is not a constant: the slots that must be stored cannot be enumerated")
				default:
					a.fail(Violated, fmt.Sprintf("%s: the list handed on contains a zero (nil) element although no syntax error is reported — consumers that switch on / dereference the element panic; path %s", hs[0].desc, st.path()))
				}
			}
		}
		run.walk()
		for _, u := range run.undec {
			aggs.get(fkey+"|walk", fd.Pos()).fail(Undecided, u)
		}
	}
	return aggs.obligations(e.c)
}
