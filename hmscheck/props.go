package main

import (
	"encoding/json"
	"fmt"
	"os"
	"strings"
)

// PropDef binds a property to the rules whose union decides its claimed
// clause. Everything here is prose for the evidence/MANIFEST plus rule ids.
type PropDef struct {
	ID          string
	Rules       []string
	Technique   string
	Decides     string
	NotDecided  string
	Assumptions []string
	DesignRef   string
	NAReason    string // when Rules is empty
}

// propScopeOut: packages (relative to homescript/) whose code cannot affect a property. An obligation of a shared rule
// that is anchored in one of them is not reported for that property (it is reported for the properties the package does
// affect): a defect in the interpreter is not an alarm for the lexical grammar. Obligations without a source position
// (floors, lost anchors) are always in scope. The lists only name packages that are clearly irrelevant.
var propScopeOut = map[string][]string{
	"C01": {"interpreter", "interpreter/value", "optimizer", "fuzzer"},
	"C02": {"optimizer", "fuzzer", "lexer", "lexer/util", "parser"},
	"C03": {"compiler", "runtime", "runtime/value", "interpreter", "interpreter/value", "optimizer", "fuzzer"},
	"C04": {"optimizer", "fuzzer", "lexer", "lexer/util", "parser"},
	"C05": {"compiler", "runtime", "runtime/value", "interpreter", "interpreter/value", "optimizer", "fuzzer"},
	"C06": {"compiler", "runtime", "runtime/value", "interpreter", "interpreter/value", "optimizer", "fuzzer", "analyzer"},
	"C07": {"compiler", "runtime", "runtime/value", "interpreter", "interpreter/value", "optimizer", "fuzzer", "analyzer"},
	"C08": {"optimizer", "fuzzer"},
	"C09": {"optimizer", "fuzzer", "lexer", "lexer/util", "parser"},
	"C10": {"optimizer", "fuzzer", "lexer", "lexer/util", "parser", "analyzer", "analyzer/ast"},
	"C11": {"optimizer", "fuzzer", "lexer", "lexer/util", "parser"},
	"C12": {"optimizer", "fuzzer", "lexer", "lexer/util", "parser", "parser/ast"},
	"C13": {"optimizer", "fuzzer", "lexer", "lexer/util", "parser", "analyzer", "analyzer/ast"},
	"C14": {"optimizer", "fuzzer"},
	"C15": {"optimizer", "fuzzer", "lexer", "lexer/util"},
	"C16": {"optimizer", "fuzzer", "lexer", "lexer/util", "parser", "interpreter", "interpreter/value"},
	"C17": {"optimizer", "fuzzer", "lexer", "lexer/util", "parser"},
	"C18": {"optimizer", "fuzzer", "lexer", "lexer/util", "parser", "compiler"},
	"C19": {"runtime", "runtime/value", "interpreter", "interpreter/value", "compiler"},
	"C20": {"runtime", "runtime/value", "interpreter", "interpreter/value", "compiler"},
}

// propScopeKeep: rules that compare two or three components with each other (analyzer table vs runtime tables, VM
// function vs interpreter twin). Their obligations are anchored at ONE of the compared sites, which says nothing about
// which side is wrong, so for the listed properties they are never filtered by package.
var propScopeKeep = map[string][]string{
	"C03": {"R-members"},
	"C06": {"R-lex-parse-filename"},
	"C16": {"R-twin-tables"},
	"C09": {"R-members"},
	"C18": {"R-operator-emission"}, // analyzer typing of an operator vs the instruction the compiler emits for it: a value typed ??T must have the members the table advertises
	"C20": {"R-optable-symbol", "R-mangle-unique"},
}

// outOfScope reports whether obligation o is anchored in a package that cannot affect property prop.
func outOfScope(prop string, o Obligation) bool {
	for _, r := range propScopeKeep[prop] {
		if r == o.Rule {
			return false
		}
	}
	pos := o.Pos
	if !strings.HasPrefix(pos, "homescript/") {
		return false
	}
	rest := strings.TrimPrefix(pos, "homescript/")
	i := strings.LastIndex(rest, "/")
	if i < 0 {
		return false // the root package: the pipeline driver
	}
	pkg := rest[:i]
	for _, ex := range propScopeOut[prop] {
		if pkg == ex {
			return true
		}
	}
	return false
}

func propByID(id string) *PropDef {
	for i := range props {
		if props[i].ID == id && len(props[i].Rules) > 0 {
			return &props[i]
		}
	}
	return nil
}

func printManifest() {
	type level struct {
		Category  string `json:"category"`
		Text      string `json:"text"`
		DesignRef string `json:"design_ref"`
	}
	type check struct {
		PropertyID string `json:"property_id"`
		Quick      string `json:"quick_cmd"`
		Thorough   string `json:"thorough_cmd"`
		Evidence   string `json:"evidence_file"`
		Replay     string `json:"replay_cmd_template"`
		Engine     string `json:"engine"`
		Level      level  `json:"level_claimed"`
		LevelNote  string `json:"level_note"`
		Technique  string `json:"technique"`
	}
	type na struct {
		PropertyID string `json:"property_id"`
		Reason     string `json:"reason"`
	}
	var checks []check
	var nas []na
	var served []string
	for _, p := range props {
		if len(p.Rules) == 0 {
			nas = append(nas, na{p.ID, p.NAReason})
			continue
		}
		served = append(served, p.ID)
		checks = append(checks, check{
			PropertyID: p.ID,
			Quick:      "./check.sh " + p.ID + " quick",
			Thorough:   "./check.sh " + p.ID + " thorough",
			Evidence:   "/verif/evidence/" + p.ID + ".json",
			Replay:     "./bin/hmscheck -replay {path}",
			Engine:     "hmscheck",
			Level: level{
				Category:  "other",
				Text:      "Static analysis of /repo's current source (no execution). Decides, exhaustively over all paths / table entries / call sites of the anchored code, a structural necessary condition of the property: " + p.Decides + " It does not decide the behavioural statement itself: " + p.NotDecided,
				DesignRef: p.DesignRef,
			},
			LevelNote: "Trusted: go/types, go/cfg, go/ssa, VTA call graph (x/tools v0.29.0), the rule implementations, and the argument that each rule is a necessary condition (DESIGN.md §4-5). " + strings.Join(p.Assumptions, " "),
			Technique: p.Technique + " [rules: " + strings.Join(p.Rules, ", ") + "]",
		})
	}
	m := map[string]any{
		"version":   1,
		"setup_cmd": "./setup.sh",
		"hooks": map[string]any{
			"guard":            "verif",
			"enable":           "none needed: the checks are static analyses that load /repo's working tree with go/packages; no instrumentation is compiled into /repo",
			"baseline_off_cmd": "cd /repo && go build ./... && go test -vet=off -count=1 -timeout 25m ./...",
			"source_commits":   []string{},
			"add_only":         true,
		},
		"engines": []map[string]any{{
			"name":              "hmscheck",
			"path":              "/verif/hmscheck",
			"serves_properties": served,
			"kind_free_text":    "repository-specific static analyser (go/packages + go/types + AST path enumeration + go/ssa dominance + VTA call graph); one rule set per property; obligations keyed rule+construct",
		}},
		"checks":         checks,
		"not_applicable": nas,
		"notes":          "All checks are static (family: static analysis). Level is 'other' everywhere: each check decides a named structural clause that is a necessary condition of the property, never the behavioural statement. Genuine defects found are either repaired in /repo by 'fix:' commits or listed in /verif/known_findings.json (keyed rule+construct).",
	}
	if nas == nil {
		m["not_applicable"] = []na{}
	}
	b, _ := json.MarshalIndent(m, "", " ")
	os.Stdout.Write(b)
	fmt.Println()
}
