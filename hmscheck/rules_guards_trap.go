package main

import (
	"fmt"
	"go/token"
	"go/types"
	"os"
	"runtime/debug"
	"sort"
	"strings"

	"golang.org/x/tools/go/ssa"
)

func init() {
	register(&Rule{ID: "R-trap-guard", Floor: 30, Run: ruleTrapGuard,
		Doc: "every value-dependent Go run-time trap site in runtime, runtime/value, interpreter, interpreter/value (functions reachable from (*Core).Run / (*Interpreter).Execute plus the builtin member closures built in Fields()) whose operand is data-dependent on the payload of a script value — integer / and % (divisor), << and >> with a signed count, strings.Repeat count, make sizes, index and slice bounds (also every bound of the form len(x)-k), dereference of a pointer fetched from a map by a script-controlled key — is dominated by a guard that excludes the trapping values (!=0; >=0; 0<=i<len for x[i]; 0<=lo<=hi<=len for x[lo:hi]; len(x)>=k; non-nil / comma-ok). Oracle: the Go specification's list of run-time panics. A trap in the core goroutine kills the host (no recover), so an unguarded site breaks 'an accepted program never crashes the host' (C02), the limit branches (C09) and the index-taking members (C18). Integer wrap-around is not modelled."})
}

var gdTrapPkgs = []string{"homescript/runtime", "homescript/runtime/value", "homescript/interpreter", "homescript/interpreter/value"}

type gdTrapEnv struct {
	c        *Ctx
	nm       *gdNamer
	keys     gdKeyer
	taint    *gdTaint
	mod      *gdAllMod
	stacks   map[*types.Var]bool // struct fields used as push/pop stacks
	obs      []Obligation
	skipped  map[string]int
	wrapSeen map[gdAtom]bool
	scope    []*ssa.Function
	callers  map[*ssa.Function][]*ssa.Call
	// reviewed sites: fingerprint → indices into obs; index → the obligation as it would be reported
	reviewed   map[string][]int
	unreviewed map[int]Obligation
}

// gdScope: reachable functions of the four packages + member closures.
func gdTrapScope(c *Ctx) ([]*ssa.Function, []*ssa.Function) {
	all := gdFuncsOf(c, gdTrapPkgs...)
	run := gdMethod(c, "homescript/runtime", "Core", "Run")
	exe := gdMethod(c, "homescript/interpreter", "Interpreter", "Execute")
	reach := gdReachable(c, run, exe)
	var scope []*ssa.Function
	for _, fn := range all {
		in := reach[fn]
		if !in {
			// builtin member closures: literals nested in a method named Fields
			for p := fn.Parent(); p != nil; p = p.Parent() {
				if p.Name() == "Fields" && p.Signature.Recv() != nil {
					in = true
				}
			}
		}
		if in {
			scope = append(scope, fn)
		}
	}
	return all, scope
}

func gdDebugPanic() {
	if os.Getenv("GD_DEBUG") != "" {
		if e := recover(); e != nil {
			fmt.Fprintf(os.Stderr, "panic: %v\n%s\n", e, debug.Stack())
			panic(e)
		}
	}
}

func ruleTrapGuard(c *Ctx) []Obligation {
	defer gdDebugPanic()
	all, scope := gdTrapScope(c)
	if len(scope) < 100 {
		fatalf("R-trap-guard: only %d functions in scope (anchors moved?)", len(scope))
	}
	src := gdPayloadFields(c, "homescript/runtime/value", "homescript/interpreter/value")
	env := &gdTrapEnv{c: c, nm: newGdNamer(c), taint: newGdTaint(src, all), mod: gdComputeAllMod(c.SSA()), skipped: map[string]int{}}
	env.stacks = gdStackFields(all)
	env.scope = scope
	for _, fn := range scope {
		env.function(fn)
	}
	env.capacityInvariants(all)
	gdReviewUnique(env.obs, env.reviewed, env.unreviewed)
	var classes []string
	for k := range env.skipped {
		classes = append(classes, k)
	}
	sort.Strings(classes)
	for _, k := range classes {
		env.obs = append(env.obs, Obligation{Key: "not script-dependent|" + k, Status: Info,
			Detail: fmt.Sprintf("%d site(s) of this class have an operand that is not data-dependent on a script value payload and are not obligations", env.skipped[k])})
	}
	env.obs = append(env.obs, Obligation{Key: "scope", Status: Info, Detail: fmt.Sprintf("%d functions analysed (%d in the four packages)", len(scope), len(all))})
	return env.obs
}

// gdStackFields: slice-typed struct fields that some function grows with
// `x.F = append(x.F, …)` and some function shrinks with `x.F = x.F[:len(x.F)-1]`.
func gdStackFields(funcs []*ssa.Function) map[*types.Var]bool {
	grown, shrunk := map[*types.Var]bool{}, map[*types.Var]bool{}
	for _, fn := range funcs {
		for _, b := range fn.Blocks {
			for _, in := range b.Instrs {
				st, ok := in.(*ssa.Store)
				if !ok {
					continue
				}
				fa, ok := st.Addr.(*ssa.FieldAddr)
				if !ok {
					continue
				}
				f := gdStructField(fa.X.Type(), fa.Field)
				switch v := st.Val.(type) {
				case *ssa.Call:
					if bi, ok := v.Call.Value.(*ssa.Builtin); ok && bi.Name() == "append" {
						grown[f] = true
					}
				case *ssa.Slice:
					if v.High != nil && v.Low == nil {
						shrunk[f] = true
					}
				}
			}
		}
	}
	out := map[*types.Var]bool{}
	for f := range grown {
		if shrunk[f] {
			out[f] = true
		}
	}
	return out
}

// gdTrapReviewed: sites of the `len(x)-k` class that guard dominance cannot
// decide and that were reviewed by hand (DESIGN §7: one construct each, with
// its reason; a new site of the kind is reported until reviewed). The operand
// is not script-controlled in any of them. A construct is identified by its
// rename-stable fingerprint (gdNamer.funcShape / shapeAt: locals stand for
// their types, unexported functions for their signatures), not by the source
// text shown in the obligation key; a fingerprint that more than one site of
// the run has identifies nothing (gdReviewUnique).
var gdTrapReviewed = map[string]string{
	// runtime.(Core).unwind|index filtered[len(filtered) - 1]
	"runtime.(Core).ƒfunc() ([]string, int)|index $[]runtime.CallFrameInfo[len($[]runtime.CallFrameInfo) - 1]": "run-length grouping loop: the else branch of `prev != frame` is entered in the first iteration only if CallStack[0] equals the zero CallFrame{\"\",0}; frames are pushed with a function name and the VM refuses to run a routine that is not in the program (Run panics with 'non-existent routine' for \"\") — host contract, not reachable from a script. Assumption: no function is named \"\".",
}

// gdJoinKey joins the non-empty parts like gdKeyer.key (without the repeat count).
func gdJoinKey(parts ...string) string {
	var ps []string
	for _, p := range parts {
		if p != "" {
			ps = append(ps, p)
		}
	}
	return strings.Join(ps, "|")
}

// gdReviewUnique: obligations downgraded by a reviewed-site table keep that
// status only if their fingerprint designates exactly one site of the run.
func gdReviewUnique(obs []Obligation, byFP map[string][]int, restore map[int]Obligation) {
	for _, idx := range byFP {
		if len(idx) < 2 {
			continue
		}
		for _, i := range idx {
			o := restore[i]
			o.Detail = fmt.Sprintf("(%d sites share the fingerprint of a hand-reviewed construct: none of them is taken as reviewed) ", len(idx)) + o.Detail
			obs[i] = o
		}
	}
}

func (env *gdTrapEnv) add(fn *ssa.Function, pos token.Pos, what string, st Status, detail string) {
	if !pos.IsValid() {
		pos = gdPosOfFunc(fn)
	}
	key := env.keys.key(env.nm.funcName(fn), env.nm.caseCtx(pos), what)
	ob := Obligation{Key: key, Pos: env.c.Pos(pos), Status: st, Detail: detail, Nontrivial: true}
	if st != Discharged {
		// `what` = kind + source text of the site: the fingerprint has the shape instead
		kind := what
		if txt := gdShort(env.nm.exprAt(pos), 1<<20); txt != "" {
			if len(txt) > 12 {
				txt = txt[:12]
			}
			if i := strings.Index(what, txt); i >= 0 {
				kind = what[:i]
			}
		}
		fp := gdJoinKey(env.nm.funcShape(fn), env.nm.caseCtx(pos), kind+env.nm.shapeAt(pos))
		if os.Getenv("GD_DEBUG") != "" {
			fmt.Fprintf(os.Stderr, "fingerprint %s => %s\n", key, fp)
		}
		if why, ok := gdTrapReviewed[fp]; ok {
			if env.reviewed == nil {
				env.reviewed, env.unreviewed = map[string][]int{}, map[int]Obligation{}
			}
			env.reviewed[fp] = append(env.reviewed[fp], len(env.obs))
			env.unreviewed[len(env.obs)] = ob
			env.obs = append(env.obs, Obligation{Key: key, Pos: env.c.Pos(pos), Status: Info, Detail: "reviewed site (not decided by guard dominance): " + why})
			return
		}
	}
	env.obs = append(env.obs, ob)
}

func (env *gdTrapEnv) solverAt(in ssa.Instruction) *gdSolver {
	s := newGdSolver(&gdEq{mod: env.mod})
	s.addBlockFacts(in.Block())
	gdAddSummaryFacts(s, in.Block())
	return s
}

// lenMinusK: the linear form is len(X) - k, k >= 1 (returns k and the atom).
func gdLenMinusK(s *gdSolver, l gdLin) (int64, *gdAtom) {
	if len(l.t) != 1 || l.k >= 0 {
		return 0, nil
	}
	for a, c := range l.t {
		if c == 1 && s.atoms[a].isLen {
			at := s.atoms[a]
			return -l.k, &at
		}
	}
	return 0, nil
}

func (env *gdTrapEnv) function(fn *ssa.Function) {
	for _, b := range fn.Blocks {
		for _, in := range b.Instrs {
			switch x := in.(type) {
			case *ssa.BinOp:
				env.binop(fn, x)
			case *ssa.Call:
				env.call(fn, x)
			case *ssa.MakeSlice:
				env.makeSize(fn, x, x.Pos(), "make len", x.Len)
				if x.Cap != x.Len {
					env.makeSize(fn, x, x.Pos(), "make cap", x.Cap)
				}
			case *ssa.MakeChan:
				env.makeSize(fn, x, x.Pos(), "make chan size", x.Size)
			case *ssa.IndexAddr:
				env.index(fn, x, x.X, x.Index, x.Pos())
			case *ssa.Index:
				env.index(fn, x, x.X, x.Index, x.Pos())
			case *ssa.Lookup:
				if _, isMap := x.X.Type().Underlying().(*types.Map); isMap {
					env.mapLookup(fn, x)
				} else {
					env.index(fn, x, x.X, x.Index, x.Pos())
				}
			case *ssa.Slice:
				env.slice(fn, x)
			}
		}
	}
}

func (env *gdTrapEnv) binop(fn *ssa.Function, x *ssa.BinOp) {
	switch x.Op {
	case token.QUO, token.REM:
		if !gdIsInteger(x.Type()) {
			return
		}
		if _, ok := x.Y.(*ssa.Const); ok {
			return
		}
		what := "int " + x.Op.String() + " " + gdShort(env.nm.exprAt(x.Pos()), 60)
		if !env.taint.tainted(x.Y) {
			env.skipped["integer division"]++
			return
		}
		s := env.solverAt(x)
		if s.proveNE(s.lin(x.Y)) == gdProved {
			env.add(fn, x.Pos(), what, Discharged, "divisor != 0 established: "+s.factsString())
		} else {
			env.add(fn, x.Pos(), what, Violated, "divisor "+s.linString(s.lin(x.Y))+" is a script value and no dominating guard excludes 0 (Go: integer divide by zero panic); facts: "+s.factsString())
		}
	case token.SHL, token.SHR:
		if _, ok := x.Y.(*ssa.Const); ok {
			return
		}
		if gdIsUnsigned(x.Y.Type()) {
			return
		}
		what := "shift " + x.Op.String() + " " + gdShort(env.nm.exprAt(x.Pos()), 60)
		if !env.taint.tainted(x.Y) {
			env.skipped["shift by signed count"]++
			return
		}
		s := env.solverAt(x)
		if s.proveLE(s.lin(x.Y).neg()) == gdProved {
			env.add(fn, x.Pos(), what, Discharged, "count >= 0 established: "+s.factsString())
		} else {
			env.add(fn, x.Pos(), what, Violated, "shift count "+s.linString(s.lin(x.Y))+" is a signed script value and no dominating guard excludes negatives (Go: negative shift amount panic); facts: "+s.factsString())
		}
	}
}

func (env *gdTrapEnv) call(fn *ssa.Function, x *ssa.Call) {
	cal := x.Call.StaticCallee()
	if cal == nil || cal.Pkg == nil {
		return
	}
	if cal.Pkg.Pkg.Path() == "strings" && cal.Name() == "Repeat" && len(x.Call.Args) == 2 {
		cnt := x.Call.Args[1]
		if _, ok := cnt.(*ssa.Const); ok {
			return
		}
		what := "strings.Repeat count " + gdShort(env.nm.exprAt(x.Pos()), 60)
		if !env.taint.tainted(cnt) {
			env.skipped["strings.Repeat"]++
			return
		}
		s := env.solverAt(x)
		if s.proveLE(s.lin(cnt).neg()) == gdProved {
			env.add(fn, x.Pos(), what, Discharged, "count >= 0 established: "+s.factsString())
		} else {
			env.add(fn, x.Pos(), what, Violated, "count "+s.linString(s.lin(cnt))+" is a script value and no dominating guard excludes negatives (strings.Repeat panics on a negative count); facts: "+s.factsString())
		}
	}
}

func (env *gdTrapEnv) makeSize(fn *ssa.Function, in ssa.Instruction, pos token.Pos, what string, size ssa.Value) {
	if size == nil {
		return
	}
	if _, ok := size.(*ssa.Const); ok {
		return
	}
	if !env.taint.tainted(size) {
		// len/cap-derived and host-configured sizes: not script-controlled
		env.skipped["make with non-constant size"]++
		return
	}
	s := env.solverAt(in)
	what += " " + gdShort(env.nm.exprAt(pos), 60)
	if s.proveLE(s.lin(size).neg()) == gdProved {
		env.add(fn, pos, what, Discharged, "size >= 0 established: "+s.factsString())
	} else {
		env.add(fn, pos, what, Violated, "size "+s.linString(s.lin(size))+" is a script value and no dominating guard excludes negatives (makeslice: len out of range); facts: "+s.factsString())
	}
}

// relevantIndex: tainted, or of the form len(x)-k.
func (env *gdTrapEnv) relevantIndex(s *gdSolver, v ssa.Value) (bool, string) {
	if v == nil {
		return false, ""
	}
	if _, ok := v.(*ssa.Const); ok {
		return false, ""
	}
	if env.taint.tainted(v) {
		return true, "script value"
	}
	if k, _ := gdLenMinusK(s, s.lin(v)); k > 0 {
		return true, fmt.Sprintf("len-%d", k)
	}
	return false, ""
}

func (env *gdTrapEnv) index(fn *ssa.Function, in ssa.Instruction, x, idx ssa.Value, pos token.Pos) {
	s := env.solverAt(in)
	rel, why := env.relevantIndex(s, idx)
	if !rel {
		if _, ok := idx.(*ssa.Const); !ok {
			env.skipped["index expression"]++
			if os.Getenv("GD_DEBUG") != "" {
				fmt.Fprintf(os.Stderr, "skip index %s %s: %s\n", env.c.Pos(pos), env.nm.funcName(fn), env.nm.exprAt(pos))
			}
		}
		return
	}
	what := "index " + gdShort(env.nm.exprAt(pos), 70)
	i := s.lin(idx)
	n := s.lenOf(x, nil, 0)
	var missing []string
	undec := false
	check := func(goal gdLin, text string) {
		switch s.proveLE(goal) {
		case gdNotProved:
			missing = append(missing, text)
		case gdUnknownShape:
			missing = append(missing, text+" (shape not decidable)")
			undec = true
		}
	}
	check(i.neg(), "0 <= "+s.linString(i))
	check(i.add(n, -1).plus(1), s.linString(i)+" < "+s.linString(n))
	env.verdict(fn, pos, what, why, s, i, x, missing, undec)
	if env.taint.tainted(idx) {
		env.wrapCheck(fn, in, pos, s, i, x)
	}
}

func (env *gdTrapEnv) slice(fn *ssa.Function, x *ssa.Slice) {
	s := env.solverAt(x)
	var why []string
	any := false
	for _, v := range []ssa.Value{x.Low, x.High, x.Max} {
		if r, w := env.relevantIndex(s, v); r {
			any = true
			why = append(why, w)
		}
	}
	if !any {
		for _, v := range []ssa.Value{x.Low, x.High, x.Max} {
			if v != nil {
				if _, ok := v.(*ssa.Const); !ok {
					env.skipped["slice expression"]++
					break
				}
			}
		}
		return
	}
	what := "slice " + gdShort(env.nm.exprAt(x.Pos()), 70)
	n := s.lenOf(x.X, nil, 0) // len stands in for cap (len <= cap)
	var missing []string
	undec := false
	check := func(goal gdLin, text string) {
		switch s.proveLE(goal) {
		case gdNotProved:
			missing = append(missing, text)
		case gdUnknownShape:
			missing = append(missing, text+" (shape not decidable)")
			undec = true
		}
	}
	lo := gdK(0)
	if x.Low != nil {
		lo = s.lin(x.Low)
		check(lo.neg(), "0 <= "+s.linString(lo))
	}
	hi := n
	if x.High != nil {
		hi = s.lin(x.High)
		check(hi.add(n, -1), s.linString(hi)+" <= "+s.linString(n))
	}
	if x.Max != nil {
		mx := s.lin(x.Max)
		check(hi.add(mx, -1), s.linString(hi)+" <= "+s.linString(mx))
		check(mx.add(n, -1), s.linString(mx)+" <= "+s.linString(n))
	}
	check(lo.add(hi, -1), s.linString(lo)+" <= "+s.linString(hi))
	var lead gdLin
	switch {
	case x.High != nil:
		lead = hi
	default:
		lead = lo
	}
	env.verdict(fn, x.Pos(), what, strings.Join(why, ","), s, lead, x.X, missing, undec)
	for _, v := range []ssa.Value{x.Low, x.High} {
		if v != nil && env.taint.tainted(v) {
			env.wrapCheck(fn, x, x.Pos(), s, s.lin(v), x.X)
		}
	}
}

// wrapCheck (C18: "accept negative indices counted from the end"): in the two
// value libraries a script-controlled index must be the result of the wrap
// idiom: it has exactly two alternatives x and x+len(base), and the second is
// taken only under x < 0. The alternatives are the edges of a phi (the in-place
// `if i < 0 { i += len }`), or the values a pure helper returns on its two ways
// of returning (`wrap(i, len)`, also as one result of a helper that does the
// bounds test too), evaluated in the helper's frame (gdSolver.resultAlts).
// One obligation per (function, index variable).
func (env *gdTrapEnv) wrapCheck(fn *ssa.Function, at ssa.Instruction, pos token.Pos, s *gdSolver, i gdLin, base ssa.Value) {
	pk := relPkg(fn.Pkg.Pkg.Path())
	if pk != "homescript/runtime/value" && pk != "homescript/interpreter/value" {
		return
	}
	var atom *gdAtom
	for a, c := range i.t {
		if s.atoms[a].isLen {
			continue
		}
		if atom != nil || c != 1 {
			return // not a plain index variable
		}
		at := s.atoms[a]
		atom = &at
	}
	if atom == nil {
		return
	}
	if env.wrapSeen == nil {
		env.wrapSeen = map[gdAtom]bool{}
	}
	seenKey := gdAtom{v: atom.v, ctx: &gdCallCtx{callee: fn}}
	for k := range env.wrapSeen {
		if k.v == atom.v && k.ctx.callee == fn {
			return
		}
	}
	env.wrapSeen[seenKey] = true
	name := gdShort(env.nm.exprAt(pos), 50)
	key := env.keys.key(env.nm.funcName(fn), env.nm.caseCtx(pos), "negative index wraps: "+name)
	add := func(st Status, d string) {
		env.obs = append(env.obs, Obligation{Key: key, Pos: env.c.Pos(pos), Status: st, Detail: d, Nontrivial: true})
	}
	alts := s.resultAlts(*atom, at.Block())
	if alts == nil {
		add(Violated, "the index "+s.atomName(s.index[*atom])+" is used as given: a negative index is not counted from the end (no `if i < 0 { i += len }` before the bounds test)")
		return
	}
	form := "phi(x, x+len) with the wrapping edge"
	if _, isPhi := atom.v.(*ssa.Phi); !isPhi {
		form = alts[0].ctx.callee.Name() + "(x, …) which returns x / x+len, the wrapping return"
	}
	if len(alts) != 2 {
		add(Violated, fmt.Sprintf("the index comes from %d alternative values, not from the two of the form x / x+len(base) under x < 0", len(alts)))
		return
	}
	n := s.lenOf(base, nil, 0)
	for k := 0; k < 2; k++ {
		x, w := alts[k], alts[1-k]
		// w == x + len(base) ?
		d := s.linIn(w.v, w.ctx, 0).add(s.linIn(x.v, x.ctx, 0), -1).add(n, -1)
		cls := s.classes()
		if c := gdCanon(d, cls); len(c.t) != 0 || c.k != 0 {
			continue
		}
		// the wrapping alternative is taken only under x < 0
		t := newGdSolver(s.eq)
		t.ctxs, t.frames = s.ctxs, s.frames // same interned callee frames
		for _, f := range w.facts {
			t.addCondIn(f.cond, f.truth, f.ctx)
		}
		if t.proveLE(t.linIn(x.v, x.ctx, 0).plus(1)) == gdProved {
			add(Discharged, "index = "+form+" under x < 0")
			return
		}
	}
	add(Violated, "the index variable is a merge of two values but not of the form x / x+len(base) under x < 0")
}

func (env *gdTrapEnv) verdict(fn *ssa.Function, pos token.Pos, what, why string, s *gdSolver, lead gdLin, base ssa.Value, missing []string, undec bool) {
	if len(missing) == 0 {
		env.add(fn, pos, what, Discharged, "bounds established ("+why+"): "+s.factsString())
		return
	}
	// stack discipline: x.F[len(x.F)-1] on a push/pop stack field
	if k, at := gdLenMinusK(s, lead); k == 1 && at != nil && !env.taint.tainted(at.v) {
		if f := gdFieldOfPath(at.v); f != nil && env.stacks[f] {
			env.obs = append(env.obs, Obligation{
				Key:    env.keys.key(env.nm.funcName(fn), env.nm.caseCtx(pos), "stack top "+gdShort(env.nm.exprAt(pos), 70)),
				Pos:    env.c.Pos(pos),
				Status: Info,
				Detail: "len(" + f.Name() + ")-1 on the push/pop stack field " + f.Name() + ": non-emptiness at a pop is the push/pop pairing invariant (R-stack-effect / R-emit-balance / R-pairing), it does not depend on a script value; not decided here",
			})
			return
		}
	}
	st := Violated
	if undec {
		st = Undecided
	}
	env.add(fn, pos, what, st, "bound is "+why+"; not established: "+strings.Join(missing, "; ")+" — facts: "+s.factsString())
}

// gdFieldOfPath: the struct field a loaded value comes from (last field step).
func gdFieldOfPath(v ssa.Value) *types.Var {
	p := gdPathOf(v)
	for i := len(p.steps) - 1; i >= 0; i-- {
		if p.steps[i].kind == gdField {
			return p.steps[i].field
		}
		if p.steps[i].kind != gdDeref {
			return nil
		}
	}
	return nil
}

// mapLookup: p := m[k] (pointer element, key script-controlled) followed by a
// dereference of p.
func (env *gdTrapEnv) mapLookup(fn *ssa.Function, lk *ssa.Lookup) {
	mt := lk.X.Type().Underlying().(*types.Map)
	if _, ok := mt.Elem().Underlying().(*types.Pointer); !ok {
		return
	}
	var ptr ssa.Value = lk
	var okv ssa.Value
	if lk.CommaOk {
		ptr = nil
		for _, r := range *lk.Referrers() {
			if ex, ok := r.(*ssa.Extract); ok {
				if ex.Index == 0 {
					ptr = ex
				} else {
					okv = ex
				}
			}
		}
		if ptr == nil {
			return
		}
	}
	env.mapResult(fn, lk, ptr, okv, env.nm.exprAt(lk.Pos()), 0)
}

// mapResult: ptr (in fn) is the possibly-nil pointer a map lookup with a
// script-controlled key yielded, okv its comma-ok flag (or nil); `src` is the
// source text naming the lookup in fn. One obligation per dereference of ptr in
// fn. When fn hands ptr on to its callers as a result (the lookup split from
// its dereference into a helper), the same is done at every static call site
// with the call's results, the flag being a result that is true only when the
// pointer result is non-nil.
func (env *gdTrapEnv) mapResult(fn *ssa.Function, lk *ssa.Lookup, ptr, okv ssa.Value, src string, depth int) {
	derefs := gdDerefsOf(ptr)
	tainted := env.taint.tainted(lk.Index)
	if len(derefs) > 0 && !tainted {
		env.skipped["map lookup then dereference"] += len(derefs)
	}
	if !tainted {
		return
	}
	for _, d := range derefs {
		what := "deref of map result " + gdShort(src, 60)
		if gdNilGuarded(&gdEq{mod: env.mod}, d, ptr, okv) {
			env.add(fn, d.Pos(), what, Discharged, "dominated by a non-nil / comma-ok test of the lookup result")
		} else {
			env.add(fn, d.Pos(), what, Violated, "the key is a script value; a missing key yields a nil pointer which is dereferenced without a dominating non-nil or comma-ok test (Go: nil pointer dereference)")
		}
	}
	if depth >= 2 || ptr.Referrers() == nil {
		return
	}
	// handed to the callers as result j
	results := map[int]bool{}
	for _, r := range *ptr.Referrers() {
		if ret, ok := r.(*ssa.Return); ok {
			for j, rv := range ret.Results {
				if rv == ptr {
					results[j] = true
				}
			}
		}
	}
	for j := range results {
		// a result m that is true only when result j is non-nil
		flag := -1
		if okv != nil {
			for m := 0; m < fn.Signature.Results().Len(); m++ {
				if bt, ok := fn.Signature.Results().At(m).Type().Underlying().(*types.Basic); !ok || bt.Kind() != types.Bool {
					continue
				}
				implies := true
				for _, w := range gdWaysOf(fn) {
					rm, rj := w.result(m), w.result(j)
					if cv, isConst := gdBoolConst(rm); isConst && !cv {
						continue
					}
					if rj != nil && gdNonNil(rj, 0) {
						continue
					}
					if rj == ptr && rm == okv {
						continue
					}
					implies = false
				}
				if implies {
					flag = m
					break
				}
			}
		}
		for _, call := range env.callersOf(fn) {
			var ptr2, okv2 ssa.Value
			if _, isTuple := call.Type().(*types.Tuple); !isTuple {
				ptr2 = call
			} else if refs := call.Referrers(); refs != nil {
				for _, r := range *refs {
					if ex, ok := r.(*ssa.Extract); ok {
						if ex.Index == j {
							ptr2 = ex
						} else if ex.Index == flag {
							okv2 = ex
						}
					}
				}
			}
			if ptr2 == nil {
				continue
			}
			env.mapResult(call.Parent(), lk, ptr2, okv2, env.nm.exprAt(call.Pos()), depth+1)
		}
	}
}

// callersOf: the static call sites of fn in the functions in scope.
func (env *gdTrapEnv) callersOf(fn *ssa.Function) []*ssa.Call {
	if env.callers == nil {
		env.callers = map[*ssa.Function][]*ssa.Call{}
		for _, f := range env.scope {
			for _, b := range f.Blocks {
				for _, in := range b.Instrs {
					if call, ok := in.(*ssa.Call); ok {
						if cal := call.Call.StaticCallee(); cal != nil {
							env.callers[cal] = append(env.callers[cal], call)
						}
					}
				}
			}
		}
	}
	return env.callers[fn]
}

// gdImpliedFacts: the branch decisions (each in its callee frame) that hold
// when boolean result k of `call` — a call, made in frame outer, of a pure
// module function — has the value truth: those of the only way of returning
// compatible with that value, the returned condition itself, and, where one of
// these is again a boolean result of a pure call, what that implies (two
// levels).
func gdImpliedFacts(call *ssa.Call, k int, truth bool, outer *gdCallCtx, depth int) []gdCtxFact {
	cal := call.Call.StaticCallee()
	if cal == nil || !gdPureFunc(cal) || k >= cal.Signature.Results().Len() {
		return nil
	}
	if bt, ok := cal.Signature.Results().At(k).Type().Underlying().(*types.Basic); !ok || bt.Kind() != types.Bool {
		return nil
	}
	ways := gdAdmittedWays(cal, []gdResCons{{k: k, truth: truth}})
	if len(ways) != 1 {
		return nil
	}
	ctx := &gdCallCtx{call: call, callee: cal, outer: outer}
	facts := ways[0].facts()
	if rv := ways[0].result(k); rv != nil {
		if _, isConst := gdBoolConst(rv); !isConst {
			facts = append(facts, gdNormFact(rv, truth, nil))
		}
	}
	var out []gdCtxFact
	for _, g := range facts {
		out = append(out, gdCtxFact{g, ctx})
		if depth < 2 {
			if c2, k2 := gdCallResult(g.cond); c2 != nil {
				out = append(out, gdImpliedFacts(c2, k2, g.truth, ctx, depth+1)...)
			}
		}
	}
	return out
}

// gdDerefsOf: instructions that dereference pointer p directly.
func gdDerefsOf(p ssa.Value) []ssa.Instruction {
	var out []ssa.Instruction
	refs := p.Referrers()
	if refs == nil {
		return nil
	}
	for _, r := range *refs {
		switch x := r.(type) {
		case *ssa.UnOp:
			if x.Op == token.MUL && x.X == p {
				out = append(out, x)
			}
		case *ssa.FieldAddr:
			if x.X == p {
				out = append(out, x)
			}
		case *ssa.IndexAddr:
			if x.X == p {
				out = append(out, x)
			}
		case *ssa.Store:
			if x.Addr == p {
				out = append(out, x)
			}
		}
	}
	return out
}

// gdNilGuarded: instruction at is dominated by `p != nil` (or okv true).
func gdNilGuarded(eq *gdEq, at ssa.Instruction, p ssa.Value, okv ssa.Value) bool {
	if okv != nil {
		for _, f := range gdDomFacts(at.Block()) {
			if f.cond == okv && f.truth {
				return true
			}
		}
	}
	ok, _ := gdNilGuardedPath(eq, at, gdPathOf(p))
	return ok
}

// gdNilCompare: cond is `w != nil` / `w == nil`; returns w and whether the
// given truth value means "w is not nil".
func gdNilCompare(cond ssa.Value, truth bool) (ssa.Value, bool) {
	b, ok := cond.(*ssa.BinOp)
	if !ok || (b.Op != token.EQL && b.Op != token.NEQ) {
		return nil, false
	}
	var other ssa.Value
	if c, ok := b.Y.(*ssa.Const); ok && c.IsNil() {
		other = b.X
	} else if c, ok := b.X.(*ssa.Const); ok && c.IsNil() {
		other = b.Y
	}
	if other == nil {
		return nil, false
	}
	return other, (b.Op == token.NEQ) == truth
}

// gdNilGuardedPath: a branch dominating `at` establishes that the value with
// path q is not nil: the if/switch/&&/|| form (`q != nil`), or the wrapper form
// (`x.IsSet()` / `ok := has(x)`: a pure callee whose tested boolean result can
// only come about on a way of returning on which `recv.path != nil` holds).
func gdNilGuardedPath(eq *gdEq, at ssa.Instruction, q gdPath) (bool, string) {
	for _, f := range gdDomFacts(at.Block()) {
		if w, nonNil := gdNilCompare(f.cond, f.truth); w != nil {
			if nonNil && eq.samePaths(gdPathOf(w), q) {
				return true, "non-nil test"
			}
			continue
		}
		// wrapper form: a boolean result of a pure callee that can have the tested
		// value on one way of returning only, and a non-nil test holds on that way
		call, k := gdCallResult(f.cond)
		if call == nil {
			continue
		}
		for _, g := range gdImpliedFacts(call, k, f.truth, nil, 0) {
			if w, nonNil := gdNilCompare(g.cond, g.truth); w != nil && nonNil {
				if eq.samePaths(gdPathIn(w, g.ctx), q) {
					return true, "non-nil test through " + call.Call.StaticCallee().Name() + "()"
				}
			}
		}
	}
	return false, ""
}
