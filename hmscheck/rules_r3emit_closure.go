package main

// R-closure-scope (r3emit): a nested function is compiled without the local
// scopes of the function that encloses it.

import (
	"fmt"
	"go/ast"
	"go/types"
	"sort"
	"strings"
)

func init() {
	register(&Rule{ID: "R-closure-scope", Floor: 3, Run: ruleR3ClosureScope,
		Doc: "frame-local name resolution: variables are frame slots (renameVariables numbers the mangled names a function's instructions mention, per function; the VM addresses them relative to the callee's memory pointer), so while a function body is compiled, identifier lookup may only see the scopes pushed since that function's compilation started, plus the module root. The function compiler is re-entrant (a function literal, a trigger-argument function is compiled from inside the compilation of its enclosing function); at every call of the function compiler that can happen during another activation of it, the enclosing function's local scopes must be hidden from the nested activation — the scope stack is replaced before the call and restored after it on every path, or the function compiler itself cuts the stack / sets a base index on entry, or the resolver's walk over the scope stack is bounded by such a base — (or the free variables are transported explicitly: closure conversion). Otherwise a free variable of the literal resolves to the ENCLOSING function's mangled local; that name gets a slot number in the literal's own frame, i.e. it aliases one of the literal's own variables or an unwritten slot. Necessary for C01/C04 (calls, lexical scoping, VM = interpreter): `fn mk(k: int) -> fn(n: int) -> int { fn(n: int) -> int { n * k } }  fn main() { let triple = mk(3); println(triple(5)); }` prints 25 on the VM, 15 on the interpreter"})
}

func ruleR3ClosureScope(c *Ctx) []Obligation {
	r2LoopCtx = c
	roles := vmCompRoles(c)
	a := r3emLinkAnchors(c)
	scopeF := roles.scopes.field
	var obs []Obligation

	// ---- the resolver: loops over the scope stack that look names up
	type resolver struct {
		fn      *vmFn
		loop    *r2Loop
		barrier *types.Var // Compiler field bounding the walk (nil: the whole stack)
	}
	var resolvers []resolver
	for _, fn := range roles.fns {
		obj, _ := fn.info.Defs[fn.fd.Name].(*types.Func)
		if obj == nil {
			continue
		}
		if _, isPush := roles.scopes.push[obj]; isPush {
			continue
		}
		if _, isPop := roles.scopes.pop[obj]; isPop {
			continue
		}
		info := fn.info
		ast.Inspect(fn.fd.Body, func(n ast.Node) bool {
			s, ok := n.(ast.Stmt)
			if !ok {
				return true
			}
			switch s.(type) {
			case *ast.ForStmt, *ast.RangeStmt:
			default:
				return true
			}
			l := r2LoopOf(info, s)
			if l == nil || l.coll == nil || r2FieldOrAlias(fn, l.coll) != scopeF {
				return true
			}
			// a lookup: the body indexes a scope map with a string and returns / uses the result
			looksUp := false
			ast.Inspect(l.body, func(m ast.Node) bool {
				if ix, ok := m.(*ast.IndexExpr); ok {
					if mt, ok := info.TypeOf(ix.X).Underlying().(*types.Map); ok && types.Identical(mt.Key(), types.Typ[types.String]) {
						looksUp = true
					}
				}
				return true
			})
			if !looksUp {
				return true
			}
			r := resolver{fn: fn, loop: l}
			if l.start != nil {
				ast.Inspect(l.start, func(m ast.Node) bool {
					if sel, ok := m.(*ast.SelectorExpr); ok {
						if f := vmFieldOf(info, sel); f != nil && f != scopeF {
							r.barrier = f
						}
					}
					return true
				})
			}
			resolvers = append(resolvers, r)
			return true
		})
	}
	sort.Slice(resolvers, func(i, j int) bool { return resolvers[i].fn.name < resolvers[j].fn.name })
	allBounded := len(resolvers) > 0
	var barrierFields []*types.Var
	var resDesc []string
	for _, r := range resolvers {
		if r.barrier == nil {
			allBounded = false
			resDesc = append(resDesc, fmt.Sprintf("%s walks the WHOLE scope stack (%s loop over %s @%s)", r.fn.name, r2DirStr(r.loop.dir), exprStr(r.loop.coll), c.Pos(r.loop.stmt.Pos())))
		} else {
			barrierFields = append(barrierFields, r.barrier)
			resDesc = append(resDesc, fmt.Sprintf("%s walks the scope stack down to %s", r.fn.name, exprStr(r.loop.start)))
		}
	}

	// ---- does the function compiler cut the stack / set the base on entry?
	entryCut := func() (bool, string) {
		fn := roles.byObj[a.compileFn]
		info := fn.info
		isCutTarget := func(lhs ast.Expr) bool {
			f := vmFieldOf(info, lhs)
			if f == nil {
				return false
			}
			if f == scopeF {
				return true
			}
			for _, b := range barrierFields {
				if f == b {
					return true
				}
			}
			return false
		}
		rel := func(n ast.Node) bool {
			switch x := n.(type) {
			case *ast.AssignStmt:
				for _, l := range x.Lhs {
					if isCutTarget(l) {
						return true
					}
				}
			case *ast.CallExpr:
				g := CalleeOf(info, x)
				return g != nil && roles.emitters[g] && !r2EmitIdx(c).isForward(g) && r2EmitIdx(c).singleOf(g) == nil
			}
			return false
		}
		res := vmWalk(vmWalkOpts{fn: fn, correlate: true, replace: vmSlicer(rel)})
		if res.overflow || len(res.paths) == 0 {
			return false, ""
		}
		for i := range res.paths {
			p := &res.paths[i]
			if p.o.kind == cPanic {
				continue
			}
			cut := false
			for _, e := range p.ev {
				if e.K == evAssign && isCutTarget(e.Lhs) && !e.Deferred {
					cut = true
					break
				}
				if e.K == evCall && e.Fn != nil && roles.emitters[e.Fn] && !r2EmitIdx(c).isForward(e.Fn) && r2EmitIdx(c).singleOf(e.Fn) == nil {
					// a child compilation before any cut
					break
				}
			}
			if !cut {
				return false, ""
			}
		}
		return true, fmt.Sprintf("%s replaces the scope stack / sets the resolver's base on entry, before any child compilation, on every path", a.compileFn.Name())
	}
	cutOnEntry, cutDesc := entryCut()
	if allBounded && !cutOnEntry {
		// a bounded resolver whose base is never set by the function compiler bounds nothing
		allBounded = false
		resDesc = append(resDesc, "but "+a.compileFn.Name()+" never assigns that base")
	}

	// ---- every call site of the function compiler
	inUnit := map[*types.Func]bool{a.compileFn: true}
	for f := range roles.reachableFrom(a.compileFn) {
		inUnit[f] = true
	}
	type site struct {
		fn   *vmFn
		call *ast.CallExpr
	}
	var sites []site
	for _, fn := range roles.fns {
		ast.Inspect(fn.fd.Body, func(n ast.Node) bool {
			if call, ok := n.(*ast.CallExpr); ok && CalleeOf(fn.info, call) == a.compileFn {
				sites = append(sites, site{fn, call})
			}
			return true
		})
	}
	sort.Slice(sites, func(i, j int) bool { return sites[i].call.Pos() < sites[j].call.Pos() })
	count := map[string]int{}
	nested := 0
	for _, s := range sites {
		fn := s.fn
		info := fn.info
		obj, _ := info.Defs[fn.fd.Name].(*types.Func)
		base := r2UnitKey(c, fn, s.call.Pos()) + "|call of " + a.compileFn.Name()
		count[base]++
		if count[base] > 1 {
			base += fmt.Sprintf(" #%d", count[base])
		}
		if obj == nil || !inUnit[obj] {
			obs = append(obs, Obligation{Key: "top-level call of the function compiler (no function is being compiled)|" + base, Pos: c.Pos(s.call.Pos()), Status: Discharged, Nontrivial: true,
				Detail: fn.name + " is not reachable from " + a.compileFn.Name() + ": the call cannot happen during another activation of the function compiler, the scope stack holds no function-local scope"})
			continue
		}
		nested++
		ob := Obligation{Key: "the enclosing function's local scopes are hidden from a nested function|" + base, Pos: c.Pos(s.call.Pos()), Nontrivial: true}
		switch {
		case cutOnEntry:
			ob.Status, ob.Detail = Discharged, cutDesc
			obs = append(obs, ob)
			continue
		}
		// cut before and restore after the call, on every path of the enclosing function through the call
		rel := func(n ast.Node) bool {
			switch x := n.(type) {
			case *ast.AssignStmt:
				for _, l := range x.Lhs {
					if vmFieldOf(info, l) == scopeF {
						return true
					}
				}
			case *ast.CallExpr:
				return x == s.call
			}
			return false
		}
		res := vmWalk(vmWalkOpts{fn: fn, correlate: true, replace: vmSlicer(rel)})
		if res.overflow {
			ob.Status, ob.Detail = Undecided, "path cap exceeded"
			obs = append(obs, ob)
			continue
		}
		nPaths, okPaths := 0, 0
		witness := ""
		for i := range res.paths {
			p := &res.paths[i]
			at := -1
			for j, e := range p.ev {
				if e.K == evCall && e.Call == s.call {
					at = j
				}
			}
			if at < 0 || p.o.kind == cPanic {
				continue
			}
			nPaths++
			before, after := false, false
			for j, e := range p.ev {
				if e.K == evAssign && vmFieldOf(info, e.Lhs) == scopeF {
					if j < at {
						before = true
					} else {
						after = true
					}
				}
			}
			if before && after {
				okPaths++
			} else if witness == "" {
				witness = fmt.Sprintf("path [%s]: scope stack replaced before the call: %v, restored after it: %v", vmTrunc(p.decisions(), 200), before, after)
			}
		}
		switch {
		case nPaths == 0:
			ob.Status, ob.Detail = Undecided, "no explored path reaches the call"
		case okPaths == nPaths:
			ob.Status, ob.Detail = Discharged, fmt.Sprintf("on all %d path(s) the scope stack is replaced before the nested compilation and restored after it", nPaths)
		default:
			ob.Status = Violated
			ob.Detail = fmt.Sprintf("%s is called while %s (reachable from %s itself) is compiling a function: the nested function's body is compiled with the enclosing function's local scopes still on the scope stack (%s), %s does not cut the stack on entry, and the resolver sees every scope [%s]. A free variable of the nested function therefore resolves to the enclosing function's mangled local; renameVariables numbers that name in the NESTED function's frame, so it aliases one of the nested function's own slots (or an unwritten one): `fn mk(k: int) -> fn(n: int) -> int { fn(n: int) -> int { n * k } }  fn main() { let triple = mk(3); println(triple(5)); }` prints 25 on the VM and 15 on the interpreter. Needs closure conversion (capture list) or rejection of captures; hiding the outer scopes turns the silent aliasing into an unresolved name", a.compileFn.Name(), fn.name, a.compileFn.Name(), witness, a.compileFn.Name(), strings.Join(resDesc, "; "))
		}
		obs = append(obs, ob)
	}
	if nested == 0 {
		obs = append(obs, Obligation{Key: "compiler|re-entrant calls of the function compiler", Status: Info, Detail: "the function compiler is never called during one of its own activations: nested functions are not compiled in place"})
	}
	if len(resolvers) == 0 {
		obs = append(obs, Obligation{Key: "compiler|identifier resolver", Status: Undecided, Detail: "no loop over the scope stack that looks names up was found: re-anchor the rule"})
	} else {
		obs = append(obs, Obligation{Key: "compiler|identifier resolver", Status: Info, Detail: strings.Join(resDesc, "; ")})
	}
	_ = allBounded
	return obs
}
