package main

// R-vm-typestate and R-spawn-clone (r2emit group).

import (
	"fmt"
	"go/ast"
	"go/token"
	"go/types"
	"sort"
	"strings"
)

func init() {
	register(&Rule{ID: "R-vm-typestate", Floor: 80, Run: ruleR2VMTypestate,
		Doc: "effect of every opcode clause of the VM's dispatcher on the handler stack (Core.ExceptionCatchLabels) and on the call stack (Core.CallStack), per path: SetTryLabel grows the handler stack by exactly one entry on every normal path, PopTryLabel shrinks it by exactly one, no other opcode touches it; Call_Imm and Call_Val on a VM function push exactly one frame, Return pops exactly one, Call_Val on any other callee kind and every other opcode leave the call stack alone (the exception branch of Core.Run is R-exception-unwind's). Necessary for C11/C16/C01/C09: the compiler emits exactly one PopTryLabel per SetTryLabel on both continuations (R-pairing-emit), so a SetTryLabel that pushes only conditionally makes the matching pop remove an OUTER handler (recursive activation of the same try: the throw of the outer activation is then uncaught or delivered elsewhere); a call that pushes no frame or two frames, or a return that pops none, breaks every later return address and the call-depth limit. Core.Run: the normal-completion signal (nil) is sent only on paths whose last call-stack-relevant event is a test that found the call stack empty; a routine whose instruction pointer runs past its end (no explicit Return, e.g. the @init of an imported module) pops exactly one frame like Return and the dispatch loop goes on (C15: otherwise the @init chain stops after the first imported module); a loop over the call stack / handler stack that selects an entry by an early exit visits the innermost entry first (C11: the nearest dynamically enclosing handler belongs to the innermost activation)"})
	register(&Rule{ID: "R-spawn-clone", Floor: 1, Run: ruleR2SpawnClone,
		Doc: "every value the in-language spawn instruction hands to the new core (the []Value argument of the VM's core-spawning method called from a *Core method) is the result of Value.Clone() on EVERY path from the operand-stack pop to the call: path-exact, cloning under a condition on the value's kind (or any other condition) leaves a path on which the popped value itself crosses. Necessary for C17: the new core runs concurrently; a list, object, any-object, option (Inner pointer), range or iterator that is not deep-copied is mutated/read by two goroutines without synchronisation and the spawned function does not run with the argument values given at the spawn"})
}

// ---------------------------------------------------------------- R-vm-typestate

type r2StackEff struct {
	delta   int
	unknown []string
}

// r2FieldEffects computes per function of the runtime package its net effect
// on slice field f when it is a primitive push/pop, "unknown" when it writes f
// in any other way (transitively), and 0 otherwise.
type r2FieldSumm struct {
	c      *Ctx
	f      *types.Var
	roles  *vmStackRoles
	writes map[*types.Func]bool
	memo   map[*types.Func]*int
	busy   map[*types.Func]bool
}

func r2NewFieldSumm(c *Ctx, fns []*vmFn, f *types.Var, roles *vmStackRoles) *r2FieldSumm {
	s := &r2FieldSumm{c: c, f: f, roles: roles, writes: map[*types.Func]bool{}}
	callees := map[*types.Func][]*types.Func{}
	for _, fn := range fns {
		obj, _ := fn.info.Defs[fn.fd.Name].(*types.Func)
		if obj == nil {
			continue
		}
		if vmWritesField(fn.info, fn.fd.Body, f) {
			s.writes[obj] = true
		}
		// effects propagate only through calls on the function's own receiver (another
		// object's stacks — e.g. the new core started by the spawn method — are not this
		// core's) and not through function literals / go statements
		var recv types.Object
		if fn.fd.Recv != nil && len(fn.fd.Recv.List) == 1 && len(fn.fd.Recv.List[0].Names) == 1 {
			recv = fn.info.Defs[fn.fd.Recv.List[0].Names[0]]
		}
		ast.Inspect(fn.fd.Body, func(n ast.Node) bool {
			switch x := n.(type) {
			case *ast.FuncLit, *ast.GoStmt:
				return false
			case *ast.CallExpr:
				g := CalleeOf(fn.info, x)
				if g == nil {
					return true
				}
				if sel, ok := ast.Unparen(x.Fun).(*ast.SelectorExpr); ok && fn.info.Selections[sel] != nil {
					if recv == nil || vmObjOf(fn.info, sel.X) != recv {
						return true
					}
				}
				callees[obj] = append(callees[obj], g)
			}
			return true
		})
	}
	for changed := true; changed; {
		changed = false
		for f, gs := range callees {
			if s.writes[f] {
				continue
			}
			for _, g := range gs {
				if s.writes[g] {
					s.writes[f] = true
					changed = true
					break
				}
			}
		}
	}
	return s
}

func (s *r2FieldSumm) call(g *types.Func) (delta int, unknown bool) {
	if g == nil {
		return 0, false
	}
	if n, ok := s.roles.push[g]; ok {
		return n, false
	}
	if n, ok := s.roles.pop[g]; ok {
		return -n, false
	}
	if s.writes[g] {
		// a helper built from the primitives: its effect when uniform over its paths
		if d, ok := s.helperEffect(g); ok {
			return d, false
		}
		return 0, true
	}
	return 0, false
}

// helperEffect: net effect of a non-primitive function of the package on the
// field when every non-panicking path has the same, fully classified effect.
func (s *r2FieldSumm) helperEffect(g *types.Func) (int, bool) {
	if s.memo == nil {
		s.memo = map[*types.Func]*int{}
		s.busy = map[*types.Func]bool{}
	}
	if v, ok := s.memo[g]; ok {
		if v == nil {
			return 0, false
		}
		return *v, true
	}
	fn := vmDeclIndex(s.c).of(g)
	if fn == nil || s.busy[g] {
		return 0, false
	}
	s.busy[g] = true
	defer delete(s.busy, g)
	s.memo[g] = nil
	res := vmWalk(vmWalkOpts{fn: fn, maxPaths: 2000})
	if res.overflow || len(res.paths) == 0 {
		return 0, false
	}
	first := true
	d := 0
	for i := range res.paths {
		p := &res.paths[i]
		if p.o.kind == cPanic {
			continue
		}
		e := s.trace(fn.info, p.ev)
		if len(e.unknown) > 0 {
			return 0, false
		}
		if first {
			d, first = e.delta, false
		} else if e.delta != d {
			return 0, false
		}
	}
	if first {
		return 0, false
	}
	s.memo[g] = &d
	return d, true
}

func (s *r2FieldSumm) trace(info *types.Info, ev []vmEv) r2StackEff {
	var out r2StackEff
	for _, e := range ev {
		switch e.K {
		case evAssign:
			if vmFieldOf(info, vmBaseOfIndex(e.Lhs)) != s.f {
				continue
			}
			if e.Rhs != nil {
				if d, ok := vmSliceWrite(info, e.Lhs, e.Rhs, s.f); ok {
					out.delta += d
					continue
				}
			}
			out.unknown = append(out.unknown, fmt.Sprintf("unclassified write `%s %s …` @%s", vmTrunc(exprStr(e.Lhs), 50), e.Tok, s.c.Pos(e.Pos)))
		case evIncDec:
			if vmFieldOf(info, vmBaseOfIndex(e.X)) == s.f {
				out.unknown = append(out.unknown, fmt.Sprintf("unclassified write @%s", s.c.Pos(e.Pos)))
			}
		case evCall:
			d, unk := s.call(e.Fn)
			out.delta += d
			if unk {
				out.unknown = append(out.unknown, fmt.Sprintf("call of %s @%s, which writes %s other than as one push / one pop", e.Fn.Name(), s.c.Pos(e.Pos), vmFieldName(s.f)))
			}
		}
	}
	return out
}

func ruleR2VMTypestate(c *Ctx) []Obligation {
	r2LoopCtx = c
	r := vmRoles(c)
	fn := r.dispatch
	info := fn.info
	rt := c.Pkg("homescript/runtime")
	handlers := vmStructField(rt, "Core", "ExceptionCatchLabels")
	if handlers == nil {
		fatalf("anchor unresolved: runtime.Core.ExceptionCatchLabels")
	}
	hRoles := vmDiscoverStack(r.fns, handlers)
	hs := r2NewFieldSumm(c, r.fns, handlers, hRoles)
	cs := r2NewFieldSumm(c, r.fns, r.callStack.field, r.callStack)

	opc := func(name string) *types.Const { return vmConst(c, "homescript/compiler", name) }
	setTry, popTry := opc("Opcode_SetTryLabel"), opc("Opcode_PopTryLabel")
	callImm, callVal, ret := opc("Opcode_Call_Imm"), opc("Opcode_Call_Val"), opc("Opcode_Return")
	vmFnKind := vmConst(c, "homescript/runtime/value", "VmFunctionValueKind")

	relevant := func(n ast.Node) bool {
		switch x := n.(type) {
		case *ast.CallExpr:
			g := CalleeOf(info, x)
			if g == nil {
				return false
			}
			if d, u := hs.call(g); d != 0 || u {
				return true
			}
			if d, u := cs.call(g); d != 0 || u {
				return true
			}
			if id, ok := x.Fun.(*ast.Ident); ok {
				if b, isB := info.Uses[id].(*types.Builtin); isB && b.Name() == "panic" {
					return true
				}
			}
			return vmAlwaysPanics(c, g)
		case *ast.AssignStmt:
			for _, l := range x.Lhs {
				f := vmFieldOf(info, vmBaseOfIndex(l))
				if f == handlers || f == r.callStack.field {
					return true
				}
			}
		case *ast.IncDecStmt:
			f := vmFieldOf(info, vmBaseOfIndex(x.X))
			if f == handlers || f == r.callStack.field {
				return true
			}
		}
		return false
	}
	res := vmWalk(vmWalkOpts{fn: fn, replace: vmSlicer(relevant)})
	tops := map[token.Pos]bool{r.dispSw.Pos(): true}
	prefix := fn.name + "|"
	var obs []Obligation
	if res.overflow {
		obs = append(obs, Obligation{Key: prefix + "<paths>", Pos: c.Pos(fn.fd.Pos()), Status: Undecided, Detail: "path cap exceeded"})
	}
	for _, p := range res.unsupported {
		obs = append(obs, Obligation{Key: prefix + "<unsupported control flow>", Pos: c.Pos(p), Status: Undecided, Detail: "goto/fallthrough in the dispatcher"})
	}

	type obsPath struct {
		h, cl r2StackEff
		p     *vmPath
		group string // inner enum-switch clause labels
	}
	units := map[string][]obsPath{}
	unitPos := map[string]token.Pos{}
	unitConsts := map[string][]*types.Const{}
	for _, cl := range r.dispSw.Body.List {
		cc := cl.(*ast.CaseClause)
		if cc.List == nil {
			continue
		}
		var names []string
		var ks []*types.Const
		for _, e := range cc.List {
			if k := ConstOf(info, e); k != nil {
				names = append(names, k.Name())
				ks = append(ks, k)
			}
		}
		u := "case " + strings.Join(names, ",")
		unitPos[u] = cc.Pos()
		unitConsts[u] = ks
		units[u] = nil
	}
	for i := range res.paths {
		p := &res.paths[i]
		u := vmUnitOf(info, tops, p)
		if u == "" || u == "default" {
			continue
		}
		if p.o.kind == cPanic {
			continue
		}
		op := obsPath{h: hs.trace(info, p.ev), cl: cs.trace(info, p.ev), p: p}
		var g []string
		for _, e := range p.ev {
			if e.K == evCase && !e.Select && !tops[e.Pos] {
				if sw, ok := e.Sw.(*ast.SwitchStmt); ok && sw.Tag != nil && c.EnumOf(info.TypeOf(sw.Tag)) != nil {
					if e.Vals == nil {
						g = append(g, "default")
					} else {
						var v []string
						for _, x := range e.Vals {
							if k := ConstOf(info, x); k != nil {
								v = append(v, k.Name())
							} else {
								v = append(v, exprStr(x))
							}
						}
						g = append(g, strings.Join(v, ","))
					}
				}
			}
		}
		op.group = strings.Join(g, "/")
		units[u] = append(units[u], op)
	}
	has := func(ks []*types.Const, k *types.Const) bool {
		for _, x := range ks {
			if x == k {
				return true
			}
		}
		return false
	}
	var unitNames []string
	for u := range units {
		unitNames = append(unitNames, u)
	}
	sort.Strings(unitNames)
	seenRole := map[string]bool{}
	for _, u := range unitNames {
		paths := units[u]
		ks := unitConsts[u]
		pos := c.Pos(unitPos[u])
		// ---- handler stack
		wantH := 0
		roleH := "leaves the handler stack alone"
		switch {
		case has(ks, setTry):
			wantH, roleH = +1, "installs exactly one handler on every normal path"
			seenRole["set"] = true
		case has(ks, popTry):
			wantH, roleH = -1, "removes exactly one handler on every normal path"
			seenRole["pop"] = true
		}
		{
			ob := Obligation{Key: prefix + u + "|handler stack: " + roleH, Pos: pos, Nontrivial: wantH != 0}
			var bad, unk []string
			for _, op := range paths {
				if len(op.h.unknown) > 0 {
					unk = append(unk, op.h.unknown...)
					continue
				}
				if wantH < 0 && op.h.delta == 0 && r2PathSeesEmpty(info, op.p, handlers) {
					continue // defensive guard: nothing to pop
				}
				if op.h.delta != wantH {
					bad = append(bad, fmt.Sprintf("path [%s] (%s) changes len(%s) by %+d, want %+d", op.p.decisions(), op.p.exitStr(c), vmFieldName(handlers), op.h.delta, wantH))
				}
			}
			switch {
			case len(bad) > 0:
				ob.Status = Violated
				ob.Detail = strings.Join(vmUniq(bad), " | ")
				if wantH == +1 {
					ob.Detail += ". The compiler emits one PopTryLabel for every SetTryLabel on both continuations of a try; an activation that skips the push still executes its pop and removes the handler of an enclosing activation (e.g. `fn f(n) { try { if n > 0 { f(n-1) } throw(..) } catch e {..} }`: the inner call's PopTryLabel removes the outer handler, the outer throw is uncaught)"
				}
			case len(unk) > 0:
				ob.Status, ob.Detail = Undecided, strings.Join(vmUniq(unk), " | ")
			case len(paths) == 0:
				ob.Status, ob.Detail = Undecided, "no non-panicking path through the clause"
			default:
				ob.Status, ob.Detail = Discharged, fmt.Sprintf("%d path(s), each changes the handler stack by %+d", len(paths), wantH)
			}
			obs = append(obs, ob)
		}
		// ---- call stack
		{
			want := func(op obsPath) int { return 0 }
			roleC := "leaves the call stack alone"
			switch {
			case has(ks, callImm):
				want, roleC = func(obsPath) int { return +1 }, "pushes exactly one frame on every normal path"
				seenRole["callimm"] = true
			case has(ks, ret):
				want, roleC = func(obsPath) int { return -1 }, "pops exactly one frame on every normal path"
				seenRole["ret"] = true
			case has(ks, callVal):
				roleC = "pushes exactly one frame iff the callee is a VM function (" + vmFnKind.Name() + ")"
				seenRole["callval"] = true
				want = func(op obsPath) int {
					for _, g := range strings.Split(op.group, "/") {
						for _, n := range strings.Split(g, ",") {
							if n == vmFnKind.Name() {
								return +1
							}
						}
					}
					return 0
				}
			}
			ob := Obligation{Key: prefix + u + "|call stack: " + roleC, Pos: pos, Nontrivial: roleC != "leaves the call stack alone"}
			var bad, unk []string
			sawPush := false
			for _, op := range paths {
				if len(op.cl.unknown) > 0 {
					unk = append(unk, op.cl.unknown...)
					continue
				}
				w := want(op)
				if w == +1 {
					sawPush = true
				}
				if op.cl.delta != w {
					g := ""
					if op.group != "" {
						g = " in " + op.group
					}
					bad = append(bad, fmt.Sprintf("path [%s]%s (%s) changes len(%s) by %+d, want %+d", op.p.decisions(), g, op.p.exitStr(c), vmFieldName(r.callStack.field), op.cl.delta, w))
				}
			}
			if has(ks, callVal) && !sawPush && len(bad) == 0 && len(unk) == 0 {
				bad = append(bad, "no path of the clause goes through a switch clause for "+vmFnKind.Name()+": calling a function value never enters the callee")
			}
			switch {
			case len(bad) > 0:
				ob.Status, ob.Detail = Violated, strings.Join(vmUniq(bad), " | ")
			case len(unk) > 0:
				ob.Status, ob.Detail = Undecided, strings.Join(vmUniq(unk), " | ")
			case len(paths) == 0:
				ob.Status, ob.Detail = Undecided, "no non-panicking path through the clause"
			default:
				ob.Status, ob.Detail = Discharged, fmt.Sprintf("%d path(s) conform", len(paths))
			}
			obs = append(obs, ob)
		}
	}
	for _, role := range []string{"set", "pop", "callimm", "ret", "callval"} {
		if !seenRole[role] {
			obs = append(obs, Obligation{Key: prefix + "role " + role, Status: Undecided, Detail: "the dispatcher has no clause for this opcode"})
		}
	}
	// round 3: typestate of Core.Run and searches over the VM's stacks
	obs = append(obs, r3emRunObligations(c, r, cs)...)
	obs = append(obs, r3emStackSearches(c, r, []*types.Var{handlers, r.callStack.field})...)
	// round 6: the handler stack is observed only at its top
	obs = append(obs, r6emHandlerTopOnly(c, r, handlers)...)
	// inventory of other writers (information)
	for _, x := range []struct {
		f     *types.Var
		roles *vmStackRoles
	}{{handlers, hRoles}, {r.callStack.field, r.callStack}} {
		var ws []string
		for _, g := range r.fns {
			obj, _ := g.info.Defs[g.fd.Name].(*types.Func)
			if g == fn || obj == nil {
				continue
			}
			if _, ok := x.roles.push[obj]; ok {
				continue
			}
			if _, ok := x.roles.pop[obj]; ok {
				continue
			}
			if vmWritesField(g.info, g.fd.Body, x.f) {
				ws = append(ws, g.name)
			}
		}
		sort.Strings(ws)
		obs = append(obs, Obligation{Key: "runtime|other direct writers of " + vmFieldName(x.f), Status: Info, Detail: fmt.Sprintf("primitives: %s; other writers outside the dispatcher: %v", x.roles.names(), ws)})
	}
	return obs
}

// ---------------------------------------------------------------- R-spawn-clone

type r2CloneSt int

const (
	r2Empty r2CloneSt = iota
	r2Cloned
	r2Unknown
	r2Raw
)

type r2CloneVal struct {
	st  r2CloneSt
	why string
}

func r2Join(a, b r2CloneVal) r2CloneVal {
	if b.st > a.st {
		return b
	}
	return a
}

type r2CloneEval struct {
	c        *Ctx
	popFns   map[*types.Func]int
	valuePkg *types.Package
	depth    int
}

func (ev *r2CloneEval) isClone(g *types.Func) bool {
	return g != nil && g.Name() == "Clone" && g.Pkg() == ev.valuePkg && g.Type().(*types.Signature).Recv() != nil
}

func (ev *r2CloneEval) expr(fn *vmFn, env map[types.Object]r2CloneVal, e ast.Expr) r2CloneVal {
	info := fn.info
	e = ast.Unparen(e)
	if tv, ok := info.Types[e]; ok && tv.Value != nil {
		return r2CloneVal{st: r2Empty}
	}
	switch x := e.(type) {
	case *ast.StarExpr:
		return ev.expr(fn, env, x.X)
	case *ast.UnaryExpr:
		return ev.expr(fn, env, x.X)
	case *ast.TypeAssertExpr:
		return ev.expr(fn, env, x.X)
	case *ast.SelectorExpr:
		if info.Selections[x] != nil {
			return ev.expr(fn, env, x.X)
		}
		return r2CloneVal{st: r2Unknown, why: "package-level value " + exprStr(x)}
	case *ast.IndexExpr:
		return ev.expr(fn, env, x.X)
	case *ast.SliceExpr:
		return ev.expr(fn, env, x.X)
	case *ast.BasicLit:
		return r2CloneVal{st: r2Empty}
	case *ast.CompositeLit:
		out := r2CloneVal{st: r2Empty}
		for _, el := range x.Elts {
			if kv, ok := el.(*ast.KeyValueExpr); ok {
				el = kv.Value
			}
			out = r2Join(out, ev.expr(fn, env, el))
		}
		return out
	case *ast.Ident:
		if _, isNil := info.Uses[x].(*types.Nil); isNil {
			return r2CloneVal{st: r2Empty}
		}
		o := vmObjOf(info, x)
		if v, ok := env[o]; ok {
			return v
		}
		return r2CloneVal{st: r2Unknown, why: fmt.Sprintf("`%s` (not assigned on this path)", x.Name)}
	case *ast.CallExpr:
		if tv, ok := info.Types[x.Fun]; ok && tv.IsType() && len(x.Args) == 1 {
			return ev.expr(fn, env, x.Args[0])
		}
		if r2IsBuiltin(info, x, "append") {
			out := r2CloneVal{st: r2Empty}
			for _, a := range x.Args {
				out = r2Join(out, ev.expr(fn, env, a))
			}
			return out
		}
		if r2IsBuiltin(info, x, "make") || r2IsBuiltin(info, x, "new") || r2IsBuiltin(info, x, "len") || r2IsBuiltin(info, x, "cap") {
			return r2CloneVal{st: r2Empty}
		}
		g := CalleeOf(info, x)
		if ev.isClone(g) {
			return r2CloneVal{st: r2Cloned}
		}
		if g != nil {
			if _, ok := ev.popFns[g]; ok {
				return r2CloneVal{st: r2Raw, why: fmt.Sprintf("the operand popped by %s() @%s", g.Name(), ev.c.Pos(x.Pos()))}
			}
			if callee := vmDeclIndex(ev.c).of(g); callee != nil && ev.depth < 3 {
				return ev.summary(callee, fn, env, x)
			}
		}
		return r2CloneVal{st: r2Unknown, why: "result of " + vmTrunc(exprStr(x.Fun), 40) + "(…)"}
	}
	return r2CloneVal{st: r2Unknown, why: vmTrunc(exprStr(e), 40)}
}

// summary: the status of what the callee returns, given the statuses of the arguments.
func (ev *r2CloneEval) summary(callee *vmFn, caller *vmFn, env map[types.Object]r2CloneVal, call *ast.CallExpr) r2CloneVal {
	penv := map[types.Object]r2CloneVal{}
	i := 0
	for _, fl := range callee.fd.Type.Params.List {
		for _, n := range fl.Names {
			if i < len(call.Args) {
				penv[callee.info.Defs[n]] = ev.expr(caller, env, call.Args[i])
			}
			i++
		}
	}
	if callee.fd.Recv != nil && len(callee.fd.Recv.List) == 1 && len(callee.fd.Recv.List[0].Names) == 1 {
		if sel, ok := ast.Unparen(call.Fun).(*ast.SelectorExpr); ok {
			penv[callee.info.Defs[callee.fd.Recv.List[0].Names[0]]] = ev.expr(caller, env, sel.X)
		}
	}
	ev.depth++
	defer func() { ev.depth-- }()
	res := vmWalk(vmWalkOpts{fn: callee, maxPaths: 2000})
	if res.overflow {
		return r2CloneVal{st: r2Unknown, why: "path cap in " + callee.name}
	}
	out := r2CloneVal{st: r2Empty}
	any := false
	for i := range res.paths {
		p := &res.paths[i]
		if p.o.kind != cReturn || p.o.ret == nil || len(p.o.ret.Results) == 0 {
			continue
		}
		e2 := map[types.Object]r2CloneVal{}
		for k, v := range penv {
			e2[k] = v
		}
		ev.run(callee, e2, p.ev, nil)
		out = r2Join(out, ev.expr(callee, e2, p.o.ret.Results[0]))
		any = true
	}
	if !any {
		return r2CloneVal{st: r2Unknown, why: callee.name + " returns nothing"}
	}
	return out
}

// run interprets the assignments of a trace; `at` is called for every call event.
func (ev *r2CloneEval) run(fn *vmFn, env map[types.Object]r2CloneVal, evs []vmEv, at func(e vmEv)) {
	info := fn.info
	for _, e := range evs {
		switch e.K {
		case evAssign:
			if e.Rhs == nil {
				continue
			}
			lhs := ast.Unparen(e.Lhs)
			if id, ok := lhs.(*ast.Ident); ok {
				if id.Name == "_" {
					continue
				}
				v := ev.expr(fn, env, e.Rhs)
				if e.Tok != token.DEFINE && e.Tok != token.ASSIGN {
					v = r2Join(v, env[vmObjOf(info, id)])
				}
				env[vmObjOf(info, id)] = v
				continue
			}
			// a[i] = v, *p = v, x.f = v: weak update of the root variable
			if root, ok := vmRootOf(lhs).(*ast.Ident); ok {
				o := vmObjOf(info, root)
				if old, ok := env[o]; ok {
					env[o] = r2Join(old, ev.expr(fn, env, e.Rhs))
				}
			}
		case evRange:
			if rs, ok := e.Loop.(*ast.RangeStmt); ok {
				v := ev.expr(fn, env, rs.X)
				if rs.Value != nil {
					if o := vmObjOf(info, rs.Value); o != nil {
						env[o] = v
					}
				}
				if rs.Key != nil {
					if o := vmObjOf(info, rs.Key); o != nil {
						if _, isMap := info.TypeOf(rs.X).Underlying().(*types.Map); isMap {
							env[o] = v
						} else {
							env[o] = r2CloneVal{st: r2Empty}
						}
					}
				}
			}
		case evCall:
			if at != nil {
				at(e)
			}
		}
	}
}

func ruleR2SpawnClone(c *Ctx) []Obligation {
	r2LoopCtx = c
	r := vmRoles(c)
	rt := c.Pkg("homescript/runtime")
	valuePkg := c.Pkg("homescript/runtime/value").Types
	ev := &r2CloneEval{c: c, popFns: r.stack.pop, valuePkg: valuePkg}
	var obs []Obligation
	for _, fn := range r.fns {
		if fn.fd.Recv == nil || recvTypeName(fn.fd.Recv.List[0].Type) != "Core" {
			continue
		}
		info := fn.info
		// spawn call sites
		type site struct {
			call *ast.CallExpr
			g    *types.Func
			argI int
		}
		var sites []site
		ast.Inspect(fn.fd.Body, func(n ast.Node) bool {
			call, ok := n.(*ast.CallExpr)
			if !ok {
				return true
			}
			g := CalleeOf(info, call)
			if g == nil || g.Pkg() != rt.Types || !lsSpawnsCore(c, g, nil) {
				return true
			}
			sig := g.Type().(*types.Signature)
			for i := 0; i < sig.Params().Len(); i++ {
				if sl, ok := sig.Params().At(i).Type().Underlying().(*types.Slice); ok && vmIsNamed(sl.Elem(), "homescript/runtime/value", "Value") {
					sites = append(sites, site{call, g, i})
				}
			}
			return true
		})
		for _, s := range sites {
			// walk the enclosing top-level clause (or the whole body)
			body := fn.fd.Body
			ctx := ""
			for _, sw := range vmTopSwitches(c, info, fn.fd.Body) {
				for _, cl := range sw.Body.List {
					cc := cl.(*ast.CaseClause)
					if s.call.Pos() >= cc.Pos() && s.call.Pos() < cc.End() {
						body = &ast.BlockStmt{Lbrace: cc.Colon, List: cc.Body, Rbrace: cc.End()}
						var v []string
						for _, x := range cc.List {
							if k := ConstOf(info, x); k != nil {
								v = append(v, k.Name())
							}
						}
						ctx = "case " + strings.Join(v, ",") + "|"
					}
				}
			}
			key := fmt.Sprintf("%s|%severy value handed to %s is a Clone() result on every path", fn.name, ctx, s.g.Name())
			ob := Obligation{Key: key, Pos: c.Pos(s.call.Pos()), Nontrivial: true}
			res := vmWalk(vmWalkOpts{fn: fn, body: body, unroll: 2, maxPaths: 5000})
			if res.overflow {
				ob.Status, ob.Detail = Undecided, "path cap exceeded"
				obs = append(obs, ob)
				continue
			}
			var bad, unk []string
			nPaths, nReach := 0, 0
			for i := range res.paths {
				p := &res.paths[i]
				nPaths++
				env := map[types.Object]r2CloneVal{}
				ev.run(fn, env, p.ev, func(e vmEv) {
					if e.Call != s.call || s.argI >= len(e.Call.Args) {
						return
					}
					nReach++
					v := ev.expr(fn, env, e.Call.Args[s.argI])
					switch v.st {
					case r2Raw:
						bad = append(bad, fmt.Sprintf("on the path [%s] `%s` contains %s without passing through Clone()", p.decisions(), exprStr(e.Call.Args[s.argI]), v.why))
					case r2Unknown:
						unk = append(unk, fmt.Sprintf("on the path [%s] `%s` derives from %s, whose origin this rule cannot classify", p.decisions(), exprStr(e.Call.Args[s.argI]), v.why))
					}
				})
			}
			switch {
			case len(bad) > 0:
				ob.Status = Violated
				bad = vmUniq(bad)
				sort.Slice(bad, func(i, j int) bool { return len(bad[i]) < len(bad[j]) })
				more := ""
				if len(bad) > 2 {
					more = fmt.Sprintf(" (+%d longer paths)", len(bad)-2)
					bad = bad[:2]
				}
				ob.Detail = strings.Join(bad, " | ") + more + ". The value is then reachable from both cores: options (Inner pointer), lists, objects, any-objects, ranges and iterators hold pointers, so `spawn f(x)` followed by a mutation on either side is an unsynchronised concurrent access and the spawned function does not run with the argument values given at the spawn"
			case len(unk) > 0:
				ob.Status, ob.Detail = Undecided, strings.Join(vmUniq(unk), " | ")
			case nReach == 0:
				ob.Status, ob.Detail = Undecided, "no explored path reaches the spawn call"
			default:
				ob.Status, ob.Detail = Discharged, fmt.Sprintf("%d path(s) reach the call (0, 1 and 2 loop iterations explored); on each the argument slice is built only from Value.Clone() results", nReach)
			}
			obs = append(obs, ob)
		}
	}
	if len(obs) == 0 {
		obs = append(obs, Obligation{Key: "runtime.Core|spawn site", Status: Undecided, Detail: "no call from a *Core method to the VM's core-spawning method found"})
	}
	return obs
}

// r2PathSeesEmpty: the path decided that slice field f is empty
// (len(x.f) > 0 false, len(x.f) == 0 true, …).
func r2PathSeesEmpty(info *types.Info, p *vmPath, f *types.Var) bool {
	lenVars := map[types.Object]bool{}
	for _, e := range p.ev {
		if e.K == evAssign && e.Rhs != nil {
			if a := r2IsLenOf(info, e.Rhs); a != nil && vmFieldOf(info, a) == f {
				if o := vmObjOf(info, e.Lhs); o != nil {
					lenVars[o] = true
				}
			}
		}
		if e.K != evCond {
			continue
		}
		be, ok := ast.Unparen(e.X).(*ast.BinaryExpr)
		if !ok {
			continue
		}
		k, isC := r2ConstInt(info, be.Y)
		isLen := false
		if a := r2IsLenOf(info, be.X); a != nil && vmFieldOf(info, a) == f {
			isLen = true
		} else if o := vmObjOf(info, vmStripConv(info, be.X)); o != nil && lenVars[o] {
			isLen = true
		}
		if !isLen || !isC {
			continue
		}
		empty := false
		switch be.Op {
		case token.GTR:
			empty = k == 0 && !e.Taken
		case token.GEQ:
			empty = k == 1 && !e.Taken
		case token.NEQ:
			empty = k == 0 && !e.Taken
		case token.EQL:
			empty = k == 0 && e.Taken
		case token.LSS:
			empty = k == 1 && e.Taken
		case token.LEQ:
			empty = k == 0 && e.Taken
		}
		if empty {
			return true
		}
	}
	return false
}
