package main

// r4print: R-rebuild-delimiters — a rebuilder that takes a node apart keeps the
// delimiters the node's printer puts around a child.

import (
	"fmt"
	"go/ast"
	"go/token"
	"go/types"
	"sort"
	"strings"
)

func init() {
	register(&Rule{ID: "R-rebuild-delimiters", Floor: 40, Run: ruleR4pRebuildDelims,
		Doc: "The analysed tree is handed on as TEXT (String()), and the printers never add parentheses by precedence: the only thing that keeps a child one operand of its context is the delimiter pair its parent's printer puts around it " +
			"(R-print-delimiters computes, per printer and child field, the bracket context `(…)`, `[…]`, `{…}`). For every rebuilding function / dispatch clause of optimizer and fuzzer whose input node kind prints a child inside such delimiters " +
			"(grouped expression, list literal, call arguments, index, object literal, match arms, block): every output — every single alternative of a producer of alternatives, the returned value of a one-to-one rebuild — " +
			"either contains the input node as a whole, or holds that child only inside a position that some printer delimits (a field of a composite literal whose printer brackets it: the same node kind rebuilt, a block, a call argument …). " +
			"The symbolic values of R-rebuild-all-paths are used; locals remember which parts of the input they hold outside any delimiting position. " +
			"Necessary: an output that offers the bare child in place of the node (`(n & 1)` -> `n & 1`) is printed without the delimiters; as an operand of the surrounding expression it re-associates (`(n & 1) == 1` becomes `n & 1 != 1` …) " +
			"or is rejected by the analyzer (C20; C19 for the optimizer)."})
}

type r4pDelimRec struct {
	framed         bool // the child prints its own delimiters (a block)
	key, pos, desc string
	npaths         int
	viol           string
}

type r4pDelims struct {
	pkgs  []string // packages whose rebuild units are analysed
	ctor  map[*types.Func]map[int]bool
	c     *Ctx
	print *r2pPrintResult
	recs  map[string]*r4pDelimRec
	// per unit under analysis
	cur map[*r2pRebuildUnit]map[string]*r4pDelimRec // unit -> delimited child path -> record
}

// delimited: does some printer put brackets around field f of struct s on every path that prints it?
func (dl *r4pDelims) delimited(s *travStruct, f string) (bool, string) {
	mi := dl.print.infos[s]
	if mi == nil || len(mi.sigs[f]) == 0 {
		return false, ""
	}
	var sigs []string
	for sg := range mi.sigs[f] {
		sigs = append(sigs, sg)
		if !strings.ContainsAny(strings.SplitN(sg, "…", 2)[0], "([{") {
			return false, ""
		}
	}
	sort.Strings(sigs)
	return true, strings.Join(sigs, " ")
}

func (dl *r4pDelims) begin(rb *r2pRebuild, u *r2pRebuildUnit) {
	if dl.cur[u] != nil {
		return
	}
	dl.cur[u] = map[string]*r4pDelimRec{}
	s, kids := rb.childFields(u.rootType)
	if s == nil {
		return
	}
	for _, f := range kids {
		ok, sig := dl.delimited(s, f.Name)
		if !ok {
			continue
		}
		// a child that is a framed component itself (a block prints its own braces) carries its delimiters wherever it
		// goes as a whole (a projection such as thenBranch(node) -> block loses nothing): only its PARTS must not get out
		framed := false
		if cs, _ := rb.childFields(f.Var.Type()); cs != nil {
			if _, isSlice := types.Unalias(f.Var.Type()).Underlying().(*types.Slice); !isSlice {
				if ci := dl.print.infos[cs]; ci != nil && ci.frameOpen != "" {
					framed = true
				}
			}
		}
		key := strings.TrimSuffix(u.key, "|every child reaches the output") + "|" + s.Short() + "." + f.Name + " keeps its delimiters in every output"
		rec := &r4pDelimRec{key: key, pos: rb.c.Pos(u.pos), framed: framed, desc: fmt.Sprintf("%s.String() prints %s inside %s", s.Short(), f.Name, sig)}
		dl.cur[u][u.root+"."+f.Name] = rec
		dl.recs[key] = rec
	}
}

// bareAtoms: the parts of the input that the value of x holds outside any delimiting position.
func (dl *r4pDelims) bareAtoms(rb *r2pRebuild, st *r2pState, x ast.Expr) r2pAtoms {
	x = ast.Unparen(x)
	if t := rb.info.TypeOf(x); t != nil {
		if _, isTuple := t.(*types.Tuple); !isTuple && !rb.nodeCarrying(t) {
			return nil // a span, a resolved type, a flag: no code of the input
		}
	}
	if p := rb.pathOf(st, x); p != "" {
		return r2pAtoms{p: true}
	}
	switch y := x.(type) {
	case *ast.UnaryExpr:
		if y.Op == token.AND {
			return dl.bareAtoms(rb, st, y.X)
		}
	case *ast.StarExpr:
		return dl.bareAtoms(rb, st, y.X)
	case *ast.Ident:
		if o := rb.info.Uses[y]; o != nil {
			if b, ok := st.bare[o]; ok {
				return b
			}
			return st.atoms[o]
		}
		return nil
	case *ast.CompositeLit:
		out := r2pAtoms{}
		s := rb.m.structs[travNamed(rb.info.TypeOf(y))]
		for _, el := range y.Elts {
			v := el
			if kv, ok := el.(*ast.KeyValueExpr); ok {
				v = kv.Value
				if s != nil {
					if id, ok := kv.Key.(*ast.Ident); ok {
						if ok, _ := dl.delimited(s, id.Name); ok {
							continue // whatever sits here is printed inside this node's delimiters
						}
					}
				}
			}
			for a := range dl.bareAtoms(rb, st, v) {
				out[a] = true
			}
		}
		return out
	case *ast.CallExpr:
		if tv, ok := rb.info.Types[y.Fun]; ok && tv.IsType() && len(y.Args) == 1 {
			return dl.bareAtoms(rb, st, y.Args[0])
		}
		if !rb.nodeCarrying(rb.info.TypeOf(y)) {
			if _, isTuple := rb.info.TypeOf(y).(interface{ Len() int }); !isTuple {
				return nil
			}
		}
		// a rebuilder / append keeps what it is given where it was — except a constructor function (body: one return
		// of a literal) that puts the argument into a delimited field of the node it builds
		enclosed := dl.constructorEncloses(rb, CalleeOf(rb.info, y))
		out := r2pAtoms{}
		for i, a := range y.Args {
			if !rb.nodeCarrying(rb.info.TypeOf(a)) || enclosed[i] {
				continue
			}
			for p := range dl.bareAtoms(rb, st, a) {
				out[p] = true
			}
		}
		return out
	}
	a, _ := rb.eval(st, x)
	return a
}

// bareChildren: the delimited children of the unit's input that x holds bare (and not as part of the whole input).
func (dl *r4pDelims) bareChildren(rb *r2pRebuild, st *r2pState, x ast.Expr) []string {
	cur := dl.cur[rb.unit]
	if len(cur) == 0 {
		return nil
	}
	b := dl.bareAtoms(rb, st, x)
	var out []string
	for p := range cur {
		if st.emptyUpTo(p) {
			continue
		}
		for a := range b {
			if (a == p && !cur[p].framed) || strings.HasPrefix(a, p+".") {
				out = append(out, p)
				break
			}
		}
	}
	sort.Strings(out)
	return out
}

func (dl *r4pDelims) note(u *r2pRebuildUnit, paths []string, what, trace string) {
	for _, p := range paths {
		if rec := dl.cur[u][p]; rec != nil && rec.viol == "" {
			rec.viol = fmt.Sprintf("%s holds %s outside any delimiting position (path [%s])", what, p, trace)
		}
	}
}

func ruleR4pRebuildDelims(c *Ctx) []Obligation {
	// the analyzer is the first rebuilder of the tool chain: parser node -> analysed node
	dl := &r4pDelims{pkgs: []string{"homescript/analyzer", "homescript/optimizer", "homescript/fuzzer"}, ctor: map[*types.Func]map[int]bool{}, c: c, print: r2pPrintRun(c), recs: map[string]*r4pDelimRec{}, cur: map[*r2pRebuildUnit]map[string]*r4pDelimRec{}}
	r2pRebuildAll(c, nil, dl)
	var keys []string
	for k := range dl.recs {
		keys = append(keys, k)
	}
	sort.Strings(keys)
	var obs []Obligation
	for _, k := range keys {
		rec := dl.recs[k]
		ob := Obligation{Key: rec.key, Pos: rec.pos, Nontrivial: true}
		if rec.viol != "" {
			ob.Status = Violated
			ob.Detail = fmt.Sprintf("%s, but %s: printed, the child loses the delimiters that made it one operand of its context (the printers do not parenthesise by precedence)", rec.desc, rec.viol)
		} else {
			ob.Status, ob.Detail = Discharged, rec.desc+"; every output contains the whole input node or holds the child inside a delimited position"
		}
		obs = append(obs, ob)
	}
	return obs
}

// storeBare: what `x.F… = rhs` adds to the parts x holds outside delimiting positions: nothing when F is a field that
// the printer of x's struct delimits.
func (dl *r4pDelims) storeBare(rb *r2pRebuild, st *r2pState, o interface{ Type() types.Type }, fields []string, rhs ast.Expr) r2pAtoms {
	if len(fields) > 0 {
		outer := fields[len(fields)-1] // the field selected on x itself (fields are collected innermost first)
		if outer != "[]" {
			if s, _ := rb.childFields(o.Type()); s != nil {
				if ok, _ := dl.delimited(s, outer); ok {
					return nil
				}
			}
		}
	}
	return dl.bareAtoms(rb, st, rhs)
}

// constructorEncloses: for a function of the module whose body is a single `return <expr>`, the parameters that the
// returned value holds only inside delimited positions.
func (dl *r4pDelims) constructorEncloses(rb *r2pRebuild, fn *types.Func) map[int]bool {
	if fn == nil {
		return nil
	}
	if r, ok := dl.ctor[fn]; ok {
		return r
	}
	dl.ctor[fn] = nil
	d := rb.m.decls[fn]
	if d == nil || d.Fd.Body == nil || len(d.Fd.Body.List) != 1 {
		return nil
	}
	rs, ok := d.Fd.Body.List[0].(*ast.ReturnStmt)
	if !ok || len(rs.Results) != 1 {
		return nil
	}
	env := r2pNewEnv(dl.c, rb.m, d.Pkg, d.Fd)
	sub := &r2pRebuild{r2pEnv: env, dl: dl}
	bare := dl.bareAtoms(sub, r2pNewState(), rs.Results[0])
	out := map[int]bool{}
	i := 0
	if d.Fd.Type.Params != nil {
		for _, f := range d.Fd.Type.Params.List {
			n := len(f.Names)
			if n == 0 {
				n = 1
			}
			for j := 0; j < n; j++ {
				if j < len(f.Names) {
					name := f.Names[j].Name
					held := false
					for a := range bare {
						if a == name || strings.HasPrefix(a, name+".") {
							held = true
						}
					}
					// the parameter must occur in the result at all (otherwise it is dropped, not enclosed)
					occurs := false
					ast.Inspect(rs.Results[0], func(z ast.Node) bool {
						if id, ok := z.(*ast.Ident); ok && id.Name == name {
							occurs = true
						}
						return !occurs
					})
					if !held && occurs {
						out[i] = true
					}
				}
				i++
			}
		}
	}
	dl.ctor[fn] = out
	return out
}
