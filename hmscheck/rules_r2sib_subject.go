package main

import (
	"fmt"
	"go/ast"
	"go/token"
	"go/types"
	"sort"
	"strings"
)

// R-diag-subject: the span of a diagnostic belongs to the node the
// diagnostic is about.

func init() {
	register(&Rule{ID: "R-diag-subject", Floor: 40, Run: ruleDiagSubject,
		Doc: "for every analyzer diagnostic (error/warn/hint helper call, Diagnostic literal, compatibility-error constructor) whose message operands name *candidate nodes* — locals of a span-carrying tree type (an analysed expression/block/parameter, a loop variable over such nodes) — the span operand is taken from one of the nodes the message talks about, from a part or the container of one of them, or from a node of another type (the enclosing construct, an identifier); it is NOT taken from a *sibling candidate*: a different local of the same type that the message does not mention (in a loop over {start, end} the message names the loop variable but the span is start.Span(); in a copy-pasted clause the message names rhs but the span is lhs.Span()). When the message has no node operand the innermost guarding condition is used instead, for loops over candidate nodes only. Necessary for C08: such a diagnostic is rendered at a position of a different construct than the one it describes."})
}

type r2sibSubj struct {
	c     *Ctx
	f     *r2sibFunc
	spanT types.Type
}

// spanCapable: values of type t carry their own source span (method Span()
// errors.Span, or a struct field of type errors.Span).
func (s *r2sibSubj) spanCapable(t types.Type) bool {
	if t == nil {
		return false
	}
	if types.Identical(t, s.spanT) {
		return false
	}
	ms := types.NewMethodSet(t)
	for i := 0; i < ms.Len(); i++ {
		m := ms.At(i).Obj()
		if m.Name() == "Span" {
			if sig, ok := m.Type().(*types.Signature); ok && sig.Params().Len() == 0 && sig.Results().Len() == 1 && types.Identical(sig.Results().At(0).Type(), s.spanT) {
				return true
			}
		}
	}
	u := t
	if p, ok := u.Underlying().(*types.Pointer); ok {
		u = p.Elem()
	}
	if st, ok := u.Underlying().(*types.Struct); ok {
		for i := 0; i < st.NumFields(); i++ {
			if types.Identical(st.Field(i).Type(), s.spanT) {
				return true
			}
		}
	}
	return false
}

// root follows aliases (x := y, x := &y, x := y.(T)) to the local that names the node.
func (s *r2sibSubj) root(o types.Object, depth int) types.Object {
	if depth > 6 {
		return o
	}
	ds := s.f.defs[o]
	if len(ds) != 1 || ds[0].kind != r2dAssign || ds[0].n != 1 {
		return o
	}
	rhs := ast.Unparen(ds[0].rhs)
	for {
		switch x := rhs.(type) {
		case *ast.UnaryExpr:
			if x.Op == token.AND {
				rhs = ast.Unparen(x.X)
				continue
			}
		case *ast.TypeAssertExpr:
			rhs = ast.Unparen(x.X)
			continue
		case *ast.StarExpr:
			rhs = ast.Unparen(x.X)
			continue
		}
		break
	}
	if id, ok := rhs.(*ast.Ident); ok {
		if v, ok := s.f.info.Uses[id].(*types.Var); ok && s.isNodeLocal(v) {
			return s.root(v, depth+1)
		}
	}
	return o
}

func (s *r2sibSubj) isNodeLocal(v *types.Var) bool {
	if v == nil || v.IsField() || v == s.f.recv {
		return false
	}
	if _, isParam := s.f.params[v]; isParam {
		return false
	}
	if v.Pkg() != nil && v.Parent() == v.Pkg().Scope() {
		return false
	}
	return s.spanCapable(v.Type())
}

func (s *r2sibSubj) roots(e ast.Node) map[types.Object]bool {
	out := map[types.Object]bool{}
	if e == nil {
		return out
	}
	ast.Inspect(e, func(n ast.Node) bool {
		if _, ok := n.(*ast.FuncLit); ok {
			return false
		}
		if id, ok := n.(*ast.Ident); ok {
			if v, ok := s.f.info.Uses[id].(*types.Var); ok && s.isNodeLocal(v) {
				out[s.root(v, 0)] = true
			}
		}
		return true
	})
	return out
}

// parts: o2 is defined from o1 (a part of it: field, element, loop variable over one of its lists) or the reverse.
func (s *r2sibSubj) related(a, b types.Object) bool {
	dependsOn := func(x, y types.Object) bool {
		seen := map[types.Object]bool{}
		var dep func(o types.Object, d int) bool
		dep = func(o types.Object, d int) bool {
			if o == y {
				return true
			}
			if d > 6 || seen[o] {
				return false
			}
			seen[o] = true
			for _, df := range s.f.defs[o] {
				var src ast.Node
				switch df.kind {
				case r2dAssign:
					src = df.rhs
				case r2dRangeKey, r2dRangeVal:
					src = df.rng.X
				}
				if src == nil {
					continue
				}
				// an explicit candidate list ([]T{start, end}) holds siblings, not parts: ranging over it
				// (or over a local initialised with it) creates no part-of relation
				if cl, ok := ast.Unparen(src.(ast.Expr)).(*ast.CompositeLit); ok {
					if tv, ok := s.f.info.Types[cl]; ok && tv.Type != nil {
						switch tv.Type.Underlying().(type) {
						case *types.Slice, *types.Array:
							continue
						}
					}
				}
				hit := false
				ast.Inspect(src, func(n ast.Node) bool {
					if id, ok := n.(*ast.Ident); ok {
						if v, ok := s.f.info.Uses[id].(*types.Var); ok && !hit {
							if dep(v, d+1) {
								hit = true
							}
						}
					}
					return !hit
				})
				if hit {
					return true
				}
			}
			return false
		}
		return dep(x, 0)
	}
	return dependsOn(a, b) || dependsOn(b, a)
}

type r2sibDiagSite struct {
	call   *ast.CallExpr
	what   string
	format string
	margs  []ast.Expr
	span   ast.Expr
}

func ruleDiagSubject(c *Ctx) []Obligation {
	e := r2sibEngineOf(c)
	p := c.Pkg("homescript/analyzer")
	ep := c.Pkg("homescript/errors")
	spanObj := ep.Types.Scope().Lookup("Span")
	if spanObj == nil {
		fatalf("anchor unresolved: errors.Span")
	}
	var out []Obligation
	seenKey := map[string]int{}
	for _, fd := range AllFuncDecls(p) {
		f := r2sibFuncOf(c, p, fd)
		s := &r2sibSubj{c: c, f: f, spanT: spanObj.Type()}
		info := f.info
		// enclosing structure: stack of nodes
		var stack []ast.Node
		ast.Inspect(fd.Body, func(n ast.Node) bool {
			if n == nil {
				stack = stack[:len(stack)-1]
				return true
			}
			stack = append(stack, n)
			call, ok := n.(*ast.CallExpr)
			if !ok {
				return true
			}
			callee := CalleeOf(info, call)
			var site *r2sibDiagSite
			switch {
			case callee != nil && e.roles.diagPrim[callee] != "" && len(call.Args) >= 3:
				format, margs := r2sibMsgFormat(f, call.Args[0])
				site = &r2sibDiagSite{call: call, what: e.roles.diagPrim[callee], format: format, margs: margs, span: call.Args[2]}
			case callee != nil && e.roles.errCtor[callee] && len(call.Args) >= 1:
				if cl, ok := ast.Unparen(call.Args[0]).(*ast.CompositeLit); ok {
					format, margs := r2sibMsgFormat(f, r2sibLitField(cl, "Message"))
					site = &r2sibDiagSite{call: call, what: "errret", format: format, margs: margs, span: r2sibLitField(cl, "Span")}
				}
			}
			if site == nil || site.span == nil {
				return true
			}
			S := s.roots(site.span)
			M := map[types.Object]bool{}
			for _, a := range site.margs {
				for o := range s.roots(a) {
					M[o] = true
				}
			}
			basis := "message operands"
			// innermost guard + enclosing loop variable (fallback when the message names no node)
			var loopVars map[types.Object]bool
			var G map[types.Object]bool
			for i := len(stack) - 2; i >= 0; i-- {
				switch x := stack[i].(type) {
				case *ast.IfStmt:
					inBody := x.Body.Pos() <= call.Pos() && call.End() <= x.Body.End()
					inElse := x.Else != nil && x.Else.Pos() <= call.Pos() && call.End() <= x.Else.End()
					if G == nil && (inBody || inElse) {
						// `if err := check(x); err != nil`: the checked operand is in the init statement
						G = s.roots(x.Cond)
						for o := range s.roots(x.Init) {
							G[o] = true
						}
					}
				case *ast.RangeStmt:
					if loopVars == nil {
						loopVars = map[types.Object]bool{}
						for o := range r2sibLoopVars(info, x) {
							if v, ok := o.(*types.Var); ok && s.isNodeLocal(v) {
								loopVars[o] = true
							}
						}
					}
				}
			}
			if len(M) == 0 && len(loopVars) > 0 && len(G) > 0 {
				// only loops over candidate nodes: the guard must name the loop variable
				named := false
				for o := range G {
					if loopVars[o] {
						named = true
					}
				}
				if named {
					M = G
					basis = "guarding condition"
				}
			}
			// span taken from a fixed element of the very collection a message operand was drawn from
			// (gotParam := list[idx] … span list[0].Span()): a sibling candidate addressed by position
			var posCulprit []string
			if len(S) == 0 && len(M) > 0 {
				ast.Inspect(site.span, func(n ast.Node) bool {
					ix, ok := n.(*ast.IndexExpr)
					if !ok {
						return true
					}
					bx, bi := f.norm(ix.X), f.norm(ix.Index)
					for mo := range M {
						ds := f.defs[mo]
						if len(ds) != 1 || ds[0].kind != r2dAssign || ds[0].n != 1 {
							continue
						}
						if mx, ok := ast.Unparen(ds[0].rhs).(*ast.IndexExpr); ok && f.norm(mx.X) == bx && f.normRawIndex(mx.Index) != f.normRawIndex(ix.Index) {
							_ = bi
							posCulprit = append(posCulprit, fmt.Sprintf("%s (span) vs %s := %s (%s)", exprStr(ix), mo.Name(), exprStr(mx), basis))
						}
					}
					return true
				})
			}
			if len(M) == 0 || len(S) == 0 && len(posCulprit) == 0 {
				return true
			}
			key := fmt.Sprintf("homescript/analyzer.%s|%s %s", FuncName(fd), site.what, site.format)
			seenKey[key]++
			if n := seenKey[key]; n > 1 {
				key = fmt.Sprintf("%s #%d", key, n)
			}
			ob := Obligation{Key: key, Pos: c.Pos(call.Pos()), Nontrivial: true}
			names := func(m map[types.Object]bool) string {
				var ns []string
				for o := range m {
					ns = append(ns, o.Name())
				}
				sort.Strings(ns)
				return strings.Join(ns, ", ")
			}
			shared := false
			for o := range S {
				if M[o] {
					shared = true
				}
			}
			var culprit []string
			if !shared {
				for so := range S {
					for mo := range M {
						if types.Identical(so.Type(), mo.Type()) && !s.related(so, mo) {
							culprit = append(culprit, fmt.Sprintf("%s (span) vs %s (%s)", so.Name(), mo.Name(), basis))
						}
					}
				}
			}
			culprit = append(culprit, posCulprit...)
			sort.Strings(culprit)
			if len(culprit) > 0 && site.what == "hint" {
				// a hint is the secondary location of a diagnostic ("previously declared here"): pointing elsewhere is its purpose
				ob.Status = Info
				ob.Detail = "hint pointing at another candidate than the one its message names: " + strings.Join(culprit, "; ")
			} else if len(culprit) > 0 {
				ob.Status = Violated
				ob.Detail = fmt.Sprintf("the %s of this diagnostic name the candidate node(s) {%s} but its span %s is taken from the sibling candidate {%s} (a different node of the same type / a fixed element of the same list), which they do not mention: %s — the diagnostic is rendered at the wrong construct", basis, names(M), exprStr(site.span), names(S), strings.Join(culprit, "; "))
			} else {
				ob.Detail = fmt.Sprintf("span %s comes from {%s}; %s name {%s}", exprStr(site.span), names(S), basis, names(M))
			}
			out = append(out, ob)
			return true
		})
	}
	return out
}

// normRawIndex: the index term without collapsing loop counters (ctr(i) stays distinguishable from 0).
func (f *r2sibFunc) normRawIndex(e ast.Expr) string { return f.norm(e) }
