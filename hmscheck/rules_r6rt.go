package main

// Round 6 additions of the rt group (identifier prefix r6rt).

import (
	"fmt"
	"go/token"
	"go/types"
	"sort"
	"strings"

	"golang.org/x/tools/go/ssa"
)

// r6rtReceivedInterrupts (R-host-call): every function of the protocol
// packages that RECEIVES a nil-able interrupt value from a channel (the
// termination signal of a core) is the first consumer of that interrupt. On
// every path on which the received value is non-nil the function must hand it
// on: every return that stays reachable under the assumption `received != nil`
// returns a value built from it (or the path panics / passes it to a callee
// that does). A branch that treats some non-nil interrupts like "finished
// normally" (drops the core and goes on) loses the interrupt: the caller sees
// success. Same evaluator as for the consumers of VM.Wait's result
// (rules_r4rta_waitres.go); the source is the received value. One obligation
// per receive site.
func r6rtReceivedInterrupts(c *Ctx) []Obligation {
	a := determMod(c)
	z := &r4aCarry{c: c, a: a, memo: map[string]*r4aCarryRes{}, active: map[string]bool{}}
	var obs []Obligation
	seen := map[string]int{}
	nilable := func(t types.Type) bool {
		switch u := t.Underlying().(type) {
		case *types.Pointer:
			// a pointer to an interface / struct declared in the module
			if n, ok := types.Unalias(u.Elem()).(*types.Named); ok && n.Obj().Pkg() != nil && strings.HasPrefix(n.Obj().Pkg().Path(), ModPath) {
				_, isIface := n.Underlying().(*types.Interface)
				return isIface
			}
		}
		return false
	}
	for _, fn := range gdFuncsOf(c, r5rtProtocolPkgs...) {
		for _, b := range fn.Blocks {
			for _, in := range b.Instrs {
				var src ssa.Value
				var ch ssa.Value
				var pos token.Pos
				switch x := in.(type) {
				case *ssa.UnOp:
					if x.Op == token.ARROW && !x.CommaOk {
						src, ch, pos = x, x.X, x.Pos()
					}
				case *ssa.Extract:
					sel, ok := x.Tuple.(*ssa.Select)
					if !ok || x.Index < 2 {
						continue
					}
					k := 2
					for _, st := range sel.States {
						if st.Dir != types.RecvOnly {
							continue
						}
						if k == x.Index {
							src, ch, pos = x, st.Chan, st.Pos
						}
						k++
					}
				}
				if src == nil {
					continue
				}
				ct, ok := ch.Type().Underlying().(*types.Chan)
				if !ok || !nilable(ct.Elem()) {
					continue
				}
				if src.Referrers() == nil || len(*src.Referrers()) == 0 {
					continue // drained and discarded: the drain branches are R-wait's business
				}
				key := fmt.Sprintf("%s|interrupt received from a %s|a non-nil interrupt is handed on on every path", r5rtFuncName(fn), types.TypeString(ct, func(p *types.Package) string { return p.Name() }))
				seen[key]++
				if seen[key] > 1 {
					key = fmt.Sprintf("%s #%d", key, seen[key])
				}
				res := z.eval(fn, src, 0)
				// the evaluator judges every return of the function; only those that
				// can follow the receive count (forward reachability from the
				// receiving block, the `received == nil` edges pruned)
				after := r6rtAfter(src)
				var bad []r4aBadRet
				for _, br := range res.bad {
					if after[br.pos] {
						bad = append(bad, br)
					}
				}
				ob := Obligation{Key: key, Pos: c.Pos(pos), Nontrivial: true}
				switch {
				case res.undecided != "":
					ob.Status, ob.Detail = Undecided, res.undecided
				case len(bad) > 0:
					var ws []string
					for _, br := range bad {
						ws = append(ws, fmt.Sprintf("return at %s (reached under %s) returns values that are not built from the received interrupt", c.Pos(br.pos), strings.Join(br.conds, ", ")))
					}
					sort.Strings(ws)
					ob.Status = Violated
					ob.Detail = "a non-nil interrupt taken from the channel can be dropped: " + strings.Join(ws, "; ") + ". The core's failure / termination never reaches the caller, which sees a normal completion"
				default:
					ob.Status = Discharged
					ob.Detail = fmt.Sprintf("under `received != nil`: %d reachable return(s) all carry the interrupt, %d panic(s)", res.returns, res.panics)
				}
				obs = append(obs, ob)
			}
		}
	}
	sort.SliceStable(obs, func(i, j int) bool { return obs[i].Key < obs[j].Key })
	return obs
}

// r6rtAfter: positions of the Return instructions reachable from the block
// that defines src, not following an edge that is taken only when src is nil.
func r6rtAfter(src ssa.Value) map[token.Pos]bool {
	out := map[token.Pos]bool{}
	in, ok := src.(ssa.Instruction)
	if !ok || in.Block() == nil {
		return out
	}
	isNil := func(v ssa.Value) bool {
		k, ok := v.(*ssa.Const)
		return ok && k.IsNil()
	}
	seen := map[*ssa.BasicBlock]bool{}
	var walk func(b *ssa.BasicBlock, first bool)
	walk = func(b *ssa.BasicBlock, first bool) {
		if seen[b] && !first {
			return
		}
		seen[b] = true
		if len(b.Instrs) == 0 {
			return
		}
		last := b.Instrs[len(b.Instrs)-1]
		if r, ok := last.(*ssa.Return); ok {
			out[r.Pos()] = true
		}
		succs := b.Succs
		if iff, ok := last.(*ssa.If); ok {
			if val, known := r6rtCondUnderNonNil(iff.Cond, src, isNil, 0); known {
				if val {
					succs = b.Succs[:1]
				} else {
					succs = b.Succs[1:]
				}
			}
		}
		for _, s := range succs {
			walk(s, false)
		}
	}
	seen[in.Block()] = false
	walk(in.Block(), true)
	return out
}

// r6rtSharedHandles (R-wait): a struct field of type pointer-to-interface or
// pointer-to-func (`*context.Context`, `*context.CancelFunc`) is a handle that
// the owner shares BY REFERENCE with whoever gave it (the host re-arms the
// execution context through its own variable; the VM's cores dereference the
// field at every poll). Whatever is stored in such a field must be the pointer
// that was given (a parameter, another such field, the address of a variable
// the function itself fills from a constructor) — never the address of a local
// that was initialised by DEREFERENCING a pointer of the same type: that is a
// snapshot which no longer follows the giver's variable, while sibling handles
// (the cancel function) still do. One obligation per (function, field) store.
func r6rtSharedHandles(c *Ctx) []Obligation {
	var obs []Obligation
	seen := map[string]int{}
	isHandle := func(t types.Type) bool {
		p, ok := t.Underlying().(*types.Pointer)
		if !ok {
			return false
		}
		switch p.Elem().Underlying().(type) {
		case *types.Interface, *types.Signature:
			_, named := types.Unalias(p.Elem()).(*types.Named)
			return named
		}
		return false
	}
	for _, fn := range gdFuncsOf(c, r5rtProtocolPkgs...) {
		for _, b := range fn.Blocks {
			for _, in := range b.Instrs {
				st, ok := in.(*ssa.Store)
				if !ok {
					continue
				}
				fa, ok := st.Addr.(*ssa.FieldAddr)
				if !ok {
					continue
				}
				sp, ok := fa.X.Type().Underlying().(*types.Pointer)
				if !ok {
					continue
				}
				stt, ok := sp.Elem().Underlying().(*types.Struct)
				if !ok {
					continue
				}
				f := stt.Field(fa.Field)
				if !isHandle(f.Type()) {
					continue
				}
				owner := types.TypeString(sp.Elem(), func(p *types.Package) string { return p.Name() })
				key := fmt.Sprintf("%s|stores %s.%s (%s)|the pointer it was given, not a snapshot", r5rtFuncName(fn), owner, r5rtFieldName(f), types.TypeString(f.Type(), func(p *types.Package) string { return p.Name() }))
				seen[key]++
				if seen[key] > 1 {
					key = fmt.Sprintf("%s #%d", key, seen[key])
				}
				ob := Obligation{Key: key, Pos: c.Pos(st.Pos()), Nontrivial: true, Status: Discharged}
				v := hcStrip(st.Val)
				ob.Detail = "the stored pointer is " + r6rtDescribe(v)
				if at, what := r6rtSnapshot(fn, v, f.Type(), 0); at != token.NoPos {
					ob.Status = Violated
					ob.Detail = fmt.Sprintf("the field receives the address of a local that was filled at %s by dereferencing %s: a snapshot of the shared handle. When the giver later stores a new value through its own variable (a fresh context for the next run), the owner and everything that polls this field keep looking at the old one, while handles stored by reference still follow the giver", c.Pos(at), what)
				}
				obs = append(obs, ob)
			}
		}
	}
	sort.SliceStable(obs, func(i, j int) bool { return obs[i].Key < obs[j].Key })
	return obs
}

func r6rtDescribe(v ssa.Value) string {
	switch x := v.(type) {
	case *ssa.Parameter:
		return "the parameter of type " + types.TypeString(x.Type(), func(p *types.Package) string { return p.Name() })
	case *ssa.Alloc:
		return "the address of a local variable"
	case *ssa.UnOp:
		return "loaded from " + types.TypeString(x.X.Type(), func(p *types.Package) string { return p.Name() })
	case *ssa.Const:
		return "nil"
	}
	return fmt.Sprintf("a %T", v)
}

// r6rtAtomicUpdates (R-lockset): a store that is made while a mutex is held
// and whose value is computed from a LOAD OF THE SAME LOCATION is a
// read-modify-write of a guarded location; it is atomic only if the load is
// made inside the same critical section. A load made before the Lock (the
// "build the new content first, then lock for the assignment" optimisation)
// lets two goroutines read the same old content and the later store discards
// the other one's update. One obligation per read-modify-write store under a
// lock in the protocol packages; critical sections by dominance (Lock
// dominates, no Unlock of the same mutex in between), locations by access path.
func r6rtAtomicUpdates(c *Ctx) []Obligation {
	var obs []Obligation
	seen := map[string]int{}
	isMutexOp := func(call *ssa.Call) (string, ssa.Value) {
		cal := call.Call.StaticCallee()
		if cal == nil || cal.Pkg == nil || cal.Pkg.Pkg.Path() != "sync" || len(call.Call.Args) == 0 {
			return "", nil
		}
		switch cal.Name() {
		case "Lock", "RLock", "Unlock", "RUnlock":
			return cal.Name(), call.Call.Args[0]
		}
		return "", nil
	}
	for _, fn := range gdFuncsOf(c, r5rtProtocolPkgs...) {
		type lockOp struct {
			name string
			key  string
			in   *ssa.Call
		}
		var ops []lockOp
		for _, b := range fn.Blocks {
			for _, in := range b.Instrs {
				if call, ok := in.(*ssa.Call); ok {
					if nm, recv := isMutexOp(call); nm != "" {
						ops = append(ops, lockOp{nm, r6rtPath(fn, recv, 0), call})
					}
				}
			}
		}
		if len(ops) == 0 {
			continue
		}
		dominates := func(a, b ssa.Instruction) bool {
			if a.Block() == b.Block() {
				return gdIndexIn(a.Block(), a) < gdIndexIn(b.Block(), b)
			}
			return a.Block().Dominates(b.Block())
		}
		// the write locks that hold at instruction x
		heldAt := func(x ssa.Instruction) []lockOp {
			var out []lockOp
			for _, l := range ops {
				if l.name != "Lock" || !dominates(l.in, x) {
					continue
				}
				released := false
				for _, u := range ops {
					if u.name == "Unlock" && u.key == l.key && dominates(l.in, u.in) && dominates(u.in, x) {
						released = true
					}
				}
				if !released {
					out = append(out, l)
				}
			}
			return out
		}
		for _, b := range fn.Blocks {
			for _, in := range b.Instrs {
				st, ok := in.(*ssa.Store)
				if !ok {
					continue
				}
				held := heldAt(st)
				if len(held) == 0 {
					continue
				}
				addr := r6rtPath(fn, st.Addr, 0)
				if addr == "" || strings.HasPrefix(addr, "local") {
					continue
				}
				// loads of the same location in the backward slice of the value
				var loads []*ssa.UnOp
				visited := map[ssa.Value]bool{}
				var back func(v ssa.Value, d int)
				back = func(v ssa.Value, d int) {
					if v == nil || visited[v] || d > 12 {
						return
					}
					visited[v] = true
					switch x := v.(type) {
					case *ssa.UnOp:
						if x.Op == token.MUL {
							if r6rtPath(fn, x.X, 0) == addr {
								loads = append(loads, x)
							}
							return
						}
						back(x.X, d+1)
					case *ssa.BinOp:
						back(x.X, d+1)
						back(x.Y, d+1)
					case *ssa.Phi:
						for _, e := range x.Edges {
							back(e, d+1)
						}
					case *ssa.Convert:
						back(x.X, d+1)
					case *ssa.ChangeType:
						back(x.X, d+1)
					case *ssa.MakeInterface:
						back(x.X, d+1)
					case *ssa.Call:
						for _, a := range x.Call.Args {
							back(a, d+1)
						}
					case *ssa.Slice:
						back(x.X, d+1)
					}
				}
				back(st.Val, 0)
				if len(loads) == 0 {
					continue
				}
				key := fmt.Sprintf("%s|read-modify-write of a %s under a held mutex|the read is inside the critical section", r5rtFuncName(fn), types.TypeString(st.Val.Type(), func(p *types.Package) string { return p.Name() }))
				seen[key]++
				if seen[key] > 1 {
					key = fmt.Sprintf("%s #%d", key, seen[key])
				}
				ob := Obligation{Key: key, Pos: c.Pos(st.Pos()), Nontrivial: true, Status: Discharged}
				ob.Detail = fmt.Sprintf("%d load(s) of the updated location feed the store; all are made while the mutex is held", len(loads))
				for _, ld := range loads {
					in := false
					for _, l := range held {
						if dominates(l.in, ld) {
							rel := false
							for _, u := range ops {
								if u.name == "Unlock" && u.key == l.key && dominates(l.in, u.in) && dominates(u.in, ld) {
									rel = true
								}
							}
							if !rel {
								in = true
							}
						}
					}
					if !in {
						ob.Status = Violated
						ob.Detail = fmt.Sprintf("the store at %s is made under the mutex, but the value it writes was computed from a load of the same location at %s, BEFORE the lock was taken: two goroutines can read the same old content and the second store discards the first one's update (lost update). Move the read into the critical section", c.Pos(st.Pos()), c.Pos(ld.Pos()))
					}
				}
				obs = append(obs, ob)
			}
		}
	}
	sort.SliceStable(obs, func(i, j int) bool { return obs[i].Key < obs[j].Key })
	return obs
}

// r6rtPath: an access path for an address / pointer value: parameters by
// index, fields by index, dereferences; "" when not expressible.
func r6rtPath(fn *ssa.Function, v ssa.Value, d int) string {
	if d > 8 {
		return ""
	}
	switch x := v.(type) {
	case *ssa.Parameter:
		for i, p := range fn.Params {
			if p == x {
				return fmt.Sprintf("param%d", i)
			}
		}
	case *ssa.FreeVar:
		for i, p := range fn.FreeVars {
			if p == x {
				return fmt.Sprintf("free%d", i)
			}
		}
	case *ssa.Alloc:
		// the spill of a parameter (value receivers): the parameter itself
		var only ssa.Value
		n := 0
		for _, b := range fn.Blocks {
			for _, in := range b.Instrs {
				if st, ok := in.(*ssa.Store); ok && st.Addr == ssa.Value(x) {
					n++
					only = st.Val
				}
			}
		}
		if n == 1 {
			if p, ok := only.(*ssa.Parameter); ok {
				return "&" + r6rtPath(fn, p, d+1)
			}
		}
		return "local:" + x.Name()
	case *ssa.FieldAddr:
		if b := r6rtPath(fn, x.X, d+1); b != "" {
			return fmt.Sprintf("%s.f%d", b, x.Field)
		}
	case *ssa.IndexAddr:
		return ""
	case *ssa.UnOp:
		if x.Op == token.MUL {
			if b := r6rtPath(fn, x.X, d+1); b != "" {
				return "*" + b
			}
		}
	case *ssa.ChangeType:
		return r6rtPath(fn, x.X, d+1)
	case *ssa.Global:
		return "global:" + x.Name()
	}
	return ""
}

// r6rtCondUnderNonNil: the value of a branch condition given `src != nil`:
// `src ==/!= nil`, its negation, and a one-block predicate helper of the
// module applied to src.
func r6rtCondUnderNonNil(cond ssa.Value, src ssa.Value, isNil func(ssa.Value) bool, d int) (val, known bool) {
	if d > 3 {
		return false, false
	}
	switch x := cond.(type) {
	case *ssa.UnOp:
		if x.Op == token.NOT {
			v, k := r6rtCondUnderNonNil(x.X, src, isNil, d+1)
			return !v, k
		}
	case *ssa.BinOp:
		if x.Op == token.EQL || x.Op == token.NEQ {
			var other ssa.Value
			if hcStrip(x.X) == src {
				other = x.Y
			} else if hcStrip(x.Y) == src {
				other = x.X
			}
			if other != nil && isNil(other) {
				return x.Op == token.NEQ, true
			}
		}
	case *ssa.Call:
		cal := x.Call.StaticCallee()
		if cal == nil || len(cal.Blocks) != 1 || len(x.Call.Args) != len(cal.Params) {
			return false, false
		}
		ret, ok := cal.Blocks[0].Instrs[len(cal.Blocks[0].Instrs)-1].(*ssa.Return)
		if !ok || len(ret.Results) != 1 {
			return false, false
		}
		for i, a := range x.Call.Args {
			if hcStrip(a) == src {
				return r6rtCondUnderNonNil(ret.Results[0], cal.Params[i], isNil, d+1)
			}
		}
	}
	return false, false
}

// r6rtSnapshot: v (a value of handle type t in fn) is the address of a local
// filled by dereferencing a pointer of type t, directly or as the result of a
// module function that returns such an address (two levels).
func r6rtSnapshot(fn *ssa.Function, v ssa.Value, t types.Type, d int) (token.Pos, string) {
	v = hcStrip(v)
	switch x := v.(type) {
	case *ssa.Alloc:
		for _, b := range fn.Blocks {
			for _, in := range b.Instrs {
				st, ok := in.(*ssa.Store)
				if !ok || st.Addr != ssa.Value(x) {
					continue
				}
				if ld, ok := hcStrip(st.Val).(*ssa.UnOp); ok && ld.Op == token.MUL && types.Identical(ld.X.Type(), t) {
					return st.Pos(), r6rtDescribe(ld.X)
				}
			}
		}
	case *ssa.Call:
		cal := x.Call.StaticCallee()
		if cal == nil || d >= 2 || len(cal.Blocks) == 0 {
			return token.NoPos, ""
		}
		for _, b := range cal.Blocks {
			if r, ok := b.Instrs[len(b.Instrs)-1].(*ssa.Return); ok && len(r.Results) == 1 {
				if at, what := r6rtSnapshot(cal, r.Results[0], t, d+1); at != token.NoPos {
					return at, what + " (in " + r5rtFuncName(cal) + ")"
				}
			}
		}
	}
	return token.NoPos, ""
}
