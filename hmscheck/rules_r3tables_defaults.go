package main

// R-default-twins (C04, C16): the value a declaration without initialiser
// starts with (singleton without a stored instance, …) is computed from its
// type by a "default builder" — a function Type -> *Value that switches on the
// type kind. Each engine has its own (runtime/value for the VM, through the
// compiler; interpreter/value for the interpreter). For every consumer role
// both engines share, the two builders must agree row by row: same
// constructor, same constant payload, and — for composite kinds — the same
// recursion into the component types (an object default whose fields are
// built by a *different* builder is a different value at depth two).

import (
	"fmt"
	"go/ast"
	"go/token"
	"go/types"
	"sort"
	"strings"
)

func init() {
	register(&Rule{ID: "R-default-twins", Floor: 12, Run: ruleDefaultTwins,
		Doc: "C04/C16: default/zero values per type kind agree between the engines. A default builder is a library function from an analyzer type to a value that switches on the type's kind; its table (kind -> constructor, constant arguments, and for composite kinds which builder produces the components) is extracted from runtime/value and interpreter/value (helpers inlined, `v := Value(x); return &v` and literal/constructor forms normalised). Consumers are the engine call sites (compiler+runtime for the VM, interpreter for the tree walker), paired by the syntax-tree field whose type they default (e.g. the singleton's declared type). For every shared consumer role and every type kind the rows must be equal; a composite row must recurse into the builder itself — a field default produced by another builder (one that returns an object without fields, or a different range) makes `@S type S = { inner: { n: int } }` start as a different value in the two engines, and member access on the missing field is a Go panic. A kind without a row (the builders panic) must be rejected by the analyzer wherever a default is needed: the kinds the consumer's type conversion can produce without reporting an error, intersected with the kinds the builders panic on, must be covered by a rejection guard (an error report conditioned on a kind predicate applied to the converted type, which looks into the components of recursively built kinds) in the analyzer function that builds the consumer node."})
}

type r3dBuilder struct {
	l      *mbLib
	fn     *types.Func
	fd     *ast.FuncDecl
	param  types.Object
	sw     *ast.SwitchStmt
	rows   map[string]string    // type kind name -> row
	rowPos map[string]token.Pos // where
	def    string               // row of unlisted kinds
	ok     bool
	why    string
}

type r3dCtx struct {
	c        *Ctx
	an       *mbAn
	builders map[*types.Func]*r3dBuilder
}

func r3dFindBuilders(x *r3dCtx, l *mbLib) []*r3dBuilder {
	var out []*r3dBuilder
	var fns []*types.Func
	for fn := range l.decls {
		fns = append(fns, fn)
	}
	sort.Slice(fns, func(i, j int) bool { return fns[i].Name() < fns[j].Name() })
	for _, fn := range fns {
		fd := l.decls[fn]
		if fd.Recv != nil || fd.Type.Params == nil || fd.Type.Results == nil {
			continue
		}
		sig := fn.Type().(*types.Signature)
		if sig.Params().Len() != 1 || sig.Results().Len() != 1 || !x.an.isTypeIface(sig.Params().At(0).Type()) || !l.isValuePtr(sig.Results().At(0).Type()) {
			continue
		}
		if len(fd.Type.Params.List) != 1 || len(fd.Type.Params.List[0].Names) != 1 {
			continue
		}
		param := l.info.Defs[fd.Type.Params.List[0].Names[0]]
		var sw *ast.SwitchStmt
		for _, st := range fd.Body.List {
			if s, ok := st.(*ast.SwitchStmt); ok && s.Tag != nil {
				if call, ok := ast.Unparen(s.Tag).(*ast.CallExpr); ok && len(call.Args) == 0 {
					if sel, ok := ast.Unparen(call.Fun).(*ast.SelectorExpr); ok && sel.Sel.Name == "Kind" && r2tObj(l.info, sel.X) == param {
						sw = s
					}
				}
			}
		}
		if sw == nil {
			continue
		}
		b := &r3dBuilder{l: l, fn: fn, fd: fd, param: param, sw: sw, rows: map[string]string{}, rowPos: map[string]token.Pos{}}
		x.builders[fn] = b
		out = append(out, b)
	}
	return out
}

// ---- row normalisation ----

type r3dNorm struct {
	x     *r3dCtx
	l     *mbLib
	root  *r3dBuilder
	depth int
}

func (n *r3dNorm) builderRef(fn *types.Func) string {
	if fn == n.root.fn {
		return "self"
	}
	return "other-builder(" + fn.Name() + ")"
}

// row renders the value expression e (evaluated inside fd) canonically.
func (n *r3dNorm) row(fd *ast.FuncDecl, e ast.Expr, depth int) string {
	l := n.l
	info := l.info
	if depth > 8 {
		return "?deep"
	}
	e = ast.Unparen(e)
	switch x := e.(type) {
	case *ast.UnaryExpr:
		if x.Op == token.AND {
			return n.row(fd, x.X, depth+1)
		}
	case *ast.StarExpr:
		return n.row(fd, x.X, depth+1)
	case *ast.BasicLit:
		if tv := info.Types[x]; tv.Value != nil {
			return tv.Value.ExactString()
		}
		return x.Value
	case *ast.Ident:
		if tv, ok := info.Types[x]; ok {
			if tv.IsNil() {
				return "nil"
			}
			if tv.Value != nil {
				return tv.Value.ExactString()
			}
		}
		o := r2tObj(info, x)
		if v, ok := o.(*types.Var); ok && !v.IsField() {
			if _, isC := mbIsContainer(v.Type()); isC {
				return n.container(fd, v, depth+1)
			}
			if def := r2tSingleDef(info, fd, x); def != nil {
				return n.row(fd, def, depth+1)
			}
		}
		return "?" + x.Name
	case *ast.CompositeLit:
		if im := l.implOfType(info.TypeOf(x)); im != nil {
			var parts []string
			for _, el := range x.Elts {
				if kv, ok := el.(*ast.KeyValueExpr); ok {
					parts = append(parts, n.row(fd, kv.Value, depth+1))
				} else {
					parts = append(parts, n.row(fd, el, depth+1))
				}
			}
			return im.Name() + "(" + strings.Join(parts, ", ") + ")"
		}
		if len(x.Elts) == 0 {
			return "empty"
		}
		return "?" + exprStr(x)
	case *ast.TypeAssertExpr:
		return n.row(fd, x.X, depth+1)
	case *ast.CallExpr:
		if r2tIsBuiltin(info, x, "make") {
			return "empty"
		}
		if tv, ok := info.Types[x.Fun]; ok && tv.IsType() && len(x.Args) == 1 {
			if tv2 := info.Types[x]; tv2.Value != nil {
				return tv2.Value.ExactString()
			}
			return n.row(fd, x.Args[0], depth+1) // conversion Value(x)
		}
		fn := CalleeOf(info, x)
		if fn == nil {
			return "?" + exprStr(x)
		}
		if _, isB := n.x.builders[fn]; isB {
			return n.builderRef(fn)
		}
		ct := l.ctorOf(fn)
		if ct != nil && !ct.none && !n.directCtor(fn) && l.decls[fn] != nil {
			ct = nil // a wrapper that computes its argument: inline it instead
		}
		if ct != nil {
			if ct.none {
				return ct.impl.Name() + "(none)"
			}
			var parts []string
			for _, a := range x.Args {
				parts = append(parts, n.row(fd, a, depth+1))
			}
			return ct.impl.Name() + "(" + strings.Join(parts, ", ") + ")"
		}
		if hd := l.decls[fn]; hd != nil && hd.Recv == nil {
			// helper of the library: inline its (single) returned value
			var rets []ast.Expr
			ast.Inspect(hd.Body, func(m ast.Node) bool {
				if _, ok := m.(*ast.FuncLit); ok {
					return false
				}
				if r, ok := m.(*ast.ReturnStmt); ok && len(r.Results) == 1 {
					rets = append(rets, r.Results[0])
				}
				return true
			})
			if len(rets) == 1 {
				return n.row(hd, rets[0], depth+1)
			}
			return "?helper " + fn.Name()
		}
		return "?" + exprStr(x.Fun) + "(…)"
	}
	if tv, ok := info.Types[e]; ok && tv.Value != nil {
		return tv.Value.ExactString()
	}
	return "?" + exprStr(e)
}

// directCtor: the function itself builds the value struct (has the composite literal).
func (n *r3dNorm) directCtor(fn *types.Func) bool {
	fd := n.l.decls[fn]
	if fd == nil {
		return true
	}
	found := false
	ast.Inspect(fd.Body, func(m ast.Node) bool {
		if cl, ok := m.(*ast.CompositeLit); ok && n.l.implOfType(n.l.info.TypeOf(cl)) != nil {
			found = true
		}
		return true
	})
	return found
}

// container: how a local map/slice is filled: "empty", "fields{row}" (one entry per declared
// component, computed by row), "elems{row}".
func (n *r3dNorm) container(fd *ast.FuncDecl, v *types.Var, depth int) string {
	info := n.l.info
	var fills []string
	init := ""
	bad := ""
	var stack []ast.Node
	ast.Inspect(fd.Body, func(m ast.Node) bool {
		if m == nil {
			stack = stack[:len(stack)-1]
			return true
		}
		stack = append(stack, m)
		as, ok := m.(*ast.AssignStmt)
		if !ok {
			return true
		}
		inLoop := false
		for _, s := range stack {
			if _, ok := s.(*ast.RangeStmt); ok {
				inLoop = true
			}
		}
		for i, lh := range as.Lhs {
			t := ast.Unparen(lh)
			if ix, ok := t.(*ast.IndexExpr); ok && r2tObj(info, ix.X) == v && len(as.Rhs) == len(as.Lhs) {
				kind := "fields"
				if !inLoop {
					kind = "entry"
				}
				fills = append(fills, kind+"{"+n.row(fd, as.Rhs[i], depth+1)+"}")
				continue
			}
			if r2tObj(info, t) != v || len(as.Rhs) != len(as.Lhs) {
				continue
			}
			rhs := ast.Unparen(as.Rhs[i])
			if call, ok := rhs.(*ast.CallExpr); ok && r2tIsBuiltin(info, call, "append") && len(call.Args) > 0 && r2tObj(info, call.Args[0]) == v {
				for _, a := range call.Args[1:] {
					fills = append(fills, "elems{"+n.row(fd, a, depth+1)+"}")
				}
				continue
			}
			r := n.row(fd, rhs, depth+1)
			if r != "empty" && r != "nil" {
				bad = "?" + exprStr(rhs)
			}
			init = "empty"
		}
		return true
	})
	if bad != "" {
		return bad
	}
	if len(fills) == 0 {
		if init == "" {
			return "?" + v.Name()
		}
		return "empty"
	}
	return strings.Join(mbUniq(fills), "+")
}

func r3dExtract(x *r3dCtx, b *r3dBuilder) {
	info := b.l.info
	n := &r3dNorm{x: x, l: b.l, root: b}
	// what happens after the switch
	after := "?falls off"
	idx := -1
	for i, st := range b.fd.Body.List {
		if st == b.sw {
			idx = i
		}
	}
	rest := b.fd.Body.List[idx+1:]
	if len(rest) > 0 {
		switch last := rest[len(rest)-1].(type) {
		case *ast.ReturnStmt:
			if len(last.Results) == 1 {
				after = n.row(b.fd, last.Results[0], 0)
			}
		default:
			if IsPanicCall(info, last) {
				after = "panic"
			}
		}
	}
	clauses := b.sw.Body.List
	var clauseRow func(i int, depth int) string
	clauseRow = func(i int, depth int) string {
		if i >= len(clauses) || depth > len(clauses) {
			return after
		}
		body := clauses[i].(*ast.CaseClause).Body
		if len(body) == 0 {
			return after
		}
		switch last := body[len(body)-1].(type) {
		case *ast.BranchStmt:
			if last.Tok == token.FALLTHROUGH {
				return clauseRow(i+1, depth+1)
			}
			if last.Tok == token.BREAK {
				return after
			}
		case *ast.ReturnStmt:
			if len(last.Results) == 1 {
				return n.row(b.fd, last.Results[0], 0)
			}
		default:
			if IsPanicCall(info, last) {
				return "panic"
			}
		}
		return "?clause"
	}
	b.def = after
	b.ok = true
	for i, cl := range clauses {
		cc := cl.(*ast.CaseClause)
		r := clauseRow(i, 0)
		if cc.List == nil {
			b.def = r
			continue
		}
		for _, e := range cc.List {
			k := ConstOf(info, e)
			if k == nil {
				b.ok, b.why = false, "case expression "+exprStr(e)+" is not a type kind constant"
				continue
			}
			b.rows[k.Name()] = r
			b.rowPos[k.Name()] = cc.Pos()
		}
	}
}

func (b *r3dBuilder) rowFor(kind string) string {
	if r, ok := b.rows[kind]; ok {
		return r
	}
	return b.def
}

// ---- consumers ----

type r3dConsumer struct {
	role    string
	where   string
	pos     token.Pos
	builder *r3dBuilder
}

func r3dConsumers(x *r3dCtx, l *mbLib, engineRels []string) []r3dConsumer {
	var out []r3dConsumer
	for _, rel := range engineRels {
		if !x.c.HasPkg(rel) {
			continue
		}
		p := x.c.Pkg(rel)
		for _, fd := range AllFuncDecls(p) {
			ast.Inspect(fd.Body, func(n ast.Node) bool {
				call, ok := n.(*ast.CallExpr)
				if !ok || len(call.Args) != 1 {
					return true
				}
				b := x.builders[CalleeOf(p.TypesInfo, call)]
				if b == nil || b.l != l {
					return true
				}
				role := "expr:" + exprStr(call.Args[0])
				if sel, ok := ast.Unparen(call.Args[0]).(*ast.SelectorExpr); ok {
					if sl := p.TypesInfo.Selections[sel]; sl != nil && sl.Kind() == types.FieldVal {
						owner := sl.Recv()
						if pt, ok := owner.(*types.Pointer); ok {
							owner = pt.Elem()
						}
						if nt, ok := types.Unalias(owner).(*types.Named); ok {
							role = nt.Obj().Name() + "." + sel.Sel.Name
						}
					}
				}
				out = append(out, r3dConsumer{role: role, where: strings.TrimPrefix(rel, "homescript/") + "." + FuncName(fd), pos: call.Pos(), builder: b})
				return true
			})
		}
	}
	return out
}

func ruleDefaultTwins(c *Ctx) []Obligation {
	an := mbLoadAn(c)
	vm := mbLoadLib(c, mbRelVM, "vm")
	in := mbLoadLib(c, mbRelInterp, "interp")
	x := &r3dCtx{c: c, an: an, builders: map[*types.Func]*r3dBuilder{}}
	var obs []Obligation
	vb := r3dFindBuilders(x, vm)
	ib := r3dFindBuilders(x, in)
	for _, b := range append(append([]*r3dBuilder(nil), vb...), ib...) {
		r3dExtract(x, b)
	}
	if len(vb) == 0 || len(ib) == 0 {
		obs = append(obs, Obligation{Key: "default|builders", Status: Undecided, Pos: "?", Detail: fmt.Sprintf("default builders found: vm %d, interp %d (a function from an analyzer Type to *Value that switches on Kind())", len(vb), len(ib))})
		return obs
	}
	vcons := r3dConsumers(x, vm, []string{"homescript/compiler", mbRelVMEngine})
	icons := r3dConsumers(x, in, []string{mbRelInEngine})
	byRole := func(cs []r3dConsumer) map[string][]r3dConsumer {
		m := map[string][]r3dConsumer{}
		for _, k := range cs {
			m[k.role] = append(m[k.role], k)
		}
		return m
	}
	vr, ir := byRole(vcons), byRole(icons)
	roles := map[string]bool{}
	for r := range vr {
		roles[r] = true
	}
	for r := range ir {
		roles[r] = true
	}
	paired := 0
	for _, role := range mbSortedKeys(roles) {
		vs, is := vr[role], ir[role]
		if len(vs) == 0 || len(is) == 0 {
			k := vs
			side := "VM (compiler/runtime)"
			if len(vs) == 0 {
				k, side = is, "interpreter"
			}
			obs = append(obs, Obligation{Key: "default|" + role + "|consumer", Status: Info, Pos: c.Pos(k[0].pos),
				Detail: fmt.Sprintf("only the %s builds a default for %s (%s, through %s): no twin to compare with", side, role, k[0].where, k[0].builder.fn.Name())})
			continue
		}
		// one builder per engine for a role
		uniq := func(cs []r3dConsumer) (*r3dBuilder, bool) {
			b := cs[0].builder
			for _, k := range cs {
				if k.builder != b {
					return b, false
				}
			}
			return b, true
		}
		bv, okv := uniq(vs)
		bi, oki := uniq(is)
		if !okv || !oki {
			obs = append(obs, Obligation{Key: "default|" + role + "|consumer", Status: Violated, Pos: c.Pos(vs[0].pos), Nontrivial: true,
				Detail: "the call sites of one engine use different default builders for " + role})
			continue
		}
		paired++
		if !bv.ok || !bi.ok {
			obs = append(obs, Obligation{Key: "default|" + role + "|tables", Status: Undecided, Pos: c.Pos(bv.fd.Pos()), Detail: "cannot read a builder's switch: " + bv.why + " " + bi.why})
			continue
		}
		// kinds without a row must not reach the builders
		panicKinds, recursive := map[string]bool{}, map[string]bool{}
		for _, kind := range an.kinds {
			for _, r := range []string{bv.rowFor(kind), bi.rowFor(kind)} {
				if r == "panic" {
					panicKinds[kind] = true
				}
				if strings.Contains(r, "{self}") {
					recursive[kind] = true
				}
			}
		}
		rj := r3dAnalyzerRejects(x, role, panicKinds, recursive)
		obs = append(obs, Obligation{Key: "default|" + role + "|analyzer rejects kinds without a default", Pos: c.Pos(rj.pos), Status: rj.status, Detail: rj.detail, Nontrivial: true})
		for _, kind := range an.kinds {
			a, b := bv.rowFor(kind), bi.rowFor(kind)
			pos := bi.rowPos[kind]
			if pos == token.NoPos {
				pos = bi.fd.Pos()
			}
			o := Obligation{Key: "default|" + role + "|" + mbShortKind(kind), Pos: c.Pos(pos), Nontrivial: true}
			desc := fmt.Sprintf("vm %s (%s via %s): %s | interp %s (%s via %s): %s", bv.fn.Name(), mbShortKind(kind), vs[0].where, a, bi.fn.Name(), mbShortKind(kind), is[0].where, b)
			switch {
			case strings.Contains(a, "?") || strings.Contains(b, "?"):
				o.Status, o.Detail = Undecided, "row not understood: "+desc
			case a == b && !strings.Contains(a, "other-builder("):
				o.Status, o.Detail = Discharged, desc
			case a == b:
				// same text, but both delegate to a differently named builder: compare those
				o.Status, o.Detail = Undecided, "both rows delegate to another builder: "+desc
			default:
				o.Status = Violated
				o.Detail = "the default value of a " + mbShortKind(kind) + " differs between the engines: " + desc
				if strings.Contains(a, "other-builder(") || strings.Contains(b, "other-builder(") {
					o.Detail += " — a component default is produced by a different builder than the enclosing value (its table differs: e.g. an object without its declared fields), so nested defaults diverge; member access on a missing field is a Go panic"
				}
			}
			obs = append(obs, o)
		}
	}
	if paired == 0 {
		obs = append(obs, Obligation{Key: "default|consumers", Status: Undecided, Pos: "?", Detail: "no consumer role is shared by the two engines: cannot pair the default builders"})
	}
	return obs
}

// ---------------------------------------------------------------------------
// kinds without a default must be rejected where a default is needed
// ---------------------------------------------------------------------------

type r3dReject struct {
	status Status
	detail string
	pos    token.Pos
}

// r3dAnalyzerRejects decides, for one consumer role (Owner.Field of an analysed node), whether the
// analyzer rejects every type kind for which a default builder has no row (panics).
func r3dAnalyzerRejects(x *r3dCtx, role string, panicKinds map[string]bool, recursive map[string]bool) r3dReject {
	c := x.c
	parts := strings.SplitN(role, ".", 2)
	if len(parts) != 2 || !c.HasPkg("homescript/analyzer") {
		return r3dReject{status: Undecided, detail: "consumer role " + role + " is not a field of an analysed node"}
	}
	p := c.Pkg("homescript/analyzer")
	info := p.TypesInfo
	an := x.an
	// rejecting levels: diagnostic level constants the analyzer compares a diagnostic's level with
	// (`d.Level == C`, `switch d.Level { case C: … }`); a reporter is a function that mentions such a
	// constant other than in a comparison (it stores / passes it on as the level of a new diagnostic)
	rejecting := map[*types.Const]bool{}
	compared := map[ast.Expr]bool{}
	isLevelField := func(e ast.Expr, k *types.Const) bool {
		sel, ok := ast.Unparen(e).(*ast.SelectorExpr)
		if !ok {
			return false
		}
		v, ok := info.Uses[sel.Sel].(*types.Var)
		return ok && v.IsField() && types.Identical(v.Type(), k.Type())
	}
	for _, fd := range AllFuncDecls(p) {
		ast.Inspect(fd.Body, func(n ast.Node) bool {
			switch x := n.(type) {
			case *ast.BinaryExpr:
				if x.Op != token.EQL && x.Op != token.NEQ {
					return true
				}
				for _, pair := range [][2]ast.Expr{{x.X, x.Y}, {x.Y, x.X}} {
					if k := ConstOf(info, pair[1]); k != nil && isLevelField(pair[0], k) {
						compared[pair[1]] = true
						if x.Op == token.EQL {
							rejecting[k] = true
						}
					}
				}
			case *ast.SwitchStmt:
				if x.Tag == nil {
					return true
				}
				for _, cl := range x.Body.List {
					for _, e := range cl.(*ast.CaseClause).List {
						if k := ConstOf(info, e); k != nil && isLevelField(x.Tag, k) {
							compared[e] = true
							rejecting[k] = true
						}
					}
				}
			}
			return true
		})
	}
	reporters := map[*types.Func]bool{}
	decls := map[*types.Func]*ast.FuncDecl{}
	for _, fd := range AllFuncDecls(p) {
		fn, ok := info.Defs[fd.Name].(*types.Func)
		if !ok {
			continue
		}
		decls[fn] = fd
		ast.Inspect(fd.Body, func(n ast.Node) bool {
			if e, ok := n.(ast.Expr); ok && !compared[e] {
				if _, isSel := e.(*ast.SelectorExpr); isSel {
					if k := ConstOf(info, e); k != nil && rejecting[k] {
						reporters[fn] = true
					}
					return false
				}
				if id, isID := e.(*ast.Ident); isID {
					if k, ok := info.Uses[id].(*types.Const); ok && rejecting[k] {
						reporters[fn] = true
					}
				}
			}
			return true
		})
	}
	if len(reporters) == 0 {
		return r3dReject{status: Undecided, detail: "no error reporter found in the analyzer (a method that records a diagnostic of the level the analyzer tests for failure)"}
	}
	callsReporter := func(n ast.Node) bool {
		found := false
		ast.Inspect(n, func(m ast.Node) bool {
			if call, ok := m.(*ast.CallExpr); ok && reporters[CalleeOf(info, call)] {
				found = true
			}
			return true
		})
		return found
	}
	// the analyzer function that builds the node: literal Owner{… Field: V …}
	var site *ast.FuncDecl
	var val ast.Expr
	for _, fd := range AllFuncDecls(p) {
		ast.Inspect(fd.Body, func(n ast.Node) bool {
			cl, ok := n.(*ast.CompositeLit)
			if !ok {
				return true
			}
			nt, ok := types.Unalias(info.TypeOf(cl)).(*types.Named)
			if !ok || nt.Obj().Name() != parts[0] || nt.Obj().Pkg() != an.pkg.Types {
				return true
			}
			for _, el := range cl.Elts {
				if kv, ok := el.(*ast.KeyValueExpr); ok {
					if id, ok := kv.Key.(*ast.Ident); ok && id.Name == parts[1] {
						site, val = fd, kv.Value
					}
				}
			}
			return true
		})
	}
	if site == nil {
		return r3dReject{status: Undecided, detail: "no analyzer function builds " + role}
	}
	// V: a local defined by a call of the type converter
	vobj := r2tObj(info, val)
	var conv *ast.FuncDecl
	if id, ok := ast.Unparen(val).(*ast.Ident); ok {
		if def := r2tSingleDef(info, site, id); def != nil {
			if call, ok := ast.Unparen(def).(*ast.CallExpr); ok {
				conv = decls[CalleeOf(info, call)]
			}
		}
	}
	if conv == nil || vobj == nil {
		return r3dReject{status: Undecided, pos: site.Pos(), detail: "cannot see which conversion produces " + role + " in " + FuncName(site)}
	}
	// kinds the converter can produce without having reported an error
	ctorKind := func(e ast.Expr) string {
		call, ok := ast.Unparen(e).(*ast.CallExpr)
		if !ok {
			return ""
		}
		fd := an.decls[CalleeOf(info, call)]
		if fd == nil {
			return ""
		}
		kind := ""
		ast.Inspect(fd.Body, func(n ast.Node) bool {
			if cl, ok := n.(*ast.CompositeLit); ok {
				if nt, ok := types.Unalias(an.info.TypeOf(cl)).(*types.Named); ok {
					if aim := an.byType[nt.Obj()]; aim != nil {
						kind = aim.kind.Name()
					}
				}
			}
			return true
		})
		return kind
	}
	produced := map[string]bool{}
	var stack []ast.Node
	ast.Inspect(conv.Body, func(n ast.Node) bool {
		if n == nil {
			stack = stack[:len(stack)-1]
			return true
		}
		stack = append(stack, n)
		r, ok := n.(*ast.ReturnStmt)
		if !ok || len(r.Results) != 1 {
			return true
		}
		k := ctorKind(r.Results[0])
		if k == "" {
			return true
		}
		erroring := false
		for i := len(stack) - 2; i >= 0; i-- {
			if _, isClause := stack[i].(*ast.CaseClause); isClause {
				break
			}
			if blk, ok := stack[i].(*ast.BlockStmt); ok && blk != conv.Body && callsReporter(blk) {
				erroring = true
			}
		}
		if !erroring {
			produced[k] = true
		}
		return true
	})
	if len(produced) < 3 {
		return r3dReject{status: Undecided, pos: conv.Pos(), detail: fmt.Sprintf("only %d type kinds recognised as results of %s", len(produced), FuncName(conv))}
	}
	need := map[string]bool{}
	for k := range produced {
		if panicKinds[k] {
			need[k] = true
		}
	}
	// the rejection guard in the building function: a reporter call under a condition on V's kinds
	rejected := map[string]bool{}
	recurses := map[string]bool{}
	guard := ""
	mentionsV := func(n ast.Node) bool {
		found := false
		ast.Inspect(n, func(m ast.Node) bool {
			if id, ok := m.(*ast.Ident); ok && r2tObj(info, id) == vobj {
				found = true
			}
			return true
		})
		return found
	}
	kindsOfPredicate := func(fd *ast.FuncDecl) {
		self, _ := info.Defs[fd.Name].(*types.Func)
		ast.Inspect(fd.Body, func(n ast.Node) bool {
			cc, ok := n.(*ast.CaseClause)
			if !ok {
				return true
			}
			positive := false
			for _, st := range cc.Body {
				if r, ok := st.(*ast.ReturnStmt); ok && len(r.Results) >= 1 {
					tv := info.Types[r.Results[0]]
					if !tv.IsNil() && !(tv.Value != nil && tv.Value.ExactString() == "false") {
						positive = true
					}
				}
			}
			rec := false
			ast.Inspect(cc, func(m ast.Node) bool {
				if call, ok := m.(*ast.CallExpr); ok && CalleeOf(info, call) == self {
					rec = true
				}
				return true
			})
			for _, e := range cc.List {
				if k := ConstOf(info, e); k != nil {
					if positive {
						rejected[k.Name()] = true
					}
					if rec {
						recurses[k.Name()] = true
					}
				}
			}
			return true
		})
	}
	ast.Inspect(site.Body, func(n ast.Node) bool {
		switch s := n.(type) {
		case *ast.IfStmt:
			if !callsReporter(s.Body) {
				return true
			}
			parts := []ast.Node{s.Init, s.Cond}
			// a condition held in a local: `bad := pred(v); if bad { … }`
			ast.Inspect(s.Cond, func(m ast.Node) bool {
				if id, ok := m.(*ast.Ident); ok {
					if def := r2tSingleDef(info, site, id); def != nil {
						parts = append(parts, def)
					}
				}
				return true
			})
			for _, part := range parts {
				if part == nil || isNilNode(part) {
					continue
				}
				ast.Inspect(part, func(m ast.Node) bool {
					call, ok := m.(*ast.CallExpr)
					if !ok || !mentionsV(call) {
						return true
					}
					if fd := decls[CalleeOf(info, call)]; fd != nil && !reporters[CalleeOf(info, call)] {
						guard = FuncName(fd)
						kindsOfPredicate(fd)
					}
					return true
				})
			}
		case *ast.SwitchStmt:
			if s.Tag == nil || !mentionsV(s.Tag) {
				return true
			}
			for _, cl := range s.Body.List {
				cc := cl.(*ast.CaseClause)
				if !callsReporter(cc) {
					continue
				}
				guard = "switch " + exprStr(s.Tag)
				for _, e := range cc.List {
					if k := ConstOf(info, e); k != nil {
						rejected[k.Name()] = true
					}
				}
			}
		}
		return true
	})
	var missing, shallow []string
	for _, k := range mbSortedKeys(need) {
		if !rejected[k] {
			missing = append(missing, mbShortKind(k))
		}
	}
	if len(need) > 0 {
		for _, k := range mbSortedKeys(recursive) {
			if produced[k] && !recurses[k] && !rejected[k] {
				shallow = append(shallow, mbShortKind(k))
			}
		}
	}
	var needL, prodL []string
	for _, k := range mbSortedKeys(need) {
		needL = append(needL, mbShortKind(k))
	}
	for _, k := range mbSortedKeys(produced) {
		prodL = append(prodL, mbShortKind(k))
	}
	desc := fmt.Sprintf("%s builds %s from %s, which can yield the kinds {%s}; the default builders have no row for {%s} of them", FuncName(site), role, FuncName(conv), strings.Join(prodL, ", "), strings.Join(needL, ", "))
	switch {
	case len(missing) > 0:
		return r3dReject{status: Violated, pos: site.Pos(), detail: desc + "; the analyzer does not reject {" + strings.Join(missing, ", ") + "} there (guard: " + map[bool]string{true: "none", false: guard}[guard == ""] + "): an accepted program whose declaration has such a type makes the default builder panic in both engines (host crash), e.g. a singleton of a function type"}
	case len(shallow) > 0:
		return r3dReject{status: Violated, pos: site.Pos(), detail: desc + "; the guard " + guard + " does not look into the components of {" + strings.Join(shallow, ", ") + "}, whose defaults are built recursively: a nested type without a default still reaches the builder"}
	default:
		return r3dReject{status: Discharged, pos: site.Pos(), detail: desc + "; all of them are rejected by " + guard + " (components of recursively built kinds are inspected)"}
	}
}
