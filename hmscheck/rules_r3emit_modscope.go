package main

// R-module-scope (r3emit): name-resolution roots are per module.

import (
	"fmt"
	"go/ast"
	"go/types"
	"sort"
	"strings"
)

func init() {
	register(&Rule{ID: "R-module-scope", Floor: 3, Run: ruleR3ModuleScope,
		Doc: "name resolution roots are per module. In every loop of the compiler that iterates over the modules of the program (range over map[string]AnalyzedProgram), every call that can register a variable name in the scope that is current at the call (the registrar — the method writing the current scope map — directly, or a function that reaches it without pushing a scope of its own first) must run in a scope that was created (scope push) or selected (assignment of the scope stack from something indexed by the loop's module variable) INSIDE that iteration; a registration at the scope level the iteration was entered with writes into a scope object shared by all iterations, i.e. by all modules. And the functions of a module are compiled while that same per-module scope is the resolution root (same iteration / same selection). Necessary for C15 (an imported function executes against the globals of its defining module even when other modules define globals of the same name): with one shared root scope map, module a's function reading its private global `counter` is linked to whichever module registered `counter` last (`let counter = 10; pub fn geta() -> int { counter }` in a, `let counter = 1;` in main: geta() returns 1)"})
}

func ruleR3ModuleScope(c *Ctx) []Obligation {
	r2LoopCtx = c
	roles := vmCompRoles(c)
	// registrar by role (as in R-scope-binding)
	var registrar *types.Func
	for _, fn := range roles.fns {
		obj, _ := fn.info.Defs[fn.fd.Name].(*types.Func)
		if obj == nil || fn.fd.Recv == nil {
			continue
		}
		sig := obj.Type().(*types.Signature)
		if sig.Results().Len() != 1 || !types.Identical(sig.Results().At(0).Type(), types.Typ[types.String]) {
			continue
		}
		ast.Inspect(fn.fd.Body, func(n ast.Node) bool {
			as, ok := n.(*ast.AssignStmt)
			if !ok {
				return true
			}
			for _, l := range as.Lhs {
				if ix, ok := ast.Unparen(l).(*ast.IndexExpr); ok {
					if m, ok := fn.info.TypeOf(ix.X).Underlying().(*types.Map); ok && types.Identical(m.Key(), types.Typ[types.String]) && types.Identical(m.Elem(), types.Typ[types.String]) {
						registrar = obj
					}
				}
			}
			return true
		})
	}
	if registrar == nil {
		fatalf("anchor unresolved: the Compiler method that registers a mangled variable name in the current scope")
	}
	progObj := roles.astPkg.Scope().Lookup("AnalyzedProgram")
	if progObj == nil {
		fatalf("anchor unresolved: analyzer/ast.AnalyzedProgram")
	}
	isModuleColl := func(t types.Type) bool {
		if t == nil {
			return false
		}
		switch u := t.Underlying().(type) {
		case *types.Map:
			return types.Identical(u.Elem(), progObj.Type())
		case *types.Slice:
			return types.Identical(u.Elem(), progObj.Type())
		}
		return false
	}
	reaches := func(g *types.Func) bool {
		return g == registrar || roles.reachableFrom(g)[registrar]
	}
	isScopeStore := func(info *types.Info, lhs ast.Expr) bool {
		f := vmFieldOf(info, lhs)
		if f == nil {
			return false
		}
		if f == roles.scopes.field {
			return true
		}
		t := f.Type()
		if p, ok := t.Underlying().(*types.Pointer); ok {
			t = p.Elem()
		}
		if m, ok := t.Underlying().(*types.Map); ok {
			return types.Identical(m.Key(), types.Typ[types.String]) && types.Identical(m.Elem(), types.Typ[types.String])
		}
		return false
	}
	// net effect of a call on the depth of the scope stack (primitives and helpers built from them)
	ss := r2NewFieldSumm(c, roles.fns, roles.scopes.field, roles.scopes)
	scopeDelta := func(g *types.Func) int {
		d, unknown := ss.call(g)
		if unknown {
			return 0
		}
		return d
	}
	walks := map[*types.Func]*vmWalkResult{}
	walkOf := func(g *types.Func) *vmWalkResult {
		if w, ok := walks[g]; ok {
			return w
		}
		fn := roles.byObj[g]
		info := fn.info
		rel := func(n ast.Node) bool {
			call, ok := n.(*ast.CallExpr)
			if !ok {
				return false
			}
			h := CalleeOf(info, call)
			if h == nil {
				if id, ok := call.Fun.(*ast.Ident); ok {
					if b, isB := info.Uses[id].(*types.Builtin); isB && b.Name() == "panic" {
						return true
					}
				}
				return false
			}
			if _, ok := roles.scopes.push[h]; ok {
				return true
			}
			if _, ok := roles.scopes.pop[h]; ok {
				return true
			}
			return (roles.byObj[h] != nil && reaches(h)) || vmAlwaysPanics(c, h)
		}
		w := vmWalk(vmWalkOpts{fn: fn, correlate: true, replace: vmSlicer(rel)})
		walks[g] = w
		return w
	}
	// regAtEntry(g): on some path g registers a name in the scope that was current at its entry
	regAtEntry := map[*types.Func]bool{registrar: true}
	var cands []*types.Func
	for g := range roles.byObj {
		if g != registrar && reaches(g) {
			cands = append(cands, g)
		}
	}
	sort.Slice(cands, func(i, j int) bool { return roles.byObj[cands[i]].name < roles.byObj[cands[j]].name })
	var undecided []string
	for changed, round := true, 0; changed && round < 8; round++ {
		changed = false
		for _, g := range cands {
			if regAtEntry[g] {
				continue
			}
			w := walkOf(g)
			if w.overflow {
				if round == 0 {
					undecided = append(undecided, roles.byObj[g].name+": path cap exceeded")
				}
				regAtEntry[g] = true // conservative
				changed = true
				continue
			}
		paths:
			for i := range w.paths {
				d := 0
				for _, e := range w.paths[i].ev {
					if e.K != evCall || e.Fn == nil || e.Deferred {
						continue
					}
					if d <= 0 && regAtEntry[e.Fn] {
						regAtEntry[g] = true
						changed = true
						break paths
					}
					d += scopeDelta(e.Fn)
				}
			}
		}
	}

	var obs []Obligation
	type siteV struct {
		key, pos string
		bad      []string
		okHow    string
		kind     string // "toplevel" (registers at the iteration's entry level) | "own-scope"
		base     string
		call     *ast.CallExpr
		loop     string
		scoped   bool // every path: a per-module scope is pushed / selected when the call runs
		viaPush  bool
		unscoped []string
	}
	var allSites []*siteV
	nLoops := 0
	for _, fn := range roles.fns {
		info := fn.info
		// outermost module loops
		var loops []*ast.RangeStmt
		var find func(n ast.Node, inside bool)
		find = func(n ast.Node, inside bool) {
			ast.Inspect(n, func(m ast.Node) bool {
				if m == nil || m == n {
					return true
				}
				if rs, ok := m.(*ast.RangeStmt); ok && isModuleColl(info.TypeOf(rs.X)) {
					if !inside {
						loops = append(loops, rs)
					}
					find(rs.Body, true)
					return false
				}
				return true
			})
		}
		find(fn.fd.Body, false)
		for li, rs := range loops {
			nLoops++
			loopName := fmt.Sprintf("%s|loop over the modules #%d", fn.name, li+1)
			keyV, valV := vmObjOf(info, rs.Key), vmObjOf(info, rs.Value)
			mentionsModule := func(e ast.Node) bool {
				return e != nil && ((keyV != nil && vmMentionsObj(info, e, keyV)) || (valV != nil && vmMentionsObj(info, e, valV)))
			}
			rel := func(n ast.Node) bool {
				switch x := n.(type) {
				case *ast.CallExpr:
					h := CalleeOf(info, x)
					if h == nil {
						return false
					}
					if _, ok := roles.scopes.push[h]; ok {
						return true
					}
					if _, ok := roles.scopes.pop[h]; ok {
						return true
					}
					return roles.byObj[h] != nil && reaches(h)
				case *ast.AssignStmt:
					for _, l := range x.Lhs {
						if isScopeStore(info, l) {
							return true
						}
					}
				}
				return false
			}
			w := vmWalk(vmWalkOpts{fn: fn, body: rs.Body, correlate: true, replace: vmSlicer(rel)})
			if w.overflow {
				obs = append(obs, Obligation{Key: loopName + "|<paths>", Pos: c.Pos(rs.Pos()), Status: Undecided, Detail: "path cap exceeded"})
				continue
			}
			sites := map[*ast.CallExpr]*siteV{}
			var order []*ast.CallExpr
			count := map[string]int{}
			for i := range w.paths {
				p := &w.paths[i]
				if p.o.kind == cPanic {
					continue
				}
				d := 0
				selected := false
				for _, e := range p.ev {
					switch e.K {
					case evAssign:
						if isScopeStore(info, e.Lhs) && mentionsModule(e.Rhs) {
							selected = true
						}
					case evCall:
						if e.Fn == nil || e.Deferred {
							continue
						}
						if roles.byObj[e.Fn] == nil || !reaches(e.Fn) {
							d += scopeDelta(e.Fn)
							continue
						}
						dAfter := d + scopeDelta(e.Fn)
						sv := sites[e.Call]
						if sv == nil {
							sv = &siteV{base: loopName + "|" + vmTrunc(exprStr(e.Call), 60), pos: c.Pos(e.Pos), call: e.Call, loop: loopName, scoped: true}
							sites[e.Call] = sv
							order = append(order, e.Call)
						}
						if d <= 0 && !selected {
							sv.scoped = false
							sv.unscoped = append(sv.unscoped, fmt.Sprintf("path [%s]", vmTrunc(p.decisions(), 160)))
						} else if d > 0 && !selected {
							sv.viaPush = true
						}
						if !regAtEntry[e.Fn] {
							sv.kind = "own-scope"
							sv.okHow = fmt.Sprintf("%s registers names only inside scopes it pushes itself", e.Fn.Name())
							d = dAfter
							continue
						}
						sv.kind = "toplevel"
						if d <= 0 && !selected {
							sv.bad = append(sv.bad, fmt.Sprintf("path [%s]", vmTrunc(p.decisions(), 160)))
						} else if d > 0 {
							sv.okHow = "runs inside a scope pushed in this iteration"
						} else {
							sv.okHow = "runs after the scope stack was selected from the module variable in this iteration"
						}
						d = dAfter
					}
				}
			}
			sort.Slice(order, func(i, j int) bool { return order[i].Pos() < order[j].Pos() })
			for _, call := range order {
				sv := sites[call]
				count[sv.base]++
				sv.key = sv.base
				if count[sv.base] > 1 {
					sv.key += fmt.Sprintf(" #%d", count[sv.base])
				}
				allSites = append(allSites, sv)
			}
		}
	}
	// are top-level names registered per module anywhere? (then the functions must be compiled under that scope)
	perModule := false
	topLoops := map[string]bool{}
	for _, sv := range allSites {
		if sv.kind == "toplevel" {
			topLoops[sv.loop] = true
			if len(sv.bad) == 0 {
				perModule = true
			}
		}
	}
	for _, sv := range allSites {
		ob := Obligation{Pos: sv.pos, Nontrivial: true}
		if sv.kind == "toplevel" {
			ob.Key = "top-level names of a module are registered in a scope created or selected for that module|" + sv.key
			if len(sv.bad) > 0 {
				ob.Status = Violated
				ob.Detail = fmt.Sprintf("the call can register a variable name (through %s) in the scope that is current when the loop body is entered, and no scope is pushed or selected for the module before it (%s). That scope object exists before the loop over the modules and is therefore shared by all iterations: the top-level names of ALL modules land in one scope map, a later module overwrites the entry of an earlier module's same-named global, and every function — whichever module it belongs to — resolves the identifier to the last registration (module a: `let counter = 10; pub fn geta() -> int { counter }`; main: `import { geta } from a; let counter = 1; fn main() { println(geta(), counter); }` prints `1 1` on the VM, `10 1` on the interpreter)", registrar.Name(), strings.Join(vmUniq(sv.bad), ", "))
			} else {
				ob.Status, ob.Detail = Discharged, sv.okHow
			}
		} else {
			ob.Key = "a module's code is compiled while the module's own scope is the resolution root|" + sv.key
			switch {
			case !perModule:
				ob.Status, ob.Detail = Discharged, sv.okHow+"; no per-module scope exists on this tree (see the top-level registration obligations), so there is nothing to keep installed"
			case !sv.scoped:
				ob.Status, ob.Detail = Violated, fmt.Sprintf("top-level names are registered in per-module scopes, but this call compiles a module's code while no scope was pushed or selected for the module in this iteration (%s): identifiers resolve against whatever scope is left on the stack", strings.Join(vmUniq(sv.unscoped), ", "))
			case sv.viaPush && !topLoops[sv.loop]:
				ob.Status, ob.Detail = Violated, "the scope pushed in this iteration is a fresh one: the module's top-level names were registered in a different loop, in a scope that has been popped since"
			default:
				ob.Status, ob.Detail = Discharged, sv.okHow+"; a scope pushed / selected for the module in this iteration is the resolution root"
			}
		}
		obs = append(obs, ob)
	}
	if nLoops == 0 {
		obs = append(obs, Obligation{Key: "compiler|loops over the modules", Status: Undecided, Detail: "no loop over a collection of AnalyzedProgram found in the compiler: the driver changed shape; re-anchor the rule"})
	}
	for _, u := range undecided {
		obs = append(obs, Obligation{Key: "compiler|summary|" + u, Status: Info, Detail: "treated conservatively as registering at its entry scope"})
	}
	// (b) functions are compiled under the same per-module root: decided only when the
	// registrations themselves are per module (otherwise the obligations above carry the verdict)
	return obs
}
