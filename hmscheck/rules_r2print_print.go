package main

// r2print: R-print-all-paths and R-print-delimiters — path-sensitive checks of
// the String() methods of the two ASTs. The returned string of every path is
// evaluated symbolically into a template: literal chunks and holes labelled
// with the access paths (receiver fields) whose text is inserted there.

import (
	"fmt"
	"go/ast"
	"go/constant"
	"go/token"
	"go/types"
	"sort"
	"strconv"
	"strings"

	"golang.org/x/tools/go/packages"
)

func init() {
	register(&Rule{ID: "R-print-all-paths", Floor: 140, Run: func(c *Ctx) []Obligation { return r2pPrintRun(c).all },
		Doc: "For every String() method of a node struct of parser/ast and analyzer/ast (the printers of C19) and every field of the receiver that the print role of R-traversal requires " +
			"(children, identifiers, types, syntactic flags/operators/payloads; layout spans and analysis results exempt) and that the method mentions at all: on EVERY path to a return the field's text is part of the returned string " +
			"(the symbolic value of the result contains the field: formatted by fmt, concatenated, joined, passed through a helper or handed on as a whole), unless the path has established that the field is empty " +
			"(nil test, len == 0, a range over it that was not entered, `!flag`, == \"\"), that the child is of a node kind without content, or — for flags/operators — that the path branched on it. " +
			"R-traversal only demands that the field is read somewhere; a printer that inspects a child in a condition and then returns text without it on a path where the child exists " +
			"(`return note(\"x\");` printed as `return;` because the value's TYPE is null) prints a different program. Fields the method never mentions are R-traversal's findings and are not repeated here."})
	register(&Rule{ID: "R-print-delimiters", Floor: 220, Run: func(c *Ctx) []Obligation { return r2pPrintRun(c).delims },
		Doc: "For every String() method of a node struct and every child/type field it prints: the bracket context of the field's text in the returned string — the unmatched opening delimiters ( [ { \" to its left and the unmatched closing ones to its right, " +
			"computed on the symbolic result of each path — is the same on every path that prints the field; a printer that encloses a child in `(`…`)` on some paths and prints it bare on others is only accepted when the twin struct's printer " +
			"shows the same set of contexts for the same field. Where both twins print a same-named child/type field the sets of contexts must agree as well. " +
			"Necessary: the delimiters are what makes the printed child re-parse as one operand (`(-n).to_string()` printed as `-n.to_string()` binds differently); the analysed twin prints them unconditionally, so a conditional omission " +
			"is a claim about precedence the rule cannot check and the twin does not share."})
}

// ---------------------------------------------------------------------------
// templates
// ---------------------------------------------------------------------------

type r2pSeg struct {
	lit  string
	hole map[string]bool // access paths (nil for a literal segment)
	imp  bool            // implicit flow: the text was chosen under a branch on these paths (counts for flags/operators only)
	// chain: the formatting steps applied to the hole's value, innermost first ("conv:int64", "%d", "helper:escape",
	// "FormatFloat('f',-1,64)", "trim", …) — used by R-print-payload
	chain []string
}

// wrap records a formatting step on every data hole of the template.
func (t r2pTmpl) wrap(op string) r2pTmpl {
	if len(t) == 0 {
		return t
	}
	out := make(r2pTmpl, len(t))
	for i, sg := range t {
		if sg.hole != nil && !sg.imp {
			sg.chain = append(append([]string(nil), sg.chain...), op)
		}
		out[i] = sg
	}
	return out
}

type r2pTmpl []r2pSeg

func r2pLit(s string) r2pTmpl {
	if s == "" {
		return nil
	}
	return r2pTmpl{{lit: s}}
}

func r2pHole(paths ...string) r2pTmpl {
	if len(paths) == 0 {
		return nil
	}
	h := map[string]bool{}
	for _, p := range paths {
		h[p] = true
	}
	return r2pTmpl{{hole: h}}
}

func r2pCat(ts ...r2pTmpl) r2pTmpl {
	var out r2pTmpl
	for _, t := range ts {
		out = append(out, t...)
	}
	if len(out) > 400 { // keep loops that build strings bounded
		out = out[:400]
	}
	return out
}

func (t r2pTmpl) holes() map[string]bool {
	out := map[string]bool{}
	for _, s := range t {
		if s.imp {
			continue
		}
		for p := range s.hole {
			out[p] = true
		}
	}
	return out
}

func (t r2pTmpl) allHoles() map[string]bool {
	out := map[string]bool{}
	for _, s := range t {
		for p := range s.hole {
			out[p] = true
		}
	}
	return out
}

func r2pImplicit(paths []string) r2pTmpl {
	if len(paths) == 0 {
		return nil
	}
	h := map[string]bool{}
	for _, p := range paths {
		h[p] = true
	}
	return r2pTmpl{{hole: h, imp: true}}
}

// holesOnly: the template with its literal text removed (an opaque helper was applied).
func (t r2pTmpl) holesOnly() r2pTmpl {
	var out r2pTmpl
	for _, sg := range t {
		if sg.hole != nil {
			out = append(out, sg)
		}
	}
	return out
}

func (t r2pTmpl) String() string {
	var sb strings.Builder
	for _, s := range t {
		if s.imp {
			continue
		}
		if s.hole == nil {
			sb.WriteString(strconv.Quote(s.lit))
		} else {
			sb.WriteString("⟨" + strings.Join(r2pSorted(s.hole), ",") + "⟩")
		}
	}
	return sb.String()
}

// r2pSig: bracket context of segment i.
func r2pSig(t r2pTmpl, i int) string {
	var left, right strings.Builder
	for j, s := range t {
		if s.hole != nil || s.imp {
			continue
		}
		if j < i {
			left.WriteString(s.lit)
		} else if j > i {
			right.WriteString(s.lit)
		}
	}
	match := map[rune]rune{')': '(', ']': '[', '}': '{'}
	var stack []rune
	inQ := false
	for _, r := range left.String() {
		switch r {
		case '"':
			inQ = !inQ
		case '(', '[', '{':
			if !inQ {
				stack = append(stack, r)
			}
		case ')', ']', '}':
			if !inQ && len(stack) > 0 && stack[len(stack)-1] == match[r] {
				stack = stack[:len(stack)-1]
			}
		}
	}
	open := string(stack)
	if inQ {
		open += `"`
	}
	var closers []rune
	var st2 []rune
	q := inQ
	for _, r := range right.String() {
		switch r {
		case '"':
			if q && inQ {
				closers = append(closers, '"')
				inQ = false
			}
			q = !q
		case '(', '[', '{':
			if !q {
				st2 = append(st2, r)
			}
		case ')', ']', '}':
			if q {
				break
			}
			if len(st2) > 0 && st2[len(st2)-1] == match[r] {
				st2 = st2[:len(st2)-1]
			} else {
				closers = append(closers, r)
			}
		}
	}
	return open + "…" + string(closers)
}

// ---------------------------------------------------------------------------
// symbolic evaluation of string-building code
// ---------------------------------------------------------------------------

type r2pPrinter struct {
	*r2pEnv
	enclosing map[ast.Stmt][]ast.Expr // leaf statement -> conditions / switch tags it is nested in
}

// implicit: the access paths the enclosing branch conditions of a statement mention.
func (e *r2pPrinter) implicit(st *r2pState, s ast.Stmt) r2pTmpl {
	var ps []string
	for _, c := range e.enclosing[s] {
		ps = append(ps, e.pathsIn(st, c)...)
	}
	return r2pImplicit(ps)
}

func r2pEnclosing(body *ast.BlockStmt) map[ast.Stmt][]ast.Expr {
	out := map[ast.Stmt][]ast.Expr{}
	var walk func(list []ast.Stmt, conds []ast.Expr)
	var one func(s ast.Stmt, conds []ast.Expr)
	with := func(conds []ast.Expr, more ...ast.Expr) []ast.Expr {
		n := append([]ast.Expr(nil), conds...)
		for _, m := range more {
			if m != nil {
				n = append(n, m)
			}
		}
		return n
	}
	one = func(s ast.Stmt, conds []ast.Expr) {
		switch x := s.(type) {
		case *ast.BlockStmt:
			walk(x.List, conds)
		case *ast.IfStmt:
			if x.Init != nil {
				one(x.Init, conds)
			}
			walk(x.Body.List, with(conds, x.Cond))
			if x.Else != nil {
				one(x.Else, with(conds, x.Cond))
			}
		case *ast.ForStmt:
			walk(x.Body.List, with(conds, x.Cond))
		case *ast.RangeStmt:
			walk(x.Body.List, conds)
		case *ast.SwitchStmt:
			for _, c := range x.Body.List {
				cc := c.(*ast.CaseClause)
				cs := with(conds, x.Tag)
				if x.Tag == nil {
					cs = with(cs, cc.List...)
				}
				walk(cc.Body, cs)
			}
		case *ast.TypeSwitchStmt:
			for _, c := range x.Body.List {
				walk(c.(*ast.CaseClause).Body, conds)
			}
		case *ast.LabeledStmt:
			one(x.Stmt, conds)
		default:
			out[s] = conds
		}
	}
	walk = func(list []ast.Stmt, conds []ast.Expr) {
		for _, s := range list {
			one(s, conds)
		}
	}
	walk(body.List, nil)
	return out
}

func (e *r2pPrinter) eval(st *r2pState, x ast.Expr) r2pTmpl {
	info := e.info
	x = ast.Unparen(x)
	if call, ok := x.(*ast.CallExpr); ok {
		if tv, ok := info.Types[call.Fun]; ok && tv.IsType() {
			return e.evalCall(st, call) // a conversion is a formatting step, not part of the access path
		}
	}
	if p := e.pathOf(st, x); p != "" {
		// a local aliasing a path has no template of its own
		if id, ok := x.(*ast.Ident); ok {
			if t, ok := st.tmpl[info.Uses[id]]; ok && len(t) > 0 {
				return t
			}
		}
		return r2pHole(p)
	}
	switch y := x.(type) {
	case *ast.BasicLit:
		if y.Kind == token.STRING {
			if s, err := strconv.Unquote(y.Value); err == nil {
				return r2pLit(s)
			}
		}
		return nil
	case *ast.Ident:
		if o := info.Uses[y]; o != nil {
			if t, ok := st.tmpl[o]; ok {
				return t
			}
			if v, ok := o.(*types.Var); ok && v.Pkg() != nil && v.Parent() == v.Pkg().Scope() && r2pIsString(v.Type()) {
				// a package-level format / text with a constant initialiser
				for _, f := range e.pkg.Syntax {
					for _, d := range f.Decls {
						gd, ok := d.(*ast.GenDecl)
						if !ok {
							continue
						}
						for _, sp := range gd.Specs {
							vs, ok := sp.(*ast.ValueSpec)
							if !ok {
								continue
							}
							for i, n := range vs.Names {
								if info.Defs[n] == o && i < len(vs.Values) {
									if tv, ok := info.Types[vs.Values[i]]; ok && tv.Value != nil && tv.Value.Kind() == constant.String {
										return r2pLit(constant.StringVal(tv.Value))
									}
								}
							}
						}
					}
				}
			}
			if k, ok := o.(*types.Const); ok && k.Val().Kind() == constant.String {
				if s, err := strconv.Unquote(k.Val().ExactString()); err == nil {
					return r2pLit(s)
				}
			}
		}
		return nil
	case *ast.BinaryExpr:
		if y.Op == token.ADD {
			return r2pCat(e.eval(st, y.X), e.eval(st, y.Y))
		}
		return r2pCat(e.eval(st, y.X), e.eval(st, y.Y)).holesOnly()
	case *ast.StarExpr:
		return e.eval(st, y.X)
	case *ast.UnaryExpr:
		return e.eval(st, y.X)
	case *ast.IndexExpr:
		// table[key]: the text is chosen by the key
		return r2pCat(e.eval(st, y.X), e.eval(st, y.Index).holesOnly())
	case *ast.SliceExpr:
		return e.eval(st, y.X).wrap("slice")
	case *ast.TypeAssertExpr:
		return e.eval(st, y.X)
	case *ast.CompositeLit:
		var ts []r2pTmpl
		for _, el := range y.Elts {
			if kv, ok := el.(*ast.KeyValueExpr); ok {
				el = kv.Value
			}
			ts = append(ts, e.eval(st, el))
		}
		return r2pCat(ts...)
	case *ast.SelectorExpr:
		// field of a local that is not a path (e.g. a struct built here): its template
		return e.eval(st, y.X)
	case *ast.CallExpr:
		return e.evalCall(st, y)
	}
	return nil
}

func (e *r2pPrinter) evalCall(st *r2pState, call *ast.CallExpr) r2pTmpl {
	info := e.info
	if tv, ok := info.Types[call.Fun]; ok && tv.IsType() {
		if len(call.Args) == 1 {
			t := e.eval(st, call.Args[0])
			if types.Identical(types.Unalias(tv.Type), types.Unalias(info.TypeOf(call.Args[0]))) {
				return t
			}
			return t.wrap("conv:" + types.TypeString(tv.Type, func(*types.Package) string { return "" }))
		}
		return nil
	}
	if id, ok := ast.Unparen(call.Fun).(*ast.Ident); ok {
		if b, ok := info.Uses[id].(*types.Builtin); ok {
			switch b.Name() {
			case "append":
				var ts []r2pTmpl
				for _, a := range call.Args {
					ts = append(ts, e.eval(st, a))
				}
				return r2pCat(ts...)
			case "len", "cap", "make", "new":
				return nil
			}
		}
	}
	callee := CalleeOf(info, call)
	full := ""
	if callee != nil {
		full = callee.FullName()
	}
	args := func(from int) r2pTmpl {
		var ts []r2pTmpl
		for _, a := range call.Args[from:] {
			ts = append(ts, e.eval(st, a))
		}
		return r2pCat(ts...)
	}
	// fmt.Sprintf and the printf-like wrappers of the module (`func render(format string, a ...any) string`)
	fi := -1
	if full == "fmt.Sprintf" {
		fi = 0
	} else if callee != nil && e.m.decls[callee] != nil {
		if i, ok := r5pPrintfLike(e.c, e.m)[callee]; ok && r2pIsString(callee.Type().(*types.Signature).Results().At(0).Type()) {
			fi = i
		}
	}
	if fi >= 0 {
		if len(call.Args) <= fi {
			return nil
		}
		f := e.eval(st, call.Args[fi])
		// a format assembled from constant pieces (`"spawn " + format`), possibly chosen under a branch
		var lit strings.Builder
		var imp r2pTmpl
		constant := len(f) > 0
		for _, sg := range f {
			switch {
			case sg.imp:
				imp = append(imp, sg)
			case sg.hole == nil:
				lit.WriteString(sg.lit)
			default:
				constant = false
			}
		}
		if constant {
			return r2pCat(e.format(st, lit.String(), call.Args[fi+1:]), imp)
		}
		return args(0)
	}
	switch full {
	case "fmt.Sprint", "fmt.Sprintln":
		return args(0).wrap("%v")
	case "strings.Join":
		if len(call.Args) == 2 {
			return e.eval(st, call.Args[0])
		}
	case "strings.TrimSpace", "strings.Repeat":
		if len(call.Args) >= 1 {
			return e.eval(st, call.Args[0])
		}
	case "strings.ReplaceAll", "strings.Replace":
		// re-indentation (whitespace for whitespace) leaves the text of a payload alone
		if len(call.Args) >= 3 {
			t := e.eval(st, call.Args[0])
			if r2pWhitespaceLit(info, call.Args[1]) && r2pWhitespaceLit(info, call.Args[2]) {
				return t
			}
			return t.wrap("replace")
		}
	case "strings.TrimSuffix", "strings.TrimPrefix", "strings.TrimRight", "strings.TrimLeft", "strings.Trim":
		if len(call.Args) >= 2 {
			t := e.eval(st, call.Args[0])
			if r2pWhitespaceLit(info, call.Args[1]) {
				return t
			}
			return t.wrap("trim")
		}
	case "strings.ToUpper", "strings.ToLower", "strings.Title", "strings.ToTitle":
		if len(call.Args) >= 1 {
			return e.eval(st, call.Args[0]).wrap("case")
		}
	case "strconv.Itoa":
		return args(0).wrap("%d")
	case "strconv.FormatInt", "strconv.FormatUint":
		if len(call.Args) == 2 {
			if k, ok := r2pConstInt(info, call.Args[1]); ok && k == 10 {
				return e.eval(st, call.Args[0]).wrap("%d")
			}
			return e.eval(st, call.Args[0]).wrap("FormatInt(base " + exprStr(call.Args[1]) + ")")
		}
	case "strconv.FormatBool":
		return args(0).wrap("%v")
	case "strconv.Quote":
		return args(0).wrap("Quote")
	case "strconv.FormatFloat":
		if len(call.Args) == 4 {
			f, okf := r2pConstInt(info, call.Args[1])
			pr, okp := r2pConstInt(info, call.Args[2])
			bs, okb := r2pConstInt(info, call.Args[3])
			if okf && okp && okb {
				return e.eval(st, call.Args[0]).wrap(fmt.Sprintf("FormatFloat('%c',%d,%d)", rune(f), pr, bs))
			}
			return e.eval(st, call.Args[0]).wrap("FormatFloat(?)")
		}
	}
	// method call
	if se, ok := ast.Unparen(call.Fun).(*ast.SelectorExpr); ok {
		if sel := info.Selections[se]; sel != nil && sel.Kind() == types.MethodVal {
			if p := e.pathOf(st, se.X); p != "" {
				// a method of a field (String(), Ident(), …) stands for the field's text
				return r2pCat(r2pHole(p).wrap("method:"+se.Sel.Name), args(0).holesOnly())
			}
			if id, ok := ast.Unparen(se.X).(*ast.Ident); ok {
				// escaper.Replace(text) on a package-level *strings.Replacer of the module: a string -> string helper
				if v, ok := info.Uses[id].(*types.Var); ok && v.Pkg() != nil && v.Parent() == v.Pkg().Scope() && strings.HasPrefix(v.Pkg().Path(), ModPath) &&
					callee != nil && callee.FullName() == "(*strings.Replacer).Replace" {
					return args(0).holesOnly().wrap("helper:" + v.Pkg().Path() + "." + v.Name())
				}
				if t, ok := st.tmpl[info.Uses[id]]; ok {
					// x.String() of a local builder / x.method(args)
					return r2pCat(t, args(0).holesOnly())
				}
			}
			return r2pCat(e.eval(st, se.X), args(0)).holesOnly()
		}
	}
	// a helper of the module from one string to a string (an escaper): keeps what flows in
	if callee != nil && e.m.decls[callee] != nil {
		sg := callee.Type().(*types.Signature)
		if sg.Params().Len() == 1 && sg.Results().Len() == 1 && r2pIsString(sg.Params().At(0).Type()) && r2pIsString(sg.Results().At(0).Type()) {
			return args(0).holesOnly().wrap("helper:" + callee.FullName())
		}
	}
	// any other function: opaque, keeps what flows in
	name := "?"
	if callee != nil {
		name = callee.Name()
	}
	return args(0).holesOnly().wrap("call:" + name)
}

func r2pIsString(t types.Type) bool {
	b, ok := types.Unalias(t).Underlying().(*types.Basic)
	return ok && b.Info()&types.IsString != 0
}

func r2pConstInt(info *types.Info, x ast.Expr) (int64, bool) {
	tv, ok := info.Types[x]
	if !ok || tv.Value == nil {
		return 0, false
	}
	if v, ok := constant.Int64Val(constant.ToInt(tv.Value)); ok {
		return v, true
	}
	return 0, false
}

// r2pWhitespaceLit: a constant string made of white space only (indentation).
func r2pWhitespaceLit(info *types.Info, x ast.Expr) bool {
	tv, ok := info.Types[x]
	if !ok || tv.Value == nil || tv.Value.Kind() != constant.String {
		return false
	}
	return strings.TrimSpace(constant.StringVal(tv.Value)) == ""
}

func (e *r2pPrinter) format(st *r2pState, f string, args []ast.Expr) r2pTmpl {
	var out []r2pTmpl
	idx := 0
	rest := f
	for {
		loc := travVerbRe.FindStringIndex(rest)
		if loc == nil {
			break
		}
		// "%%" is not matched by the verb expression (its letter class excludes '%')
		out = append(out, r2pLit(rest[:loc[0]]))
		if idx < len(args) {
			out = append(out, e.eval(st, args[idx]).wrap(rest[loc[0]:loc[1]]))
		}
		idx++
		rest = rest[loc[1]:]
	}
	out = append(out, r2pLit(rest))
	for ; idx < len(args); idx++ {
		out = append(out, e.eval(st, args[idx]))
	}
	return r2pCat(out...)
}

func (e *r2pPrinter) setVar(st *r2pState, lhs ast.Expr, t r2pTmpl, accumulate bool) {
	switch l := ast.Unparen(lhs).(type) {
	case *ast.Ident:
		if l.Name == "_" {
			return
		}
		o := e.objOf(l)
		if o == nil {
			return
		}
		if accumulate {
			st.tmpl[o] = r2pCat(st.tmpl[o], t)
		} else {
			st.tmpl[o] = t
		}
	case *ast.IndexExpr:
		e.setVar(st, l.X, t, true)
	case *ast.SelectorExpr:
		e.setVar(st, l.X, t, true)
	case *ast.StarExpr:
		e.setVar(st, l.X, t, accumulate)
	}
}

func (e *r2pPrinter) onStmt(st *r2pState, s ast.Stmt) (*r2pState, bool) {
	switch x := s.(type) {
	case *ast.AssignStmt:
		e.noteFieldStores(st, x)
		if len(x.Lhs) == len(x.Rhs) {
			vals := make([]r2pTmpl, len(x.Rhs))
			imp := e.implicit(st, s)
			for i, r := range x.Rhs {
				vals[i] = r2pCat(e.eval(st, r), imp)
			}
			for i, l := range x.Lhs {
				switch x.Tok {
				case token.ASSIGN, token.DEFINE:
					if id, ok := ast.Unparen(l).(*ast.Ident); ok && id.Name != "_" {
						e.noteAssign(st, e.objOf(id), x.Rhs[i])
					}
					e.setVar(st, l, vals[i], false)
				default: // += etc.
					if id, ok := ast.Unparen(l).(*ast.Ident); ok {
						o := e.objOf(id)
						delete(st.konst, o)
						delete(st.alias, o)
					}
					e.setVar(st, l, vals[i], true)
				}
			}
		} else if len(x.Rhs) == 1 {
			t := e.eval(st, x.Rhs[0]).holesOnly()
			for _, l := range x.Lhs {
				if id, ok := ast.Unparen(l).(*ast.Ident); ok && id.Name != "_" {
					e.noteAssign(st, e.objOf(id), x.Rhs[0])
					delete(st.alias, e.objOf(id))
				}
				e.setVar(st, l, t, false)
			}
		}
	case *ast.DeclStmt:
		if gd, ok := x.Decl.(*ast.GenDecl); ok {
			for _, sp := range gd.Specs {
				vs, ok := sp.(*ast.ValueSpec)
				if !ok {
					continue
				}
				for i, n := range vs.Names {
					o := e.info.Defs[n]
					if o == nil {
						continue
					}
					if i < len(vs.Values) {
						e.noteAssign(st, o, vs.Values[i])
						st.tmpl[o] = r2pCat(e.eval(st, vs.Values[i]), e.implicit(st, s))
					} else {
						e.noteAssign(st, o, nil)
						st.tmpl[o] = nil
					}
				}
			}
		}
	case *ast.ExprStmt:
		// sort.Strings(parts), sort.Slice(xs, less), slices.Reverse(xs) …: the collected texts change their order (R-print-order)
		if call, ok := x.X.(*ast.CallExpr); ok {
			if callee := CalleeOf(e.info, call); callee != nil && callee.Pkg() != nil {
				pp, nm := callee.Pkg().Path(), callee.Name()
				if (pp == "sort" && (nm == "Sort" || nm == "Stable" || nm == "Slice" || nm == "SliceStable" || nm == "Strings" || nm == "Ints" || nm == "Float64s")) ||
					(pp == "slices" && (strings.HasPrefix(nm, "Sort") || nm == "Reverse")) ||
					((pp == "math/rand" || pp == "math/rand/v2") && nm == "Shuffle") {
					for _, a := range call.Args {
						if _, isFn := ast.Unparen(a).(*ast.FuncLit); isFn {
							continue
						}
						for hp := range e.eval(st, a).holes() {
							st.ctrl["reorder:"+hp] = true
							st.trace = append(st.trace, fmt.Sprintf("%s.%s(%s) (line %d)", callee.Pkg().Name(), nm, exprStr(a), e.line(call.Pos())))
						}
					}
				}
			}
		}
		// builder.WriteString(x) and friends: the arguments are accumulated in the receiver local
		if call, ok := x.X.(*ast.CallExpr); ok {
			if se, ok := ast.Unparen(call.Fun).(*ast.SelectorExpr); ok {
				if id, ok := ast.Unparen(se.X).(*ast.Ident); ok {
					if o := e.info.Uses[id]; o != nil && e.roots[o] == "" {
						if _, isVar := o.(*types.Var); isVar && e.pathOf(st, id) == "" {
							var ts []r2pTmpl
							for _, a := range call.Args {
								ts = append(ts, e.eval(st, a))
							}
							ts = append(ts, e.implicit(st, s)) // text written under a branch on a flag prints the flag
							st.tmpl[o] = r2pCat(append([]r2pTmpl{st.tmpl[o]}, ts...)...)
						}
					}
				}
			}
		}
	case *ast.IncDecStmt:
		if id, ok := ast.Unparen(x.X).(*ast.Ident); ok {
			delete(st.konst, e.objOf(id))
		}
	}
	return st, true
}

// ---------------------------------------------------------------------------
// the run (shared by the two rules, cached per Ctx)
// ---------------------------------------------------------------------------

type r2pPrintResult struct {
	all, delims []Obligation
	methods     []*r2pMethodInfo
	infos       map[*travStruct]*r2pMethodInfo
}

var r2pPrintCache = map[*Ctx]*r2pPrintResult{}

type r2pReq struct {
	// partialOf: the requirement belongs to a component struct that has a printer of its own; it is only enforced on
	// paths that print the component (at this access path) PARTIALLY — field by field instead of as a whole
	partialOf string
	path      string
	field     *travField
	owner     *travStruct
}

type r2pMethodInfo struct {
	s    *travStruct
	fd   *ast.FuncDecl
	pkg  *packages.Package
	sigs map[string]map[string]string // top-level field -> signature -> witness (template of a path)
	// tails: trailing terminator (closing punctuation after the last hole: `;`, `}`, `)`, `]`) of the returned text -> witness
	tails map[string]string
	// reorder: list fields whose collected texts are sorted / reversed / shuffled before they are printed -> witness (R-print-order)
	reorder map[string]string
	consts  map[string]bool // complete constant texts the printer returns on some path (no holes)
	// listLoops: list fields the printer walks in a loop; cut: … whose loop is left early / skips an element -> witness
	listLoops map[string]bool
	cut       map[string]string
	root      string   // name of the receiver
	rets      []r2pRet // symbolic result of every return path
	// frame: the delimiters every path of this printer starts and ends with ("{", "}"), "" when not uniform
	frameOpen, frameClose string
	// R-print-payload / R-print-bare-guard (rules_r3print_fmt.go)
	fmts map[string]map[string]*r2pFmtRec  // top-level field -> formatting chain -> record
	bare map[string]map[string]*r2pBareRec // top-level field -> guard function + value -> record
}

type r2pRet struct {
	t     r2pTmpl
	trace string
}

type r2pFmtRec struct {
	chain   []string
	quoted  bool            // printed between double quotes
	exact   map[string]bool // conversions whose exactness the path has tested (type names)
	witness string
}

type r2pBareRec struct {
	via     string // name of the helper the guard sits in ("" = in the printer itself)
	fn      *types.Func
	val     bool // the value of the guard on the path that prints the text bare
	witness string
}

func r2pPrintRun(c *Ctx) *r2pPrintResult {
	if r := r2pPrintCache[c]; r != nil {
		return r
	}
	m := travGetModel(c)
	res := &r2pPrintResult{}
	infos := map[*travStruct]*r2pMethodInfo{}
	var order []*r2pMethodInfo
	for _, p := range []*packages.Package{m.pP, m.pA} {
		for _, fd := range AllFuncDecls(p) {
			if fd.Recv == nil || len(fd.Recv.List) == 0 || fd.Name.Name != "String" {
				continue
			}
			fn, _ := p.TypesInfo.Defs[fd.Name].(*types.Func)
			if fn == nil {
				continue
			}
			sg := fn.Type().(*types.Signature)
			if sg.Params().Len() != 0 || sg.Results().Len() != 1 {
				continue
			}
			s := m.structs[travNamed(sg.Recv().Type())]
			if s == nil || s.IsSem || s.T == m.identT {
				continue
			}
			mi := &r2pMethodInfo{s: s, fd: fd, pkg: p, sigs: map[string]map[string]string{}, tails: map[string]string{},
				fmts: map[string]map[string]*r2pFmtRec{}, bare: map[string]map[string]*r2pBareRec{}}
			infos[s] = mi
			order = append(order, mi)
		}
	}
	sort.Slice(order, func(i, j int) bool { return order[i].s.Name() < order[j].s.Name() })
	for _, mi := range order {
		res.all = append(res.all, r2pPrintMethod(c, m, mi)...)
	}
	res.methods, res.infos = order, infos
	r2pFinishSkeleton(m, res)
	// delimiters
	for _, mi := range order {
		var fields []string
		for f := range mi.sigs {
			fields = append(fields, f)
		}
		sort.Strings(fields)
		for _, f := range fields {
			sigs := mi.sigs[f]
			key := travFuncKey(mi.pkg, mi.fd) + "|" + f + "|delimiters on every path"
			ob := Obligation{Key: key, Pos: c.Pos(mi.fd.Pos()), Nontrivial: true}
			var list []string
			for s := range sigs {
				list = append(list, s)
			}
			sort.Strings(list)
			switch {
			case len(list) == 1:
				ob.Status, ob.Detail = Discharged, fmt.Sprintf("%s.%s is printed in context %q on every path that prints it", mi.s.Short(), f, list[0])
			default:
				var tw map[string]string
				twName := "(no twin)"
				if mi.s.Twin != nil {
					twName = mi.s.Twin.Short()
					if ti := infos[mi.s.Twin]; ti != nil {
						tw = ti.sigs[f]
					}
				}
				same := tw != nil && len(tw) == len(sigs)
				for s := range sigs {
					if _, ok := tw[s]; !ok {
						same = false
					}
				}
				if same {
					ob.Status, ob.Detail = Discharged, fmt.Sprintf("%s.%s is printed in contexts %q depending on the path; the twin %s.String() shows the same set", mi.s.Short(), f, list, twName)
				} else {
					ob.Status = Violated
					var ws []string
					for _, s := range list {
						ws = append(ws, fmt.Sprintf("context %q e.g. on the path returning %s", s, sigs[s]))
					}
					var twl []string
					for s := range tw {
						twl = append(twl, s)
					}
					sort.Strings(twl)
					ob.Detail = fmt.Sprintf("%s.String() prints the %s %s inside different delimiters depending on the path: %s; the twin %s prints it in %q — on the paths without the delimiters the printed child is no longer one operand of the surrounding expression",
						mi.s.Short(), mi.s.Field(f).Class, f, strings.Join(ws, "; "), twName, twl)
				}
			}
			res.delims = append(res.delims, ob)
		}
		// the trailing terminator is printed on every path (a `;` is the closing delimiter of a statement)
		if len(mi.tails) > 0 {
			var tl []string
			for t := range mi.tails {
				tl = append(tl, t)
			}
			sort.Strings(tl)
			ob := Obligation{Key: travFuncKey(mi.pkg, mi.fd) + "|trailing terminator on every path", Pos: c.Pos(mi.fd.Pos()), Nontrivial: true}
			if len(tl) == 1 {
				ob.Status, ob.Detail = Discharged, fmt.Sprintf("every return path of %s.String() ends in %q", mi.s.Short(), tl[0])
			} else {
				ob.Status = Violated
				var ws []string
				for _, t := range tl {
					ws = append(ws, fmt.Sprintf("%q on the %s", t, mi.tails[t]))
				}
				ob.Detail = fmt.Sprintf("%s.String() ends its text in different terminators depending on the path: %s. A terminator that is only printed for some shapes of the node changes how the FOLLOWING text is parsed: "+
					"without its `;` a statement in last position becomes the block's trailing expression, and a following `(`, `[` or `-` continues the expression", mi.s.Short(), strings.Join(ws, "; "))
			}
			res.delims = append(res.delims, ob)
			if m.inA(mi.s.T) && mi.s.Twin != nil && infos[mi.s.Twin] != nil && len(infos[mi.s.Twin].tails) > 0 {
				ti := infos[mi.s.Twin]
				var tt []string
				for t := range ti.tails {
					tt = append(tt, t)
				}
				sort.Strings(tt)
				ob := Obligation{Key: mi.s.Twin.Short() + "~" + mi.s.Short() + "|trailing terminator|twins end alike", Pos: c.Pos(mi.fd.Pos()), Nontrivial: true}
				if strings.Join(tl, "|") == strings.Join(tt, "|") {
					ob.Status, ob.Detail = Discharged, fmt.Sprintf("both printers end in %q", tl)
				} else {
					ob.Status = Violated
					ob.Detail = fmt.Sprintf("%s.String() ends in %q, its twin %s.String() in %q: one of the two drops or adds the terminator of the construct", mi.s.Short(), tl, ti.s.Short(), tt)
				}
				res.delims = append(res.delims, ob)
			}
		}
		// twin agreement on same-named fields (analyzed side reports)
		if m.inA(mi.s.T) && mi.s.Twin != nil && infos[mi.s.Twin] != nil {
			ti := infos[mi.s.Twin]
			for _, f := range fields {
				tw, ok := ti.sigs[f]
				if !ok {
					continue
				}
				a, b := r2pKeys(mi.sigs[f]), r2pKeys(tw)
				ob := Obligation{Key: mi.s.Twin.Short() + "~" + mi.s.Short() + "|" + f + "|twins print the same delimiters", Pos: c.Pos(mi.fd.Pos()), Nontrivial: true}
				if strings.Join(a, "|") == strings.Join(b, "|") {
					ob.Status, ob.Detail = Discharged, fmt.Sprintf("both printers put %s in context %q", f, a)
				} else {
					ob.Status = Violated
					ob.Detail = fmt.Sprintf("%s.String() prints %s in context %q, %s.String() in %q: one of the two drops or adds delimiters around the same child", mi.s.Short(), f, a, ti.s.Short(), b)
				}
				res.delims = append(res.delims, ob)
			}
		}
	}
	r2pPrintCache[c] = res
	return res
}

func r2pKeys(m map[string]string) []string {
	var ks []string
	for k := range m {
		ks = append(ks, k)
	}
	sort.Strings(ks)
	return ks
}

// r2pContentFree: no field of the struct is required for printing (its kind says everything).
func r2pContentFree(s *travStruct) bool {
	for _, f := range s.Fields {
		if travNeed(rolePrint, f) == 2 {
			return false
		}
	}
	return true
}

func r2pPrintMethod(c *Ctx, m *travModel, mi *r2pMethodInfo) []Obligation {
	fd, p := mi.fd, mi.pkg
	env := r2pNewEnv(c, m, p, fd)
	pr := &r2pPrinter{r2pEnv: env, enclosing: r2pEnclosing(fd.Body)}
	keyBase := travFuncKey(p, fd)
	if len(fd.Recv.List[0].Names) == 0 || fd.Recv.List[0].Names[0].Name == "_" {
		return nil // no receiver name: the method prints nothing of the node (R-traversal reports unread fields)
	}
	root := fd.Recv.List[0].Names[0].Name
	// requirements
	var reqs []r2pReq
	var addReqs func(s *travStruct, base string, depth int, partialOf string)
	addReqs = func(s *travStruct, base string, depth int, partialOf string) {
		for _, f := range s.Fields {
			if travNeed(rolePrint, f) != 2 {
				continue
			}
			reqs = append(reqs, r2pReq{path: base + "." + f.Name, field: f, owner: s, partialOf: partialOf})
			if depth >= 3 {
				continue
			}
			for _, cs := range m.carrierStructs(f.Var.Type()) {
				if cs == s || cs.IsSem || cs.T == m.identT {
					continue
				}
				if travHasStringer(cs.T) {
					// printed as a whole through its own printer — or taken apart here: then every part counts
					po := partialOf
					if po == "" {
						po = base + "." + f.Name
					}
					addReqs(cs, base+"."+f.Name, depth+1, po)
					continue
				}
				addReqs(cs, base+"."+f.Name, depth+1, partialOf)
			}
		}
	}
	addReqs(mi.s, root, 0, "")
	mentioned := env.mentioned(fd.Body)

	body, loops := r2pWrap(fd.Body)
	env.loops = loops
	// loops over list fields of the node: loop statement (copy) -> the list expression
	loopList := map[ast.Stmt]ast.Expr{}
	for _, mk := range loops.marker {
		loopList[mk.loop] = mk.x
	}
	mi.listLoops, mi.cut = map[string]bool{}, map[string]string{}
	loopField := map[ast.Stmt]string{} // loop -> list field
	loopLeave := map[ast.Stmt]string{} // loop -> how it is left early
	loopAdds := map[ast.Stmt]int{}     // loop -> completed iterations that add the element's text
	loopSkips := map[ast.Stmt]string{} // loop -> a completed iteration that does not
	listField := func(st *r2pState, x ast.Expr) string {
		parts := strings.Split(env.pathOf(st, x), ".")
		if len(parts) != 2 || parts[0] != root {
			return ""
		}
		if f := mi.s.Field(parts[1]); f != nil && travNeed(rolePrint, f) == 2 {
			return f.Name
		}
		return ""
	}
	for lp, x := range loopList {
		fname := listField(nil, x)
		if fname == "" {
			continue
		}
		loopField[lp] = fname
		// leaving the loop early: a `break` of this loop or a `return` inside its body
		var lbody *ast.BlockStmt
		switch l := lp.(type) {
		case *ast.RangeStmt:
			lbody = l.Body
		case *ast.ForStmt:
			lbody = l.Body
		}
		var scan func(n ast.Node, inner bool)
		scan = func(root ast.Node, inner bool) {
			ast.Inspect(root, func(n ast.Node) bool {
				if n == nil || n == root {
					return true
				}
				switch y := n.(type) {
				case *ast.FuncLit:
					return false
				case *ast.ForStmt, *ast.RangeStmt, *ast.SwitchStmt, *ast.TypeSwitchStmt, *ast.SelectStmt:
					scan(y, true)
					return false
				case *ast.BranchStmt:
					if y.Tok == token.BREAK && y.Label == nil && !inner {
						if _, ok := loopLeave[lp]; !ok {
							loopLeave[lp] = fmt.Sprintf("`break` at line %d leaves the loop over %s before the remaining elements are printed", env.line(y.Pos()), exprStr(x))
						}
					}
				case *ast.ReturnStmt:
					if _, ok := loopLeave[lp]; !ok {
						loopLeave[lp] = fmt.Sprintf("`return` at line %d inside the loop over %s ends the printer before the remaining elements are printed", env.line(y.Pos()), exprStr(x))
					}
				}
				return true
			})
		}
		if lbody != nil {
			scan(lbody, false)
		}
	}
	countHoles := func(st *r2pState, p string) int {
		n := 0
		for _, t := range st.tmpl {
			for _, sg := range t {
				if sg.hole != nil && !sg.imp {
					for hp := range sg.hole {
						if hp == p || strings.HasPrefix(hp, p+".") {
							n++
						}
					}
				}
			}
		}
		return n
	}
	type miss struct {
		trace, ret string
		line       int
	}
	missing := map[string]*miss{}
	enforced := map[string]bool{}
	okPaths := map[string]int{}
	npaths := 0
	noteKind := func(st *r2pState, tag ast.Expr, vals []ast.Expr) {
		// switch X.Kind() { case K… } / X.Kind() == K: the child X is of a content-free kind
		call, ok := ast.Unparen(tag).(*ast.CallExpr)
		if !ok || len(call.Args) != 0 {
			return
		}
		se, ok := ast.Unparen(call.Fun).(*ast.SelectorExpr)
		if !ok || se.Sel.Name != "Kind" {
			return
		}
		px := env.pathOf(st, se.X)
		if px == "" || len(vals) == 0 {
			return
		}
		var first *travStruct
		for _, v := range vals {
			k := ConstOf(env.info, v)
			if k == nil {
				return
			}
			s := m.byKind[k]
			if s == nil {
				return
			}
			if len(vals) > 1 && !r2pContentFree(s) {
				return
			}
			if first == nil {
				first = s
			}
		}
		st.kind[px] = first
	}
	// zeroConst: a flag / operator compared equal to the zero value of its type (false, "", the first
	// enumerator) carries nothing to print, like a nil child.
	zeroConst := func(st *r2pState, x ast.Expr, vals []ast.Expr) {
		px := env.pathOf(st, x)
		if px == "" || len(vals) != 1 {
			return
		}
		tv, ok := env.info.Types[vals[0]]
		if !ok || tv.Value == nil {
			return
		}
		zero := false
		switch tv.Value.Kind() {
		case constant.Int, constant.Float:
			zero = constant.Sign(tv.Value) == 0
		case constant.String:
			zero = constant.StringVal(tv.Value) == ""
		case constant.Bool:
			zero = !constant.BoolVal(tv.Value)
		}
		if zero && st.facts[px] != r2pNonEmpty {
			st.facts[px] = r2pEmpty
		}
	}
	// structEmpty: the struct value at path p has nothing to print on this path: every
	// required field is known empty (recursively through by-value component structs).
	var structEmpty func(st *r2pState, p string, s *travStruct, depth int) bool
	structEmpty = func(st *r2pState, p string, s *travStruct, depth int) bool {
		if s == nil || depth > 3 {
			return false
		}
		for _, f := range s.Fields {
			if travNeed(rolePrint, f) != 2 {
				continue
			}
			q := p + "." + f.Name
			if st.emptyUpTo(q) {
				continue
			}
			if n, ok := types.Unalias(f.Var.Type()).(*types.Named); ok {
				if cs := m.structs[n]; cs != nil && structEmpty(st, q, cs, depth+1) {
					continue
				}
			}
			return false
		}
		return true
	}
	w := &Walker[*r2pState]{
		Clone:  r2pClone,
		OnStmt: pr.onStmt,
		OnCond: func(st *r2pState, cond ast.Expr, taken bool) (*r2pState, bool) {
			if !env.applyCond(st, cond, taken) {
				return st, false
			}
			if be, ok := ast.Unparen(cond).(*ast.BinaryExpr); ok && ((be.Op == token.EQL && taken) || (be.Op == token.NEQ && !taken)) {
				noteKind(st, be.X, []ast.Expr{be.Y})
				zeroConst(st, be.X, []ast.Expr{be.Y})
				// T(U(p)) == p: converting p to U is exact on this path
				for _, pair := range [][2]ast.Expr{{be.X, be.Y}, {be.Y, be.X}} {
					pa, pb := env.pathOf(st, pair[0]), env.pathOf(st, pair[1])
					if pa == "" || pa != pb {
						continue
					}
					if outer, ok := ast.Unparen(pair[0]).(*ast.CallExpr); ok && len(outer.Args) == 1 {
						switch inner := ast.Unparen(outer.Args[0]).(type) {
						case *ast.CallExpr:
							if tv, ok := env.info.Types[inner.Fun]; ok && tv.IsType() && len(inner.Args) == 1 {
								st.ctrl["exact:"+pa+":"+types.TypeString(tv.Type, func(*types.Package) string { return "" })] = true
							}
						case *ast.Ident:
							// asInt := int64(p); float64(asInt) == p
							if t := st.tmpl[env.info.Uses[inner]]; len(t) == 1 && len(t[0].chain) == 1 && strings.HasPrefix(t[0].chain[0], "conv:") {
								st.ctrl["exact:"+pa+":"+strings.TrimPrefix(t[0].chain[0], "conv:")] = true
							}
						}
					}
				}
			}
			pr.noteGuard(st, cond, taken)
			return st, true
		},
		OnCase: func(st *r2pState, sw *ast.SwitchStmt, vals []ast.Expr, others []ast.Expr) (*r2pState, bool) {
			if vals != nil {
				noteKind(st, sw.Tag, vals)
				zeroConst(st, sw.Tag, vals)
				var vs []string
				for _, v := range vals {
					vs = append(vs, exprStr(v))
				}
				st.trace = append(st.trace, fmt.Sprintf("%s is %s", exprStr(sw.Tag), strings.Join(vs, "|")))
			} else {
				// none of the listed values: nothing can be said about what a flag/operator should print here
				for _, q := range env.pathsIn(st, sw.Tag) {
					st.ctrl[q] = true
				}
				st.trace = append(st.trace, fmt.Sprintf("%s takes the default", exprStr(sw.Tag)))
			}
			return st, true
		},
		OnLoopIter: func(loop ast.Stmt, before, after *r2pState) {
			// an iteration over a list of the node that completes adds the element's text to what is being built
			x, ok := loopList[loop]
			if !ok {
				return
			}
			fname := listField(after, x)
			if fname == "" {
				return
			}
			p := env.pathOf(after, x)
			if countHoles(after, p) > countHoles(before, p) {
				loopAdds[loop]++
			} else if _, ok := loopSkips[loop]; !ok {
				loopSkips[loop] = fmt.Sprintf("an iteration of the loop over %s completes without adding the element's text to the result (path [%s])", exprStr(x), after.traceStr())
			}
		},
		OnRange: func(st *r2pState, r *ast.RangeStmt) (*r2pState, bool) {
			env.onRange(st, r)
			// a range variable has no template of its own
			for _, v := range []ast.Expr{r.Key, r.Value} {
				if id, ok := v.(*ast.Ident); ok && id.Name != "_" {
					delete(st.tmpl, env.objOf(id))
				}
			}
			return st, true
		},
		IsPanic: func(s ast.Stmt) bool { return IsPanicCall(env.info, s) },
		Exit: func(st *r2pState, o outcome) {
			if o.kind != cReturn || o.ret == nil || len(o.ret.Results) != 1 || !st.feasible() {
				return
			}
			npaths++
			t := r2pCat(pr.eval(st, o.ret.Results[0]), pr.implicit(st, o.ret))
			holes := t.holes()
			allHoles := t.allHoles()
			for _, rq := range reqs {
				if rq.partialOf != "" {
					// enforced only when the component is printed part by part on this path
					whole, partial := false, false
					for h := range holes {
						if h == rq.partialOf || strings.HasPrefix(rq.partialOf, h+".") {
							whole = true
						}
						if strings.HasPrefix(h, rq.partialOf+".") {
							partial = true
						}
					}
					if whole || !partial || st.emptyUpTo(rq.partialOf) {
						continue
					}
					enforced[rq.path] = true
				}
				covered := r2pCovers(holes, rq.path) || st.emptyUpTo(rq.path)
				if !covered {
					// the child's node kind was decided on this path and that kind has nothing (left) to print
					for k, ks := range st.kind {
						if (k == rq.path || strings.HasPrefix(rq.path, k+".")) && structEmpty(st, k, ks, 0) {
							covered = true
						}
					}
				}
				if !covered {
					// a by-value component struct all of whose printable parts are empty
					if n, ok := types.Unalias(rq.field.Var.Type()).(*types.Named); ok {
						if cs := m.structs[n]; cs != nil && structEmpty(st, rq.path, cs, 0) {
							covered = true
						}
					}
				}
				if !covered && rq.field.Class == tfScalar && (r2pCovers(allHoles, rq.path) || r2pCovers(st.ctrl, rq.path)) {
					// a flag / operator is printed through the text chosen under a branch on it
					covered = true
				}
				if covered {
					okPaths[rq.path]++
				} else if missing[rq.path] == nil {
					missing[rq.path] = &miss{trace: st.traceStr(), ret: t.String(), line: env.line(o.at)}
				}
			}
			// the skeleton (bracket contexts, trailing terminator) is computed after all printers have run: see r2pFinishSkeleton
			mi.root = root
			for hp := range holes {
				if st.ctrl["reorder:"+hp] {
					parts := strings.Split(hp, ".")
					if len(parts) >= 2 && parts[0] == root {
						if mi.reorder == nil {
							mi.reorder = map[string]string{}
						}
						if _, ok := mi.reorder[parts[1]]; !ok {
							mi.reorder[parts[1]] = fmt.Sprintf("path [%s] returning %s", st.traceStr(), t.String())
						}
					}
				}
			}
			if len(mi.rets) < 4000 {
				mi.rets = append(mi.rets, r2pRet{t: t, trace: st.traceStr()})
			}
			for i, sg := range t {
				if sg.hole == nil || sg.imp {
					continue
				}
				r2pRecordFormat(mi, root, st, t, sg, r2pSig(t, i))
			}
		},
	}
	w.Run(body, r2pNewState())
	var obs []Obligation
	if w.Overflow || len(w.Unsupported) > 0 {
		obs = append(obs, Obligation{Key: keyBase + "|paths enumerable", Pos: c.Pos(fd.Pos()), Status: Undecided,
			Detail: fmt.Sprintf("path enumeration of the printer gave up (overflow=%v, unsupported statements=%d)", w.Overflow, len(w.Unsupported))})
	}
	// only loops that print (add the element's text on some iteration path) are judged: a loop that measures or counts is none
	var lps []ast.Stmt
	for lp := range loopField {
		lps = append(lps, lp)
	}
	sort.Slice(lps, func(i, j int) bool { return lps[i].Pos() < lps[j].Pos() })
	for _, lp := range lps {
		if loopAdds[lp] == 0 {
			continue
		}
		f := loopField[lp]
		mi.listLoops[f] = true
		if w := loopLeave[lp]; w != "" && mi.cut[f] == "" {
			mi.cut[f] = w
		}
		if w := loopSkips[lp]; w != "" && mi.cut[f] == "" {
			mi.cut[f] = w
		}
	}
	var lf []string
	for f := range mi.listLoops {
		lf = append(lf, f)
	}
	sort.Strings(lf)
	for _, f := range lf {
		ob := Obligation{Key: keyBase + "|" + mi.s.Short() + "." + f + "|every element of the list is printed", Pos: c.Pos(fd.Pos()), Nontrivial: true}
		if w := mi.cut[f]; w != "" {
			ob.Status = Violated
			ob.Detail = fmt.Sprintf("[print] %s walks the list %s.%s in a loop, but %s: the elements that follow (or the skipped one) are part of the program — e.g. the match arms after a default arm are still tested before it by both engines",
				FuncName(fd), mi.s.Short(), f, w)
		} else {
			ob.Status, ob.Detail = Discharged, fmt.Sprintf("[print] the loop over %s.%s is never left early and every completed iteration adds the element's text", mi.s.Short(), f)
		}
		obs = append(obs, ob)
	}
	for _, rq := range reqs {
		if rq.partialOf != "" {
			if !enforced[rq.path] {
				continue // the component is never printed part by part
			}
		} else if !mentioned[rq.path] {
			continue // never mentioned by the method: R-traversal's finding, not a path problem
		}
		ob := Obligation{Key: keyBase + "|" + rq.owner.Short() + "." + rq.field.Name + "|printed on every path", Pos: c.Pos(fd.Pos()), Nontrivial: true}
		if rq.partialOf != "" {
			ob.Key = keyBase + "|" + strings.TrimPrefix(rq.path, root+".") + "|printed wherever the component is printed part by part"
		}
		if ms := missing[rq.path]; ms != nil {
			ob.Status = Violated
			ob.Detail = fmt.Sprintf("[print] %s.%s (%s: %s) is inspected by %s but not part of the text returned at line %d on the path [%s]; the path does not establish that the field is empty. returned: %s (the field is printed or known empty on %d of %d return paths)",
				rq.owner.Short(), rq.field.Name, rq.field.Class, rq.field.Why, FuncName(fd), ms.line, ms.trace, ms.ret, okPaths[rq.path], npaths)
			if rq.partialOf != "" {
				ob.Detail = fmt.Sprintf("[print] %s prints the component %s part by part on the path [%s] (returned at line %d: %s) and leaves out %s.%s (%s), which the path does not know to be empty: printing one field of a %s does not print the %s",
					FuncName(fd), rq.partialOf, ms.trace, ms.line, ms.ret, rq.owner.Short(), rq.field.Name, rq.field.Class, rq.owner.Short(), rq.owner.Short())
			}
		} else {
			ob.Status, ob.Detail = Discharged, fmt.Sprintf("[print] %s (%s) is printed or known empty on all %d return paths", rq.path, rq.field.Class, npaths)
		}
		obs = append(obs, ob)
	}
	return obs
}

// r2pRecordFormat notes, for R-print-payload and R-print-bare-guard, how the text of a hole is formatted on this path.
func r2pRecordFormat(mi *r2pMethodInfo, root string, st *r2pState, t r2pTmpl, sg r2pSeg, sig string) {
	quoted := strings.Contains(strings.SplitN(sig, "…", 2)[0], `"`)
	for _, hp := range r2pSorted(sg.hole) {
		parts := strings.Split(hp, ".")
		if len(parts) < 2 || parts[0] != root {
			continue
		}
		f := mi.s.Field(parts[1])
		if f == nil {
			continue
		}
		key := strings.Join(sg.chain, " ")
		if quoted {
			key = "quoted " + key
		}
		if mi.fmts[f.Name] == nil {
			mi.fmts[f.Name] = map[string]*r2pFmtRec{}
		}
		rec := mi.fmts[f.Name][key]
		if rec == nil {
			rec = &r2pFmtRec{chain: append([]string(nil), sg.chain...), quoted: quoted, exact: map[string]bool{}, witness: t.String()}
			// conversions tested for exactness on this path
			for k := range st.ctrl {
				if strings.HasPrefix(k, "exact:"+hp+":") {
					rec.exact[strings.TrimPrefix(k, "exact:"+hp+":")] = true
				}
			}
			mi.fmts[f.Name][key] = rec
		} else {
			// exactness must hold on every path that uses this chain
			for k := range rec.exact {
				if !st.ctrl["exact:"+hp+":"+k] {
					delete(rec.exact, k)
				}
			}
		}
		if !quoted {
			for _, g := range st.guards {
				if !r2pCovers(g.paths, hp) {
					continue
				}
				if mi.bare[f.Name] == nil {
					mi.bare[f.Name] = map[string]*r2pBareRec{}
				}
				k := fmt.Sprintf("%s=%v", g.fn.FullName(), g.val)
				if mi.bare[f.Name][k] == nil {
					mi.bare[f.Name][k] = &r2pBareRec{fn: g.fn, val: g.val, witness: fmt.Sprintf("%s is %v at line %d, returned %s", g.fn.Name(), g.val, g.line, t.String())}
				}
			}
		}
	}
}

// noteGuard records a string predicate of the module decided on (a part of) the printed text.
func (e *r2pPrinter) noteGuard(st *r2pState, cond ast.Expr, taken bool) {
	call, ok := ast.Unparen(cond).(*ast.CallExpr)
	if !ok || len(call.Args) != 1 {
		return
	}
	callee := CalleeOf(e.info, call)
	if callee == nil || e.m.decls[callee] == nil {
		return
	}
	sg := callee.Type().(*types.Signature)
	if sg.Recv() != nil || sg.Params().Len() != 1 || sg.Results().Len() != 1 || !r2pIsString(sg.Params().At(0).Type()) {
		return
	}
	if b, ok := types.Unalias(sg.Results().At(0).Type()).Underlying().(*types.Basic); !ok || b.Kind() != types.Bool {
		return
	}
	if hs := e.eval(st, call.Args[0]).holes(); len(hs) > 0 {
		st.guards = append(st.guards, r2pGuardRec{fn: callee, paths: hs, val: taken, line: e.line(call.Pos())})
	}
}

// r2pTail: the closing punctuation the text ends in — the characters of `;)]}` at the end of the literal text that
// follows the last hole (white space ignored); "" when the text ends in a hole or in other characters.
func r2pTail(t r2pTmpl) string {
	var lit strings.Builder
	for _, sg := range t {
		if sg.imp {
			continue
		}
		if sg.hole != nil {
			lit.Reset()
			continue
		}
		lit.WriteString(sg.lit)
	}
	txt := strings.Join(strings.Fields(lit.String()), "")
	i := len(txt)
	for i > 0 && strings.ContainsRune(";)]}", rune(txt[i-1])) {
		i--
	}
	return txt[i:]
}

// r2pFinishSkeleton computes, from the symbolic results of all printers, the bracket context of every child / type field
// and the trailing terminator of every printer. A hole that stands for a whole component struct whose own printer frames
// its text uniformly (a block: `{` … `}`) is expanded to that frame first, so that `loop %s` over a block and a printer
// that writes the braces itself around the block's parts have the same skeleton.
func r2pFinishSkeleton(m *travModel, res *r2pPrintResult) {
	// frames from the raw templates
	for _, mi := range res.methods {
		open, cls, first := "", "", true
		for _, r := range mi.rets {
			o := ""
			for _, sg := range r.t {
				if sg.imp {
					continue
				}
				if sg.hole == nil {
					if txt := strings.TrimSpace(sg.lit); txt != "" {
						if strings.ContainsRune("([{", rune(txt[0])) {
							o = txt[:1]
						}
						break
					}
					continue
				}
				break
			}
			c := r2pTail(r.t)
			if len(c) > 1 {
				c = c[len(c)-1:]
			}
			if first {
				open, cls, first = o, c, false
			} else if o != open || c != cls {
				open, cls = "", ""
				break
			}
		}
		if open != "" && cls != "" {
			mi.frameOpen, mi.frameClose = open, cls
		}
	}
	// the struct a path denotes (through by-value / pointer / slice components), nil behind an interface
	structAt := func(s *travStruct, parts []string) *travStruct {
		cur := s
		for _, name := range parts {
			if cur == nil {
				return nil
			}
			f := cur.Field(name)
			if f == nil {
				return nil
			}
			var next *travStruct
			t := f.Var.Type()
			for depth := 0; depth < 4 && t != nil; depth++ {
				switch x := types.Unalias(t).(type) {
				case *types.Pointer:
					t = x.Elem()
					continue
				case *types.Slice:
					t = x.Elem()
					continue
				case *types.Named:
					next = m.structs[x]
				}
				break
			}
			cur = next
		}
		return cur
	}
	for _, mi := range res.methods {
		for _, r := range mi.rets {
			// expand framed components
			var t r2pTmpl
			for _, sg := range r.t {
				if sg.hole != nil && !sg.imp && len(sg.hole) == 1 {
					whole := true
					for _, op := range sg.chain {
						if !(op == "%s" || op == "%v" || op == "method:String") {
							whole = false
						}
					}
					for hp := range sg.hole {
						parts := strings.Split(hp, ".")
						if whole && len(parts) >= 2 && parts[0] == mi.root {
							if cs := structAt(mi.s, parts[1:]); cs != nil && cs != mi.s {
								if ci := res.infos[cs]; ci != nil && ci.frameOpen != "" {
									t = append(t, r2pSeg{lit: ci.frameOpen}, sg, r2pSeg{lit: ci.frameClose})
									whole = false
									sg.hole = nil
								}
							}
						}
					}
					if sg.hole == nil {
						continue
					}
				}
				t = append(t, sg)
			}
			if len(r.t.holes()) == 0 {
				var sb strings.Builder
				for _, sg := range r.t {
					if sg.hole == nil {
						sb.WriteString(sg.lit)
					}
				}
				if mi.consts == nil {
					mi.consts = map[string]bool{}
				}
				mi.consts[sb.String()] = true
			}
			tail := r2pTail(t)
			if _, ok := mi.tails[tail]; !ok {
				mi.tails[tail] = fmt.Sprintf("path [%s] returning %s", r.trace, r.t.String())
			}
			for i, sg := range t {
				if sg.hole == nil || sg.imp {
					continue
				}
				sig := r2pSig(t, i)
				for hp := range sg.hole {
					parts := strings.Split(hp, ".")
					if len(parts) < 2 || parts[0] != mi.root {
						continue
					}
					f := mi.s.Field(parts[1])
					if f == nil || (f.Class != tfChild && f.Class != tfType) {
						continue
					}
					if mi.sigs[f.Name] == nil {
						mi.sigs[f.Name] = map[string]string{}
					}
					if _, ok := mi.sigs[f.Name][sig]; !ok {
						mi.sigs[f.Name][sig] = r.t.String()
					}
				}
			}
		}
		mi.rets = nil
	}
}
