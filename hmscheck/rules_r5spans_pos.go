package main

import (
	"fmt"
	"go/ast"
	"go/types"
	"sort"
	"strings"
)

// R-position-one-span (C08): a position that is handed on in pieces — the
// `line` / `column` / `filename` fields of the object bound by `catch e`, the
// operands of a "file:line:column" message — is one span taken apart. The
// pieces must come from ONE span value: the line and column of span S belong
// to the text of S.Filename and of no other file (an exception raised inside
// an imported module carries that module's name in its span; the name of the
// module that happens to execute is a different file).
//
// Enumerated: (a) every composite of language values (map / slice / struct
// literal whose elements are interpreter or VM values) that contains a line,
// column or index of a span: all span pieces in it have the same root span,
// and the file name of that span is among the elements (a script-visible
// position names its file); (b) every call whose operands contain pieces of
// spans, at least one of them a line / column / index: all pieces have the same
// root; (c) the position objects of the two engines map the same keys to the
// same pieces (twin agreement).

func init() {
	register(&Rule{ID: "R-position-one-span", Floor: 4, Run: rulePositionOneSpan,
		Doc: "wherever pieces of an errors.Span are passed on separately — the line/column/filename entries of the error object a `catch` binds (tree-walking interpreter and VM), the operands of position messages — every piece (Start/End .Line/.Column/.Index and .Filename, through locals and conversions) is taken from the same span value, a script-visible position object carries the Filename of the very span its line/column come from, and the interpreter's and the VM's position objects map the same keys to the same pieces. A file name from another source (the module currently executing, the entry module) next to the line/column of the exception's span names a location that does not exist in that file as soon as the exception was raised in an imported module."})
}

type r5posPiece struct {
	root string // canonical text of the span the piece is taken from
	path string // Start.Line, End.Column, Filename …
	expr ast.Expr
}

type r5posGroup struct {
	pkg    string
	fd     *ast.FuncDecl
	node   ast.Node
	what   string // "position object" / "<callee>() operands"
	lang   bool   // composite of language values
	pieces []r5posPiece
	keyed  map[string]string // map key -> piece path ("" = not a span piece), language composites with constant keys
}

func rulePositionOneSpan(c *Ctx) []Obligation {
	ep := c.Pkg("homescript/errors")
	spanT, _ := ep.Types.Scope().Lookup("Span").Type().(*types.Named)
	locT, _ := ep.Types.Scope().Lookup("Location").Type().(*types.Named)
	if spanT == nil || locT == nil {
		fatalf("anchor unresolved: errors.Span / errors.Location")
	}
	var groups []*r5posGroup
	for _, p := range c.All {
		if p.Types == ep.Types {
			continue // the span type itself (Until, Advance …)
		}
		info := p.TypesInfo
		for _, fd := range AllFuncDecls(p) {
			fd := fd
			// root span of a Location- or Span-valued expression, through single-definition locals
			var rootOf func(e ast.Expr, depth int) (string, string, bool)
			rootOf = func(e ast.Expr, depth int) (root, path string, ok bool) {
				e = ast.Unparen(e)
				if depth > 8 {
					return "", "", false
				}
				t := info.Types[e].Type
				if t == nil {
					return "", "", false
				}
				if id, isId := e.(*ast.Ident); isId {
					if obj := info.Uses[id]; obj != nil {
						if def := dgSingleDef(info, fd, obj); def != nil {
							if dt := info.Types[def].Type; dt != nil && (types.Identical(dt, spanT) || types.Identical(dt, locT)) {
								return rootOf(def, depth+1)
							}
						}
					}
				}
				switch {
				case types.Identical(t, spanT):
					return exprStr(e), "", true
				case types.Identical(t, locT):
					if s, isSel := e.(*ast.SelectorExpr); isSel {
						if r, pth, ok := rootOf(s.X, depth+1); ok && pth == "" {
							return r, s.Sel.Name, true
						}
					}
					return exprStr(e), "<location>", true
				}
				return "", "", false
			}
			pieceOf := func(e ast.Expr) (r5posPiece, bool) {
				s, ok := ast.Unparen(e).(*ast.SelectorExpr)
				if !ok {
					return r5posPiece{}, false
				}
				f := spFieldOf(info, s)
				if f == nil {
					return r5posPiece{}, false
				}
				bt := info.Types[s.X].Type
				if bt == nil {
					return r5posPiece{}, false
				}
				switch {
				case types.Identical(bt, locT):
					if r, pth, ok := rootOf(s.X, 0); ok {
						return r5posPiece{root: r, path: strings.TrimPrefix(pth+"."+s.Sel.Name, "."), expr: e}, true
					}
				case types.Identical(bt, spanT) && !types.Identical(f.Type(), locT):
					if r, _, ok := rootOf(s.X, 0); ok {
						return r5posPiece{root: r, path: s.Sel.Name, expr: e}, true
					}
				}
				return r5posPiece{}, false
			}
			// a scalar local that holds a piece (`line := span.Start.Line`)
			var piecesIn func(e ast.Expr, depth int) []r5posPiece
			piecesIn = func(e ast.Expr, depth int) []r5posPiece {
				var out []r5posPiece
				if depth > 6 {
					return out
				}
				ast.Inspect(e, func(n ast.Node) bool {
					switch x := n.(type) {
					case *ast.FuncLit:
						return false
					case *ast.SelectorExpr:
						if pc, ok := pieceOf(x); ok {
							out = append(out, pc)
							return false
						}
					case *ast.Ident:
						if obj := info.Uses[x]; obj != nil {
							if _, isVar := obj.(*types.Var); isVar {
								if b, isB := obj.Type().Underlying().(*types.Basic); isB && b.Info()&(types.IsInteger|types.IsString) != 0 {
									if def := dgSingleDef(info, fd, obj); def != nil {
										out = append(out, piecesIn(def, depth+1)...)
									}
								}
							}
						}
					}
					return true
				})
				return out
			}
			isLangValue := func(t types.Type) bool {
				if t == nil {
					return false
				}
				if p, ok := t.(*types.Pointer); ok {
					t = p.Elem()
				}
				n, ok := t.(*types.Named)
				return ok && n.Obj().Pkg() != nil && strings.HasSuffix(n.Obj().Pkg().Path(), "/value") && strings.HasPrefix(n.Obj().Pkg().Path(), ModPath)
			}
			pkgName := relPkg(p.PkgPath)
			ast.Inspect(fd.Body, func(n ast.Node) bool {
				switch x := n.(type) {
				case *ast.CompositeLit:
					t := info.Types[x].Type
					if t == nil {
						return true
					}
					var elemT types.Type
					switch u := t.Underlying().(type) {
					case *types.Map:
						elemT = u.Elem()
					case *types.Slice:
						elemT = u.Elem()
					case *types.Array:
						elemT = u.Elem()
					}
					if elemT == nil || !isLangValue(elemT) {
						return true
					}
					g := &r5posGroup{pkg: pkgName, fd: fd, node: x, what: "position object", lang: true, keyed: map[string]string{}}
					for _, el := range x.Elts {
						val := el
						key := ""
						if kv, ok := el.(*ast.KeyValueExpr); ok {
							val = kv.Value
							if tv := info.Types[kv.Key]; tv.Value != nil {
								key = strings.Trim(tv.Value.ExactString(), `"`)
							}
						}
						ps := piecesIn(val, 0)
						g.pieces = append(g.pieces, ps...)
						if key != "" {
							var paths []string
							for _, pc := range ps {
								paths = append(paths, pc.path)
							}
							g.keyed[key] = strings.Join(paths, "+")
						}
					}
					if r5posHasNumber(g.pieces) {
						groups = append(groups, g)
						return false
					}
				case *ast.CallExpr:
					if tv, ok := info.Types[x.Fun]; ok && tv.IsType() {
						return true
					}
					// operands that are pieces themselves (through conversions), not nested calls
					var ps []r5posPiece
					for _, a := range x.Args {
						a = ast.Unparen(a)
						for {
							if cv, ok := a.(*ast.CallExpr); ok && len(cv.Args) == 1 {
								if tv, ok := info.Types[cv.Fun]; ok && tv.IsType() {
									a = ast.Unparen(cv.Args[0])
									continue
								}
							}
							break
						}
						if pc, ok := pieceOf(a); ok {
							ps = append(ps, pc)
						} else if id, ok := a.(*ast.Ident); ok {
							ps = append(ps, piecesIn(id, 0)...)
						}
					}
					if len(ps) >= 2 && r5posHasNumber(ps) {
						name := exprStr(x.Fun)
						if fn := CalleeOf(info, x); fn != nil {
							name = fn.Name()
						}
						groups = append(groups, &r5posGroup{pkg: pkgName, fd: fd, node: x, what: name + "() operands", pieces: ps})
					}
				}
				return true
			})
		}
	}
	sort.SliceStable(groups, func(i, j int) bool {
		if groups[i].pkg != groups[j].pkg {
			return groups[i].pkg < groups[j].pkg
		}
		return groups[i].node.Pos() < groups[j].node.Pos()
	})
	var obs []Obligation
	cnt := map[string]int{}
	key := func(g *r5posGroup, what string) string {
		base := fmt.Sprintf("%s.%s|%s|%s", g.pkg, FuncName(g.fd), g.what, what)
		cnt[base]++
		if cnt[base] > 1 {
			return fmt.Sprintf("%s#%d", base, cnt[base])
		}
		return base
	}
	var langs []*r5posGroup
	for _, g := range groups {
		roots := map[string][]string{}
		var order []string
		for _, pc := range g.pieces {
			if _, ok := roots[pc.root]; !ok {
				order = append(order, pc.root)
			}
			roots[pc.root] = append(roots[pc.root], pc.path)
		}
		ob := Obligation{Key: key(g, "pieces of one span"), Pos: c.Pos(g.node.Pos()), Nontrivial: true}
		if len(order) > 1 {
			var parts []string
			for _, r := range order {
				parts = append(parts, fmt.Sprintf("%s{%s}", r, strings.Join(roots[r], ", ")))
			}
			ob.Status = Violated
			ob.Detail = "the position is put together from different spans: " + strings.Join(parts, " and ") + " — line/column of one span next to pieces of another do not name one location"
		} else {
			ob.Status = Discharged
			ob.Detail = fmt.Sprintf("%s{%s}", order[0], strings.Join(roots[order[0]], ", "))
		}
		obs = append(obs, ob)
		if !g.lang {
			continue
		}
		langs = append(langs, g)
		// a script-visible position names its file: the Filename of the span the numbers come from
		numRoot := ""
		for _, pc := range g.pieces {
			if pc.path != "Filename" && numRoot == "" {
				numRoot = pc.root
			}
		}
		hasFile := false
		for _, pc := range g.pieces {
			if pc.path == "Filename" && pc.root == numRoot {
				hasFile = true
			}
		}
		ob = Obligation{Key: key(g, "carries the file name of its span"), Pos: c.Pos(g.node.Pos()), Nontrivial: true}
		if hasFile {
			ob.Status, ob.Detail = Discharged, numRoot+".Filename is among the entries"
		} else {
			var others []string
			for k, v := range g.keyed {
				if v == "" {
					others = append(others, k)
				}
			}
			sort.Strings(others)
			ob.Status = Violated
			ob.Detail = fmt.Sprintf("the entries hold line/column of %s but not %s.Filename (entries not taken from the span: %s): whatever file name the object reports comes from another source — for an exception raised in an imported module the reported file does not contain that line/column", numRoot, numRoot, strings.Join(others, ", "))
		}
		obs = append(obs, ob)
	}
	// twins: the engines' position objects agree key by key
	if len(langs) >= 2 {
		ref := langs[0]
		for _, g := range langs[1:] {
			var diff []string
			keys := map[string]bool{}
			for k := range ref.keyed {
				keys[k] = true
			}
			for k := range g.keyed {
				keys[k] = true
			}
			var ks []string
			for k := range keys {
				ks = append(ks, k)
			}
			sort.Strings(ks)
			for _, k := range ks {
				a, okA := ref.keyed[k]
				b, okB := g.keyed[k]
				switch {
				case !okA:
					diff = append(diff, fmt.Sprintf("%q only in %s.%s", k, g.pkg, FuncName(g.fd)))
				case !okB:
					diff = append(diff, fmt.Sprintf("%q only in %s.%s", k, ref.pkg, FuncName(ref.fd)))
				case a != b:
					diff = append(diff, fmt.Sprintf("%q is %s in %s.%s but %s in %s.%s", k, r5posShow(a), ref.pkg, FuncName(ref.fd), r5posShow(b), g.pkg, FuncName(g.fd)))
				}
			}
			ob := Obligation{Key: fmt.Sprintf("%s.%s~%s.%s|position objects agree", ref.pkg, FuncName(ref.fd), g.pkg, FuncName(g.fd)), Pos: c.Pos(g.node.Pos()), Nontrivial: true}
			if len(diff) > 0 {
				ob.Status, ob.Detail = Violated, "the two engines expose different positions for the same exception: "+strings.Join(diff, "; ")
			} else {
				ob.Status, ob.Detail = Discharged, fmt.Sprintf("%d keys, same span piece under every key", len(ks))
			}
			obs = append(obs, ob)
		}
	}
	if len(langs) == 0 {
		obs = append(obs, Obligation{Key: "engines|position objects", Status: Undecided, Detail: "no composite of language values built from the line/column of a span found: the error object of `catch` is built in a shape this rule does not see"})
	}
	return obs
}

func r5posHasNumber(ps []r5posPiece) bool {
	for _, p := range ps {
		if p.path != "Filename" {
			return true
		}
	}
	return false
}

func r5posShow(s string) string {
	if s == "" {
		return "not a span piece"
	}
	return "span." + s
}
