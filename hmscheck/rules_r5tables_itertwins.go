package main

// R-iter-twins (C01, C04): the iterator protocol of a value kind (the method
// IntoIter hands out and the receiver methods it calls) computes the same
// thing in both value libraries: both are executed symbolically (mbSym) and
// the canonical "outcome after effects ⇐ condition" tables must be equal.

import (
	"fmt"
	"go/ast"
	"go/types"
	"sort"
	"strings"
)

func init() {
	register(&Rule{ID: "R-iter-twins", Floor: 4, Run: ruleIterTwins,
		Doc: "C01/C04: `for x in v` yields the same sequence in both engines only if the iterator methods of the two value libraries agree. For every iterable value kind both libraries implement, each method of the iterator protocol (the method value IntoIter hands out — bound to whatever value — and the receiver methods it calls) is executed symbolically in both libraries; the resulting tables — returned element and continue-flag, cursor updates and resets, each with the boolean condition over canonical atoms (direction test, inclusiveness flag, cursor against bound after the per-direction adjustment) — must be equal. Merging the two per-direction adjustments of an inclusive bound into one (`end++` for both directions) changes the table of the descending inclusive case only."})
}

// r5iProtocol: names of the iterator methods of an impl (sorted).
func r5iProtocol(l *mbLib, im *mbImpl) []string {
	root := im.methods["IntoIter"]
	if root == nil || root.Body == nil || (len(root.Body.List) == 1 && IsPanicCall(l.info, root.Body.List[0])) {
		return nil
	}
	seen := map[string]bool{}
	var visit func(name string)
	visit = func(name string) {
		fd := im.methods[name]
		if fd == nil || seen[name] || name == "IntoIter" {
			return
		}
		seen[name] = true
		recv := mbRecvObj(l.info, fd)
		ast.Inspect(fd.Body, func(n ast.Node) bool {
			if sel, ok := n.(*ast.SelectorExpr); ok && recv != nil && r2tObj(l.info, sel.X) == recv {
				if _, isM := im.methods[sel.Sel.Name]; isM {
					visit(sel.Sel.Name)
				}
			}
			return true
		})
	}
	ast.Inspect(root.Body, func(n ast.Node) bool {
		if sel, ok := n.(*ast.SelectorExpr); ok {
			if sl := l.info.Selections[sel]; sl != nil && sl.Kind() == types.MethodVal && l.implOfType(sl.Recv()) == im {
				visit(sel.Sel.Name)
			}
		}
		return true
	})
	return mbSortedKeys(seen)
}

func r5iForm(l *mbLib, fd *ast.FuncDecl) string {
	n := mbNewNorm(l, fd)
	outs, _, inc := mbSymExec(l, n, fd.Body.List, true)
	if inc != "" {
		return "?not executable symbolically: " + inc
	}
	for i := 0; i < 4; i++ {
		outs = mbSymSplitBool(outs, i)
	}
	return mbSymTable(outs, func(o *mbSymOut) string {
		switch o.kind {
		case "panic":
			return "PANIC"
		case "return":
			return "return(" + strings.Join(o.vals, ", ") + ")"
		}
		return "end"
	})
}

func ruleIterTwins(c *Ctx) []Obligation {
	var obs []Obligation
	libs := r2tLibs(c)
	vm, in := libs[0], libs[1]
	for _, vi := range vm.impls {
		tn := mbLookupType(in, vi.Name())
		if tn == nil || in.byType[tn] == nil {
			continue
		}
		ii := in.byType[tn]
		pv, pi := r5iProtocol(vm, vi), r5iProtocol(in, ii)
		if len(pv) == 0 && len(pi) == 0 {
			continue
		}
		names := map[string]bool{}
		for _, m := range pv {
			names[m] = true
		}
		for _, m := range pi {
			names[m] = true
		}
		var ms []string
		for m := range names {
			ms = append(ms, m)
		}
		sort.Strings(ms)
		for _, m := range ms {
			fv, fi := vi.methods[m], ii.methods[m]
			o := Obligation{Key: fmt.Sprintf("itertwin|%s.%s", vi.Name(), m), Nontrivial: true}
			if fv == nil || fi == nil {
				o.Pos = c.Pos(vi.named.Obj().Pos())
				o.Status, o.Detail = Undecided, "iterator method "+m+" exists in one library only"
				obs = append(obs, o)
				continue
			}
			o.Pos = c.Pos(fv.Pos())
			a, b := mbTwin(r5iForm(vm, fv)), mbTwin(r5iForm(in, fi))
			switch {
			case strings.HasPrefix(a, "?") || strings.HasPrefix(b, "?"):
				o.Status, o.Detail = Undecided, "vm: "+a+" ‖ interp: "+b
			case a == b:
				o.Status, o.Detail = Discharged, "both libraries: "+a
			default:
				o.Status, o.Detail = Violated, "the iterator method "+m+" of "+vi.Name()+" differs between the libraries — vm: "+a+" ‖ interp: "+b
			}
			obs = append(obs, o)
		}
	}
	return obs
}
