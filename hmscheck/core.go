package main

import (
	"fmt"
	"go/ast"
	"go/token"
	"go/types"
	"os"
	"path/filepath"
	"regexp"
	"sort"
	"strings"
	"sync"

	"golang.org/x/tools/go/callgraph"
	"golang.org/x/tools/go/callgraph/cha"
	"golang.org/x/tools/go/callgraph/vta"
	"golang.org/x/tools/go/packages"
	"golang.org/x/tools/go/ssa"
	"golang.org/x/tools/go/ssa/ssautil"
)

// ModPath is the import path prefix of the analysed module.
const ModPath = "github.com/smarthome-go/homescript/v3"

// Status of one obligation.
type Status int

const (
	Discharged Status = iota
	Violated
	Undecided // counts as failure
	Info      // reported, never fails
)

func (s Status) String() string {
	switch s {
	case Discharged:
		return "discharged"
	case Violated:
		return "violated"
	case Undecided:
		return "undecided"
	case Info:
		return "info"
	}
	return "?"
}

// Obligation is one decided instance of a rule. Key identifies the construct
// (never a line number) so that unrelated edits do not move it.
type Obligation struct {
	Rule       string `json:"rule"`
	Key        string `json:"key"`
	Pos        string `json:"pos"`
	Status     Status `json:"-"`
	StatusStr  string `json:"status"`
	Detail     string `json:"detail,omitempty"`
	Nontrivial bool   `json:"nontrivial,omitempty"`
}

// Rule enumerates and decides obligations on the loaded tree.
type Rule struct {
	ID    string
	Doc   string
	Floor int // minimum number of obligations (anti-vacuity); 0 = 1
	Run   func(c *Ctx) []Obligation
}

// Ctx is the loaded, type-checked program.
type Ctx struct {
	RepoDir string
	Fset    *token.FileSet
	All     []*packages.Package
	byPath  map[string]*packages.Package

	ssaOnce sync.Once
	Prog    *ssa.Program
	SSAPkgs []*ssa.Package
	cgOnce  sync.Once
	cg      *callgraph.Graph

	notes []string
}

// Pkg returns the package with the given path relative to the module root
// (e.g. "homescript/lexer"); it fails the run when absent.
func (c *Ctx) Pkg(rel string) *packages.Package {
	p := c.byPath[ModPath+"/"+rel]
	if p == nil {
		fatalf("anchor unresolved: package %s not loaded", rel)
	}
	return p
}

func (c *Ctx) HasPkg(rel string) bool { return c.byPath[ModPath+"/"+rel] != nil }

func fatalf(format string, a ...any) {
	fmt.Fprintf(os.Stderr, "hmscheck: FATAL: "+format+"\n", a...)
	panic(fatalErr{fmt.Sprintf(format, a...)})
}

type fatalErr struct{ msg string }

func load(repo string) *Ctx {
	os.Unsetenv("GOWORK")
	fset := token.NewFileSet()
	cfg := &packages.Config{
		Mode: packages.NeedName | packages.NeedFiles | packages.NeedCompiledGoFiles | packages.NeedImports |
			packages.NeedDeps | packages.NeedTypes | packages.NeedSyntax | packages.NeedTypesInfo | packages.NeedTypesSizes | packages.NeedModule,
		Dir:   repo,
		Fset:  fset,
		Tests: false,
		Env:   append(os.Environ(), "GOFLAGS=-mod=mod", "GOPROXY=off", "GOSUMDB=off", "GOTOOLCHAIN=local", "GOWORK=off"),
	}
	pkgs, err := packages.Load(cfg, "./...")
	if err != nil {
		fatalf("packages.Load: %v", err)
	}
	c := &Ctx{RepoDir: repo, Fset: fset, byPath: map[string]*packages.Package{}}
	nerr := 0
	packages.Visit(pkgs, nil, func(p *packages.Package) {
		for _, e := range p.Errors {
			if strings.HasPrefix(p.PkgPath, ModPath) {
				fmt.Fprintf(os.Stderr, "hmscheck: load error in %s: %v\n", p.PkgPath, e)
				nerr++
			}
		}
	})
	if nerr > 0 {
		fatalf("%d load/type errors in %s: a tree that does not type-check cannot be decided", nerr, repo)
	}
	for _, p := range pkgs {
		if strings.HasPrefix(p.PkgPath, ModPath) {
			c.All = append(c.All, p)
			c.byPath[p.PkgPath] = p
		}
	}
	sort.Slice(c.All, func(i, j int) bool { return c.All[i].PkgPath < c.All[j].PkgPath })
	if len(c.All) < 12 {
		fatalf("only %d packages of %s loaded from %s (expected >= 12)", len(c.All), ModPath, repo)
	}
	return c
}

// SSA builds (once) the SSA program for all packages.
func (c *Ctx) SSA() *ssa.Program {
	c.ssaOnce.Do(func() {
		prog, pkgs := ssautil.AllPackages(c.All, ssa.InstantiateGenerics)
		prog.Build()
		c.Prog = prog
		c.SSAPkgs = pkgs
	})
	return c.Prog
}

func (c *Ctx) SSAPkg(rel string) *ssa.Package {
	c.SSA()
	return c.Prog.Package(c.Pkg(rel).Types)
}

// CallGraph builds (once) the VTA-refined call graph.
func (c *Ctx) CallGraph() *callgraph.Graph {
	c.cgOnce.Do(func() {
		prog := c.SSA()
		c.cg = vta.CallGraph(ssautil.AllFunctions(prog), cha.CallGraph(prog))
	})
	return c.cg
}

// ---- position / lookup helpers ----

func (c *Ctx) Pos(p token.Pos) string {
	if !p.IsValid() {
		return "?"
	}
	pp := c.Fset.Position(p)
	rel, err := filepath.Rel(c.RepoDir, pp.Filename)
	if err != nil || strings.HasPrefix(rel, "..") {
		rel = pp.Filename
	}
	return fmt.Sprintf("%s:%d", rel, pp.Line)
}

// FuncDecl finds a function or method declaration. recv == "" for functions;
// otherwise the receiver's named type (pointer or value).
func FuncDecl(p *packages.Package, recv, name string) *ast.FuncDecl {
	for _, f := range p.Syntax {
		for _, d := range f.Decls {
			fd, ok := d.(*ast.FuncDecl)
			if !ok || fd.Name.Name != name {
				continue
			}
			if recv == "" {
				if fd.Recv == nil {
					return fd
				}
				continue
			}
			if fd.Recv == nil || len(fd.Recv.List) == 0 {
				continue
			}
			if recvTypeName(fd.Recv.List[0].Type) == recv {
				return fd
			}
		}
	}
	return nil
}

func (c *Ctx) MustFunc(rel, recv, name string) *ast.FuncDecl {
	fd := FuncDecl(c.Pkg(rel), recv, name)
	if fd == nil || fd.Body == nil {
		fatalf("anchor unresolved: %s.%s.%s", rel, recv, name)
	}
	return fd
}

func recvTypeName(e ast.Expr) string {
	switch t := e.(type) {
	case *ast.StarExpr:
		return recvTypeName(t.X)
	case *ast.Ident:
		return t.Name
	case *ast.IndexExpr:
		return recvTypeName(t.X)
	case *ast.ParenExpr:
		return recvTypeName(t.X)
	}
	return ""
}

// AllFuncDecls returns every function declaration with a body in p.
func AllFuncDecls(p *packages.Package) []*ast.FuncDecl {
	var out []*ast.FuncDecl
	for _, f := range p.Syntax {
		for _, d := range f.Decls {
			if fd, ok := d.(*ast.FuncDecl); ok && fd.Body != nil {
				out = append(out, fd)
			}
		}
	}
	return out
}

// FuncName renders "(*T).m" / "T.m" / "f".
func FuncName(fd *ast.FuncDecl) string {
	if fd.Recv != nil && len(fd.Recv.List) > 0 {
		return recvTypeName(fd.Recv.List[0].Type) + "." + fd.Name.Name
	}
	return fd.Name.Name
}

func relPkg(path string) string { return strings.TrimPrefix(path, ModPath+"/") }

// ---- enum model (E1) ----

type Enum struct {
	Type   *types.Named
	Consts []*types.Const // declaration order
	ByVal  map[string][]*types.Const
}

func (e *Enum) Names() []string {
	var out []string
	for _, c := range e.Consts {
		out = append(out, c.Name())
	}
	return out
}

// EnumOf returns the enum model of a named integer (or string) type with >= 2
// package-level typed constants in its defining package; nil otherwise.
func (c *Ctx) EnumOf(t types.Type) *Enum {
	n, ok := types.Unalias(t).(*types.Named)
	if !ok || n.Obj().Pkg() == nil {
		return nil
	}
	b, ok := n.Underlying().(*types.Basic)
	if !ok || b.Info()&(types.IsInteger|types.IsString) == 0 {
		return nil
	}
	scope := n.Obj().Pkg().Scope()
	e := &Enum{Type: n, ByVal: map[string][]*types.Const{}}
	for _, name := range scope.Names() {
		if k, ok := scope.Lookup(name).(*types.Const); ok && types.Identical(k.Type(), n) {
			e.Consts = append(e.Consts, k)
		}
	}
	if len(e.Consts) < 2 {
		// fallback: the constants are declared untyped (`const ( A = iota; B ... )`) and only
		// acquire the named type where they are used (analyzer/ast.TypeKind). Collect the
		// package's untyped integer constants that occur where the expression has type n.
		e.Consts = nil
		if p := c.byPath[n.Obj().Pkg().Path()]; p != nil {
			seen := map[*types.Const]bool{}
			for id, obj := range p.TypesInfo.Uses {
				k, ok := obj.(*types.Const)
				if !ok || k.Pkg() != n.Obj().Pkg() || seen[k] {
					continue
				}
				if bt, ok := k.Type().(*types.Basic); !ok || bt.Info()&types.IsUntyped == 0 {
					continue
				}
				if tv, ok := p.TypesInfo.Types[id]; ok && tv.Type != nil && types.Identical(tv.Type, n) {
					seen[k] = true
					e.Consts = append(e.Consts, k)
				}
			}
		}
		if len(e.Consts) < 2 {
			return nil
		}
	}
	sort.Slice(e.Consts, func(i, j int) bool { return e.Consts[i].Pos() < e.Consts[j].Pos() })
	for _, k := range e.Consts {
		e.ByVal[k.Val().ExactString()] = append(e.ByVal[k.Val().ExactString()], k)
	}
	return e
}

// ConstOf returns the constant object an expression denotes (ident or
// selector), or nil.
func ConstOf(info *types.Info, e ast.Expr) *types.Const {
	switch x := e.(type) {
	case *ast.Ident:
		if k, ok := info.Uses[x].(*types.Const); ok {
			return k
		}
	case *ast.SelectorExpr:
		if k, ok := info.Uses[x.Sel].(*types.Const); ok {
			return k
		}
	case *ast.ParenExpr:
		return ConstOf(info, x.X)
	}
	return nil
}

// CalleeOf resolves the statically called function/method object of a call.
func CalleeOf(info *types.Info, call *ast.CallExpr) *types.Func {
	var id *ast.Ident
	switch f := ast.Unparen(call.Fun).(type) {
	case *ast.Ident:
		id = f
	case *ast.SelectorExpr:
		id = f.Sel
	case *ast.IndexExpr:
		switch g := f.X.(type) {
		case *ast.Ident:
			id = g
		case *ast.SelectorExpr:
			id = g.Sel
		}
	}
	if id == nil {
		return nil
	}
	if fn, ok := info.Uses[id].(*types.Func); ok {
		return fn
	}
	return nil
}

// IsPanicCall reports whether the expression statement is a call of the
// builtin panic.
func IsPanicCall(info *types.Info, s ast.Stmt) bool {
	es, ok := s.(*ast.ExprStmt)
	if !ok {
		return false
	}
	call, ok := es.X.(*ast.CallExpr)
	if !ok {
		return false
	}
	if id, ok := ast.Unparen(call.Fun).(*ast.Ident); ok {
		if b, ok := info.Uses[id].(*types.Builtin); ok && b.Name() == "panic" {
			return true
		}
	}
	return false
}

// BodyPanics: the statement list unconditionally ends in panic(...) (possibly
// after non-branching statements).
func BodyPanics(info *types.Info, body []ast.Stmt) bool {
	if len(body) == 0 {
		return false
	}
	return IsPanicCall(info, body[len(body)-1])
}

func exprStr(e ast.Expr) string { return types.ExprString(e) }

// ---- small text helpers (grammar.ebnf is read as text: it is the lexical specification) ----

func readGrammar(c *Ctx) string {
	b, err := os.ReadFile(filepath.Join(c.RepoDir, "grammar.ebnf"))
	if err != nil {
		fatalf("grammar.ebnf: %v", err)
	}
	return string(b)
}

func regexpFind(s, re string) string {
	m := regexp.MustCompile(re).FindStringSubmatch(s)
	if len(m) < 2 {
		return ""
	}
	return m[1]
}

func regexpGroups(s, re string) []string {
	return regexp.MustCompile(re).FindStringSubmatch(s)
}

// regexpGroupsAll returns the first capture group of every match.
func regexpGroupsAll(s, re string) []string {
	var out []string
	for _, m := range regexp.MustCompile(re).FindAllStringSubmatch(s, -1) {
		if len(m) >= 2 {
			out = append(out, m[1])
		}
	}
	return out
}

// ResolveConst follows an expression to the named constant it always evaluates to: the
// constant itself, a conversion of it, a local with a single definition, or a call of a
// function of the same package whose body is one return statement (transitively).
func ResolveConst(p *packages.Package, scope *ast.FuncDecl, e ast.Expr, depth int) *types.Const {
	if depth > 5 || e == nil {
		return nil
	}
	info := p.TypesInfo
	e = ast.Unparen(e)
	if k := ConstOf(info, e); k != nil {
		return k
	}
	switch x := e.(type) {
	case *ast.CallExpr:
		if tv, ok := info.Types[x.Fun]; ok && tv.IsType() && len(x.Args) == 1 {
			return ResolveConst(p, scope, x.Args[0], depth+1)
		}
		if fn := CalleeOf(info, x); fn != nil && fn.Pkg() == p.Types {
			for _, fd := range AllFuncDecls(p) {
				if info.Defs[fd.Name] == fn && fd.Body != nil {
					return constOfBody(p, fd, depth+1)
				}
			}
		}
	case *ast.Ident:
		obj := info.Uses[x]
		if obj == nil || scope == nil {
			return nil
		}
		var defs []ast.Expr
		ast.Inspect(scope, func(n ast.Node) bool {
			switch s := n.(type) {
			case *ast.AssignStmt:
				for i, l := range s.Lhs {
					if id, ok := l.(*ast.Ident); ok && (info.Defs[id] == obj || info.Uses[id] == obj) && i < len(s.Rhs) && len(s.Lhs) == len(s.Rhs) {
						defs = append(defs, s.Rhs[i])
					}
				}
			case *ast.ValueSpec:
				for i, nme := range s.Names {
					if info.Defs[nme] == obj && i < len(s.Values) {
						defs = append(defs, s.Values[i])
					}
				}
			}
			return true
		})
		if len(defs) == 1 {
			return ResolveConst(p, scope, defs[0], depth+1)
		}
	}
	return nil
}

// constOfBody: the function's only return statement yields one constant.
func constOfBody(p *packages.Package, fd *ast.FuncDecl, depth int) *types.Const {
	var rets []*ast.ReturnStmt
	ast.Inspect(fd.Body, func(n ast.Node) bool {
		if _, ok := n.(*ast.FuncLit); ok {
			return false
		}
		if r, ok := n.(*ast.ReturnStmt); ok {
			rets = append(rets, r)
		}
		return true
	})
	if len(rets) != 1 || len(rets[0].Results) != 1 {
		return nil
	}
	return ResolveConst(p, fd, rets[0].Results[0], depth)
}

// pkgByPath returns the loaded package with the given import path.
func (c *Ctx) pkgByPath(path string) *packages.Package {
	for _, p := range c.All {
		if p.PkgPath == path {
			return p
		}
	}
	return nil
}
