package main

import (
	"fmt"
	"go/ast"
	"go/token"
	"go/types"
	"sort"
	"strings"
)

// r4sib — part of R-unify-seed: the seed guard covers every state in which the accumulator fixes no type.
//
// TypeCheck answers "compatible" without looking at the candidate when the expected type is one of a few kinds
// (extracted from the head of TypeCheck: the clause of `switch expected.Kind()` that returns nil — any, unknown,
// never). While a unification accumulator holds such a kind nothing is checked against it. Two of these states
// must lead to a (re)seed:
//   - the kind the accumulator is initialised with (its placeholder): otherwise no alternative ever fixes the type;
//   - never, when the accumulator becomes the construct's own result type (it reaches the returned node
//     un-wrapped, not as the component of a list type): never claims that the construct does not complete, which
//     is true only if every alternative diverges. A seed that skips the never state freezes the result at never
//     as soon as the first alternative diverges (the compiler then treats the construct as not producing a
//     value / the block as terminated although other alternatives complete normally).

type r4usEnv struct {
	c      *Ctx
	e      *r2sibEngine
	never  *types.Const
	nonInf map[*types.Const]bool // kinds of `expected` under which TypeCheck returns nil at once
	// kinds of `got` under which TypeCheck returns nil at once
	nonInfGot map[*types.Const]bool
}

var r4usEnvs = map[*Ctx]*r4usEnv{}

func r4usEnvOf(c *Ctx, e *r2sibEngine) *r4usEnv {
	if v, ok := r4usEnvs[c]; ok {
		return v
	}
	env := &r4usEnv{c: c, e: e, nonInf: map[*types.Const]bool{}, nonInfGot: map[*types.Const]bool{}}
	ap := c.Pkg("homescript/analyzer/ast")
	if k, ok := ap.Types.Scope().Lookup("NeverTypeKind").(*types.Const); ok {
		env.never = k
	} else {
		fatalf("anchor unresolved: analyzer/ast.NeverTypeKind")
	}
	fd := e.decls[e.roles.typeCheck]
	p := e.declPkg[e.roles.typeCheck]
	if fd != nil && p != nil && fd.Type.Params.NumFields() >= 2 {
		info := p.TypesInfo
		var params []types.Object
		for _, fl := range fd.Type.Params.List {
			for _, n := range fl.Names {
				params = append(params, info.Defs[n])
			}
		}
		ast.Inspect(fd.Body, func(n ast.Node) bool {
			sw, ok := n.(*ast.SwitchStmt)
			if !ok || sw.Tag == nil || len(params) < 2 {
				return true
			}
			call, ok := ast.Unparen(sw.Tag).(*ast.CallExpr)
			if !ok {
				return true
			}
			sel, ok := ast.Unparen(call.Fun).(*ast.SelectorExpr)
			if !ok || sel.Sel.Name != "Kind" {
				return true
			}
			id, ok := ast.Unparen(sel.X).(*ast.Ident)
			if !ok || (info.Uses[id] != params[1] && info.Uses[id] != params[0]) {
				return true
			}
			set := env.nonInf
			if info.Uses[id] == params[0] {
				set = env.nonInfGot
			}
			for _, st := range sw.Body.List {
				cc, ok := st.(*ast.CaseClause)
				if !ok || len(cc.Body) != 1 {
					continue
				}
				rs, ok := cc.Body[0].(*ast.ReturnStmt)
				if !ok || len(rs.Results) != 1 {
					continue
				}
				if rid, ok := ast.Unparen(rs.Results[0]).(*ast.Ident); !ok || rid.Name != "nil" {
					continue
				}
				for _, x := range cc.List {
					if k := ConstOf(info, x); k != nil {
						set[k] = true
					}
				}
			}
			return true
		})
	}
	r4usEnvs[c] = env
	return env
}

// r4usCtorKind: the kind constant of the type a constructor call builds (NewUnknownType() → UnknownTypeKind).
func r4usCtorKind(c *Ctx, e *r2sibEngine, info *types.Info, x ast.Expr) *types.Const {
	call, ok := ast.Unparen(x).(*ast.CallExpr)
	if !ok {
		return nil
	}
	callee := CalleeOf(info, call)
	if callee == nil {
		return nil
	}
	sig := callee.Type().(*types.Signature)
	if sig.Results().Len() != 1 {
		return nil
	}
	n := recvNamed(sig.Results().At(0).Type())
	if n == nil || n.Obj().Pkg() == nil {
		return nil
	}
	if _, isIface := n.Underlying().(*types.Interface); isIface {
		// the constructor is declared to return the interface: look at what it returns
		fd := e.decls[callee]
		if fd == nil || fd.Body == nil || len(fd.Body.List) != 1 {
			return nil
		}
		rs, ok := fd.Body.List[0].(*ast.ReturnStmt)
		if !ok || len(rs.Results) != 1 {
			return nil
		}
		p := e.declPkg[callee]
		res := ast.Unparen(rs.Results[0])
		for {
			// Type(UnknownType{}): a conversion to the interface
			cv, ok := res.(*ast.CallExpr)
			if !ok || len(cv.Args) != 1 {
				break
			}
			if tv, ok := p.TypesInfo.Types[cv.Fun]; !ok || !tv.IsType() {
				break
			}
			res = ast.Unparen(cv.Args[0])
		}
		n = recvNamed(p.TypesInfo.TypeOf(res))
		if n == nil {
			return nil
		}
	}
	for _, p := range c.All {
		if p.Types == n.Obj().Pkg() {
			if kfd := FuncDecl(p, n.Obj().Name(), "Kind"); kfd != nil && kfd.Body != nil {
				return constOfBody(p, kfd, 0)
			}
		}
	}
	return nil
}

// r4usEval: can the condition be true / false while `acc.Kind()` is k? Leaves that do not test the kind of the
// accumulator can go either way.
func r4usEval(e *r2sibEngine, info *types.Info, f *r2sibFunc, x ast.Expr, acc types.Object, k *types.Const, depth int) (canT, canF bool) {
	if depth > 6 || x == nil {
		return true, true
	}
	x = ast.Unparen(x)
	isAcc := func(y ast.Expr) bool {
		y = ast.Unparen(y)
		if st, ok := y.(*ast.StarExpr); ok {
			y = ast.Unparen(st.X)
		}
		id, ok := y.(*ast.Ident)
		if !ok {
			return false
		}
		o := info.Uses[id]
		if o == nil {
			o = info.Defs[id]
		}
		return o == acc
	}
	var isAccKind func(y ast.Expr, d int) bool
	isAccKind = func(y ast.Expr, d int) bool {
		y = ast.Unparen(y)
		if call, ok := y.(*ast.CallExpr); ok && len(call.Args) == 0 {
			if sel, ok := ast.Unparen(call.Fun).(*ast.SelectorExpr); ok && sel.Sel.Name == "Kind" {
				return isAcc(sel.X)
			}
		}
		if id, ok := y.(*ast.Ident); ok && d < 3 && f != nil {
			if o := f.objOf(id); o != nil {
				if ds := f.defs[o]; len(ds) == 1 && ds[0].kind == r2dAssign && ds[0].n == 1 {
					return isAccKind(ds[0].rhs, d+1)
				}
			}
		}
		return false
	}
	switch b := x.(type) {
	case *ast.UnaryExpr:
		if b.Op == token.NOT {
			t, fl := r4usEval(e, info, f, b.X, acc, k, depth+1)
			return fl, t
		}
	case *ast.BinaryExpr:
		switch b.Op {
		case token.LAND:
			lt, lf := r4usEval(e, info, f, b.X, acc, k, depth+1)
			rt, rf := r4usEval(e, info, f, b.Y, acc, k, depth+1)
			return lt && rt, lf || rf
		case token.LOR:
			lt, lf := r4usEval(e, info, f, b.X, acc, k, depth+1)
			rt, rf := r4usEval(e, info, f, b.Y, acc, k, depth+1)
			return lt || rt, lf && rf
		case token.EQL, token.NEQ:
			var other ast.Expr
			switch {
			case isAccKind(b.X, 0):
				other = b.Y
			case isAccKind(b.Y, 0):
				other = b.X
			}
			if other != nil {
				if kc := ConstOf(info, other); kc != nil {
					v := kc == k
					if b.Op == token.NEQ {
						v = !v
					}
					return v, !v
				}
			}
		}
	case *ast.Ident:
		// a flag set under tests of the accumulator's kind: `placeholder := false; switch acc.Kind() { case K: placeholder = true }`
		if f != nil && r4usCtx != nil && r4usCtx.f == f && depth < 3 {
			if o := f.objOf(b); o != nil && f.isFlag(o) {
				canT, canF = false, false
				for _, d := range f.defs[o] {
					v, _ := r2sibBoolConst(info, d.rhs)
					reach := true
					if r4usCtx.scope.Pos() <= d.pos && d.pos < r4usCtx.scope.End() {
						if n := r4usCtx.nodeAt[d.pos]; n != nil {
							saved := r4usCtx
							reach, _ = r4usSeedReachableD(e, info, f, saved.parent, saved.scope, n, acc, k, depth+1)
							r4usCtx = saved
						}
					}
					if reach && v {
						canT = true
					}
					if reach && !v {
						canF = true
					}
				}
				return canT, canF
			}
		}
		// a local that names a condition: `placeholder := acc.Kind() == K`
		if f != nil {
			if o := f.objOf(b); o != nil {
				if ds := f.defs[o]; len(ds) == 1 && ds[0].kind == r2dAssign && ds[0].n == 1 {
					if _, isBool := o.Type().Underlying().(*types.Basic); isBool {
						return r4usEval(e, info, f, ds[0].rhs, acc, k, depth+1)
					}
				}
			}
		}
	case *ast.CallExpr:
		// a predicate of the module with a single return, given the accumulator: isPlaceholder(acc)
		callee := CalleeOf(info, b)
		if callee == nil || e.decls[callee] == nil {
			break
		}
		fd := e.decls[callee]
		if fd.Body == nil || len(fd.Body.List) != 1 {
			break
		}
		rs, ok := fd.Body.List[0].(*ast.ReturnStmt)
		if !ok || len(rs.Results) != 1 {
			break
		}
		cp := e.declPkg[callee]
		var bound types.Object
		i := 0
		for _, fl := range fd.Type.Params.List {
			for _, n := range fl.Names {
				if i < len(b.Args) && isAcc(b.Args[i]) {
					bound = cp.TypesInfo.Defs[n]
				}
				i++
			}
		}
		if bound == nil {
			if sel, ok := ast.Unparen(b.Fun).(*ast.SelectorExpr); ok && isAcc(sel.X) && fd.Recv != nil && len(fd.Recv.List) > 0 && len(fd.Recv.List[0].Names) > 0 {
				bound = cp.TypesInfo.Defs[fd.Recv.List[0].Names[0]]
			}
		}
		if bound == nil {
			break
		}
		return r4usEval(e, cp.TypesInfo, r2sibFuncOf(e.c, cp, fd), rs.Results[0], bound, k, depth+1)
	}
	return true, true
}

type r4usContext struct {
	f      *r2sibFunc
	parent map[ast.Node]ast.Node
	scope  *ast.BlockStmt
	nodeAt map[token.Pos]ast.Node // assignment statements by the position of their first target
}

var r4usCtx *r4usContext

// r4usSeedReachable: can this seed be reached in an iteration that starts with acc.Kind() == k?
func r4usSeedReachable(e *r2sibEngine, info *types.Info, f *r2sibFunc, parent map[ast.Node]ast.Node, scope *ast.BlockStmt, seed ast.Node, acc types.Object, k *types.Const) (bool, string) {
	return r4usSeedReachableD(e, info, f, parent, scope, seed, acc, k, 0)
}

func r4usSeedReachableD(e *r2sibEngine, info *types.Info, f *r2sibFunc, parent map[ast.Node]ast.Node, scope *ast.BlockStmt, seed ast.Node, acc types.Object, k *types.Const, depth int) (bool, string) {
	ctx := &r4usContext{f: f, parent: parent, scope: scope, nodeAt: map[token.Pos]ast.Node{}}
	ast.Inspect(scope, func(n ast.Node) bool {
		if as, ok := n.(*ast.AssignStmt); ok {
			for _, l := range as.Lhs {
				ctx.nodeAt[l.Pos()] = as
			}
		}
		return true
	})
	r4usCtx = ctx
	defer func() { r4usCtx = nil }()
	isAccKindTag := func(tag ast.Expr) bool {
		call, ok := ast.Unparen(tag).(*ast.CallExpr)
		if !ok || len(call.Args) != 0 {
			return false
		}
		sel, ok := ast.Unparen(call.Fun).(*ast.SelectorExpr)
		if !ok || sel.Sel.Name != "Kind" {
			return false
		}
		x := ast.Unparen(sel.X)
		if st, ok := x.(*ast.StarExpr); ok {
			x = ast.Unparen(st.X)
		}
		id, ok := x.(*ast.Ident)
		return ok && info.Uses[id] == acc
	}
	var cur ast.Node = seed
	for cur != nil && cur != ast.Node(scope) {
		pn := parent[cur]
		var list []ast.Stmt
		switch x := pn.(type) {
		case *ast.IfStmt:
			if ast.Node(x.Body) == cur {
				if t, _ := r4usEval(e, info, f, x.Cond, acc, k, depth); !t {
					return false, fmt.Sprintf("`%s` is false in that state", exprStr(x.Cond))
				}
			} else if x.Else == cur {
				if _, fl := r4usEval(e, info, f, x.Cond, acc, k, depth); !fl {
					return false, fmt.Sprintf("`%s` is true in that state, the seed is in its else branch", exprStr(x.Cond))
				}
			}
		case *ast.CaseClause:
			list = x.Body
			sw, _ := parent[parent[pn]].(*ast.SwitchStmt)
			if sw == nil {
				break
			}
			if sw.Tag != nil && isAccKindTag(sw.Tag) {
				in := func(cc *ast.CaseClause) bool {
					for _, v := range cc.List {
						if ConstOf(info, v) == k {
							return true
						}
					}
					return false
				}
				if x.List != nil {
					if !in(x) {
						return false, fmt.Sprintf("the seed is in a clause of `switch %s` that does not list %s", exprStr(sw.Tag), k.Name())
					}
				} else {
					for _, st := range sw.Body.List {
						if cc, ok := st.(*ast.CaseClause); ok && cc != x && in(cc) {
							return false, fmt.Sprintf("the seed is in the default clause of `switch %s`, %s has its own clause", exprStr(sw.Tag), k.Name())
						}
					}
				}
			} else if sw.Tag == nil {
				// tagless switch: this clause's conditions can be true, the earlier clauses' can be false
				if x.List != nil {
					any := false
					for _, v := range x.List {
						if t, _ := r4usEval(e, info, f, v, acc, k, depth); t {
							any = true
						}
					}
					if !any {
						return false, "no condition of the seed's clause can be true in that state"
					}
				}
				for _, st := range sw.Body.List {
					cc, ok := st.(*ast.CaseClause)
					if !ok || cc == x || cc.Pos() > x.Pos() {
						continue
					}
					for _, v := range cc.List {
						if _, fl := r4usEval(e, info, f, v, acc, k, depth); !fl {
							return false, fmt.Sprintf("the earlier clause `%s` takes that state", exprStr(v))
						}
					}
				}
			}
		case *ast.BlockStmt:
			list = x.List
		}
		for _, st := range list {
			if st.Pos() >= cur.Pos() {
				break
			}
			ifs, ok := st.(*ast.IfStmt)
			if !ok || len(ifs.Body.List) == 0 || ifs.Else != nil {
				continue
			}
			exits := false
			switch l := ifs.Body.List[len(ifs.Body.List)-1].(type) {
			case *ast.BranchStmt:
				exits = l.Tok == token.CONTINUE || l.Tok == token.BREAK
			case *ast.ReturnStmt:
				exits = true
			}
			if exits {
				if _, fl := r4usEval(e, info, f, ifs.Cond, acc, k, depth); !fl {
					return false, fmt.Sprintf("the earlier `if %s {…}` leaves the iteration in that state", exprStr(ifs.Cond))
				}
			}
		}
		cur = pn
	}
	return true, ""
}

// r4usDirectResult: does the accumulator reach the function's result un-wrapped (a field of the returned node, or
// the returned value itself, span adapters aside), or as the component of a constructed type?
func r4usDirectResult(info *types.Info, fd *ast.FuncDecl, acc types.Object) (direct bool, how string) {
	strip := func(x ast.Expr) ast.Expr {
		for {
			x = ast.Unparen(x)
			switch y := x.(type) {
			case *ast.StarExpr:
				x = y.X
				continue
			case *ast.CallExpr:
				if sel, ok := ast.Unparen(y.Fun).(*ast.SelectorExpr); ok && r2sibStripMethods[sel.Sel.Name] {
					x = sel.X
					continue
				}
			}
			return x
		}
	}
	isAcc := func(x ast.Expr) bool {
		id, ok := strip(x).(*ast.Ident)
		return ok && info.Uses[id] == acc
	}
	ast.Inspect(fd.Body, func(n ast.Node) bool {
		rs, ok := n.(*ast.ReturnStmt)
		if !ok {
			return true
		}
		for _, r := range rs.Results {
			if isAcc(r) {
				direct, how = true, "it is returned"
			}
			if cl, ok := strip(r).(*ast.CompositeLit); ok {
				for _, el := range cl.Elts {
					v := el
					name := ""
					if kv, ok := el.(*ast.KeyValueExpr); ok {
						v = kv.Value
						name = exprStr(kv.Key)
					}
					if isAcc(v) {
						direct, how = true, "it becomes "+name+" of the returned node"
					}
				}
			}
		}
		return true
	})
	return
}

// r4usStateObligations: see the file comment. declFd is the function that declares the accumulator.
func r4usStateObligations(c *Ctx, e *r2sibEngine, f *r2sibFunc, parent map[ast.Node]ast.Node, scope *ast.BlockStmt, seeds []*ast.AssignStmt, acc types.Object, key string, declFd *ast.FuncDecl, declInfo *types.Info, declAcc types.Object) []Obligation {
	env := r4usEnvOf(c, e)
	info := f.info
	type need struct {
		k   *types.Const
		why string
	}
	var needs []need
	// the placeholder(s): kinds of the constructors the accumulator is initialised with outside the iteration
	if declFd != nil {
		df := r2sibFuncOf(c, e.declPkg[declInfo.Defs[declFd.Name].(*types.Func)], declFd)
		var ks []*types.Const
		for _, d := range df.defs[declAcc] {
			if d.kind != r2dAssign || d.n != 1 || (declFd == f.fd && scope.Pos() <= d.pos && d.pos < scope.End()) {
				continue
			}
			if k := r4usCtorKind(c, e, declInfo, d.rhs); k != nil && env.nonInf[k] {
				ks = append(ks, k)
			}
		}
		sort.Slice(ks, func(i, j int) bool { return ks[i].Name() < ks[j].Name() })
		for _, k := range ks {
			needs = append(needs, need{k, "the accumulator is initialised with this kind, and TypeCheck accepts every candidate against it"})
		}
		if env.nonInf[env.never] {
			dup := false
			for _, n := range needs {
				dup = dup || n.k == env.never
			}
			if !dup {
				how := ""
				if direct, h := r4usDirectResult(declInfo, declFd, declAcc); direct {
					how = " (" + h + ")"
				}
				needs = append(needs, need{env.never, "never is the one kind TypeCheck accepts everything against although no value has it (unknown marks a reported error, any is the top type): an accumulator left at never lets every later alternative pass unchecked and types the construct" + how + " as not completing"})
			}
		}
	}
	var out []Obligation
	for _, n := range needs {
		ob := Obligation{Key: key + "|seeds while " + n.k.Name(), Pos: c.Pos(seeds[0].Pos()), Nontrivial: true}
		var whys []string
		reached := ""
		for _, s := range seeds {
			ok, why := r4usSeedReachable(e, info, f, parent, scope, s, acc, n.k)
			if ok {
				reached = fmt.Sprintf("`%s = %s` (%s) is reached in that state", exprStr(s.Lhs[0]), exprStr(s.Rhs[0]), c.Pos(s.Pos()))
				break
			}
			whys = append(whys, fmt.Sprintf("`%s = %s` (%s): %s", exprStr(s.Lhs[0]), exprStr(s.Rhs[0]), c.Pos(s.Pos()), why))
		}
		if reached != "" {
			ob.Detail = n.why + "; " + reached
		} else {
			ob.Status = Violated
			ob.Detail = fmt.Sprintf("no seed is reached while the accumulator holds %s — %s. %s: the first alternative of that kind freezes the result, every later alternative passes unchecked", n.k.Name(), n.why, strings.Join(whys, "; "))
		}
		out = append(out, ob)
	}
	return out
}

// r4usPeerObligations: the two-branch siblings of the loop unifiers. A TypeCheck whose two operands are the result
// types of two different analysed sub-constructs of the node (then/else block, try/catch block) unifies two
// alternatives; the result type of the construct is taken from one of them. Each branch's result type must be
// tested for never somewhere in the function (never on one side: take the other side; never on both: never).
func r4usPeerObligations(c *Ctx, e *r2sibEngine) []Obligation {
	env := r4usEnvOf(c, e)
	p := c.Pkg("homescript/analyzer")
	info := p.TypesInfo
	var out []Obligation
	for _, fd := range AllFuncDecls(p) {
		if fd.Body == nil {
			continue
		}
		f := r2sibFuncOf(c, p, fd)
		type peer struct {
			call *ast.CallExpr
			a, b string
		}
		var peers []peer
		ast.Inspect(fd.Body, func(n ast.Node) bool {
			call, ok := n.(*ast.CallExpr)
			if !ok || CalleeOf(info, call) != e.roles.typeCheck || len(call.Args) < 2 {
				return true
			}
			a, b := f.norm(call.Args[0]), f.norm(call.Args[1])
			if a != b && r4usBranchTerm(a) && r4usBranchTerm(b) {
				peers = append(peers, peer{call, a, b})
			}
			return true
		})
		if len(peers) == 0 {
			continue
		}
		// never tests of the function: terms t with `t.Kind() == NeverTypeKind` (either polarity, if or switch)
		tested := map[string]bool{}
		ast.Inspect(fd.Body, func(n ast.Node) bool {
			switch x := n.(type) {
			case *ast.BinaryExpr:
				if x.Op != token.EQL && x.Op != token.NEQ {
					return true
				}
				for _, pr := range [][2]ast.Expr{{x.X, x.Y}, {x.Y, x.X}} {
					if ConstOf(info, pr[1]) == env.never {
						if call, ok := ast.Unparen(pr[0]).(*ast.CallExpr); ok {
							if sel, ok := ast.Unparen(call.Fun).(*ast.SelectorExpr); ok && sel.Sel.Name == "Kind" {
								tested[f.norm(sel.X)] = true
							}
						}
					}
				}
			case *ast.SwitchStmt:
				if x.Tag == nil {
					return true
				}
				call, ok := ast.Unparen(x.Tag).(*ast.CallExpr)
				if !ok {
					return true
				}
				sel, ok := ast.Unparen(call.Fun).(*ast.SelectorExpr)
				if !ok || sel.Sel.Name != "Kind" {
					return true
				}
				for _, st := range x.Body.List {
					if cc, ok := st.(*ast.CaseClause); ok {
						for _, v := range cc.List {
							if ConstOf(info, v) == env.never {
								tested[f.norm(sel.X)] = true
							}
						}
					}
				}
			}
			return true
		})
		seen := map[string]bool{}
		for _, pr := range peers {
			for _, t := range []string{pr.a, pr.b} {
				key := fmt.Sprintf("homescript/analyzer.%s|branch %s|tested for never", FuncName(fd), f.pretty(t))
				if seen[key] {
					continue
				}
				seen[key] = true
				ob := Obligation{Key: key, Pos: c.Pos(pr.call.Pos()), Nontrivial: true}
				if tested[t] {
					ob.Detail = "unified with " + f.pretty(map[bool]string{true: pr.b, false: pr.a}[t == pr.a]) + "; its kind is compared with NeverTypeKind in the function"
				} else {
					ob.Status = Violated
					ob.Detail = fmt.Sprintf("%s is unified with %s (TypeCheck accepts anything against never), but the function never tests %s.Kind() against NeverTypeKind: when this branch diverges its type never is taken for the whole construct (or hides the other branch's type), as the sibling unifiers take care not to do", f.pretty(t), f.pretty(map[bool]string{true: pr.b, false: pr.a}[t == pr.a]), f.pretty(t))
				}
				out = append(out, ob)
			}
		}
	}
	sort.SliceStable(out, func(i, j int) bool { return out[i].Key < out[j].Key })
	return out
}

// r4usBranchTerm: the result type of an analysed block of the node (desc[AnalyzedBlock](…).ResultType).
func r4usBranchTerm(t string) bool {
	return strings.HasPrefix(t, "desc[AnalyzedBlock](") && strings.HasSuffix(t, ").ResultType")
}
