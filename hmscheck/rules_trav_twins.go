package main

// trav: R-printer-twins — where parser/ast and analyzer/ast print the same
// construct, the keyword / punctuation skeleton of the two String() methods
// agrees.

import (
	"fmt"
	"go/ast"
	"go/token"
	"go/types"
	"regexp"
	"sort"
	"strconv"
	"strings"

	"golang.org/x/tools/go/packages"
)

func init() {
	register(&Rule{ID: "R-printer-twins", Floor: 36, Run: rulePrinterTwins,
		Doc: "parser/ast and analyzer/ast hold twin structs for the same source construct (paired through the analyzer function that maps one to the other, equal Kind() constant names, or the Analyzed name prefix). " +
			"For every pair where both have a String() method the printed skeleton must agree: the set of keyword tokens and the set of punctuation tokens of all string literals in the two methods (format verbs removed, whitespace normalised, literals inside panic() ignored) is the same; " +
			"a keyword literal that carries its trailing separator in one twin carries it in the other (\"event \" vs \"event\" glues the keyword to the next token); a field value that one twin passes through an escaping helper before formatting is passed through a helper in the other as well. " +
			"Further, every syntax-bearing field of the parser struct has a counterpart in the analyzed twin (otherwise the analyzed printer cannot print it at all). " +
			"Necessary: both printers emit source text for the same grammar production; a token only one of them emits means one of the two outputs does not parse back to the same program. " +
			"Conservative: only a keyword/punctuation token present on one side and absent on the other, a glued keyword, an escaping asymmetry, or a lost field is a violation; everything else is informational."})
}

type travSkeleton struct {
	words, puncts map[string]bool
	glued, spaced map[string]bool   // keyword literals ending with / without trailing separator
	helpers       map[string]string // helper function applied to a receiver field -> field
	lits          []string
}

var travVerbRe = regexp.MustCompile(`%[-+# 0]*[0-9]*(\.[0-9]+)?[a-zA-Z]`)

func travSkeletonOf(p *packages.Package, m *travModel, fd *ast.FuncDecl) *travSkeleton {
	sk := &travSkeleton{words: map[string]bool{}, puncts: map[string]bool{}, glued: map[string]bool{}, spaced: map[string]bool{}, helpers: map[string]string{}}
	info := p.TypesInfo
	var recv types.Object
	if len(fd.Recv.List[0].Names) > 0 {
		recv = info.Defs[fd.Recv.List[0].Names[0]]
	}
	var visit func(n ast.Node) bool
	visit = func(n ast.Node) bool {
		switch x := n.(type) {
		case *ast.CallExpr:
			if id, ok := ast.Unparen(x.Fun).(*ast.Ident); ok {
				if b, ok := info.Uses[id].(*types.Builtin); ok && b.Name() == "panic" {
					return false
				}
			}
			// helper applied to a receiver field
			if callee := CalleeOf(info, x); callee != nil && callee.Pkg() != nil && strings.HasPrefix(callee.Pkg().Path(), ModPath) && len(x.Args) == 1 {
				sg := callee.Type().(*types.Signature)
				if sg.Recv() == nil && sg.Results().Len() == 1 {
					if b, ok := sg.Results().At(0).Type().Underlying().(*types.Basic); ok && b.Kind() == types.String {
						fld := ""
						ast.Inspect(x.Args[0], func(y ast.Node) bool {
							if se, ok := y.(*ast.SelectorExpr); ok {
								if id, ok := ast.Unparen(se.X).(*ast.Ident); ok && recv != nil && info.Uses[id] == recv {
									fld = se.Sel.Name
								}
							}
							return true
						})
						if fld != "" {
							sk.helpers[fld] = callee.Name()
						}
					}
				}
			}
		case *ast.BasicLit:
			if x.Kind != token.STRING {
				return true
			}
			s, err := strconv.Unquote(x.Value)
			if err != nil {
				return true
			}
			sk.lits = append(sk.lits, s)
			hasVerb := travVerbRe.MatchString(s)
			t := travVerbRe.ReplaceAllString(s, "\x00")
			// tokenise
			var lastWord string
			lastWasWordAtEnd := false
			i := 0
			rs := []rune(t)
			for i < len(rs) {
				r := rs[i]
				switch {
				case r == '\x00' || r == ' ' || r == '\n' || r == '\t' || r == '\r':
					i++
					lastWasWordAtEnd = false
				case r == '_' || (r >= 'a' && r <= 'z') || (r >= 'A' && r <= 'Z'):
					j := i
					for j < len(rs) && (rs[j] == '_' || (rs[j] >= 'a' && rs[j] <= 'z') || (rs[j] >= 'A' && rs[j] <= 'Z') || (rs[j] >= '0' && rs[j] <= '9')) {
						j++
					}
					w := string(rs[i:j])
					sk.words[w] = true
					lastWord = w
					lastWasWordAtEnd = j == len(rs)
					if j < len(rs) && (rs[j] == ' ') && j+1 == len(rs) {
						if !hasVerb {
							sk.spaced[w] = true
						}
					}
					i = j
				case strings.ContainsRune("()[]{},;", r):
					sk.puncts[string(r)] = true
					i++
					lastWasWordAtEnd = false
				default:
					j := i
					for j < len(rs) && !strings.ContainsRune("()[]{},; \n\t\r\x00_", rs[j]) && !(rs[j] >= 'a' && rs[j] <= 'z') && !(rs[j] >= 'A' && rs[j] <= 'Z') && !(rs[j] >= '0' && rs[j] <= '9') {
						j++
					}
					if j == i {
						j = i + 1
					} else {
						sk.puncts[string(rs[i:j])] = true
					}
					i = j
					lastWasWordAtEnd = false
				}
			}
			if lastWasWordAtEnd && !hasVerb && lastWord != "" {
				sk.glued[lastWord] = true
			}
		}
		return true
	}
	ast.Inspect(fd.Body, visit)
	return sk
}

func travSetDiff(a, b map[string]bool) []string {
	var out []string
	for k := range a {
		if !b[k] {
			out = append(out, k)
		}
	}
	sort.Strings(out)
	return out
}

func rulePrinterTwins(c *Ctx) []Obligation {
	m := travGetModel(c)
	var obs []Obligation
	for _, a := range m.sortedStructs() {
		if !m.inA(a.T) || a.Twin == nil || a.IsSem {
			continue
		}
		p := a.Twin
		pair := p.Short() + "~" + a.Short()
		// lost fields
		for _, pf := range p.Fields {
			if pf.Class == tfLayout {
				continue
			}
			if a.Field(pf.Name) != nil {
				continue
			}
			matched := false
			if _, basic := types.Unalias(pf.Var.Type()).(*types.Basic); !basic {
				for _, af := range a.Fields {
					if p.Field(af.Name) == nil && types.Identical(af.Var.Type(), pf.Var.Type()) {
						matched = true
					}
				}
			}
			// a child/type field is carried under another name when the analyzed twin has an unmatched field of the corresponding class
			if !matched && (pf.Class == tfChild || pf.Class == tfType || pf.Class == tfName) {
				for _, af := range a.Fields {
					if p.Field(af.Name) == nil && af.Class == pf.Class {
						matched = true
					}
				}
			}
			ob := Obligation{Key: pair + "|field " + pf.Name + " has a counterpart", Pos: c.Pos(pf.Var.Pos()), Nontrivial: true}
			if matched {
				ob.Status, ob.Detail = Discharged, fmt.Sprintf("%s.%s (%s) is carried by the analyzed twin under another name", p.Short(), pf.Name, pf.Class)
			} else {
				ob.Status = Violated
				ob.Detail = fmt.Sprintf("%s.%s (%s: %s) has no counterpart in %s (paired by: %s): the analyzed program cannot print — or otherwise preserve — this piece of syntax", p.Short(), pf.Name, pf.Class, pf.Why, a.Short(), a.TwinWhy)
			}
			obs = append(obs, ob)
		}
		fa, fp := FuncDecl(m.pA, a.Short(), "String"), FuncDecl(m.pP, p.Short(), "String")
		if fa == nil || fp == nil || fa.Body == nil || fp.Body == nil {
			continue
		}
		sa, sp := travSkeletonOf(m.pA, m, fa), travSkeletonOf(m.pP, m, fp)
		// tokens printed by the String() methods of component structs (arms, fields, literals
		// wrappers …) belong to the construct's text as well: `_` may be printed by the match
		// expression itself on one side and by a literal wrapper on the other
		// (only consulted when the direct comparison finds a difference: component printers
		// of derived fields, e.g. a recorded callback signature, exist on one side only)
		if len(travSetDiff(sp.words, sa.words))+len(travSetDiff(sa.words, sp.words))+len(travSetDiff(sp.puncts, sa.puncts))+len(travSetDiff(sa.puncts, sp.puncts)) > 0 {
			sa2, sp2 := travSkeletonOf(m.pA, m, fa), travSkeletonOf(m.pP, m, fp)
			travAddComponents(m.pA, m, a.T, sa2, map[*types.Named]bool{a.T: true}, 0)
			travAddComponents(m.pP, m, p.T, sp2, map[*types.Named]bool{p.T: true}, 0)
			if len(travSetDiff(sp2.words, sa2.words))+len(travSetDiff(sa2.words, sp2.words))+len(travSetDiff(sp2.puncts, sa2.puncts))+len(travSetDiff(sa2.puncts, sp2.puncts)) == 0 {
				sa.words, sa.puncts, sp.words, sp.puncts = sa2.words, sa2.puncts, sp2.words, sp2.puncts
			}
		}
		var problems []string
		for _, w := range travSetDiff(sp.words, sa.words) {
			problems = append(problems, fmt.Sprintf("keyword `%s` is printed by %s.String only", w, p.Short()))
		}
		for _, w := range travSetDiff(sa.words, sp.words) {
			problems = append(problems, fmt.Sprintf("keyword `%s` is printed by %s.String only", w, a.Short()))
		}
		for _, w := range travSetDiff(sp.puncts, sa.puncts) {
			problems = append(problems, fmt.Sprintf("punctuation `%s` is printed by %s.String only", w, p.Short()))
		}
		for _, w := range travSetDiff(sa.puncts, sp.puncts) {
			problems = append(problems, fmt.Sprintf("punctuation `%s` is printed by %s.String only", w, a.Short()))
		}
		for w := range sp.glued {
			if sa.spaced[w] && !sa.glued[w] {
				problems = append(problems, fmt.Sprintf("keyword literal \"%s\" has no trailing separator in %s.String but is \"%s \" in %s.String: the parser-AST printer glues it to the following token", w, p.Short(), w, a.Short()))
			}
		}
		for w := range sa.glued {
			if sp.spaced[w] && !sp.glued[w] {
				problems = append(problems, fmt.Sprintf("keyword literal \"%s\" has no trailing separator in %s.String but is \"%s \" in %s.String: the analyzed printer glues it to the following token", w, a.Short(), w, p.Short()))
			}
		}
		for fld, h := range sa.helpers {
			if _, ok := sp.helpers[fld]; !ok && p.Field(fld) != nil {
				problems = append(problems, fmt.Sprintf("%s.String passes field %s through %s before formatting, %s.String formats it raw: one of the two prints text that does not lex back to the same value", a.Short(), fld, h, p.Short()))
			}
		}
		for fld, h := range sp.helpers {
			if _, ok := sa.helpers[fld]; !ok && a.Field(fld) != nil {
				problems = append(problems, fmt.Sprintf("%s.String passes field %s through %s before formatting, %s.String formats it raw: one of the two prints text that does not lex back to the same value", p.Short(), fld, h, a.Short()))
			}
		}
		sort.Strings(problems)
		ob := Obligation{Key: pair + "|String() skeletons agree", Pos: c.Pos(fp.Pos()), Nontrivial: true}
		if len(problems) == 0 {
			ob.Status = Discharged
			ob.Detail = fmt.Sprintf("keywords %s, punctuation %s on both sides", travSortedKeys(sp.words), travSortedKeys(sp.puncts))
		} else {
			ob.Status = Violated
			ob.Detail = strings.Join(problems, "; ") + fmt.Sprintf(" [%s: %q | %s: %q]", p.Short(), sp.lits, a.Short(), sa.lits)
		}
		obs = append(obs, ob)
	}
	return obs
}

// travAddComponents unions into sk the keyword/punctuation tokens of the String()
// methods of the struct-typed components of t (through slices, pointers and
// maps), excluding components that are AST interface values (their own kinds).
func travAddComponents(p *packages.Package, m *travModel, t *types.Named, sk *travSkeleton, seen map[*types.Named]bool, depth int) {
	if depth > 3 || t == nil {
		return
	}
	st, ok := t.Underlying().(*types.Struct)
	if !ok {
		return
	}
	var comp func(tt types.Type) *types.Named
	comp = func(tt types.Type) *types.Named {
		switch x := types.Unalias(tt).(type) {
		case *types.Pointer:
			return comp(x.Elem())
		case *types.Slice:
			return comp(x.Elem())
		case *types.Map:
			return comp(x.Elem())
		case *types.Named:
			if _, isStruct := x.Underlying().(*types.Struct); isStruct && x.Obj().Pkg() == t.Obj().Pkg() {
				return x
			}
		}
		return nil
	}
	for i := 0; i < st.NumFields(); i++ {
		n := comp(st.Field(i).Type())
		if n == nil || seen[n] {
			continue
		}
		seen[n] = true
		if fd := FuncDecl(p, n.Obj().Name(), "String"); fd != nil && fd.Body != nil {
			sub := travSkeletonOf(p, m, fd)
			for w := range sub.words {
				sk.words[w] = true
			}
			for w := range sub.puncts {
				sk.puncts[w] = true
			}
		}
		travAddComponents(p, m, n, sk, seen, depth+1)
	}
}
