package main

// trav: R-printer-twins — where parser/ast and analyzer/ast print the same
// construct, the keyword / punctuation skeleton of the two String() methods
// agrees.

import (
	"fmt"
	"go/ast"
	"go/constant"
	"go/token"
	"go/types"
	"regexp"
	"sort"
	"strconv"
	"strings"

	"golang.org/x/tools/go/packages"
)

func init() {
	register(&Rule{ID: "R-printer-twins", Floor: 36, Run: rulePrinterTwins,
		Doc: "parser/ast and analyzer/ast hold twin structs for the same source construct (paired through the analyzer function that maps one to the other, equal Kind() constant names, or the Analyzed name prefix). " +
			"For every pair where both have a String() method the printed skeleton must agree: the set of keyword tokens and the set of punctuation tokens of all string literals of the two printers (format verbs removed, whitespace normalised, literals inside panic() ignored) is the same. " +
			"The printer is the method together with the text-producing functions and own methods it calls (inlined, parameters bound to the receiver fields passed) and the named string constants it uses; when the sets differ, the String() methods of the concrete component values it prints (explicitly or through a fmt function) are followed as well, then those of all struct components; " +
			"a keyword literal that carries its trailing separator in one twin carries it in the other (\"event \" vs \"event\" glues the keyword to the next token); a field value that one twin passes through an escaping function before formatting (a text→text function without a body in the module, reached directly or through helpers) is passed through one in the other as well. " +
			"Further, every syntax-bearing field of the parser struct has a counterpart in the analyzed twin (otherwise the analyzed printer cannot print it at all). " +
			"Necessary: both printers emit source text for the same grammar production; a token only one of them emits means one of the two outputs does not parse back to the same program. " +
			"Conservative: only a keyword/punctuation token present on one side and absent on the other, a glued keyword, an escaping asymmetry, or a lost field is a violation; everything else is informational."})
}

type travSkeleton struct {
	words, puncts map[string]bool
	glued, spaced map[string]bool   // keyword literals ending with / without trailing separator
	helpers       map[string]string // helper function applied to a receiver field -> field
	lits          []string
}

var travVerbRe = regexp.MustCompile(`%[-+# 0]*[0-9]*(\.[0-9]+)?[a-zA-Z]`)

// travSkeletonOf computes the printed skeleton of a String() method from the
// resolved program, not from where the literals happen to be written: calls
// whose callee has a body in the module and returns text (a helper function,
// a method of the receiver, the String() of a concrete component — called
// explicitly or implicitly by handing the component to a fmt function) are
// inlined, with the callee's parameters bound to the receiver fields the
// arguments stand for. So a literal counts for the construct whether it is
// written in the method, in an extracted helper or in a component printer, and
// "the field is passed through an escaping function" is decided where the
// transformation really happens (a text→text call that has no body in the module,
// e.g. (*strings.Replacer).Replace), however many wrappers lie in between.
//
// components=false: only the printer's own code is inlined (functions without
// receiver and methods of the same struct — what extract-helper / extract-method
// produce). components=true: the String() methods of concrete component values
// (called explicitly, or implicitly through a fmt function) are followed as well.
func travSkeletonOf(p *packages.Package, m *travModel, fd *ast.FuncDecl, components bool) *travSkeleton {
	sk := &travSkeleton{words: map[string]bool{}, puncts: map[string]bool{}, glued: map[string]bool{}, spaced: map[string]bool{}, helpers: map[string]string{}}
	w := &travSkelWalker{m: m, sk: sk, active: map[*types.Func]bool{}, done: map[string]bool{}, components: components}
	if fn, _ := p.TypesInfo.Defs[fd.Name].(*types.Func); fn != nil {
		if rv := fn.Type().(*types.Signature).Recv(); rv != nil {
			w.self = travNamed(rv.Type())
		}
	}
	env := map[types.Object]string{}
	if len(fd.Recv.List) > 0 && len(fd.Recv.List[0].Names) > 0 {
		if recv := p.TypesInfo.Defs[fd.Recv.List[0].Names[0]]; recv != nil {
			env[recv] = travOriginRecv
		}
	}
	if fn, _ := p.TypesInfo.Defs[fd.Name].(*types.Func); fn != nil {
		w.active[fn] = true
	}
	w.body(&travDecl{Fd: fd, Pkg: p}, env, 0)
	return sk
}

// origin of a value inside a (possibly inlined) printer body: "" = unrelated to
// the receiver, travOriginRecv = the twin's receiver itself, otherwise the name of
// the receiver field the value is (a part of).
const travOriginRecv = "\x00recv"

const travSkelMaxDepth = 4

type travSkelWalker struct {
	m          *travModel
	sk         *travSkeleton
	active     map[*types.Func]bool // inlining stack (recursion guard)
	done       map[string]bool      // callee + binding already inlined
	self       *types.Named         // the struct whose printer is summarised
	components bool                 // follow the printers of component values too
}

// own: the callee is part of the printer itself — a plain function, or a method of the printed struct.
func (w *travSkelWalker) own(sg *types.Signature) bool {
	if sg.Recv() == nil {
		return true
	}
	return w.self != nil && travNamed(sg.Recv().Type()) == w.self
}

func travIsStringType(t types.Type) bool {
	if t == nil {
		return false
	}
	b, ok := types.Unalias(t).Underlying().(*types.Basic)
	return ok && b.Info()&types.IsString != 0
}

// travReturnsText: the first result is a string or a list of strings.
func travReturnsText(sg *types.Signature) bool {
	if sg.Results().Len() < 1 {
		return false
	}
	t := types.Unalias(sg.Results().At(0).Type())
	if travIsStringType(t) {
		return true
	}
	if sl, ok := t.Underlying().(*types.Slice); ok {
		return travIsStringType(sl.Elem())
	}
	return false
}

// travFormatter: a function that assembles text from its arguments without
// changing them (the fmt print family, strings.Join / Repeat, builder writes).
func travFormatter(fn *types.Func) bool {
	if fn == nil || fn.Pkg() == nil {
		return false
	}
	switch fn.Pkg().Path() {
	case "fmt":
		return true
	case "strings":
		switch fn.Name() {
		case "Join", "Repeat", "WriteString", "WriteRune", "WriteByte", "String":
			return true
		}
	}
	return false
}

// stringerOf: the String() method (with a body in the module) of the concrete
// named type of t (through one pointer); nil for interfaces.
func (w *travSkelWalker) stringerOf(t types.Type) *types.Func {
	n := travNamed(t)
	if n == nil {
		return nil
	}
	if _, isIfc := n.Underlying().(*types.Interface); isIfc {
		return nil
	}
	for i := 0; i < n.NumMethods(); i++ {
		f := n.Method(i)
		if f.Name() != "String" || w.m.decls[f] == nil {
			continue
		}
		sg := f.Type().(*types.Signature)
		if sg.Params().Len() == 0 && sg.Results().Len() == 1 && travIsStringType(sg.Results().At(0).Type()) {
			return f
		}
	}
	return nil
}

// origin of an expression under env (see travOriginRecv).
func (w *travSkelWalker) origin(d *travDecl, env map[types.Object]string, e ast.Expr, depth int) string {
	info := d.Pkg.TypesInfo
	switch x := ast.Unparen(e).(type) {
	case *ast.Ident:
		if o := info.Uses[x]; o != nil {
			return env[o]
		}
		if o := info.Defs[x]; o != nil {
			return env[o]
		}
	case *ast.SelectorExpr:
		if sel := info.Selections[x]; sel != nil && sel.Kind() == types.FieldVal {
			switch o := w.origin(d, env, x.X, depth); o {
			case "":
				return ""
			case travOriginRecv:
				return x.Sel.Name
			default:
				return o
			}
		}
	case *ast.StarExpr:
		return w.origin(d, env, x.X, depth)
	case *ast.IndexExpr:
		return w.origin(d, env, x.X, depth)
	case *ast.SliceExpr:
		return w.origin(d, env, x.X, depth)
	case *ast.TypeAssertExpr:
		return w.origin(d, env, x.X, depth)
	case *ast.UnaryExpr:
		if x.Op == token.AND {
			return w.origin(d, env, x.X, depth)
		}
	case *ast.CallExpr:
		if tv, ok := info.Types[x.Fun]; ok && tv.IsType() && len(x.Args) == 1 {
			return w.origin(d, env, x.Args[0], depth) // conversion
		}
		// accessor: a niladic method whose body is `return <path over its receiver>`
		se, ok := ast.Unparen(x.Fun).(*ast.SelectorExpr)
		if !ok || len(x.Args) != 0 || depth > travSkelMaxDepth {
			return ""
		}
		sel := info.Selections[se]
		if sel == nil || sel.Kind() != types.MethodVal {
			return ""
		}
		callee, _ := sel.Obj().(*types.Func)
		cd := w.m.decls[callee]
		ro := w.origin(d, env, se.X, depth)
		if cd == nil || ro == "" || cd.Fd.Body == nil || len(cd.Fd.Body.List) != 1 || cd.Fd.Recv == nil || len(cd.Fd.Recv.List[0].Names) == 0 {
			return ""
		}
		rs, ok := cd.Fd.Body.List[0].(*ast.ReturnStmt)
		if !ok || len(rs.Results) != 1 {
			return ""
		}
		cenv := map[types.Object]string{}
		if r := cd.Pkg.TypesInfo.Defs[cd.Fd.Recv.List[0].Names[0]]; r != nil {
			cenv[r] = ro
		}
		return w.origin(cd, cenv, rs.Results[0], depth+1)
	}
	return ""
}

func (w *travSkelWalker) inline(callee *types.Func, env map[types.Object]string, depth int) {
	cd := w.m.decls[callee]
	if cd == nil || cd.Fd.Body == nil {
		return
	}
	var sig []string
	for o, v := range env {
		if v != "" {
			sig = append(sig, o.Name()+"="+v)
		}
	}
	sort.Strings(sig)
	key := callee.FullName() + "|" + strings.Join(sig, ",")
	if w.done[key] {
		return
	}
	w.done[key] = true
	w.active[callee] = true
	w.body(cd, env, depth)
	delete(w.active, callee)
}

// bind: environment of the callee for a call: parameters ↦ origins of the arguments, receiver ↦ origin of the receiver expression.
func (w *travSkelWalker) bind(d *travDecl, env map[types.Object]string, call *ast.CallExpr, callee *types.Func, depth int) map[types.Object]string {
	cd := w.m.decls[callee]
	cenv := map[types.Object]string{}
	cinfo := cd.Pkg.TypesInfo
	if cd.Fd.Recv != nil && len(cd.Fd.Recv.List) > 0 && len(cd.Fd.Recv.List[0].Names) > 0 {
		if se, ok := ast.Unparen(call.Fun).(*ast.SelectorExpr); ok {
			if r := cinfo.Defs[cd.Fd.Recv.List[0].Names[0]]; r != nil {
				cenv[r] = w.origin(d, env, se.X, depth)
			}
		}
	}
	i := 0
	for _, f := range cd.Fd.Type.Params.List {
		for _, nm := range f.Names {
			if i < len(call.Args) {
				if o := cinfo.Defs[nm]; o != nil {
					cenv[o] = w.origin(d, env, call.Args[i], depth)
				}
			}
			i++
		}
		if len(f.Names) == 0 {
			i++
		}
	}
	return cenv
}

func (w *travSkelWalker) body(d *travDecl, env map[types.Object]string, depth int) {
	info := d.Pkg.TypesInfo
	sk := w.sk
	setOrigin := func(lhs ast.Expr, o string) {
		id, ok := ast.Unparen(lhs).(*ast.Ident)
		if !ok || o == "" {
			return
		}
		obj := info.Defs[id]
		if obj == nil {
			obj = info.Uses[id]
		}
		if obj != nil && env[obj] == "" {
			env[obj] = o
		}
	}
	ast.Inspect(d.Fd.Body, func(n ast.Node) bool {
		switch x := n.(type) {
		case *ast.AssignStmt:
			if len(x.Lhs) == len(x.Rhs) {
				for i := range x.Lhs {
					setOrigin(x.Lhs[i], w.origin(d, env, x.Rhs[i], depth))
				}
			}
		case *ast.ValueSpec:
			if len(x.Names) == len(x.Values) {
				for i := range x.Names {
					setOrigin(x.Names[i], w.origin(d, env, x.Values[i], depth))
				}
			}
		case *ast.RangeStmt:
			if x.Value != nil {
				setOrigin(x.Value, w.origin(d, env, x.X, depth))
			}
		case *ast.CallExpr:
			if id, ok := ast.Unparen(x.Fun).(*ast.Ident); ok {
				if b, ok := info.Uses[id].(*types.Builtin); ok && b.Name() == "panic" {
					return false
				}
			}
			if tv, ok := info.Types[x.Fun]; ok && tv.IsType() {
				return true
			}
			callee := CalleeOf(info, x)
			if callee == nil {
				return true
			}
			sg, _ := callee.Type().(*types.Signature)
			if sg == nil {
				return true
			}
			cd := w.m.decls[callee]
			switch {
			case cd != nil && cd.Fd.Body != nil && travReturnsText(sg) && depth < travSkelMaxDepth && !w.active[callee] && (w.components || w.own(sg)):
				// a text-producing function with a body in the module: part of this printer
				w.inline(callee, w.bind(d, env, x, callee, depth), depth+1)
			case cd != nil && cd.Fd.Body != nil && travReturnsText(sg) && !w.own(sg):
				// the printer of a component: its text is the component's, not this construct's
			case travFormatter(callee):
				if !w.components {
					break
				}
				// values handed to a formatting function print through their String() method
				for _, a := range x.Args {
					t := info.TypeOf(a)
					if t == nil {
						continue
					}
					if sf := w.stringerOf(t); sf != nil && !w.active[sf] && depth < travSkelMaxDepth {
						scd := w.m.decls[sf]
						cenv := map[types.Object]string{}
						if scd.Fd.Recv != nil && len(scd.Fd.Recv.List[0].Names) > 0 {
							if r := scd.Pkg.TypesInfo.Defs[scd.Fd.Recv.List[0].Names[0]]; r != nil {
								cenv[r] = w.origin(d, env, a, depth)
							}
						}
						w.inline(sf, cenv, depth+1)
					}
				}
			case travReturnsText(sg) && travIsStringType(sg.Results().At(0).Type()):
				// a text→text function that is not looked into (no body in the module, recursion, depth):
				// the receiver fields among its text arguments are transformed before they are printed
				for _, a := range x.Args {
					if !travIsStringType(info.TypeOf(a)) {
						continue
					}
					if o := w.origin(d, env, a, depth); o != "" && o != travOriginRecv {
						if _, have := sk.helpers[o]; !have {
							sk.helpers[o] = callee.Name()
						}
					}
				}
			}
		case *ast.BasicLit:
			if x.Kind != token.STRING {
				return true
			}
			s, err := strconv.Unquote(x.Value)
			if err != nil {
				return true
			}
			travSkelLiteral(sk, s)
		case *ast.Ident:
			// a named string constant of the module is the literal it names
			if k, ok := info.Uses[x].(*types.Const); ok && k.Pkg() != nil && strings.HasPrefix(k.Pkg().Path(), ModPath) &&
				travIsStringType(k.Type()) && k.Val().Kind() == constant.String {
				travSkelLiteral(sk, constant.StringVal(k.Val()))
			}
		case *ast.SelectorExpr:
			// … also when it is qualified (pkg.Const): the Sel identifier is visited next
		}
		return true
	})
}

// travSkelLiteral adds the tokens of one string literal to the skeleton.
func travSkelLiteral(sk *travSkeleton, s string) {
	sk.lits = append(sk.lits, s)
	hasVerb := travVerbRe.MatchString(s)
	t := travVerbRe.ReplaceAllString(s, "\x00")
	// tokenise
	var lastWord string
	lastWasWordAtEnd := false
	i := 0
	rs := []rune(t)
	for i < len(rs) {
		r := rs[i]
		switch {
		case r == '\x00' || r == ' ' || r == '\n' || r == '\t' || r == '\r':
			i++
			lastWasWordAtEnd = false
		case r == '_' || (r >= 'a' && r <= 'z') || (r >= 'A' && r <= 'Z'):
			j := i
			for j < len(rs) && (rs[j] == '_' || (rs[j] >= 'a' && rs[j] <= 'z') || (rs[j] >= 'A' && rs[j] <= 'Z') || (rs[j] >= '0' && rs[j] <= '9')) {
				j++
			}
			w := string(rs[i:j])
			sk.words[w] = true
			lastWord = w
			lastWasWordAtEnd = j == len(rs)
			if j < len(rs) && (rs[j] == ' ') && j+1 == len(rs) {
				if !hasVerb {
					sk.spaced[w] = true
				}
			}
			i = j
		case strings.ContainsRune("()[]{},;", r):
			sk.puncts[string(r)] = true
			i++
			lastWasWordAtEnd = false
		default:
			j := i
			for j < len(rs) && !strings.ContainsRune("()[]{},; \n\t\r\x00_", rs[j]) && !(rs[j] >= 'a' && rs[j] <= 'z') && !(rs[j] >= 'A' && rs[j] <= 'Z') && !(rs[j] >= '0' && rs[j] <= '9') {
				j++
			}
			if j == i {
				j = i + 1
			} else {
				sk.puncts[string(rs[i:j])] = true
			}
			i = j
			lastWasWordAtEnd = false
		}
	}
	if lastWasWordAtEnd && !hasVerb && lastWord != "" {
		sk.glued[lastWord] = true
	}
}

// travRefinePuncts cuts the punctuation tokens of both sides into common pieces: a token that
// starts or ends with another token of the union is split there, until nothing changes; both
// sides are then expressed in these pieces.
func travRefinePuncts(a, b map[string]bool) (map[string]bool, map[string]bool) {
	atoms := map[string]bool{}
	for t := range a {
		atoms[t] = true
	}
	for t := range b {
		atoms[t] = true
	}
	sorted := func(m map[string]bool) []string {
		var out []string
		for k := range m {
			out = append(out, k)
		}
		sort.Strings(out)
		return out
	}
	for changed, rounds := true, 0; changed && rounds < 32; rounds++ {
		changed = false
		for _, t := range sorted(atoms) {
			for _, p := range sorted(atoms) {
				if p == t || len(p) >= len(t) || !atoms[t] {
					continue
				}
				rest := ""
				switch {
				case strings.HasPrefix(t, p):
					rest = t[len(p):]
				case strings.HasSuffix(t, p):
					rest = t[:len(t)-len(p)]
				default:
					continue
				}
				if rest == p {
					continue // "==" is not "=" cut twice: a doubled token is a token of its own
				}
				delete(atoms, t)
				atoms[rest] = true
				changed = true
			}
		}
	}
	var seg func(t string, out map[string]bool) bool
	seg = func(t string, out map[string]bool) bool {
		if t == "" {
			return true
		}
		if atoms[t] {
			out[t] = true
			return true
		}
		for _, p := range sorted(atoms) {
			if strings.HasPrefix(t, p) {
				tmp := map[string]bool{}
				if seg(t[len(p):], tmp) {
					out[p] = true
					for k := range tmp {
						out[k] = true
					}
					return true
				}
			}
		}
		return false
	}
	express := func(m map[string]bool) map[string]bool {
		out := map[string]bool{}
		for _, t := range sorted(m) {
			tmp := map[string]bool{}
			if seg(t, tmp) {
				for k := range tmp {
					out[k] = true
				}
			} else {
				out[t] = true
			}
		}
		return out
	}
	return express(a), express(b)
}

func travSetDiff(a, b map[string]bool) []string {
	var out []string
	for k := range a {
		if !b[k] {
			out = append(out, k)
		}
	}
	sort.Strings(out)
	return out
}

func rulePrinterTwins(c *Ctx) []Obligation {
	m := travGetModel(c)
	var obs []Obligation
	for _, a := range m.sortedStructs() {
		if !m.inA(a.T) || a.Twin == nil || a.IsSem {
			continue
		}
		p := a.Twin
		pair := p.Short() + "~" + a.Short()
		// lost fields
		for _, pf := range p.Fields {
			if pf.Class == tfLayout {
				continue
			}
			if a.Field(pf.Name) != nil {
				continue
			}
			matched := false
			if _, basic := types.Unalias(pf.Var.Type()).(*types.Basic); !basic {
				for _, af := range a.Fields {
					if p.Field(af.Name) == nil && types.Identical(af.Var.Type(), pf.Var.Type()) {
						matched = true
					}
				}
			}
			// a child/type field is carried under another name when the analyzed twin has an unmatched field of the corresponding class
			if !matched && (pf.Class == tfChild || pf.Class == tfType || pf.Class == tfName) {
				for _, af := range a.Fields {
					if p.Field(af.Name) == nil && af.Class == pf.Class {
						matched = true
					}
				}
			}
			ob := Obligation{Key: pair + "|field " + pf.Name + " has a counterpart", Pos: c.Pos(pf.Var.Pos()), Nontrivial: true}
			if matched {
				ob.Status, ob.Detail = Discharged, fmt.Sprintf("%s.%s (%s) is carried by the analyzed twin under another name", p.Short(), pf.Name, pf.Class)
			} else {
				ob.Status = Violated
				ob.Detail = fmt.Sprintf("%s.%s (%s: %s) has no counterpart in %s (paired by: %s): the analyzed program cannot print — or otherwise preserve — this piece of syntax", p.Short(), pf.Name, pf.Class, pf.Why, a.Short(), a.TwinWhy)
			}
			obs = append(obs, ob)
		}
		fa, fp := FuncDecl(m.pA, a.Short(), "String"), FuncDecl(m.pP, p.Short(), "String")
		if fa == nil || fp == nil || fa.Body == nil || fp.Body == nil {
			continue
		}
		sa, sp := travSkeletonOf(m.pA, m, fa, false), travSkeletonOf(m.pP, m, fp, false)
		differ := func(x, y *travSkeleton) bool {
			return len(travSetDiff(x.words, y.words))+len(travSetDiff(y.words, x.words))+len(travSetDiff(x.puncts, y.puncts))+len(travSetDiff(y.puncts, x.puncts)) > 0
		}
		// The text of a construct may be split differently between the printer and the printers
		// of its components on the two sides (`_` printed by the match expression itself on one
		// side and by a literal wrapper on the other; an argument list joined in place on one
		// side and by the argument-list struct on the other). Only consulted when the direct
		// comparison finds a difference: first the component printers the method really calls
		// (explicitly, or through a fmt function), then those of every struct-typed component
		// (component printers of derived fields, e.g. a recorded callback signature, exist on one side only).
		if differ(sp, sa) {
			sa1, sp1 := travSkeletonOf(m.pA, m, fa, true), travSkeletonOf(m.pP, m, fp, true)
			if !differ(sp1, sa1) {
				sa.words, sa.puncts, sp.words, sp.puncts = sa1.words, sa1.puncts, sp1.words, sp1.puncts
			}
		}
		if differ(sp, sa) {
			sa2, sp2 := travSkeletonOf(m.pA, m, fa, false), travSkeletonOf(m.pP, m, fp, false)
			travAddComponents(m.pA, m, a.T, sa2, map[*types.Named]bool{a.T: true}, 0)
			travAddComponents(m.pP, m, p.T, sp2, map[*types.Named]bool{p.T: true}, 0)
			if !differ(sp2, sa2) {
				sa.words, sa.puncts, sp.words, sp.puncts = sa2.words, sa2.puncts, sp2.words, sp2.puncts
			}
		}
		// The same punctuation may be cut into literals differently ("%s..=%s" on one side, ".." and "="
		// on the other): compare the pieces after cutting every token at the tokens it starts / ends with.
		if differ(sp, sa) {
			rp, ra := travRefinePuncts(sp.puncts, sa.puncts)
			if len(travSetDiff(sp.words, sa.words))+len(travSetDiff(sa.words, sp.words))+len(travSetDiff(rp, ra))+len(travSetDiff(ra, rp)) == 0 {
				sp.puncts, sa.puncts = rp, ra
			}
		}
		var problems []string
		for _, w := range travSetDiff(sp.words, sa.words) {
			problems = append(problems, fmt.Sprintf("keyword `%s` is printed by %s.String only", w, p.Short()))
		}
		for _, w := range travSetDiff(sa.words, sp.words) {
			problems = append(problems, fmt.Sprintf("keyword `%s` is printed by %s.String only", w, a.Short()))
		}
		for _, w := range travSetDiff(sp.puncts, sa.puncts) {
			problems = append(problems, fmt.Sprintf("punctuation `%s` is printed by %s.String only", w, p.Short()))
		}
		for _, w := range travSetDiff(sa.puncts, sp.puncts) {
			problems = append(problems, fmt.Sprintf("punctuation `%s` is printed by %s.String only", w, a.Short()))
		}
		for w := range sp.glued {
			if sa.spaced[w] && !sa.glued[w] {
				problems = append(problems, fmt.Sprintf("keyword literal \"%s\" has no trailing separator in %s.String but is \"%s \" in %s.String: the parser-AST printer glues it to the following token", w, p.Short(), w, a.Short()))
			}
		}
		for w := range sa.glued {
			if sp.spaced[w] && !sp.glued[w] {
				problems = append(problems, fmt.Sprintf("keyword literal \"%s\" has no trailing separator in %s.String but is \"%s \" in %s.String: the analyzed printer glues it to the following token", w, a.Short(), w, p.Short()))
			}
		}
		for fld, h := range sa.helpers {
			if _, ok := sp.helpers[fld]; !ok && p.Field(fld) != nil {
				problems = append(problems, fmt.Sprintf("%s.String passes field %s through %s before formatting, %s.String formats it raw: one of the two prints text that does not lex back to the same value", a.Short(), fld, h, p.Short()))
			}
		}
		for fld, h := range sp.helpers {
			if _, ok := sa.helpers[fld]; !ok && a.Field(fld) != nil {
				problems = append(problems, fmt.Sprintf("%s.String passes field %s through %s before formatting, %s.String formats it raw: one of the two prints text that does not lex back to the same value", p.Short(), fld, h, a.Short()))
			}
		}
		sort.Strings(problems)
		ob := Obligation{Key: pair + "|String() skeletons agree", Pos: c.Pos(fp.Pos()), Nontrivial: true}
		if len(problems) == 0 {
			ob.Status = Discharged
			ob.Detail = fmt.Sprintf("keywords %s, punctuation %s on both sides", travSortedKeys(sp.words), travSortedKeys(sp.puncts))
		} else {
			ob.Status = Violated
			ob.Detail = strings.Join(problems, "; ") + fmt.Sprintf(" [%s: %q | %s: %q]", p.Short(), sp.lits, a.Short(), sa.lits)
		}
		obs = append(obs, ob)
	}
	return obs
}

// travAddComponents unions into sk the keyword/punctuation tokens of the String()
// methods of the struct-typed components of t (through slices, pointers and
// maps), excluding components that are AST interface values (their own kinds).
func travAddComponents(p *packages.Package, m *travModel, t *types.Named, sk *travSkeleton, seen map[*types.Named]bool, depth int) {
	if depth > 3 || t == nil {
		return
	}
	st, ok := t.Underlying().(*types.Struct)
	if !ok {
		return
	}
	var comp func(tt types.Type) *types.Named
	comp = func(tt types.Type) *types.Named {
		switch x := types.Unalias(tt).(type) {
		case *types.Pointer:
			return comp(x.Elem())
		case *types.Slice:
			return comp(x.Elem())
		case *types.Map:
			return comp(x.Elem())
		case *types.Named:
			if _, isStruct := x.Underlying().(*types.Struct); isStruct && x.Obj().Pkg() == t.Obj().Pkg() {
				return x
			}
		}
		return nil
	}
	for i := 0; i < st.NumFields(); i++ {
		n := comp(st.Field(i).Type())
		if n == nil || seen[n] {
			continue
		}
		seen[n] = true
		if fd := FuncDecl(p, n.Obj().Name(), "String"); fd != nil && fd.Body != nil {
			sub := travSkeletonOf(p, m, fd, false)
			for w := range sub.words {
				sk.words[w] = true
			}
			for w := range sub.puncts {
				sk.puncts[w] = true
			}
		}
		travAddComponents(p, m, n, sk, seen, depth+1)
	}
}
