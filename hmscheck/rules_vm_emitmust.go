package main

import (
	"fmt"
	"go/ast"
	"go/token"
	"go/types"
	"sort"
	"strings"
)

func init() {
	register(&Rule{ID: "R-emit-must", Floor: 18, Run: ruleVMEmitMust,
		Doc: "compile cases that must emit particular opcodes unconditionally: (a) every Opcode_IntoIter is immediately preceded by Opcode_Clone on every path, and the `for` lowering emits IntoIter on every path (the loop iterates over a snapshot; iterating the live list shares its cursor and sees mutations); (b) a composite constant (a value whose representation holds a map or a slice: list / object / any-object, or a value of statically unknown kind) embedded in an instruction is only ever pushed by the cloning push — which push opcode clones is read off the VM's dispatcher — because the instruction operand is shared by every execution of the program; (c) short-circuit `&&` / `||`: a conditional jump is emitted between the compilation of the left and of the right operand, it targets a label emitted after the right operand, and the constant pushed on the jump path is the operator's absorbing value. Necessary for C01/C16"})
}

// vmContainerKinds: does constructing the value through constructor f yield a
// value whose struct holds a map or a (pointer to a) slice? Returns the set of
// struct type names the constructor can build.
func vmValueKindsOf(c *Ctx, f *types.Func, seen map[*types.Func]bool, out map[string]bool) {
	fn := vmDeclIndex(c).of(f)
	if fn == nil || seen[f] {
		if fn == nil {
			out["?"] = true
		}
		return
	}
	seen[f] = true
	valPkg := c.Pkg("homescript/runtime/value").Types
	any := false
	ast.Inspect(fn.fd.Body, func(n ast.Node) bool {
		switch x := n.(type) {
		case *ast.CompositeLit:
			if nt := vmNamed(fn.info.TypeOf(x)); nt != nil && nt.Obj().Pkg() == valPkg {
				if _, isStruct := nt.Underlying().(*types.Struct); isStruct {
					out[nt.Obj().Name()] = true
					any = true
				}
			}
		case *ast.CallExpr:
			if g := CalleeOf(fn.info, x); g != nil && g.Pkg() == valPkg && g != f {
				if sig, ok := g.Type().(*types.Signature); ok && sig.Results().Len() == 1 && sig.Recv() == nil {
					before := len(out)
					vmValueKindsOf(c, g, seen, out)
					if len(out) > before {
						any = true
					}
				}
			}
		}
		return true
	})
	if !any {
		out["?"] = true
	}
}

func vmIsContainerStruct(c *Ctx, name string) bool {
	if name == "?" {
		return true
	}
	obj := c.Pkg("homescript/runtime/value").Types.Scope().Lookup(name)
	if obj == nil {
		return true
	}
	st, ok := obj.Type().Underlying().(*types.Struct)
	if !ok {
		return true
	}
	for i := 0; i < st.NumFields(); i++ {
		t := st.Field(i).Type().Underlying()
		if p, isPtr := t.(*types.Pointer); isPtr {
			t = p.Elem().Underlying()
		}
		switch t.(type) {
		case *types.Map, *types.Slice:
			return true
		}
	}
	return false
}

// vmClassifyValue resolves the constant operand of a value instruction.
func vmClassifyValue(c *Ctx, fn *vmFn, ev []vmEv, at int, e ast.Expr, depth int) (kinds []string, container bool) {
	e = ast.Unparen(e)
	if s, ok := e.(*ast.StarExpr); ok {
		e = ast.Unparen(s.X)
	}
	if depth > 4 {
		return []string{"?"}, true
	}
	switch x := e.(type) {
	case *ast.Ident:
		if rhs := vmLastAssign(fn.info, ev, at, vmObjOf(fn.info, x)); rhs != nil {
			return vmClassifyValue(c, fn, ev, at, rhs, depth+1)
		}
	case *ast.CallExpr:
		if f := CalleeOf(fn.info, x); f != nil {
			out := map[string]bool{}
			vmValueKindsOf(c, f, map[*types.Func]bool{}, out)
			for k := range out {
				kinds = append(kinds, k)
				if vmIsContainerStruct(c, k) {
					container = true
				}
			}
			sort.Strings(kinds)
			return kinds, container
		}
	case *ast.CompositeLit:
		if nt := vmNamed(fn.info.TypeOf(x)); nt != nil {
			return []string{nt.Obj().Name()}, vmIsContainerStruct(c, nt.Obj().Name())
		}
	}
	return []string{"?"}, true
}

// vmValuePushOps reads the VM's dispatcher: opcodes whose clause asserts the
// value-carrying instruction type, split into cloning / non-cloning.
func vmValuePushOps(c *Ctx) (cloning, copying map[string]bool) {
	r := vmRoles(c)
	info := r.dispatch.info
	cloning, copying = map[string]bool{}, map[string]bool{}
	viObj := c.Pkg("homescript/compiler").Types.Scope().Lookup("ValueInstruction")
	if viObj == nil {
		fatalf("anchor unresolved: compiler.ValueInstruction")
	}
	valField := vmStructField(c.Pkg("homescript/compiler"), "ValueInstruction", "Value")
	for _, cl := range r.dispSw.Body.List {
		cc := cl.(*ast.CaseClause)
		asserts, clones := false, false
		// the clause and the handler methods it hands the instruction to
		var scope []ast.Node
		for _, s := range cc.Body {
			scope = append(scope, s)
		}
		for _, e := range cc.List {
			if k := ConstOf(info, e); k != nil {
				if _, nodes := r.handlerNodes(k); nodes != nil {
					scope = nodes
				}
				break
			}
		}
		for _, s := range scope {
			ast.Inspect(s, func(n ast.Node) bool {
				switch x := n.(type) {
				case *ast.TypeAssertExpr:
					if x.Type != nil && types.Identical(info.TypeOf(x.Type), viObj.Type()) {
						asserts = true
					}
				case *ast.CallExpr:
					if sel, ok := ast.Unparen(x.Fun).(*ast.SelectorExpr); ok && sel.Sel.Name == "Clone" {
						clones = true
					}
				}
				return true
			})
		}
		_ = valField
		if !asserts {
			continue
		}
		for _, e := range cc.List {
			if k := ConstOf(info, e); k != nil {
				if clones {
					cloning[k.Name()] = true
				} else {
					copying[k.Name()] = true
				}
			}
		}
	}
	if len(cloning) == 0 {
		fatalf("anchor unresolved: no dispatcher clause clones the operand of a ValueInstruction")
	}
	return
}

func ruleVMEmitMust(c *Ctx) []Obligation {
	r := vmCompRoles(c)
	w := vmCompUnits(c)
	var obs []Obligation
	obs = append(obs, w.problems...)

	// ---- (a) Clone before IntoIter
	nIter := 0
	for _, u := range w.units {
		var bad []string
		n := 0
		for pi, tr := range u.trs {
			p := u.paths[pi]
			if !vmNormalExit(p) {
				continue
			}
			for k, e := range tr {
				if !e.is("Opcode_IntoIter") {
					continue
				}
				n++
				if k == 0 || !tr[k-1].is("Opcode_Clone") {
					bad = append(bad, fmt.Sprintf("IntoIter at %s is not directly preceded by Clone: the loop iterates over the live value (shared cursor, sees mutations made by the body); emitted: %s (path [%s])", c.Pos(e.pos), vmTraceStr(tr), p.decisions()))
				}
			}
		}
		if n == 0 {
			continue
		}
		nIter++
		obs = append(obs, vmOb(c, u.key()+"|every IntoIter is directly preceded by Clone on every path", u.pos, bad, fmt.Sprintf("%d emission(s) on normal paths, each preceded by Clone", n)))
	}
	vmConst(c, "homescript/analyzer/ast", "ForStatementKind")
	forUnits := 0
	for _, u := range w.units {
		if u.name != "case ForStatementKind" {
			continue
		}
		u = vmExpandUnit(c, r, w, u)
		forUnits++
		var bad []string
		n := 0
		for pi, tr := range u.trs {
			p := u.paths[pi]
			if !vmNormalExit(p) {
				continue
			}
			n++
			if !vmHasOp(tr, "Opcode_IntoIter") || !vmHasOp(tr, "Opcode_IteratorAdvance") {
				bad = append(bad, fmt.Sprintf("a path of the for lowering does not emit IntoIter / IteratorAdvance; emitted: %s (path [%s])", vmTraceStr(tr), p.decisions()))
			}
		}
		obs = append(obs, vmOb(c, u.key()+"|the for lowering emits IntoIter and IteratorAdvance on every path", u.pos, bad, fmt.Sprintf("%d normal path(s)", n)))
	}
	if nIter == 0 || forUnits == 0 {
		obs = append(obs, Obligation{Key: "compiler|for lowering", Pos: "?", Status: Undecided, Detail: "no compile unit emits Opcode_IntoIter / no clause for ForStatementKind: anchor lost"})
	}

	// ---- (b) composite constants are pushed by the cloning push
	cloning, copying := vmValuePushOps(c)
	valueIface := c.Pkg("homescript/runtime/value").Types.Scope().Lookup("Value")
	type site struct {
		pos   token.Pos
		unit  *vmCompUnit
		bad   []string
		und   []string
		text  string
		kinds map[string]bool
		ops   map[string]bool
		cont  bool
	}
	sites := map[token.Pos]*site{}
	for _, u := range w.units {
		for pi, tr := range u.trs {
			p := u.paths[pi]
			for _, e := range tr {
				if e.kind != emEmit {
					continue
				}
				// the operand of type value.Value: by the constructor's signature when the operands are the
				// constructor's arguments, otherwise (composite literal, wrapper constructor) by its type
				vi := -1
				if e.ctor != nil {
					sig := e.ctor.Type().(*types.Signature)
					nonOp, pv := 0, -1
					for i := 0; i < sig.Params().Len(); i++ {
						if types.Identical(sig.Params().At(i).Type(), r.opType) {
							continue
						}
						if valueIface != nil && types.Identical(sig.Params().At(i).Type(), valueIface.Type()) {
							pv = nonOp
						}
						nonOp++
					}
					if nonOp == len(e.args) {
						vi = pv
					}
				}
				if vi < 0 && valueIface != nil {
					for i, a := range e.args {
						if t := u.fn.info.TypeOf(a); t != nil && types.Identical(t, valueIface.Type()) {
							vi = i
						}
					}
				}
				if vi < 0 || vi >= len(e.args) {
					continue
				}
				s := sites[e.pos]
				if s == nil {
					s = &site{pos: e.pos, unit: u, text: vmTrunc(exprStr(e.args[vi]), 60), kinds: map[string]bool{}, ops: map[string]bool{}}
					sites[e.pos] = s
				}
				kinds, container := vmClassifyValue(c, u.fn, p.ev, e.evIdx, e.args[vi], 0)
				for _, k := range kinds {
					s.kinds[k] = true
				}
				s.cont = s.cont || container
				if e.op == nil {
					s.und = append(s.und, fmt.Sprintf("the opcode `%s` is not a resolvable constant on path [%s]", e.opText, p.decisions()))
					continue
				}
				s.ops[e.op.Name()] = true
				if container && !cloning[e.op.Name()] {
					how := "does not clone its operand"
					if copying[e.op.Name()] {
						how = "pushes a shallow copy of its operand (the VM's clause does not call Clone)"
					}
					s.bad = append(s.bad, fmt.Sprintf("composite constant `%s` (kinds %v) is pushed by %s, which %s: every execution of this instruction, on every core and in every later host invocation, aliases the map/slice stored inside the compiled program (path [%s])", s.text, kinds, e.op.Name(), how, p.decisions()))
				}
			}
		}
	}
	var poss []token.Pos
	for p := range sites {
		poss = append(poss, p)
	}
	sort.Slice(poss, func(i, j int) bool { return poss[i] < poss[j] })
	ord := map[string]int{}
	for _, ps := range poss {
		s := sites[ps]
		ord[s.unit.key()]++
		var ks, os []string
		for k := range s.kinds {
			ks = append(ks, k)
		}
		for o := range s.ops {
			os = append(os, strings.TrimPrefix(o, "Opcode_"))
		}
		sort.Strings(ks)
		sort.Strings(os)
		ob := vmOb(c, fmt.Sprintf("%s|value instruction #%d: a composite constant is pushed only by the cloning push", s.unit.key(), ord[s.unit.key()]), s.pos, s.bad,
			fmt.Sprintf("operand `%s` kinds %v composite=%v pushed by %v (cloning pushes per the VM: %v)", s.text, ks, s.cont, os, vmKeys(cloning)))
		ob.Nontrivial = s.cont
		if len(s.und) > 0 && ob.Status == Discharged {
			ob.Status = Undecided
			ob.Detail = strings.Join(vmUniq(s.und), "; ")
		}
		obs = append(obs, ob)
	}
	if len(sites) == 0 {
		obs = append(obs, Obligation{Key: "compiler|value instructions", Pos: "?", Status: Undecided, Detail: "no value-carrying instruction is emitted: anchor lost"})
	}

	// ---- (c) short-circuit lowering
	// The lowering of operator K is the set of paths of the function that decides on the
	// operator (a switch clause, an if-chain, a helper that receives `op == K` as a flag …)
	// that are feasible when the operator of the node equals K.
	for _, sc := range []struct {
		konst  string
		absorb bool // the value of the expression when the left operand decides it
	}{{"LogicalAndInfixOperator", false}, {"LogicalOrInfixOperator", true}} {
		k := vmConst(c, "homescript/parser/ast", sc.konst)
		found := false
		for _, fn := range r.fns {
			obj, _ := fn.info.Defs[fn.fd.Name].(*types.Func)
			if obj == nil || !r.emitters[obj] || !vmDecidesOn(fn, k) {
				continue
			}
			as := &vmAssume{info: fn.info, k: k}
			var paths []*vmPath
			var trs [][]vmEm
			pos := fn.fd.Pos()
			for _, u0 := range w.units {
				if u0.fn.fd != fn.fd {
					continue
				}
				u := vmExpandUnit(c, r, w, u0)
				for pi, tr := range u.trs {
					p := u.paths[pi]
					if !vmNormalExit(p) || !as.feasible(p) {
						continue
					}
					if u0.name == "case "+sc.konst {
						pos = u0.pos
					}
					paths = append(paths, p)
					trs = append(trs, tr)
				}
			}
			if len(paths) == 0 {
				continue
			}
			found = true
			info := fn.info
			var bad []string
			n := 0
			for pi, tr := range trs {
				p := paths[pi]
				n++
				wit := fmt.Sprintf("emitted: %s (path [%s])", vmTraceStr(tr), p.decisions())
				var comps []int
				for i, e := range tr {
					if e.kind == emCompile {
						comps = append(comps, i)
					}
				}
				if len(comps) != 2 {
					bad = append(bad, fmt.Sprintf("%d operand compilations (want left, right); %s", len(comps), wit))
					continue
				}
				l, rr := comps[0], comps[1]
				if !strings.HasSuffix(exprStr(tr[l].node), ".Lhs") || !strings.HasSuffix(exprStr(tr[rr].node), ".Rhs") {
					bad = append(bad, "operands are not compiled left then right; "+wit)
					continue
				}
				// between: [Not]* JumpIfFalse(L)
				nots, jmp := 0, -1
				okBetween := true
				for i := l + 1; i < rr; i++ {
					switch {
					case tr[i].is("Opcode_Not") && jmp < 0:
						nots++
					case tr[i].is("Opcode_JumpIfFalse") && jmp < 0:
						jmp = i
					default:
						okBetween = false
					}
				}
				if jmp < 0 || !okBetween {
					bad = append(bad, "no conditional jump (and nothing else) is emitted between the left and the right operand: the right operand is always evaluated; "+wit)
					continue
				}
				target := vmArgObj(info, tr[jmp], 0)
				lab := -1
				for i := rr + 1; i < len(tr); i++ {
					if tr[i].is("Opcode_Label") && vmArgObj(info, tr[i], 0) == target && target != nil {
						lab = i
					}
				}
				if lab < 0 {
					bad = append(bad, "the conditional jump does not target a label emitted after the right operand; "+wit)
					continue
				}
				// right operand path ends in a jump over the constant
				if lab-1 <= rr || !tr[lab-1].is("Opcode_Jump") {
					bad = append(bad, "the right-operand path does not jump over the short-circuit constant; "+wit)
				}
				// constant pushed after the label
				if lab+1 >= len(tr) || tr[lab+1].kind != emEmit || len(tr[lab+1].args) == 0 {
					bad = append(bad, "no constant is pushed on the short-circuit path; "+wit)
					continue
				}
				val, isBool := vmBoolConstOf(info, tr[lab+1].args[len(tr[lab+1].args)-1])
				if !isBool {
					// the constant depends on the operator (`NewValueBool(isOr)`): evaluate it for this operator
					if x := vmBoolArgOf(tr[lab+1].args[len(tr[lab+1].args)-1]); x != nil {
						val, isBool = as.eval(p, tr[lab+1].evIdx, x, 0)
					}
				}
				// JumpIfFalse jumps when (lhs XOR nots odd) is false, i.e. when lhs == (nots odd)
				jumpsWhenLhs := nots%2 == 1
				switch {
				case !isBool:
					bad = append(bad, "the value pushed on the short-circuit path is not a boolean constant; "+wit)
				case jumpsWhenLhs != sc.absorb:
					bad = append(bad, fmt.Sprintf("the conditional jump is taken when the left operand is %v, but %s is decided by a left operand of %v; %s", jumpsWhenLhs, sc.konst, sc.absorb, wit))
				case val != sc.absorb:
					bad = append(bad, fmt.Sprintf("the short-circuit path pushes %v, want %v; %s", val, sc.absorb, wit))
				}
			}
			obs = append(obs, vmOb(c, fn.name+"|case "+sc.konst+"|short-circuit: conditional jump between the operands, over the right operand, to the absorbing constant", pos, bad, fmt.Sprintf("%d normal path(s)", n)))
		}
		if !found {
			obs = append(obs, Obligation{Key: "compiler|case " + sc.konst, Pos: "?", Status: Undecided, Detail: "no compile clause found for this operator"})
		}
	}
	return obs
}

func vmKeys(m map[string]bool) []string {
	var out []string
	for k := range m {
		out = append(out, strings.TrimPrefix(k, "Opcode_"))
	}
	sort.Strings(out)
	return out
}

// vmBoolConstOf: e is (a dereference of) a call whose single argument is a
// boolean constant, e.g. *value.NewValueBool(true).
func vmBoolConstOf(info *types.Info, e ast.Expr) (val, ok bool) {
	e = ast.Unparen(e)
	if s, isStar := e.(*ast.StarExpr); isStar {
		e = ast.Unparen(s.X)
	}
	call, isCall := e.(*ast.CallExpr)
	if !isCall || len(call.Args) != 1 {
		return false, false
	}
	tv := info.Types[call.Args[0]]
	if tv.Value == nil || tv.Value.Kind().String() != "Bool" {
		return false, false
	}
	return tv.Value.ExactString() == "true", true
}

// vmBoolArgOf: the argument X of (a dereference of) a one-argument call, e.g. *value.NewValueBool(X).
func vmBoolArgOf(e ast.Expr) ast.Expr {
	e = ast.Unparen(e)
	if s, isStar := e.(*ast.StarExpr); isStar {
		e = ast.Unparen(s.X)
	}
	call, isCall := e.(*ast.CallExpr)
	if !isCall || len(call.Args) != 1 {
		return nil
	}
	return call.Args[0]
}

// vmDecidesOn: the function's own body tests the enum constant k (a switch
// clause listing it, or an ==/!= comparison with it).
func vmDecidesOn(fn *vmFn, k *types.Const) bool {
	found := false
	ast.Inspect(fn.fd.Body, func(n ast.Node) bool {
		switch x := n.(type) {
		case *ast.CaseClause:
			for _, e := range x.List {
				if ConstOf(fn.info, e) == k {
					found = true
				}
			}
		case *ast.BinaryExpr:
			if x.Op == token.EQL || x.Op == token.NEQ {
				if ConstOf(fn.info, x.X) == k || ConstOf(fn.info, x.Y) == k {
					found = true
				}
			}
		}
		return !found
	})
	return found
}

// vmAssume evaluates conditions under the assumption that every (non-constant)
// expression of k's enum type on the path — the operator of the node being
// lowered — equals k.
type vmAssume struct {
	info *types.Info
	k    *types.Const
}

func (a *vmAssume) isSubject(e ast.Expr) bool {
	if ConstOf(a.info, ast.Unparen(e)) != nil {
		return false
	}
	t := a.info.TypeOf(e)
	return t != nil && types.Identical(t, a.k.Type())
}

func (a *vmAssume) eval(p *vmPath, at int, e ast.Expr, depth int) (val, known bool) {
	if depth > 8 {
		return false, false
	}
	e = ast.Unparen(e)
	if tv, ok := a.info.Types[e]; ok && tv.Value != nil && tv.Value.Kind().String() == "Bool" {
		return tv.Value.ExactString() == "true", true
	}
	switch x := e.(type) {
	case *ast.UnaryExpr:
		if x.Op == token.NOT {
			v, ok := a.eval(p, at, x.X, depth+1)
			return !v, ok
		}
	case *ast.BinaryExpr:
		switch x.Op {
		case token.LAND, token.LOR:
			l, lk := a.eval(p, at, x.X, depth+1)
			r, rk := a.eval(p, at, x.Y, depth+1)
			if x.Op == token.LAND {
				if (lk && !l) || (rk && !r) {
					return false, true
				}
				return l && r, lk && rk
			}
			if (lk && l) || (rk && r) {
				return true, true
			}
			return l || r, lk && rk
		case token.EQL, token.NEQ:
			var other *types.Const
			switch {
			case a.isSubject(x.X):
				other = ConstOf(a.info, ast.Unparen(x.Y))
			case a.isSubject(x.Y):
				other = ConstOf(a.info, ast.Unparen(x.X))
			}
			if other != nil && types.Identical(other.Type(), a.k.Type()) {
				return (other == a.k) == (x.Op == token.EQL), true
			}
		}
	case *ast.Ident:
		r, k, _ := vmResolveAt(a.info, p.binds, p.ev, at, x)
		if r != ast.Expr(x) {
			return a.eval(p, k, r, depth+1)
		}
	}
	return false, false
}

// feasible: no decision on the path contradicts the assumption.
func (a *vmAssume) feasible(p *vmPath) bool {
	for j, e := range p.ev {
		switch e.K {
		case evCond:
			if v, known := a.eval(p, j, e.X, 0); known && v != e.Taken {
				return false
			}
		case evCase:
			if e.Select {
				continue
			}
			sw, _ := e.Sw.(*ast.SwitchStmt)
			if sw == nil || sw.Tag == nil || !a.isSubject(sw.Tag) {
				continue
			}
			if e.Vals != nil {
				has := false
				for _, v := range e.Vals {
					if ConstOf(a.info, v) == a.k {
						has = true
					}
				}
				if !has {
					return false
				}
			} else {
				for _, v := range e.Others {
					if ConstOf(a.info, v) == a.k {
						return false
					}
				}
			}
		}
	}
	return true
}
