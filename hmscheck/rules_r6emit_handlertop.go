package main

// Extension of R-vm-typestate (r6emit): the handler stack is a strict LIFO,
// only its top element is ever observed.

import (
	"fmt"
	"go/ast"
	"go/token"
	"go/types"
	"sort"
)

// r6emHandlerTopOnly enumerates every element read of the handler stack in
// the runtime package (index expressions that are not the target of an
// assignment, value variables of range loops). try regions nest dynamically:
// the compiler brackets every try body with one install / one remove on both
// continuations, so the handler responsible for a raise is the most recently
// installed one that has not been removed — the top. Each read must therefore
// be `F[len(F)-1]` (the bound possibly held in a single-definition local); a
// read at any other position (a search by function name, the bottom element,
// a range loop binding elements) selects a handler whose try body is not the
// innermost one being executed.
func r6emHandlerTopOnly(c *Ctx, r *vmVMRoles, handlers *types.Var) []Obligation {
	var obs []Obligation
	total := 0
	for _, fn := range r.fns {
		info := fn.info
		fn := fn
		defs := func(o types.Object) ast.Expr { return vmSingleDef(fn, o) }
		written := map[ast.Expr]bool{}
		ast.Inspect(fn.fd.Body, func(n ast.Node) bool {
			if as, ok := n.(*ast.AssignStmt); ok {
				for _, l := range as.Lhs {
					written[ast.Unparen(l)] = true
				}
			}
			return true
		})
		count := 0
		ast.Inspect(fn.fd.Body, func(n ast.Node) bool {
			switch x := n.(type) {
			case *ast.IndexExpr:
				if r2FieldOrAlias(fn, x.X) != handlers || written[x] {
					return true
				}
				count++
				total++
				key := fmt.Sprintf("%s|element read of %s", fn.name, vmFieldName(handlers))
				if count > 1 {
					key += fmt.Sprintf(" #%d", count)
				}
				ob := Obligation{Key: key + "|the handler observed is the top of the handler stack", Pos: c.Pos(x.Pos()), Nontrivial: true}
				isTop := false
				if k, ok := vmLenPlus(info, x.Index, handlers, defs, 0); ok && k == -1 {
					isTop = true
				} else if be, ok := ast.Unparen(vmStripConv(info, x.Index)).(*ast.BinaryExpr); ok && be.Op == token.SUB {
					// len(alias)-1 on the same single-definition alias of the field
					if one, isC := r2ConstInt(info, be.Y); isC && one == 1 {
						if arg := r2IsLenOf(info, be.X); arg != nil && r2FieldOrAlias(fn, arg) == handlers {
							isTop = true
						}
					}
				}
				if isTop {
					ob.Status, ob.Detail = Discharged, "reads "+exprStr(x)+": the most recently installed handler"
				} else {
					ob.Status = Violated
					ob.Detail = fmt.Sprintf("%s reads %s: an element other than the top of the handler stack is observed. Handlers are installed and removed in strict nesting order by the compiler (one SetTryLabel / one PopTryLabel around every try body), so the innermost active try is always the top; selecting another entry (e.g. the newest handler of the raising function, the oldest handler) runs the catch block of a try whose body is not the one being executed, and the entries above it stay on the handler stack: `fn g() { throw(..) } fn f() { try { g() } catch e { A } } fn main() { try { f() } catch e { B } }` called so that an outer handler of the raising function exists (recursion) runs the wrong catch block", fn.name, exprStr(x))
				}
				obs = append(obs, ob)
			case *ast.RangeStmt:
				if r2FieldOrAlias(fn, x.X) != handlers || x.Value == nil {
					return true
				}
				if id, ok := x.Value.(*ast.Ident); ok && id.Name == "_" {
					return true
				}
				count++
				total++
				key := fmt.Sprintf("%s|element read of %s", fn.name, vmFieldName(handlers))
				if count > 1 {
					key += fmt.Sprintf(" #%d", count)
				}
				obs = append(obs, Obligation{Key: key + "|the handler observed is the top of the handler stack", Pos: c.Pos(x.Pos()), Nontrivial: true, Status: Violated,
					Detail: fmt.Sprintf("%s binds every element of the handler stack in a range loop (%s): handlers below the top are observed; the handler responsible for a raise is the top one", fn.name, exprStr(x.Value))})
			}
			return true
		})
	}
	if total == 0 {
		obs = append(obs, Obligation{Key: "runtime|element reads of the handler stack", Status: Undecided, Detail: "no element of " + vmFieldName(handlers) + " is read anywhere in the runtime package: the raise path moved; re-anchor the rule"})
	}
	sort.SliceStable(obs, func(i, j int) bool { return obs[i].Key < obs[j].Key })
	return obs
}
