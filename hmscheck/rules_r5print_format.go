package main

// r5print: R-format-constant — text of the program never takes the place of a format string.

import (
	"fmt"
	"go/ast"
	"go/token"
	"go/types"
	"sort"
	"strings"

	"golang.org/x/tools/go/packages"
)

func init() {
	register(&Rule{ID: "R-format-constant", Floor: 180, Run: ruleR5pFormatConstant,
		Doc: "Module-wide: every call of a printf-like function — fmt.Sprintf / Fprintf / Printf / Errorf / Appendf, log.*f, and every function of the module that forwards its own (format string, args ...any) pair to one of them — " +
			"gets as its format operand a compile-time constant, a local that is only ever assigned such constants (or concatenations / selections of them), or the enclosing function's own format parameter (the function is then a printf-like " +
			"wrapper itself and its call sites are checked). Text that comes from the program being processed — the printed form of a child node, an identifier, a string literal's value, a message built with Sprintf — must be an ARGUMENT (`%s`), " +
			"never the format: a `%` in it is read as a verb (`return n % 2;` prints as `return n %!;(MISSING)`), which corrupts printed programs (C19, and C20 through the fuzzer's serialisation) and diagnostics alike. " +
			"One obligation per function that contains printf-like calls."})
}

// r5pPrintfLike: index of the format parameter of a printf-like function, or -1.
type r5pFmt struct {
	c    *Ctx
	m    *travModel
	like map[*types.Func]int
}

func r5pFormatShape(sg *types.Signature) int {
	n := sg.Params().Len()
	if !sg.Variadic() || n < 2 {
		return -1
	}
	last, ok := sg.Params().At(n - 1).Type().(*types.Slice)
	if !ok {
		return -1
	}
	if it, ok := types.Unalias(last.Elem()).Underlying().(*types.Interface); !ok || !it.Empty() {
		return -1
	}
	if !r2pIsString(sg.Params().At(n - 2).Type()) {
		return -1
	}
	return n - 2
}

func (f *r5pFmt) formatIndex(fn *types.Func) int {
	if fn == nil {
		return -1
	}
	if i, ok := f.like[fn]; ok {
		return i
	}
	return -1
}

var r5pLikeCache = map[*Ctx]map[*types.Func]int{}

// r5pIsLibPrintf: index of the format parameter of a printf-like library function, or -1.
func r5pIsLibPrintf(fn *types.Func) int {
	if fn == nil || fn.Pkg() == nil || strings.HasPrefix(fn.Pkg().Path(), ModPath) {
		return -1
	}
	if !strings.HasSuffix(fn.Name(), "f") {
		return -1
	}
	switch fn.Pkg().Path() {
	case "fmt", "log", "errors", "testing":
		return r5pFormatShape(fn.Type().(*types.Signature))
	}
	return -1
}

// r5pPrintfLike: the functions of the module that forward their own (format, args...) to a printf-like function -> index of the format parameter.
func r5pPrintfLike(c *Ctx, m *travModel) map[*types.Func]int {
	if l, ok := r5pLikeCache[c]; ok {
		return l
	}
	like := map[*types.Func]int{}
	r5pLikeCache[c] = like
	var fns []*types.Func
	for fn := range m.decls {
		fns = append(fns, fn)
	}
	sort.Slice(fns, func(i, j int) bool { return fns[i].FullName() < fns[j].FullName() })
	for changed := true; changed; {
		changed = false
		for _, fn := range fns {
			d := m.decls[fn]
			if _, done := like[fn]; done {
				continue
			}
			sg := fn.Type().(*types.Signature)
			idx := r5pFormatShape(sg)
			if idx < 0 {
				continue
			}
			fp := sg.Params().At(idx)
			info := d.Pkg.TypesInfo
			forwards := false
			ast.Inspect(d.Fd.Body, func(n ast.Node) bool {
				call, ok := n.(*ast.CallExpr)
				if !ok || forwards {
					return !forwards
				}
				callee := CalleeOf(info, call)
				ci := r5pIsLibPrintf(callee)
				if ci < 0 {
					if i, ok := like[callee]; ok {
						ci = i
					}
				}
				if ci >= 0 && ci < len(call.Args) {
					if id, ok := ast.Unparen(call.Args[ci]).(*ast.Ident); ok && info.Uses[id] == fp {
						forwards = true
					}
				}
				return true
			})
			if forwards {
				like[fn] = idx
				changed = true
			}
		}
	}
	return like
}

func ruleR5pFormatConstant(c *Ctx) []Obligation {
	m := travGetModel(c)
	f := &r5pFmt{c: c, m: m, like: r5pPrintfLike(c, m)}
	isLibPrintf := r5pIsLibPrintf
	var obs []Obligation
	for _, p := range c.All {
		info := p.TypesInfo
		for _, fd := range AllFuncDecls(p) {
			fn, _ := info.Defs[fd.Name].(*types.Func)
			ncalls := 0
			var bad, runtime []string
			var ownFormat types.Object
			if fn != nil {
				if i := f.formatIndex(fn); i >= 0 {
					ownFormat = fn.Type().(*types.Signature).Params().At(i)
				}
			}
			ast.Inspect(fd.Body, func(n ast.Node) bool {
				call, ok := n.(*ast.CallExpr)
				if !ok {
					return true
				}
				callee := CalleeOf(info, call)
				ci := isLibPrintf(callee)
				if ci < 0 {
					ci = f.formatIndex(callee)
				}
				if ci < 0 || ci >= len(call.Args) {
					return true
				}
				ncalls++
				if why := r5pNonConstant(p, fd, call.Args[ci], ownFormat, 0); strings.HasPrefix(why, "RUNTIME: ") {
					runtime = append(runtime, fmt.Sprintf("%s at line %d: %s", exprStr(call.Fun), c.Fset.Position(call.Pos()).Line, strings.TrimPrefix(why, "RUNTIME: ")))
				} else if why != "" {
					bad = append(bad, fmt.Sprintf("%s at line %d: %s", exprStr(call.Fun), c.Fset.Position(call.Pos()).Line, why))
				}
				return true
			})
			if ncalls == 0 {
				continue
			}
			ob := Obligation{Key: travFuncKeyAny(p, fd) + "|format operands of printf-like calls are constants", Pos: c.Pos(fd.Pos()), Nontrivial: true}
			if len(bad) == 0 && len(runtime) > 0 {
				ob.Status, ob.Detail = Info, fmt.Sprintf("%d printf-like calls; %s — not text of the processed program in format position, not decided here", ncalls, strings.Join(runtime, "; "))
			} else if len(bad) == 0 {
				ob.Status, ob.Detail = Discharged, fmt.Sprintf("%d printf-like calls, every format operand is a constant (or the function's own format parameter)", ncalls)
			} else {
				sort.Strings(bad)
				ob.Status = Violated
				ob.Detail = fmt.Sprintf("%s passes non-constant text as a FORMAT string: %s — a `%%` in that text is interpreted as a verb (`n %% 2;` becomes `n %%!;(MISSING)`); pass it as an argument of a constant format (\"%%s\") or concatenate without Sprintf",
					FuncName(fd), strings.Join(bad, "; "))
			}
			obs = append(obs, ob)
		}
	}
	sort.SliceStable(obs, func(i, j int) bool { return obs[i].Key < obs[j].Key })
	// keys must be unique: methods of different receivers with the same name are distinguished by FuncName already; number duplicates
	seen := map[string]int{}
	for i := range obs {
		seen[obs[i].Key]++
		if n := seen[obs[i].Key]; n > 1 {
			obs[i].Key = fmt.Sprintf("%s#%d", obs[i].Key, n)
		}
	}
	return obs
}

// r5pNonConstant: "" when the expression is a constant format (constant, local holding only constants, own format
// parameter, concatenation / conditional selection of those); otherwise what makes it non-constant.
func r5pNonConstant(p *packages.Package, fd *ast.FuncDecl, x ast.Expr, ownFormat types.Object, depth int) string {
	return r5pNonConstantV(p, fd, x, ownFormat, depth, map[types.Object]bool{})
}

func r5pNonConstantV(p *packages.Package, fd *ast.FuncDecl, x ast.Expr, ownFormat types.Object, depth int, visiting map[types.Object]bool) string {
	info := p.TypesInfo
	x = ast.Unparen(x)
	if tv, ok := info.Types[x]; ok && tv.Value != nil {
		return ""
	}
	if depth > 4 {
		return "the format is computed (" + exprStr(x) + ")"
	}
	switch y := x.(type) {
	case *ast.BinaryExpr:
		if y.Op == token.ADD {
			if w := r5pNonConstantV(p, fd, y.X, ownFormat, depth+1, visiting); w != "" {
				return w
			}
			return r5pNonConstantV(p, fd, y.Y, ownFormat, depth+1, visiting)
		}
	case *ast.Ident:
		o := info.Uses[y]
		if o == nil {
			break
		}
		if o == ownFormat {
			return ""
		}
		v, ok := o.(*types.Var)
		if !ok {
			break
		}
		if v.Pkg() != nil && v.Parent() == v.Pkg().Scope() {
			// package-level variable: its initialiser
			for _, f := range p.Syntax {
				for _, d := range f.Decls {
					gd, ok := d.(*ast.GenDecl)
					if !ok {
						continue
					}
					for _, sp := range gd.Specs {
						vs, ok := sp.(*ast.ValueSpec)
						if !ok {
							continue
						}
						for i, n := range vs.Names {
							if info.Defs[n] == o && i < len(vs.Values) {
								return r5pNonConstantV(p, fd, vs.Values[i], ownFormat, depth+1, visiting)
							}
						}
					}
				}
			}
			return "the format is the package-level variable " + y.Name
		}
		// a local: every assignment must be constant
		if v.IsField() {
			break
		}
		if visiting[o] {
			return "" // `format = "spawn " + format`: the variable itself, judged by its other assignments
		}
		visiting[o] = true
		defer delete(visiting, o)
		found := false
		why := ""
		ast.Inspect(fd.Body, func(n ast.Node) bool {
			switch s := n.(type) {
			case *ast.AssignStmt:
				for i, l := range s.Lhs {
					id, ok := ast.Unparen(l).(*ast.Ident)
					if !ok || (info.Defs[id] != o && info.Uses[id] != o) {
						continue
					}
					found = true
					if len(s.Lhs) != len(s.Rhs) {
						why = "the format " + y.Name + " is a result of " + exprStr(s.Rhs[0])
						continue
					}
					if w := r5pNonConstantV(p, fd, s.Rhs[i], ownFormat, depth+1, visiting); w != "" && why == "" {
						why = w
					}
				}
			case *ast.ValueSpec:
				for i, n2 := range s.Names {
					if info.Defs[n2] == o {
						found = true
						if i < len(s.Values) {
							if w := r5pNonConstantV(p, fd, s.Values[i], ownFormat, depth+1, visiting); w != "" && why == "" {
								why = w
							}
						}
					}
				}
			}
			return true
		})
		if found {
			return why
		}
		return "the format is the parameter / variable " + y.Name + ", which is not a constant"
	case *ast.IndexExpr:
		// table of constant formats: map / slice literal of constants held in a local or package variable
		if id, ok := ast.Unparen(y.X).(*ast.Ident); ok {
			var lit *ast.CompositeLit
			o := info.Uses[id]
			ast.Inspect(fd.Body, func(n ast.Node) bool {
				if as, ok := n.(*ast.AssignStmt); ok && len(as.Lhs) == len(as.Rhs) {
					for i, l := range as.Lhs {
						if lid, ok := l.(*ast.Ident); ok && (info.Defs[lid] == o || info.Uses[lid] == o) {
							if cl, ok := ast.Unparen(as.Rhs[i]).(*ast.CompositeLit); ok {
								lit = cl
							}
						}
					}
				}
				return true
			})
			if lit != nil {
				for _, el := range lit.Elts {
					v := el
					if kv, ok := el.(*ast.KeyValueExpr); ok {
						v = kv.Value
					}
					if w := r5pNonConstantV(p, fd, v, ownFormat, depth+1, visiting); w != "" {
						return w
					}
				}
				return ""
			}
		}
	}
	// the payload of a run-time string value of the language: the host implements a formatting builtin of Homescript,
	// whose format string is by definition supplied by the program
	if se, ok := x.(*ast.SelectorExpr); ok {
		if sel := info.Selections[se]; sel != nil && sel.Kind() == types.FieldVal {
			if n, ok := types.Unalias(sel.Recv()).(*types.Named); ok && n.Obj().Pkg() != nil && strings.HasSuffix(n.Obj().Pkg().Path(), "/value") && strings.HasPrefix(n.Obj().Pkg().Path(), ModPath) {
				return "RUNTIME: the format is the payload of a run-time " + n.Obj().Name() + " (`" + r2pShort(exprStr(x)) + "`): a formatting builtin of the language"
			}
		}
	}
	return "the format is `" + r2pShort(exprStr(x)) + "`, not a constant"
}
