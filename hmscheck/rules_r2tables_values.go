package main

// Value-library invariants (C13, C18, C04, C02) that can be decided exactly on
// the two libraries:
//
//   R-storage-escape  a container value (list / object / any-object) is only
//                     ever built around fresh storage — never around the
//                     slice/map another value owns.
//   R-member-effects  a builtin member mutates the receiver's storage through
//                     the shared pointer / map (never a field of the by-value
//                     receiver copy), and the two twins mutate the same fields.
//   R-iter-snapshot   every `for` loop gets its own cursor, and both engines
//                     iterate over the same thing (a snapshot or the live value).

import (
	"fmt"
	"go/ast"
	"go/token"
	"go/types"
	"sort"
	"strings"
)

func init() {
	register(&Rule{ID: "R-storage-escape", Floor: 20, Run: ruleStorageEscape,
		Doc: "C13/C18/C02: in both value libraries a container value (a value struct holding a slice or map, or a pointer to one) is constructed only around storage created for it (make / literal / a local slice or map filled by append or indexed stores), never around the storage owned by another value (a field of the receiver or of a parameter). Two values sharing one map or slice are aliases: a mutation through one (any-object `set`, list `push`) changes the other behind the type checker's back — a typed object cast to `{ ? }` and written through the any-object view afterwards holds a value of another type in a typed field, which is a Go panic at the next use (host crash in both engines). `keys()`-like members must hand out fresh lists for the same reason."})
	register(&Rule{ID: "R-member-effects", Floor: 6, Run: ruleMemberEffects,
		Doc: "C18/C04/C13: value methods have by-value receivers; a builtin member that mutates (push, pop, insert, remove, concat, sort, set …) must write through the pointer / map the copies share (`*self.Values = …`, `self.FieldsInternal[k] = …`), never to a field of the receiver copy (the write is lost: the member silently does nothing, aliases do not observe it). For every member both twins implement, the set of receiver storage fields written — and how — is the same in the VM library and in the interpreter library."})
	register(&Rule{ID: "R-iter-snapshot", Floor: 8, Run: ruleIterSnapshot,
		Doc: "C04/C01/C13: iterable values keep their cursor in a pointer field shared by every copy of the value. (a) Each loop must own its cursor: wherever an engine creates an iterator, either the value's IntoIter allocates a fresh cursor or the engine iterates over a fresh clone; otherwise two loops over one value (nested `for` over the same list, or a `break` leaving the cursor mid-way) interfere: the inner loop advances and resets the outer loop's cursor — skipped elements and a loop that never ends. (b) For kinds with mutating members the two engines must iterate over the same thing: both over a snapshot (clone before IntoIter) or both over the live value; otherwise `for x in l { l.push(x) }` runs len(l) times in one engine and until a limit in the other. (c) Clone() of an iterable value must give the copy freshly allocated cursor field(s) (through the constructor, a literal with `&local`, or by re-pointing them after a struct copy) on every return: (a) relies on `clone before IntoIter`, and a clone that shares the cursor pointer with the original does not own its cursor."})
}

// ---------------------------------------------------------------------------
// shared helpers
// ---------------------------------------------------------------------------

func r2tLibs(c *Ctx) []*mbLib {
	return []*mbLib{mbLoadLib(c, mbRelVM, "vm"), mbLoadLib(c, mbRelInterp, "interp")}
}

// storage fields of an impl: slice / map / pointer-to-one fields.
func r2tStorageFields(im *mbImpl) map[*types.Var]string {
	out := map[*types.Var]string{}
	for i := 0; i < im.st.NumFields(); i++ {
		f := im.st.Field(i)
		if k, ok := mbIsContainer(f.Type()); ok {
			out[f] = k
		}
	}
	return out
}

// enclosing function bodies of a package: every FuncDecl and FuncLit with its parameter objects.
type r2tFn struct {
	name   string
	node   ast.Node
	body   *ast.BlockStmt
	ftype  *ast.FuncType
	recv   types.Object
	parent *r2tFn
}

// ---------------------------------------------------------------------------
// R-storage-escape
// ---------------------------------------------------------------------------

// r2tContainerCtors: functions of the library that store a slice/map
// parameter (or its address) into a storage field of a value struct they
// build; returns the parameter index.
func r2tContainerCtors(l *mbLib) map[*types.Func]int {
	out := map[*types.Func]int{}
	for fn, fd := range l.decls {
		if fd.Recv != nil || fd.Type.Params == nil {
			continue
		}
		var params []types.Object
		for _, f := range fd.Type.Params.List {
			for _, nm := range f.Names {
				params = append(params, l.info.Defs[nm])
			}
		}
		ast.Inspect(fd.Body, func(n ast.Node) bool {
			cl, ok := n.(*ast.CompositeLit)
			if !ok {
				return true
			}
			im := l.implOfType(l.info.TypeOf(cl))
			if im == nil {
				return true
			}
			stor := r2tStorageFields(im)
			for _, el := range cl.Elts {
				kv, ok := el.(*ast.KeyValueExpr)
				if !ok {
					continue
				}
				id, ok := kv.Key.(*ast.Ident)
				if !ok {
					continue
				}
				fv, _ := l.info.Uses[id].(*types.Var)
				if fv == nil || stor[fv] == "" {
					continue
				}
				v := ast.Unparen(kv.Value)
				if u, ok := v.(*ast.UnaryExpr); ok && u.Op == token.AND {
					v = ast.Unparen(u.X)
				}
				o := r2tObj(l.info, v)
				for i, p := range params {
					if p != nil && p == o {
						out[fn] = i
					}
				}
			}
			return true
		})
	}
	return out
}

// r2tFreshness classifies a storage expression inside function body `scope`:
// "fresh" | "shared" (owned by another value / a parameter) | "unknown".
func r2tFreshness(l *mbLib, scope ast.Node, ftypes []*ast.FuncType, recv types.Object, e ast.Expr, depth int) (string, string) {
	info := l.info
	e = ast.Unparen(e)
	if u, ok := e.(*ast.UnaryExpr); ok && u.Op == token.AND {
		e = ast.Unparen(u.X)
	}
	switch x := e.(type) {
	case *ast.CompositeLit:
		return "fresh", "literal"
	case *ast.CallExpr:
		if r2tIsBuiltin(info, x, "make") {
			return "fresh", "make"
		}
		if r2tIsBuiltin(info, x, "append") && len(x.Args) > 0 {
			// append(base, …): fresh iff base is fresh or nil (copying append([]T(nil), xs...))
			if tv, ok := info.Types[x.Args[0]]; ok && tv.IsNil() {
				return "fresh", "append to nil"
			}
			if call, ok := ast.Unparen(x.Args[0]).(*ast.CallExpr); ok {
				if tv, ok := info.Types[call.Fun]; ok && tv.IsType() && len(call.Args) == 1 {
					if atv, ok := info.Types[call.Args[0]]; ok && atv.IsNil() {
						return "fresh", "append to nil"
					}
				}
			}
			return r2tFreshness(l, scope, ftypes, recv, x.Args[0], depth+1)
		}
		if fn := CalleeOf(info, x); fn != nil && fn.Pkg() != nil {
			switch fn.FullName() {
			case "maps.Clone", "slices.Clone", "strings.Split", "strings.Fields", "strings.SplitN":
				return "fresh", fn.FullName()
			}
		}
		// a helper of the library: fresh iff everything it returns is fresh inside the helper
		if fn := CalleeOf(info, x); fn != nil && depth < 3 {
			if hd := l.decls[fn]; hd != nil && hd.Body != nil {
				var rets []ast.Expr
				ast.Inspect(hd.Body, func(n ast.Node) bool {
					if _, ok := n.(*ast.FuncLit); ok {
						return false
					}
					if r, ok := n.(*ast.ReturnStmt); ok && len(r.Results) >= 1 {
						rets = append(rets, r.Results[0])
					}
					return true
				})
				all := len(rets) > 0
				why := ""
				for _, r := range rets {
					res, w := r2tFreshness(l, hd, []*ast.FuncType{hd.Type}, mbRecvObj(info, hd), r, depth+1)
					if res != "fresh" {
						all, why = false, w
					}
				}
				if all {
					return "fresh", "helper " + fn.Name() + " returns storage it creates itself"
				}
				return "unknown", "helper " + fn.Name() + " may return storage it did not create: " + why
			}
		}
		return "unknown", "result of " + exprStr(x.Fun)
	case *ast.StarExpr:
		return r2tFreshness(l, scope, ftypes, recv, x.X, depth)
	case *ast.SliceExpr:
		return r2tFreshness(l, scope, ftypes, recv, x.X, depth)
	case *ast.SelectorExpr:
		if v, ok := info.Uses[x.Sel].(*types.Var); ok && v.IsField() {
			owner := exprStr(x.X)
			return "shared", fmt.Sprintf("the storage field %s of %s", v.Name(), owner)
		}
		return "unknown", exprStr(e)
	case *ast.IndexExpr:
		return "unknown", "element " + exprStr(e)
	case *ast.Ident:
		if tv, ok := info.Types[x]; ok && tv.IsNil() {
			return "fresh", "nil"
		}
		o := r2tObj(info, x)
		v, ok := o.(*types.Var)
		if !ok || depth > 4 {
			return "unknown", exprStr(e)
		}
		for _, ft := range ftypes {
			if ft != nil && ft.Params != nil && ft.Params.Pos() <= v.Pos() && v.Pos() <= ft.Params.End() {
				return "shared", "parameter " + v.Name() + " (storage owned by the caller)"
			}
		}
		if v == recv {
			return "shared", "the receiver"
		}
		if !(scope.Pos() <= v.Pos() && v.Pos() <= scope.End()) {
			return "unknown", v.Name() + " is declared outside"
		}
		// every definition of the local must be fresh
		res, why := "fresh", "local "+v.Name()+" (make/literal/append only)"
		n := 0
		ast.Inspect(scope, func(nd ast.Node) bool {
			switch s := nd.(type) {
			case *ast.AssignStmt:
				for i, lh := range s.Lhs {
					if r2tObj(info, lh) != v || len(s.Rhs) != len(s.Lhs) {
						if r2tObj(info, lh) == v {
							n++
							res, why = "unknown", v.Name()+" assigned from a multi-value expression"
						}
						continue
					}
					n++
					rhs := ast.Unparen(s.Rhs[i])
					// v = append(v, …) keeps v's own storage
					if call, ok := rhs.(*ast.CallExpr); ok && r2tIsBuiltin(info, call, "append") && len(call.Args) > 0 && r2tObj(info, call.Args[0]) == v {
						continue
					}
					if r, w := r2tFreshness(l, scope, ftypes, recv, rhs, depth+1); r != "fresh" && res == "fresh" {
						res, why = r, w
					} else if r == "shared" {
						res, why = r, w
					}
				}
			case *ast.ValueSpec:
				for i, nm := range s.Names {
					if info.Defs[nm] != v {
						continue
					}
					n++
					if i < len(s.Values) {
						if r, w := r2tFreshness(l, scope, ftypes, recv, s.Values[i], depth+1); r != "fresh" {
							res, why = r, w
						}
					}
				}
			case *ast.RangeStmt:
				if r2tObj(info, s.Key) == v || (s.Value != nil && r2tObj(info, s.Value) == v) {
					n++
					res, why = "unknown", v.Name()+" is a range variable"
				}
			}
			return true
		})
		if n == 0 {
			return "unknown", v.Name() + " has no visible definition"
		}
		return res, why
	}
	return "unknown", exprStr(e)
}

func ruleStorageEscape(c *Ctx) []Obligation {
	var obs []Obligation
	for _, l := range r2tLibs(c) {
		ctors := r2tContainerCtors(l)
		if len(ctors) < 2 {
			obs = append(obs, Obligation{Key: "storage|" + l.tag + "|constructors", Status: Undecided, Pos: "?", Detail: fmt.Sprintf("only %d container constructors recognised in %s", len(ctors), l.rel)})
			continue
		}
		seen := map[string]int{}
		for _, f := range l.pkg.Syntax {
			for _, d := range f.Decls {
				fd, ok := d.(*ast.FuncDecl)
				if !ok || fd.Body == nil {
					continue
				}
				if fn, _ := l.info.Defs[fd.Name].(*types.Func); fn != nil {
					if _, isCtor := ctors[fn]; isCtor {
						continue // the constructor itself stores its parameter: judged at its call sites
					}
				}
				recv := mbRecvObj(l.info, fd)
				// walk, keeping the chain of enclosing function types (closures see outer params)
				var stack []ast.Node
				ast.Inspect(fd, func(n ast.Node) bool {
					if n == nil {
						stack = stack[:len(stack)-1]
						return true
					}
					stack = append(stack, n)
					var arg ast.Expr
					var what string
					switch x := n.(type) {
					case *ast.CallExpr:
						fn := CalleeOf(l.info, x)
						idx, ok := ctors[fn]
						if !ok || idx >= len(x.Args) {
							return true
						}
						arg, what = x.Args[idx], fn.Name()
					case *ast.CompositeLit:
						im := l.implOfType(l.info.TypeOf(x))
						if im == nil {
							return true
						}
						stor := r2tStorageFields(im)
						for _, el := range x.Elts {
							if kv, ok := el.(*ast.KeyValueExpr); ok {
								if id, ok := kv.Key.(*ast.Ident); ok {
									if fv, _ := l.info.Uses[id].(*types.Var); fv != nil && stor[fv] != "" {
										arg, what = kv.Value, im.Name()+"{"+fv.Name()+": …}"
									}
								}
							}
						}
						if arg == nil {
							return true
						}
					default:
						return true
					}
					var ftypes []*ast.FuncType
					var scope ast.Node = fd
					ftypes = append(ftypes, fd.Type)
					for _, s := range stack {
						if fl, ok := s.(*ast.FuncLit); ok {
							ftypes = append(ftypes, fl.Type)
						}
					}
					base := fmt.Sprintf("storage|%s|%s|%s(%s)", l.tag, FuncName(fd), what, exprStr(arg))
					seen[base]++
					key := base
					if seen[base] > 1 {
						key = fmt.Sprintf("%s #%d", base, seen[base])
					}
					r, why := r2tFreshness(l, scope, ftypes, recv, arg, 0)
					o := Obligation{Key: key, Pos: c.Pos(n.Pos()), Nontrivial: true}
					switch r {
					case "fresh":
						o.Status, o.Detail = Discharged, "the new value owns its storage: "+why
					case "shared":
						o.Status = Violated
						o.Detail = fmt.Sprintf("%s builds a container value around %s: the new value and the old one share one slice/map. A mutation through either (any-object set, list push/remove, field assignment through the table) is visible through the other, behind the analyzer's back.", what, why)
					default:
						o.Status, o.Detail = Undecided, "cannot show that the storage handed to "+what+" is fresh: "+why
					}
					obs = append(obs, o)
					return true
				})
			}
		}
	}
	return obs
}

// ---------------------------------------------------------------------------
// R-member-effects
// ---------------------------------------------------------------------------

// r2tEffects: receiver storage written inside node n, recv being the receiver
// object. Result: "Field:how" strings. how ∈ through-pointer | map-entry |
// element | LOST(receiver copy).
func r2tEffects(l *mbLib, im *mbImpl, recv types.Object, n ast.Node, depth int, out map[string]token.Pos) {
	if recv == nil || n == nil || depth > 2 {
		return
	}
	info := l.info
	// rootOfLocal: a local defined (once, inside n) by a lookup in receiver storage: the storage expression
	rootOfLocal := func(id *ast.Ident) ast.Expr {
		o := r2tObj(info, id)
		if o == nil || o == recv {
			return nil
		}
		var def ast.Expr
		cnt := 0
		ast.Inspect(n, func(m ast.Node) bool {
			if as, ok := m.(*ast.AssignStmt); ok {
				for i, lh := range as.Lhs {
					if r2tObj(info, lh) == o {
						cnt++
						if len(as.Rhs) == len(as.Lhs) {
							def = as.Rhs[i]
						} else if i == 0 && len(as.Rhs) == 1 {
							def = as.Rhs[0] // v, ok := m[k]
						}
					}
				}
			}
			return true
		})
		if cnt != 1 {
			return nil
		}
		return def
	}
	record := func(lhs ast.Expr, pos token.Pos) {
		e := ast.Unparen(lhs)
		deref, indexed := false, false
		// `*cell = v` where cell is a *Value taken from the storage: the existing cell is overwritten in
		// place (every alias of the cell — an option handed out earlier, another container — sees it)
		cellWrite := false
		if st, ok := e.(*ast.StarExpr); ok && l.isValuePtr(info.TypeOf(st.X)) {
			inner := ast.Unparen(st.X)
			if id, ok := inner.(*ast.Ident); ok {
				if def := rootOfLocal(id); def != nil {
					inner = ast.Unparen(def)
				}
			}
			if _, isIx := inner.(*ast.IndexExpr); isIx {
				cellWrite = true
				e = inner
			}
		}
		for {
			switch x := e.(type) {
			case *ast.ParenExpr:
				e = x.X
				continue
			case *ast.StarExpr:
				deref = true
				e = x.X
				continue
			case *ast.IndexExpr:
				indexed = true
				e = x.X
				continue
			case *ast.SliceExpr:
				e = x.X
				continue
			}
			break
		}
		sel, ok := e.(*ast.SelectorExpr)
		if !ok || r2tObj(info, sel.X) != recv {
			return
		}
		fv, _ := info.Uses[sel.Sel].(*types.Var)
		if fv == nil || !fv.IsField() {
			return
		}
		how := ""
		_, isPtr := fv.Type().Underlying().(*types.Pointer)
		_, isMap := fv.Type().Underlying().(*types.Map)
		_, isSlice := fv.Type().Underlying().(*types.Slice)
		switch {
		case cellWrite:
			how = "cell-overwrite"
		case isPtr && deref:
			how = "through-pointer"
		case isMap && indexed:
			how = "map-entry"
		case isSlice && indexed:
			how = "element"
		default:
			how = "LOST(receiver copy)"
		}
		k := fv.Name() + ":" + how
		if _, ok := out[k]; !ok {
			out[k] = pos
		}
	}
	ast.Inspect(n, func(nd ast.Node) bool {
		switch x := nd.(type) {
		case *ast.AssignStmt:
			if x.Tok == token.DEFINE {
				return true
			}
			for _, lh := range x.Lhs {
				record(lh, x.Pos())
			}
		case *ast.IncDecStmt:
			record(x.X, x.Pos())
		case *ast.CallExpr:
			if r2tIsBuiltin(info, x, "delete") || r2tIsBuiltin(info, x, "clear") {
				if len(x.Args) > 0 {
					// delete(self.M, k): a map entry write
					e := ast.Unparen(x.Args[0])
					if sel, ok := e.(*ast.SelectorExpr); ok && r2tObj(info, sel.X) == recv {
						if fv, _ := info.Uses[sel.Sel].(*types.Var); fv != nil {
							out[fv.Name()+":map-entry"] = x.Pos()
						}
					}
				}
				return true
			}
			// a method of the receiver: its effects count
			if sel, ok := ast.Unparen(x.Fun).(*ast.SelectorExpr); ok && r2tObj(info, sel.X) == recv {
				if m := im.methods[sel.Sel.Name]; m != nil {
					r2tEffects(l, im, mbRecvObj(info, m), m.Body, depth+1, out)
				}
			}
		}
		return true
	})
}

func r2tEffectStr(m map[string]token.Pos, skip map[string]bool) string {
	var ks []string
	for k := range m {
		if skip[strings.SplitN(k, ":", 2)[0]] {
			continue
		}
		ks = append(ks, k)
	}
	sort.Strings(ks)
	return strings.Join(ks, ", ")
}

func ruleMemberEffects(c *Ctx) []Obligation {
	var obs []Obligation
	libs := r2tLibs(c)
	vm, in := libs[0], libs[1]
	type memEff struct {
		eff map[string]token.Pos
		pos token.Pos
		lit bool
	}
	collect := func(l *mbLib, im *mbImpl) map[string]*memEff {
		out := map[string]*memEff{}
		fd := im.methods["Fields"]
		t := mbExtractTable(l.info, fd)
		if !t.ok || t.panics {
			return out
		}
		recv := mbRecvObj(l.info, fd)
		for _, e := range t.entries {
			me := &memEff{eff: map[string]token.Pos{}, pos: e.pos}
			fl, via := l.closureOf(e.val, 0)
			if fl != nil && (via == "" || !strings.Contains(via, "→")) && fd.Pos() <= fl.Pos() && fl.End() <= fd.End() {
				me.lit = true
				r2tEffects(l, im, recv, fl.Body, 0, me.eff)
			}
			out[e.key] = me
		}
		return out
	}
	for _, vi := range vm.impls {
		tn := mbLookupType(in, vi.Name())
		var ii *mbImpl
		if tn != nil {
			ii = in.byType[tn]
		}
		ve := collect(vm, vi)
		var ie map[string]*memEff
		if ii != nil {
			ie = collect(in, ii)
		}
		cursor := vm.iterStateFields(vi)
		names := map[string]bool{}
		for k := range ve {
			names[k] = true
		}
		for k := range ie {
			names[k] = true
		}
		for _, nm := range mbSortedKeys(names) {
			a, b := ve[nm], ie[nm]
			// lost writes, each side
			for _, side := range []struct {
				tag string
				m   *memEff
			}{{"vm", a}, {"interp", b}} {
				if side.m == nil {
					continue
				}
				for k, pos := range side.m.eff {
					if strings.Contains(k, "LOST") {
						obs = append(obs, Obligation{Key: fmt.Sprintf("effects|%s.%s|%s|write reaches the shared storage", vi.Name(), nm, side.tag), Pos: c.Pos(pos), Status: Violated, Nontrivial: true,
							Detail: fmt.Sprintf("%s member `%s` of %s assigns %s: the receiver is a copy (value receiver), so the assignment is discarded when the builtin returns — the member has no effect on the value the script holds", side.tag, nm, vi.Name(), k)})
					}
				}
			}
			if a == nil || b == nil {
				continue
			}
			sa, sb := r2tEffectStr(a.eff, cursor), r2tEffectStr(b.eff, cursor)
			if sa == "" && sb == "" {
				continue
			}
			o := Obligation{Key: fmt.Sprintf("effects|%s.%s|twins write the same storage", vi.Name(), nm), Pos: c.Pos(a.pos), Nontrivial: true}
			if sa == sb && !strings.Contains(sa, "LOST") {
				o.Status, o.Detail = Discharged, "both twins write {"+sa+"} of the receiver (shared by all copies of the value)"
			} else {
				o.Status = Violated
				o.Detail = fmt.Sprintf("member `%s` of %s writes {%s} in the VM library and {%s} in the interpreter library: one engine mutates the value the script holds (aliases observe it), the other does not", nm, vi.Name(), sa, sb)
			}
			obs = append(obs, o)
		}
	}
	return obs
}

// ---------------------------------------------------------------------------
// R-iter-snapshot
// ---------------------------------------------------------------------------

type r2tIterImpl struct {
	ownCursor bool   // some result is a closure / bound to a fresh value
	boundRecv bool   // some result is bound to the receiver itself
	how       string // witness
	undecided string
	im        *mbImpl
	cursor    []string // cursor fields shared by copies; empty: fresh cursor per IntoIter
	live      bool     // iterator reads the receiver's storage while running
	mutable   bool     // members write the receiver's storage
	pos       token.Pos
}

func r2tIterImpls(l *mbLib) []*r2tIterImpl {
	var out []*r2tIterImpl
	for _, im := range l.impls {
		fd := im.methods["IntoIter"]
		if fd == nil || fd.Body == nil {
			continue
		}
		if len(fd.Body.List) == 1 && IsPanicCall(l.info, fd.Body.List[0]) {
			continue
		}
		it := &r2tIterImpl{im: im, pos: fd.Pos()}
		for f := range l.iterStateFields(im) {
			it.cursor = append(it.cursor, f)
		}
		sort.Strings(it.cursor)
		// what the function handed out is bound to: the receiver (shared cursor, live elements), a
		// closure (own cursor; live iff it mentions the receiver), or a freshly constructed value
		// (own cursor; live iff the new value is built around the receiver's storage)
		recv := mbRecvObj(l.info, fd)
		ast.Inspect(fd.Body, func(n ast.Node) bool {
			if _, isLit := n.(*ast.FuncLit); isLit {
				return false
			}
			r, ok := n.(*ast.ReturnStmt)
			if !ok || len(r.Results) != 1 {
				return true
			}
			r2tClassifyIter(l, fd, recv, it, r.Results[0], 0)
			return true
		})
		if it.ownCursor && !it.boundRecv {
			it.cursor = nil
		}
		// mutable: a member closure writes receiver storage other than the cursor
		eff := map[string]token.Pos{}
		if f := im.methods["Fields"]; f != nil {
			r2tEffects(l, im, mbRecvObj(l.info, f), f.Body, 0, eff)
		}
		cur := map[string]bool{}
		for _, f := range it.cursor {
			cur[f] = true
		}
		it.mutable = r2tEffectStr(eff, cur) != ""
		out = append(out, it)
	}
	return out
}

// r2tClassifyIter classifies one result expression of an IntoIter method.
func r2tClassifyIter(l *mbLib, fd *ast.FuncDecl, recv types.Object, it *r2tIterImpl, e ast.Expr, depth int) {
	info := l.info
	note := func(s string) {
		if it.how == "" {
			it.how = s
		} else if !strings.Contains(it.how, s) {
			it.how += "; " + s
		}
	}
	mentionsRecv := func(n ast.Node) bool {
		found := false
		ast.Inspect(n, func(m ast.Node) bool {
			if id, ok := m.(*ast.Ident); ok && recv != nil && info.Uses[id] == recv {
				found = true
			}
			return true
		})
		return found
	}
	e = ast.Unparen(e)
	switch x := e.(type) {
	case *ast.FuncLit:
		it.ownCursor = true
		if mentionsRecv(x.Body) {
			it.live = true
			note("IntoIter returns a closure that reads the receiver while iterating")
		} else {
			note("IntoIter returns a closure over locals only")
		}
		return
	case *ast.Ident:
		// a local holding the function: single definition
		if depth < 2 {
			if def := r2tSingleDef(info, fd, x); def != nil {
				r2tClassifyIter(l, fd, recv, it, def, depth+1)
				return
			}
		}
	case *ast.SelectorExpr:
		if sl := info.Selections[x]; sl != nil && sl.Kind() == types.MethodVal {
			r2tClassifyBound(l, fd, recv, it, x.X, x.Sel.Name, 0, note, mentionsRecv)
			return
		}
	}
	it.undecided = "IntoIter returns " + exprStr(e) + ": neither a closure nor a method value"
}

// r2tSingleDef: the only expression assigned to a local in fd (nil otherwise).
func r2tSingleDef(info *types.Info, fd *ast.FuncDecl, id *ast.Ident) ast.Expr {
	o := r2tObj(info, id)
	if o == nil {
		return nil
	}
	var def ast.Expr
	n := 0
	ast.Inspect(fd.Body, func(nd ast.Node) bool {
		if as, ok := nd.(*ast.AssignStmt); ok {
			for i, lh := range as.Lhs {
				if r2tObj(info, lh) == o {
					n++
					if len(as.Rhs) == len(as.Lhs) {
						def = as.Rhs[i]
					} else {
						def = nil
						n++
					}
				}
			}
		}
		return true
	})
	if n != 1 {
		return nil
	}
	return def
}

// r2tClassifyBound: the iterator is the method value base.method.
func r2tClassifyBound(l *mbLib, fd *ast.FuncDecl, recv types.Object, it *r2tIterImpl, base ast.Expr, method string, depth int, note func(string), mentionsRecv func(ast.Node) bool) {
	info := l.info
	b := mbStripDeref(ast.Unparen(base))
	for {
		if p, ok := b.(*ast.ParenExpr); ok {
			b = mbStripDeref(p.X)
			continue
		}
		break
	}
	storageArg := func(what string, arg ast.Expr) {
		t := info.TypeOf(arg)
		if t == nil {
			return
		}
		if _, isC := mbIsContainer(t); !isC {
			return // strings, numbers, single values: immutable data, copied into the new value
		}
		r, why := r2tFreshness(l, fd, []*ast.FuncType{fd.Type}, recv, arg, 0)
		switch r {
		case "fresh":
			note(fmt.Sprintf("IntoIter returns %s of a fresh value built by %s over fresh storage (%s)", method, what, why))
		case "shared":
			it.live = true
			note(fmt.Sprintf("IntoIter returns %s of a fresh value built by %s around %s: own cursor, but the elements are the live ones", method, what, why))
		default:
			it.undecided = fmt.Sprintf("IntoIter binds %s to a value built by %s; cannot show whether its storage is fresh: %s", method, what, why)
		}
	}
	switch x := b.(type) {
	case *ast.Ident:
		if r2tObj(info, x) == recv {
			it.boundRecv, it.live = true, true
			note("IntoIter returns " + method + " bound to the receiver itself (cursor and elements are the value's)")
			return
		}
		if depth < 2 {
			if def := r2tSingleDef(info, fd, x); def != nil {
				r2tClassifyBound(l, fd, recv, it, def, method, depth+1, note, mentionsRecv)
				return
			}
		}
	case *ast.CallExpr:
		if sel, ok := ast.Unparen(x.Fun).(*ast.SelectorExpr); ok && sel.Sel.Name == "Clone" && len(x.Args) == 0 {
			it.ownCursor = true
			note("IntoIter returns " + method + " of a clone")
			return
		}
		if fn := CalleeOf(info, x); fn != nil && l.ctorOf(fn) != nil {
			it.ownCursor = true
			before := it.how
			for _, a := range x.Args {
				storageArg(fn.Name(), a)
			}
			if it.how == before && it.undecided == "" {
				note(fmt.Sprintf("IntoIter returns %s of a fresh value built by %s from immutable data", method, fn.Name()))
			}
			return
		}
	case *ast.CompositeLit:
		if im := l.implOfType(info.TypeOf(x)); im != nil {
			it.ownCursor = true
			stor := r2tStorageFields(im)
			for _, el := range x.Elts {
				kv, ok := el.(*ast.KeyValueExpr)
				if !ok {
					it.undecided = "positional composite literal in IntoIter"
					continue
				}
				id, _ := kv.Key.(*ast.Ident)
				var fv *types.Var
				if id != nil {
					fv, _ = info.Uses[id].(*types.Var)
				}
				if fv != nil && stor[fv] != "" {
					storageArg(im.Name()+"{…}", kv.Value)
				} else if _, isPtr := info.TypeOf(kv.Value).Underlying().(*types.Pointer); isPtr && mentionsRecv(kv.Value) {
					// a pointer field copied from the receiver: the cursor may be the receiver's
					it.boundRecv = true
					it.cursor = append(it.cursor, exprStr(kv.Key))
					note("IntoIter builds a value that shares the pointer field " + exprStr(kv.Key) + " with the receiver")
				}
			}
			return
		}
	}
	it.undecided = "IntoIter binds " + method + " to " + exprStr(base) + ", which is neither the receiver nor a freshly constructed value"
}

type r2tIterSite struct {
	where    string
	pos      token.Pos
	snapshot bool
	why      string
}

// isCloneCall: e is `X.Clone()` (possibly dereferenced) or a local defined once by it.
func r2tIsCloneExpr(info *types.Info, scope ast.Node, e ast.Expr, depth int) bool {
	e = mbStripDeref(ast.Unparen(e))
	switch x := e.(type) {
	case *ast.CallExpr:
		if sel, ok := ast.Unparen(x.Fun).(*ast.SelectorExpr); ok && sel.Sel.Name == "Clone" && len(x.Args) == 0 {
			return true
		}
	case *ast.Ident:
		if depth > 2 {
			return false
		}
		o := r2tObj(info, x)
		if o == nil {
			return false
		}
		n, ok := 0, true
		ast.Inspect(scope, func(nd ast.Node) bool {
			if as, isAs := nd.(*ast.AssignStmt); isAs {
				for i, lh := range as.Lhs {
					if r2tObj(info, lh) == o {
						n++
						if len(as.Rhs) != len(as.Lhs) || !r2tIsCloneExpr(info, scope, as.Rhs[i], depth+1) {
							ok = false
						}
					}
				}
			}
			return true
		})
		return n > 0 && ok
	}
	return false
}

func ruleIterSnapshot(c *Ctx) []Obligation {
	var obs []Obligation
	libs := r2tLibs(c)
	vm, in := libs[0], libs[1]
	// ---- interpreter sites: calls of Value.IntoIter (or of a library wrapper around it) in the interpreter engine and library
	inMakers := map[*types.Func]int{} // wrapper -> index of the parameter IntoIter is called on
	for fn, fd := range in.decls {
		if fd.Name.Name == "IntoIter" || fd.Recv != nil || fd.Type.Params == nil {
			continue
		}
		var params []types.Object
		for _, f := range fd.Type.Params.List {
			for _, nm := range f.Names {
				params = append(params, in.info.Defs[nm])
			}
		}
		ast.Inspect(fd.Body, func(n ast.Node) bool {
			if call, ok := n.(*ast.CallExpr); ok {
				if sel, ok := ast.Unparen(call.Fun).(*ast.SelectorExpr); ok && sel.Sel.Name == "IntoIter" {
					o := r2tObj(in.info, mbStripDeref(ast.Unparen(sel.X)))
					for i, p := range params {
						if p != nil && p == o {
							inMakers[fn] = i
						}
					}
				}
			}
			return true
		})
	}
	var inSites []r2tIterSite
	for _, rel := range []string{mbRelInEngine, mbRelInterp} {
		p := c.Pkg(rel)
		for _, fd := range AllFuncDecls(p) {
			if fd.Name.Name == "IntoIter" {
				continue
			}
			if fn, _ := p.TypesInfo.Defs[fd.Name].(*types.Func); fn != nil {
				if _, isMaker := inMakers[fn]; isMaker {
					continue
				}
			}
			ast.Inspect(fd.Body, func(n ast.Node) bool {
				call, ok := n.(*ast.CallExpr)
				if !ok {
					return true
				}
				var recvExpr ast.Expr
				if idx, isMaker := inMakers[CalleeOf(p.TypesInfo, call)]; isMaker && idx < len(call.Args) {
					recvExpr = call.Args[idx]
				} else if sel, ok := ast.Unparen(call.Fun).(*ast.SelectorExpr); ok && sel.Sel.Name == "IntoIter" {
					rt := p.TypesInfo.TypeOf(sel.X)
					if in.isValueIface(rt) || in.implOfType(rt) != nil {
						recvExpr = sel.X
					}
				}
				if recvExpr == nil {
					return true
				}
				s := r2tIterSite{where: strings.TrimPrefix(rel, "homescript/") + "." + FuncName(fd), pos: call.Pos()}
				if r2tIsCloneExpr(p.TypesInfo, fd, recvExpr, 0) {
					s.snapshot, s.why = true, "the iterated value "+exprStr(recvExpr)+" is a fresh clone"
				} else {
					s.why = "the iterator is created on " + exprStr(recvExpr) + ", the value the script holds (no clone)"
				}
				inSites = append(inSites, s)
				return true
			})
		}
	}
	// ---- VM sites: the opcode whose handler creates an iterator, and its emission sites in the compiler
	rt := c.Pkg(mbRelVMEngine)
	comp := c.Pkg("homescript/compiler")
	// library functions that call IntoIter (NewValueIter)
	iterMakers := map[*types.Func]bool{}
	for fn, fd := range vm.decls {
		if fd.Name.Name == "IntoIter" {
			continue
		}
		ast.Inspect(fd.Body, func(n ast.Node) bool {
			if call, ok := n.(*ast.CallExpr); ok {
				if sel, ok := ast.Unparen(call.Fun).(*ast.SelectorExpr); ok && sel.Sel.Name == "IntoIter" {
					if t := vm.info.TypeOf(sel.X); vm.isValueIface(t) || vm.implOfType(t) != nil {
						iterMakers[fn] = true
					}
				}
			}
			return true
		})
	}
	iterOps, cloneOps := map[*types.Const]bool{}, map[*types.Const]bool{}
	for _, fd := range AllFuncDecls(rt) {
		ast.Inspect(fd.Body, func(n ast.Node) bool {
			cc, ok := n.(*ast.CaseClause)
			if !ok || len(cc.List) == 0 {
				return true
			}
			makesIter, clones := false, false
			for _, st := range cc.Body {
				ast.Inspect(st, func(m ast.Node) bool {
					call, ok := m.(*ast.CallExpr)
					if !ok {
						return true
					}
					if fn := CalleeOf(rt.TypesInfo, call); fn != nil {
						if iterMakers[fn] {
							makesIter = true
						}
						if sel, ok := ast.Unparen(call.Fun).(*ast.SelectorExpr); ok {
							if t := rt.TypesInfo.TypeOf(sel.X); vm.isValueIface(t) || vm.implOfType(t) != nil {
								switch sel.Sel.Name {
								case "IntoIter":
									makesIter = true
								case "Clone":
									clones = true
								}
							}
						}
					}
					return true
				})
			}
			for _, e := range cc.List {
				if k := ConstOf(rt.TypesInfo, e); k != nil {
					if makesIter {
						iterOps[k] = true
					} else if clones {
						cloneOps[k] = true
					}
				}
			}
			return true
		})
	}
	var vmSites []r2tIterSite
	if len(iterOps) == 0 {
		obs = append(obs, Obligation{Key: "iter|vm|iterator opcode", Status: Undecided, Pos: "?", Detail: "no opcode handler of the VM creates an iterator (calls Value.IntoIter)"})
	}
	opOf := func(st ast.Stmt) (*types.Const, bool) {
		var found *types.Const
		n := 0
		ast.Inspect(st, func(m ast.Node) bool {
			if call, ok := m.(*ast.CallExpr); ok {
				for _, a := range call.Args {
					if k := ConstOf(comp.TypesInfo, a); k != nil && (iterOps[k] || cloneOps[k] || strings.HasPrefix(k.Name(), "Opcode_")) {
						found = k
						n++
					}
				}
			}
			return true
		})
		return found, n == 1
	}
	for _, fd := range AllFuncDecls(comp) {
		var visit func(list []ast.Stmt)
		visit = func(list []ast.Stmt) {
			for i, st := range list {
				// nested blocks
				switch x := st.(type) {
				case *ast.BlockStmt:
					visit(x.List)
				case *ast.IfStmt:
					visit(x.Body.List)
					if b, ok := x.Else.(*ast.BlockStmt); ok {
						visit(b.List)
					} else if x.Else != nil {
						visit([]ast.Stmt{x.Else})
					}
				case *ast.ForStmt:
					visit(x.Body.List)
				case *ast.RangeStmt:
					visit(x.Body.List)
				case *ast.SwitchStmt:
					for _, cl := range x.Body.List {
						visit(cl.(*ast.CaseClause).Body)
					}
				case *ast.TypeSwitchStmt:
					for _, cl := range x.Body.List {
						visit(cl.(*ast.CaseClause).Body)
					}
				case *ast.LabeledStmt:
					visit([]ast.Stmt{x.Stmt})
				}
				es, ok := st.(*ast.ExprStmt)
				if !ok {
					continue
				}
				k, single := opOf(es)
				if k == nil || !iterOps[k] {
					continue
				}
				s := r2tIterSite{where: "compiler." + FuncName(fd) + " emits " + k.Name(), pos: st.Pos()}
				if !single {
					s.why = "emission statement mentions several opcodes"
				} else if i == 0 {
					s.why = "nothing is emitted before " + k.Name() + " in this block"
				} else if pk, ok := opOf(list[i-1]); pk != nil && ok && cloneOps[pk] {
					s.snapshot, s.why = true, fmt.Sprintf("%s is emitted immediately before %s: the iterated value is a fresh clone", pk.Name(), k.Name())
				} else {
					s.why = "the statement before the emission of " + k.Name() + " does not emit a cloning opcode"
				}
				vmSites = append(vmSites, s)
			}
		}
		visit(fd.Body.List)
	}
	if len(iterOps) > 0 && len(vmSites) == 0 {
		obs = append(obs, Obligation{Key: "iter|vm|emission sites", Status: Undecided, Pos: "?", Detail: "the compiler never emits the iterator opcode as an expression statement"})
	}
	if len(inSites) == 0 {
		obs = append(obs, Obligation{Key: "iter|interp|sites", Status: Undecided, Pos: "?", Detail: "the interpreter never calls Value.IntoIter"})
	}
	allSnap := func(ss []r2tIterSite) (bool, string, token.Pos) {
		ok := len(ss) > 0
		var why []string
		pos := token.NoPos
		for _, s := range ss {
			if !s.snapshot {
				ok = false
				pos = s.pos
			}
			why = append(why, s.where+": "+s.why)
			if pos == token.NoPos {
				pos = s.pos
			}
		}
		return ok, strings.Join(why, "; "), pos
	}
	vmSnap, vmWhy, vmPos := allSnap(vmSites)
	inSnap, inWhy, inPos := allSnap(inSites)
	// ---- (a) own cursor per loop
	for _, side := range []struct {
		l    *mbLib
		snap bool
		why  string
		pos  token.Pos
	}{{vm, vmSnap, vmWhy, vmPos}, {in, inSnap, inWhy, inPos}} {
		for _, it := range r2tIterImpls(side.l) {
			o := Obligation{Key: fmt.Sprintf("iter|%s|%s|own cursor per loop", side.l.tag, it.im.Name()), Pos: c.Pos(side.pos), Nontrivial: true}
			switch {
			case side.snap && len(it.cursor) > 0:
				o.Status, o.Detail = Discharged, fmt.Sprintf("cursor field(s) %s live in the value, but every iterator is created on a fresh clone (%s)", strings.Join(it.cursor, ","), side.why)
			case !side.snap && it.undecided != "":
				o.Status, o.Detail = Undecided, it.undecided
				o.Pos = c.Pos(it.pos)
			case len(it.cursor) == 0:
				o.Status, o.Detail = Discharged, it.im.Name()+".IntoIter hands out an iterator with its own cursor ("+it.how+")"
				o.Pos = c.Pos(it.pos)
			default:
				o.Status = Violated
				o.Detail = fmt.Sprintf("%s keeps its cursor in %s, a pointer shared by every copy of the value, and the %s engine creates iterators on the value itself (%s). Two loops over one value share the cursor: in `for a in l { for b in l { … } }` the inner loop starts where the outer one stands, runs to the end and resets the cursor, so the outer loop starts over — elements are skipped and the loop never ends.", it.im.Name(), strings.Join(it.cursor, ","), side.l.tag, side.why)
			}
			obs = append(obs, o)
		}
	}
	// ---- (a') Clone gives the copy its own cursor: the "iterate over a clone" argument rests on it
	for _, l := range libs {
		for _, im := range l.impls {
			it := im.methods["IntoIter"]
			if it == nil || im.methods["Clone"] == nil || (len(it.Body.List) == 1 && IsPanicCall(l.info, it.Body.List[0])) {
				continue
			}
			cursor := r2tCursorFields(l, im)
			if len(cursor) == 0 {
				continue
			}
			o := Obligation{Key: fmt.Sprintf("iter|%s|%s|clone has its own cursor", l.tag, im.Name()), Pos: c.Pos(im.methods["Clone"].Pos()), Nontrivial: true}
			o.Status, o.Detail = r2tCloneCursor(l, im, cursor)
			obs = append(obs, o)
		}
	}
	// ---- (b) twins iterate over the same thing (mutable kinds)
	inBy := map[string]*r2tIterImpl{}
	for _, it := range r2tIterImpls(in) {
		inBy[it.im.Name()] = it
	}
	for _, vt := range r2tIterImpls(vm) {
		it := inBy[vt.im.Name()]
		if it == nil {
			continue
		}
		view := func(snap bool, im *r2tIterImpl) string {
			if snap || !im.live {
				return "snapshot"
			}
			return "live value"
		}
		va, vb := view(vmSnap, vt), view(inSnap, it)
		o := Obligation{Key: fmt.Sprintf("iter|twins|%s|iterate over the same thing", vt.im.Name()), Pos: c.Pos(inPos), Nontrivial: true}
		describe := func(snap bool, why string, im *r2tIterImpl) string {
			if snap {
				return why
			}
			return why + "; " + im.how
		}
		vmWhy, inWhy := describe(vmSnap, vmWhy, vt), describe(inSnap, inWhy, it)
		switch {
		case (vt.mutable || it.mutable) && ((!vmSnap && vt.undecided != "") || (!inSnap && it.undecided != "")):
			o.Status, o.Detail = Undecided, "cannot decide what the iterator reads: "+vt.undecided+" "+it.undecided
		case !vt.mutable && !it.mutable:
			o.Status, o.Detail = Info, fmt.Sprintf("%s has no mutating members: snapshot (%s) and live (%s) iteration cannot be told apart", vt.im.Name(), va, vb)
		case va == vb:
			o.Status, o.Detail = Discharged, "both engines iterate over a "+va
		default:
			o.Status = Violated
			o.Detail = fmt.Sprintf("the VM iterates over a %s (%s) but the interpreter over a %s (%s); %s has mutating members, so `for x in l { l.push(x) }` runs once per original element in one engine and keeps seeing the pushed elements in the other.", va, vmWhy, vb, inWhy, vt.im.Name())
		}
		obs = append(obs, o)
	}
	return obs
}

// ---------------------------------------------------------------------------
// Clone() of an iterable value gives the copy its own cursor
// ---------------------------------------------------------------------------

// r2tCursorFields: pointer fields of an iterable value that the iterator methods write through:
// the methods IntoIter hands out (bound to whatever value) and the receiver methods they call.
func r2tCursorFields(l *mbLib, im *mbImpl) map[string]bool {
	out := map[string]bool{}
	for f := range l.iterStateFields(im) {
		out[f] = true
	}
	root := im.methods["IntoIter"]
	if root == nil {
		return out
	}
	seen := map[string]bool{}
	var visit func(name string)
	visit = func(name string) {
		fd := im.methods[name]
		if fd == nil || seen[name] {
			return
		}
		seen[name] = true
		recv := mbRecvObj(l.info, fd)
		ast.Inspect(fd.Body, func(n ast.Node) bool {
			switch x := n.(type) {
			case *ast.SelectorExpr:
				if r2tObj(l.info, x.X) == recv && recv != nil {
					if _, isM := im.methods[x.Sel.Name]; isM {
						visit(x.Sel.Name)
					}
				}
			case *ast.AssignStmt:
				for _, lh := range x.Lhs {
					if f := r2tDerefField(l.info, lh, recv); f != "" {
						out[f] = true
					}
				}
			case *ast.IncDecStmt:
				if f := r2tDerefField(l.info, x.X, recv); f != "" {
					out[f] = true
				}
			}
			return true
		})
	}
	ast.Inspect(root.Body, func(n ast.Node) bool {
		if sel, ok := n.(*ast.SelectorExpr); ok {
			if sl := l.info.Selections[sel]; sl != nil && sl.Kind() == types.MethodVal {
				if im2 := l.implOfType(sl.Recv()); im2 == im && sel.Sel.Name != "IntoIter" {
					visit(sel.Sel.Name)
				}
			}
		}
		return true
	})
	// only fields that are pointers to scalars are cursors (not the element storage)
	for f := range out {
		keep := false
		for i := 0; i < im.st.NumFields(); i++ {
			if im.st.Field(i).Name() == f {
				if p, ok := im.st.Field(i).Type().Underlying().(*types.Pointer); ok {
					if _, isBasic := p.Elem().Underlying().(*types.Basic); isBasic {
						keep = true
					}
				}
			}
		}
		if !keep {
			delete(out, f)
		}
	}
	return out
}

// r2tDerefField: lhs is `*recv.F` → F.
func r2tDerefField(info *types.Info, lhs ast.Expr, recv types.Object) string {
	st, ok := ast.Unparen(lhs).(*ast.StarExpr)
	if !ok || recv == nil {
		return ""
	}
	sel, ok := ast.Unparen(st.X).(*ast.SelectorExpr)
	if !ok || r2tObj(info, sel.X) != recv {
		return ""
	}
	return sel.Sel.Name
}

// r2tFreshPointer: e is `&local` (local declared inside scope, not a parameter/receiver) or new(T).
func r2tFreshPointer(info *types.Info, scope *ast.FuncDecl, e ast.Expr) (bool, string) {
	e = ast.Unparen(e)
	if call, ok := e.(*ast.CallExpr); ok && r2tIsBuiltin(info, call, "new") {
		return true, "new(…)"
	}
	if u, ok := e.(*ast.UnaryExpr); ok && u.Op == token.AND {
		if o, ok := r2tObj(info, u.X).(*types.Var); ok && o != nil && !o.IsField() {
			inBody := scope.Body.Pos() <= o.Pos() && o.Pos() <= scope.Body.End()
			if inBody {
				return true, "&" + o.Name() + " (a local of " + scope.Name.Name + ")"
			}
			// a by-value parameter is a fresh variable of this call, too
			if scope.Type.Params != nil && scope.Type.Params.Pos() <= o.Pos() && o.Pos() <= scope.Type.Params.End() {
				if _, isPtr := o.Type().Underlying().(*types.Pointer); !isPtr {
					return true, "&" + o.Name() + " (a by-value parameter of " + scope.Name.Name + ")"
				}
			}
		}
	}
	return false, exprStr(e)
}

// r2tCtorFreshCursor: the constructor builds the value with freshly allocated cursor fields.
func r2tCtorFreshCursor(l *mbLib, fn *types.Func, im *mbImpl, cursor map[string]bool, depth int) (bool, string) {
	fd := l.decls[fn]
	if fd == nil || depth > 2 {
		return false, "constructor " + fn.Name() + " has no visible body"
	}
	var lits []*ast.CompositeLit
	var inner *types.Func
	ast.Inspect(fd.Body, func(n ast.Node) bool {
		switch x := n.(type) {
		case *ast.CompositeLit:
			if l.implOfType(l.info.TypeOf(x)) == im {
				lits = append(lits, x)
			}
		case *ast.CallExpr:
			if f := CalleeOf(l.info, x); f != nil && f != fn && l.ctorOf(f) != nil && l.ctorOf(f).impl == im {
				inner = f
			}
		}
		return true
	})
	if len(lits) == 0 && inner != nil {
		return r2tCtorFreshCursor(l, inner, im, cursor, depth+1)
	}
	if len(lits) != 1 {
		return false, fmt.Sprintf("%d %s literals in %s", len(lits), im.Name(), fn.Name())
	}
	var notes []string
	for _, f := range mbSortedKeys(cursor) {
		found := false
		for _, el := range lits[0].Elts {
			kv, ok := el.(*ast.KeyValueExpr)
			if !ok {
				return false, "positional literal in " + fn.Name()
			}
			if id, ok := kv.Key.(*ast.Ident); ok && id.Name == f {
				found = true
				ok, why := r2tFreshPointer(l.info, fd, kv.Value)
				if !ok {
					return false, fmt.Sprintf("%s sets %s to %s, which is not a fresh pointer", fn.Name(), f, why)
				}
				notes = append(notes, f+" = "+why)
			}
		}
		if !found {
			return false, fn.Name() + " leaves " + f + " nil"
		}
	}
	return true, fn.Name() + " allocates " + strings.Join(notes, ", ")
}

// r2tCloneCursor decides, for one Clone method, whether every returned value has fresh cursor fields.
func r2tCloneCursor(l *mbLib, im *mbImpl, cursor map[string]bool) (Status, string) {
	fd := im.methods["Clone"]
	info := l.info
	recv := mbRecvObj(info, fd)
	var rets []*ast.ReturnStmt
	ast.Inspect(fd.Body, func(n ast.Node) bool {
		if _, ok := n.(*ast.FuncLit); ok {
			return false
		}
		if r, ok := n.(*ast.ReturnStmt); ok && len(r.Results) == 1 {
			rets = append(rets, r)
		}
		return true
	})
	if len(rets) == 0 {
		return Undecided, "Clone has no single-value return"
	}
	// top-level (unconditional) statements of Clone
	topLevel := map[ast.Stmt]bool{}
	for _, s := range fd.Body.List {
		topLevel[s] = true
	}
	var good []string
	for _, r := range rets {
		e := r.Results[0]
		var copyVar types.Object // local that is a struct copy of the receiver
		ok, why := false, ""
		for depth := 0; depth < 6; depth++ {
			e = ast.Unparen(e)
			if u, isU := e.(*ast.UnaryExpr); isU && u.Op == token.AND {
				e = u.X
				continue
			}
			if st, isS := e.(*ast.StarExpr); isS {
				e = st.X
				continue
			}
			if call, isC := e.(*ast.CallExpr); isC {
				if tv, isT := info.Types[call.Fun]; isT && tv.IsType() && len(call.Args) == 1 {
					e = call.Args[0] // conversion Value(x)
					continue
				}
				if sel, isSel := ast.Unparen(call.Fun).(*ast.SelectorExpr); isSel && sel.Sel.Name == "Clone" {
					return Undecided, "Clone delegates to another Clone: " + exprStr(call)
				}
				fn := CalleeOf(info, call)
				if fn != nil && l.ctorOf(fn) != nil {
					ok, why = r2tCtorFreshCursor(l, fn, im, cursor, 0)
					if !ok {
						return Violated, "Clone returns " + exprStr(call) + " but " + why
					}
					break
				}
				return Undecided, "Clone returns the result of " + exprStr(call.Fun)
			}
			if cl, isL := e.(*ast.CompositeLit); isL {
				if l.implOfType(info.TypeOf(cl)) != im {
					return Undecided, "Clone returns a literal of another type"
				}
				for _, f := range mbSortedKeys(cursor) {
					set := false
					for _, el := range cl.Elts {
						if kv, isKV := el.(*ast.KeyValueExpr); isKV {
							if id, isID := kv.Key.(*ast.Ident); isID && id.Name == f {
								set = true
								fresh, w := r2tFreshPointer(info, fd, kv.Value)
								if !fresh {
									return Violated, fmt.Sprintf("Clone builds the copy with %s: %s — the cursor pointer is not fresh (the copy and the original advance and reset one cursor)", f, w)
								}
								why += f + " = " + w + " "
							}
						}
					}
					if !set {
						return Undecided, "Clone builds a literal without " + f
					}
				}
				ok = true
				break
			}
			if id, isI := e.(*ast.Ident); isI {
				o := r2tObj(info, id)
				if o == recv && recv != nil {
					if copyVar == nil {
						return Violated, fmt.Sprintf("Clone returns a struct copy of the receiver: the pointer field(s) %s are copied, so the clone and the original share one cursor", strings.Join(mbSortedKeys(cursor), ","))
					}
					// copyVar := self; every cursor field must be re-pointed unconditionally before the return
					for _, f := range mbSortedKeys(cursor) {
						fresh := false
						ast.Inspect(fd.Body, func(n ast.Node) bool {
							as, isAs := n.(*ast.AssignStmt)
							if !isAs || !topLevel[as] || as.Pos() > r.Pos() {
								return true
							}
							for i, lh := range as.Lhs {
								sel, isSel := ast.Unparen(lh).(*ast.SelectorExpr)
								if isSel && sel.Sel.Name == f && r2tObj(info, sel.X) == copyVar && len(as.Rhs) == len(as.Lhs) {
									if fr, _ := r2tFreshPointer(info, fd, as.Rhs[i]); fr {
										fresh = true
									}
								}
							}
							return true
						})
						if !fresh {
							return Violated, fmt.Sprintf("Clone copies the receiver struct (`%s := %s`) and never gives the copy a fresh %s: the clone and the original share one cursor, so a loop over the clone advances and resets the cursor of the value it was cloned from (nested loops over one value interfere; a constant cloned for every execution keeps a half-consumed cursor)", copyVar.Name(), recv.Name(), f)
						}
						why += copyVar.Name() + "." + f + " re-pointed "
					}
					ok = true
					break
				}
				def := r2tSingleDef(info, fd, id)
				if def == nil {
					return Undecided, "Clone returns " + id.Name + ", which has no single definition"
				}
				if r2tObj(info, ast.Unparen(def)) == recv && recv != nil {
					copyVar = o
				}
				e = def
				continue
			}
			return Undecided, "Clone returns " + exprStr(e)
		}
		if !ok {
			return Undecided, "cannot resolve what Clone returns: " + exprStr(r.Results[0])
		}
		good = append(good, strings.TrimSpace(why))
	}
	return Discharged, "every value Clone returns has fresh cursor field(s): " + strings.Join(good, "; ")
}
