package main

// r3print: a small partial evaluator for pure predicates of the module over
// constant arguments (e.g. util.IsIdent applied to each keyword spelling).
// It folds straight-line code, if/switch, counting and range loops, struct
// and slice literals and calls of other module functions of the same kind.
// Anything else makes the evaluation fail (the caller reports Undecided).

import (
	"fmt"
	"go/ast"
	"go/constant"
	"go/token"
	"go/types"
	"unicode/utf8"
)

type r3pStruct map[string]any

type r3pOpaque struct{}

type r3pEvalErr struct{ msg string }

type r3pEval struct {
	m     *travModel
	steps int
}

type r3pFrame struct {
	info *types.Info
	vars map[types.Object]any
}

type r3pCtl int

const (
	r3pNext r3pCtl = iota
	r3pRet
	r3pBrk
	r3pCont
)

func (ev *r3pEval) fail(format string, a ...any) {
	panic(r3pEvalErr{fmt.Sprintf(format, a...)})
}

// r3pCallConst evaluates fn(args...) and returns its results.
func r3pCallConst(m *travModel, fn *types.Func, args []any) (res []any, err error) {
	ev := &r3pEval{m: m}
	defer func() {
		if e := recover(); e != nil {
			if ee, ok := e.(r3pEvalErr); ok {
				res, err = nil, fmt.Errorf("%s", ee.msg)
				return
			}
			panic(e)
		}
	}()
	return ev.call(fn, args), nil
}

func (ev *r3pEval) call(fn *types.Func, args []any) []any {
	d := ev.m.decls[fn]
	if d == nil || d.Fd.Body == nil {
		ev.fail("call of %s: no body in the module", fn.FullName())
	}
	fr := &r3pFrame{info: d.Pkg.TypesInfo, vars: map[types.Object]any{}}
	sg := fn.Type().(*types.Signature)
	if d.Fd.Recv != nil {
		// a method: the first argument is the receiver
		if len(args) == 0 {
			ev.fail("method %s without receiver", fn.FullName())
		}
		if len(d.Fd.Recv.List) > 0 && len(d.Fd.Recv.List[0].Names) > 0 {
			if o := d.Pkg.TypesInfo.Defs[d.Fd.Recv.List[0].Names[0]]; o != nil {
				fr.vars[o] = args[0]
			}
		}
		args = args[1:]
	}
	n := sg.Params().Len()
	if sg.Variadic() {
		if len(args) < n-1 {
			ev.fail("arity")
		}
		rest := append([]any(nil), args[n-1:]...)
		args = append(append([]any(nil), args[:n-1]...), any(rest))
	}
	if len(args) != n {
		ev.fail("arity of %s", fn.Name())
	}
	for i := 0; i < n; i++ {
		fr.vars[sg.Params().At(i)] = args[i]
	}
	ctl, res := ev.block(fr, d.Fd.Body.List)
	if ctl != r3pRet {
		if sg.Results().Len() == 0 {
			return nil
		}
		ev.fail("%s ends without return", fn.Name())
	}
	return res
}

func (ev *r3pEval) tick() {
	ev.steps++
	if ev.steps > 200000 {
		ev.fail("step budget exhausted")
	}
}

func (ev *r3pEval) block(fr *r3pFrame, list []ast.Stmt) (r3pCtl, []any) {
	for _, s := range list {
		if c, r := ev.stmt(fr, s); c != r3pNext {
			return c, r
		}
	}
	return r3pNext, nil
}

func (ev *r3pEval) truth(v any) bool {
	b, ok := v.(bool)
	if !ok {
		ev.fail("condition is not a bool")
	}
	return b
}

func (ev *r3pEval) assign(fr *r3pFrame, lhs ast.Expr, v any, define bool) {
	switch l := ast.Unparen(lhs).(type) {
	case *ast.Ident:
		if l.Name == "_" {
			return
		}
		o := fr.info.Defs[l]
		if o == nil {
			o = fr.info.Uses[l]
		}
		if _, isVar := o.(*types.Var); !isVar || o.Parent() == o.Pkg().Scope() {
			ev.fail("assignment to non-local %s", l.Name)
		}
		fr.vars[o] = v
	default:
		ev.fail("assignment to %s", exprStr(lhs))
	}
}

func (ev *r3pEval) stmt(fr *r3pFrame, s ast.Stmt) (r3pCtl, []any) {
	ev.tick()
	switch x := s.(type) {
	case *ast.BlockStmt:
		return ev.block(fr, x.List)
	case *ast.EmptyStmt:
		return r3pNext, nil
	case *ast.ReturnStmt:
		var out []any
		for _, e := range x.Results {
			out = append(out, ev.expr(fr, e))
		}
		return r3pRet, out
	case *ast.IfStmt:
		if x.Init != nil {
			if c, r := ev.stmt(fr, x.Init); c != r3pNext {
				return c, r
			}
		}
		if ev.truth(ev.expr(fr, x.Cond)) {
			return ev.block(fr, x.Body.List)
		}
		if x.Else != nil {
			return ev.stmt(fr, x.Else)
		}
		return r3pNext, nil
	case *ast.AssignStmt:
		if len(x.Lhs) != len(x.Rhs) {
			ev.fail("multi-value assignment")
		}
		vals := make([]any, len(x.Rhs))
		for i, r := range x.Rhs {
			vals[i] = ev.expr(fr, r)
		}
		for i, l := range x.Lhs {
			switch x.Tok {
			case token.ASSIGN, token.DEFINE:
				ev.assign(fr, l, vals[i], x.Tok == token.DEFINE)
			default:
				op := map[token.Token]token.Token{token.ADD_ASSIGN: token.ADD, token.SUB_ASSIGN: token.SUB, token.MUL_ASSIGN: token.MUL}[x.Tok]
				if op == token.ILLEGAL {
					ev.fail("operator %s", x.Tok)
				}
				ev.assign(fr, l, ev.binary(op, ev.expr(fr, l), vals[i]), false)
			}
		}
		return r3pNext, nil
	case *ast.IncDecStmt:
		v, ok := ev.expr(fr, x.X).(int64)
		if !ok {
			ev.fail("++ on non-int")
		}
		if x.Tok == token.INC {
			v++
		} else {
			v--
		}
		ev.assign(fr, x.X, v, false)
		return r3pNext, nil
	case *ast.DeclStmt:
		gd, ok := x.Decl.(*ast.GenDecl)
		if !ok || gd.Tok != token.VAR {
			if ok && gd.Tok == token.CONST {
				return r3pNext, nil
			}
			ev.fail("declaration")
		}
		for _, sp := range gd.Specs {
			vs := sp.(*ast.ValueSpec)
			for i, n := range vs.Names {
				if i < len(vs.Values) {
					fr.vars[fr.info.Defs[n]] = ev.expr(fr, vs.Values[i])
				} else {
					fr.vars[fr.info.Defs[n]] = ev.zero(fr.info.Defs[n].Type())
				}
			}
		}
		return r3pNext, nil
	case *ast.ExprStmt:
		ev.expr(fr, x.X)
		return r3pNext, nil
	case *ast.ForStmt:
		if x.Init != nil {
			ev.stmt(fr, x.Init)
		}
		for {
			ev.tick()
			if x.Cond != nil && !ev.truth(ev.expr(fr, x.Cond)) {
				break
			}
			c, r := ev.block(fr, x.Body.List)
			if c == r3pRet {
				return c, r
			}
			if c == r3pBrk {
				break
			}
			if x.Post != nil {
				ev.stmt(fr, x.Post)
			}
		}
		return r3pNext, nil
	case *ast.RangeStmt:
		coll := ev.expr(fr, x.X)
		iter := func(k, v any) (r3pCtl, []any) {
			if x.Key != nil {
				ev.assign(fr, x.Key, k, true)
			}
			if x.Value != nil {
				ev.assign(fr, x.Value, v, true)
			}
			return ev.block(fr, x.Body.List)
		}
		switch cv := coll.(type) {
		case string:
			for i, r := range cv {
				c, res := iter(int64(i), int64(r))
				if c == r3pRet {
					return c, res
				}
				if c == r3pBrk {
					break
				}
			}
		case []any:
			for i, el := range cv {
				c, res := iter(int64(i), el)
				if c == r3pRet {
					return c, res
				}
				if c == r3pBrk {
					break
				}
			}
		default:
			ev.fail("range over %T", coll)
		}
		return r3pNext, nil
	case *ast.BranchStmt:
		if x.Label != nil {
			ev.fail("labelled branch")
		}
		switch x.Tok {
		case token.BREAK:
			return r3pBrk, nil
		case token.CONTINUE:
			return r3pCont, nil
		}
		ev.fail("branch %s", x.Tok)
	case *ast.SwitchStmt:
		if x.Init != nil {
			ev.stmt(fr, x.Init)
		}
		var tag any = true
		if x.Tag != nil {
			tag = ev.expr(fr, x.Tag)
		}
		var def *ast.CaseClause
		for _, c := range x.Body.List {
			cc := c.(*ast.CaseClause)
			if cc.List == nil {
				def = cc
				continue
			}
			for _, e := range cc.List {
				if ev.expr(fr, e) == tag {
					ctl, r := ev.block(fr, cc.Body)
					if ctl == r3pBrk {
						return r3pNext, nil
					}
					return ctl, r
				}
			}
		}
		if def != nil {
			ctl, r := ev.block(fr, def.Body)
			if ctl == r3pBrk {
				return r3pNext, nil
			}
			return ctl, r
		}
		return r3pNext, nil
	}
	ev.fail("statement %T", s)
	return r3pNext, nil
}

func (ev *r3pEval) zero(t types.Type) any {
	switch u := types.Unalias(t).Underlying().(type) {
	case *types.Basic:
		switch {
		case u.Info()&types.IsBoolean != 0:
			return false
		case u.Info()&types.IsInteger != 0:
			return int64(0)
		case u.Info()&types.IsString != 0:
			return ""
		}
	case *types.Slice:
		return []any(nil)
	case *types.Struct:
		s := r3pStruct{}
		for i := 0; i < u.NumFields(); i++ {
			s[u.Field(i).Name()] = ev.zero(u.Field(i).Type())
		}
		return s
	}
	return r3pOpaque{} // a value the evaluation may carry around but not look into
}

func (ev *r3pEval) fromConst(v constant.Value) any {
	switch v.Kind() {
	case constant.Bool:
		return constant.BoolVal(v)
	case constant.String:
		return constant.StringVal(v)
	case constant.Int:
		if i, ok := constant.Int64Val(v); ok {
			return i
		}
	}
	ev.fail("constant %s", v)
	return nil
}

func (ev *r3pEval) binary(op token.Token, a, b any) any {
	switch x := a.(type) {
	case int64:
		y, ok := b.(int64)
		if !ok {
			ev.fail("mixed operands")
		}
		switch op {
		case token.ADD:
			return x + y
		case token.SUB:
			return x - y
		case token.MUL:
			return x * y
		case token.QUO:
			if y == 0 {
				ev.fail("division by zero")
			}
			return x / y
		case token.REM:
			if y == 0 {
				ev.fail("division by zero")
			}
			return x % y
		case token.EQL:
			return x == y
		case token.NEQ:
			return x != y
		case token.LSS:
			return x < y
		case token.LEQ:
			return x <= y
		case token.GTR:
			return x > y
		case token.GEQ:
			return x >= y
		}
	case string:
		y, ok := b.(string)
		if !ok {
			ev.fail("mixed operands")
		}
		switch op {
		case token.ADD:
			return x + y
		case token.EQL:
			return x == y
		case token.NEQ:
			return x != y
		case token.LSS:
			return x < y
		case token.GTR:
			return x > y
		}
	case bool:
		y, ok := b.(bool)
		if !ok {
			ev.fail("mixed operands")
		}
		switch op {
		case token.EQL:
			return x == y
		case token.NEQ:
			return x != y
		}
	}
	ev.fail("operator %s on %T", op, a)
	return nil
}

func (ev *r3pEval) expr(fr *r3pFrame, x ast.Expr) any {
	ev.tick()
	info := fr.info
	if tv, ok := info.Types[x]; ok && tv.Value != nil {
		return ev.fromConst(tv.Value)
	}
	switch y := x.(type) {
	case *ast.ParenExpr:
		return ev.expr(fr, y.X)
	case *ast.Ident:
		o := info.Uses[y]
		if v, ok := fr.vars[o]; ok {
			return v
		}
		ev.fail("identifier %s has no known value", y.Name)
	case *ast.UnaryExpr:
		v := ev.expr(fr, y.X)
		switch y.Op {
		case token.NOT:
			return !ev.truth(v)
		case token.SUB:
			if i, ok := v.(int64); ok {
				return -i
			}
		}
		ev.fail("unary %s", y.Op)
	case *ast.BinaryExpr:
		if y.Op == token.LAND {
			return ev.truth(ev.expr(fr, y.X)) && ev.truth(ev.expr(fr, y.Y))
		}
		if y.Op == token.LOR {
			return ev.truth(ev.expr(fr, y.X)) || ev.truth(ev.expr(fr, y.Y))
		}
		return ev.binary(y.Op, ev.expr(fr, y.X), ev.expr(fr, y.Y))
	case *ast.IndexExpr:
		c := ev.expr(fr, y.X)
		i, ok := ev.expr(fr, y.Index).(int64)
		if !ok {
			ev.fail("index")
		}
		switch cv := c.(type) {
		case string:
			if i < 0 || int(i) >= len(cv) {
				ev.fail("index out of range")
			}
			return int64(cv[i])
		case []any:
			if i < 0 || int(i) >= len(cv) {
				ev.fail("index out of range")
			}
			return cv[i]
		}
		ev.fail("index of %T", c)
	case *ast.SelectorExpr:
		if sel := info.Selections[y]; sel != nil && sel.Kind() == types.FieldVal {
			if s, ok := ev.expr(fr, y.X).(r3pStruct); ok {
				if v, ok := s[y.Sel.Name]; ok {
					return v
				}
			}
		}
		ev.fail("selector %s", exprStr(y))
	case *ast.CompositeLit:
		t := types.Unalias(info.TypeOf(y)).Underlying()
		switch u := t.(type) {
		case *types.Struct:
			s := ev.zero(info.TypeOf(y)).(r3pStruct)
			for i, el := range y.Elts {
				if kv, ok := el.(*ast.KeyValueExpr); ok {
					s[kv.Key.(*ast.Ident).Name] = ev.expr(fr, kv.Value)
				} else {
					s[u.Field(i).Name()] = ev.expr(fr, el)
				}
			}
			return s
		case *types.Slice:
			var out []any
			for _, el := range y.Elts {
				if _, ok := el.(*ast.KeyValueExpr); ok {
					ev.fail("keyed slice literal")
				}
				out = append(out, ev.expr(fr, el))
			}
			return out
		}
		ev.fail("literal of %s", info.TypeOf(y))
	case *ast.CallExpr:
		if tv, ok := info.Types[y.Fun]; ok && tv.IsType() {
			v := ev.expr(fr, y.Args[0])
			switch u := types.Unalias(tv.Type).Underlying().(type) {
			case *types.Basic:
				switch {
				case u.Info()&types.IsInteger != 0:
					if i, ok := v.(int64); ok {
						return i
					}
				case u.Info()&types.IsString != 0:
					switch vv := v.(type) {
					case string:
						return vv
					case int64:
						buf := make([]byte, 0, 4)
						return string(utf8.AppendRune(buf, rune(vv)))
					}
				}
			}
			ev.fail("conversion to %s", tv.Type)
		}
		if id, ok := ast.Unparen(y.Fun).(*ast.Ident); ok {
			if b, ok := info.Uses[id].(*types.Builtin); ok {
				if b.Name() == "len" {
					switch cv := ev.expr(fr, y.Args[0]).(type) {
					case string:
						return int64(len(cv))
					case []any:
						return int64(len(cv))
					}
				}
				ev.fail("builtin %s", b.Name())
			}
		}
		callee := CalleeOf(info, y)
		if callee == nil {
			ev.fail("call of %s", exprStr(y.Fun))
		}
		var args []any
		if se, ok := ast.Unparen(y.Fun).(*ast.SelectorExpr); ok {
			if sel := info.Selections[se]; sel != nil && sel.Kind() == types.MethodVal {
				if _, isIfc := types.Unalias(sel.Recv()).Underlying().(*types.Interface); isIfc {
					ev.fail("dynamic method call %s", exprStr(y.Fun))
				}
				args = append(args, ev.expr(fr, se.X))
			}
		}
		for _, a := range y.Args {
			args = append(args, ev.expr(fr, a))
		}
		if y.Ellipsis.IsValid() {
			ev.fail("spread call")
		}
		res := ev.call(callee, args)
		if len(res) != 1 {
			ev.fail("call with %d results in an expression", len(res))
		}
		return res[0]
	}
	ev.fail("expression %T (%s)", x, exprStr(x))
	return nil
}
