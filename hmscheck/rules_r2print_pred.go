package main

// r2print: R-predicate-all-paths — a predicate over the AST that answers the
// non-absorbing value of its fold has inspected every child on that path.

import (
	"fmt"
	"go/ast"
	"go/constant"
	"go/token"
	"go/types"
	"strings"
)

func init() {
	register(&Rule{ID: "R-predicate-all-paths", Floor: 50, Run: ruleR2pPredicate,
		Doc: "Predicates over the AST come in families that fold a child's answer with || (absorbing value true: the fuzzer's *CanControlLoop guard) or && (absorbing value false: Constant()); the families, their absorbing value " +
			"and the blocks that open a new control context are the ones R-traversal infers. For every clause / method / function of such a family and every path through it that returns the NON-absorbing answer " +
			"(a literal, or the result of a family call on a child — the child's own answer): every required child of the handled node (and of its component structs without a clause of their own) has been inspected on that path — " +
			"passed to a family predicate whose non-absorbing result let the path continue, or inspected by the returned call(s) — unless the path established that the child is absent (nil test, empty list, loop not entered) " +
			"or the child opens a new control context. A path on which a child answered the absorbing value but which still returns the other answer is reported as well. " +
			"R-traversal only demands that each child is read somewhere in the clause; `if node.ElseBlock != nil { return f(*node.ElseBlock) }; return f(node.ThenBlock)` reads both and still ignores the then-branch whenever an else-branch exists. " +
			"Necessary: the guard answers `cannot control a loop` / `is constant` for a node one of whose children says otherwise, and the transformation it guards changes behaviour."})
}

type r2pPredCtx struct {
	c        *Ctx
	m        *travModel
	r        *travRun
	absorb   map[string]string
	loopPred map[string]bool
	members  map[string]map[string]bool
}

func ruleR2pPredicate(c *Ctx) []Obligation {
	m := travGetModel(c)
	r := &travRun{c: c, m: m, tc: newTravCollector(m), hasUnit: map[string]bool{}}
	r.learnLoopContext()
	r3pLearnLoopContext(r) // the same bookkeeping written as a helper pair or a closure wrapper
	units := r.enumerate()
	for _, u := range units {
		r.hasUnit[u.pkg.PkgPath+"|"+u.role.String()+"|"+u.subject.Name()] = true
	}
	pc := &r2pPredCtx{c: c, m: m, r: r, members: map[string]map[string]bool{}}
	pc.absorb = r.absorbing(units)
	pc.loopPred = r.loopControlFamilies(units, pc.absorb)
	for _, u := range units {
		if u.role != rolePredicate {
			continue
		}
		f := travFamily(u)
		if pc.members[f] == nil {
			pc.members[f] = map[string]bool{}
		}
		pc.members[f][u.fd.Name.Name] = true
	}
	// bool helpers of the same package that call a member of a function family (`anyExprCanControlLoop(list)`) fold the
	// family's answer over their argument: they count as members (their own completeness is not checked here)
	for fam, ms := range pc.members {
		if !c.HasPkg(relPkg(fam)) {
			continue // method families of the AST packages are keyed by method name
		}
		p := c.Pkg(relPkg(fam))
		for changed := true; changed; {
			changed = false
			for _, fd := range AllFuncDecls(p) {
				fn, _ := p.TypesInfo.Defs[fd.Name].(*types.Func)
				if fn == nil || ms[fd.Name.Name] {
					continue
				}
				sg := fn.Type().(*types.Signature)
				if sg.Results().Len() != 1 {
					continue
				}
				if b, ok := types.Unalias(sg.Results().At(0).Type()).Underlying().(*types.Basic); !ok || b.Kind() != types.Bool {
					continue
				}
				calls := false
				ast.Inspect(fd.Body, func(n ast.Node) bool {
					if call, ok := n.(*ast.CallExpr); ok {
						if cal := CalleeOf(p.TypesInfo, call); cal != nil && cal.Pkg() == p.Types && ms[cal.Name()] {
							calls = true
						}
					}
					return !calls
				})
				if calls {
					ms[fd.Name.Name] = true
					changed = true
				}
			}
		}
	}
	var obs []Obligation
	seen := map[string]bool{}
	for _, u := range units {
		if u.role != rolePredicate || pc.absorb[travFamily(u)] == "" {
			continue
		}
		if seen[u.key] {
			continue
		}
		seen[u.key] = true
		obs = append(obs, pc.unit(u)...)
	}
	return obs
}

type r2pPredReq struct {
	path  string
	owner *travStruct
	field *travField
}

func (pc *r2pPredCtx) requirements(u *travUnit, root string) (reqs []r2pPredReq, exempt []string) {
	m := pc.m
	fam := travFamily(u)
	var add func(s *travStruct, base string, depth int, seen map[*travStruct]bool)
	add = func(s *travStruct, base string, depth int, seen map[*travStruct]bool) {
		if seen[s] || depth > 3 {
			return
		}
		seen[s] = true
		defer delete(seen, s)
		for _, f := range s.Fields {
			if f.Class != tfChild {
				continue
			}
			if why := pc.r.contextOpening(s, f, pc.loopPred[fam]); why != "" {
				exempt = append(exempt, s.Short()+"."+f.Name)
				continue
			}
			reqs = append(reqs, r2pPredReq{path: base + "." + f.Name, owner: s, field: f})
			for _, cs := range m.carrierStructs(f.Var.Type()) {
				if cs.IsSem || cs.T == m.identT {
					continue
				}
				if pc.r.hasUnit[u.pkg.PkgPath+"|"+u.role.String()+"|"+cs.Name()] {
					continue // handled by its own clause / function of the family
				}
				add(cs, base+"."+f.Name, depth+1, seen)
			}
		}
	}
	add(u.subject, root, 0, map[*travStruct]bool{})
	return
}

// rootOf: the access path that stands for the handled node inside the unit.
func (pc *r2pPredCtx) rootOf(u *travUnit, env *r2pEnv) string {
	switch {
	case u.clause != nil && u.scope.subject != nil:
		// the dispatch subject as R-traversal resolved it (also through `kind := node.Kind(); switch kind`)
		if p, ok := env.roots[u.scope.subject]; ok {
			return p
		}
		return u.scope.subject.Name()
	case u.clause != nil:
		switch sw := u.hostSwitch.(type) {
		case *ast.SwitchStmt:
			if call, ok := ast.Unparen(sw.Tag).(*ast.CallExpr); ok {
				if se, ok := ast.Unparen(call.Fun).(*ast.SelectorExpr); ok {
					return env.pathOf(nil, se.X)
				}
			}
		case *ast.TypeSwitchStmt:
			var x0 ast.Expr
			switch a := sw.Assign.(type) {
			case *ast.AssignStmt:
				x0 = a.Rhs[0]
			case *ast.ExprStmt:
				x0 = a.X
			}
			if ta, ok := ast.Unparen(x0).(*ast.TypeAssertExpr); ok {
				return env.pathOf(nil, ta.X)
			}
		}
	case u.fd.Recv != nil && (u.pkg == pc.m.pP || u.pkg == pc.m.pA):
		if len(u.fd.Recv.List) > 0 && len(u.fd.Recv.List[0].Names) > 0 {
			return u.fd.Recv.List[0].Names[0].Name
		}
	default:
		// parameter unit: the parameter named in the key
		if i := strings.Index(u.key, "|param "); i >= 0 {
			rest := strings.Fields(u.key[i+len("|param "):])
			if len(rest) > 0 {
				return rest[0]
			}
		}
	}
	return ""
}

type r2pRetKind int

const (
	r2pRetConst r2pRetKind = iota
	r2pRetDelegate
	r2pRetUnknown
)

func (pc *r2pPredCtx) unit(u *travUnit) []Obligation {
	c, m := pc.c, pc.m
	fam := travFamily(u)
	absorbing := pc.absorb[fam] == "true"
	env := r2pNewEnv(c, m, u.pkg, u.fd)
	info := env.info
	root := pc.rootOf(u, env)
	key := u.key + "|non-absorbing answers inspect every child"
	if root == "" {
		return []Obligation{{Key: key, Pos: c.Pos(u.pos), Status: Undecided, Detail: "the variable standing for the handled node could not be resolved"}}
	}
	reqs, exempt := pc.requirements(u, root)
	body, loops := r2pWrap(u.fd.Body)
	env.loops = loops
	filter := &r2pClauseFilter{loops: loops, host: u.hostSwitch, clause: u.clause, skip: u.scope.skip}

	// family call: (inspected paths, ok)
	famCall := func(st *r2pState, x ast.Expr) ([]string, bool) {
		x = ast.Unparen(x)
		if id, ok := x.(*ast.Ident); ok {
			if call := st.callVar[info.Uses[id]]; call != nil {
				x = call
			}
		}
		call, ok := x.(*ast.CallExpr)
		if !ok {
			return nil, false
		}
		callee := CalleeOf(info, call)
		if callee == nil || !pc.members[fam][callee.Name()] {
			return nil, false
		}
		var ps []string
		if se, ok := ast.Unparen(call.Fun).(*ast.SelectorExpr); ok {
			if sel := info.Selections[se]; sel != nil && sel.Kind() == types.MethodVal {
				// the receiver is the inspected child only when it is a node (x.Constant()), not the traversal driver
				if rn := travNamed(info.TypeOf(se.X)); rn != nil && (m.structs[rn] != nil || m.codeIfc[rn]) {
					if p := env.pathOf(st, se.X); p != "" {
						ps = append(ps, p)
					}
				}
			}
		}
		for _, a := range call.Args {
			if p := env.pathOf(st, a); p != "" {
				ps = append(ps, p)
			}
		}
		return ps, true
	}
	// classify a returned expression; adds the children it inspects when its value is the non-absorbing one
	var classify func(st *r2pState, x ast.Expr, insp map[string]bool) (r2pRetKind, bool)
	classify = func(st *r2pState, x ast.Expr, insp map[string]bool) (r2pRetKind, bool) {
		x = ast.Unparen(x)
		if tv, ok := info.Types[x]; ok && tv.Value != nil && tv.Value.Kind() == constant.Bool {
			return r2pRetConst, constant.BoolVal(tv.Value) // true / false / a named bool constant
		}
		if id, ok := x.(*ast.Ident); ok {
			if id.Name == "true" && info.Uses[id] == types.Universe.Lookup("true") {
				return r2pRetConst, true
			}
			if id.Name == "false" && info.Uses[id] == types.Universe.Lookup("false") {
				return r2pRetConst, false
			}
			if k := st.konst[info.Uses[id]]; k != 0 {
				if _, isCall := st.callVar[info.Uses[id]]; !isCall {
					return r2pRetConst, k == 1
				}
			}
			if a, ok := st.acc[info.Uses[id]]; ok {
				// an accumulator folded with the family's own operator: non-absorbing iff every folded child said so
				for p := range a {
					insp[p] = true
				}
				return r2pRetDelegate, false
			}
		}
		if ps, ok := famCall(st, x); ok {
			for _, p := range ps {
				insp[p] = true
			}
			return r2pRetDelegate, false
		}
		if be, ok := x.(*ast.BinaryExpr); ok && (be.Op == token.LOR || be.Op == token.LAND) {
			matches := (be.Op == token.LOR) == absorbing
			if !matches {
				// `p != nil && f(*p)` in an ||-family / `p == nil || f(*p)` in an &&-family: the guard makes the
				// whole expression non-absorbing only when the child is absent, otherwise the child answers
				resolve := func(id *ast.Ident) (string, bool) {
					o := info.Uses[id]
					if o == nil {
						return "", false
					}
					if q, ok := st.alias[o]; ok {
						return q, true
					}
					if q, ok := env.roots[o]; ok {
						return q, true
					}
					return "", false
				}
				gp, emptyWhenTrue, ok := r2pCondFact(env, info, be.X, resolve, 0)
				if ok && !strings.HasSuffix(gp, "[]") {
					gp = r2pNorm(gp)
					// ||-family: guard false must mean "absent": emptyWhenTrue == false; &&-family: guard true means absent
					if emptyWhenTrue == !absorbing {
						ri := map[string]bool{}
						rk, rv := classify(st, be.Y, ri)
						within := true
						for q := range ri {
							if q != gp && !strings.HasPrefix(q, gp+".") {
								within = false
							}
						}
						if rk != r2pRetUnknown && within {
							for q := range ri {
								insp[q] = true
							}
							insp[gp] = true
							if rk == r2pRetConst {
								_ = rv
								return r2pRetDelegate, false
							}
							return r2pRetDelegate, false
						}
					}
				}
			}
			li := map[string]bool{}
			lk, lv := classify(st, be.X, li)
			ri := map[string]bool{}
			rk, rv := classify(st, be.Y, ri)
			for p := range li {
				insp[p] = true
			}
			if matches {
				// a non-absorbing overall value means every operand was evaluated and answered non-absorbing
				for p := range ri {
					insp[p] = true
				}
			}
			switch {
			case lk == r2pRetUnknown || rk == r2pRetUnknown:
				return r2pRetUnknown, false
			case lk == r2pRetConst && rk == r2pRetConst:
				if be.Op == token.LOR {
					return r2pRetConst, lv || rv
				}
				return r2pRetConst, lv && rv
			case !matches:
				// `a && b` in an ||-family (or the reverse): the operand on the right is not always evaluated
				return r2pRetDelegate, false
			}
			return r2pRetDelegate, false
		}
		return r2pRetUnknown, false
	}

	type witness struct {
		line        int
		what, trace string
	}
	var viol, undec []witness
	npaths, nonAbs := 0, 0
	w := &Walker[*r2pState]{
		Clone: r2pClone,
		OnStmt: func(st *r2pState, s ast.Stmt) (*r2pState, bool) {
			switch x := s.(type) {
			case *ast.AssignStmt:
				env.noteFieldStores(st, x)
				if len(x.Lhs) == len(x.Rhs) {
					for i, l := range x.Lhs {
						id, ok := ast.Unparen(l).(*ast.Ident)
						if !ok || id.Name == "_" {
							continue
						}
						o := env.objOf(id)
						if x.Tok == token.ASSIGN {
							// acc = acc <family operator> f(child)
							if be, ok := ast.Unparen(x.Rhs[i]).(*ast.BinaryExpr); ok && (be.Op == token.LOR || be.Op == token.LAND) && (be.Op == token.LOR) == absorbing {
								if xi, ok := ast.Unparen(be.X).(*ast.Ident); ok && info.Uses[xi] == o {
									prev, isAcc := st.acc[o]
									startsNeutral := st.konst[o] != 0 && (st.konst[o] == 1) != absorbing
									if isAcc || startsNeutral {
										ins := map[string]bool{}
										if k, _ := classify(st, be.Y, ins); k == r2pRetDelegate {
											na := r2pCopyMap(prev)
											for q := range ins {
												na[q] = true
											}
											delete(st.konst, o)
											delete(st.alias, o)
											st.acc[o] = na
											continue
										}
									}
								}
							}
						}
						delete(st.acc, o)
						if x.Tok == token.ASSIGN || x.Tok == token.DEFINE {
							env.noteAssign(st, o, x.Rhs[i])
							if call, ok := ast.Unparen(x.Rhs[i]).(*ast.CallExpr); ok {
								if _, isFam := famCall(st, call); isFam {
									st.callVar[o] = call
								}
							}
						} else {
							delete(st.konst, o)
							delete(st.alias, o)
							delete(st.callVar, o)
						}
					}
				} else {
					for _, l := range x.Lhs {
						if id, ok := ast.Unparen(l).(*ast.Ident); ok && id.Name != "_" {
							env.noteAssign(st, env.objOf(id), x.Rhs[0])
							delete(st.alias, env.objOf(id))
						}
					}
				}
			case *ast.DeclStmt:
				if gd, ok := x.Decl.(*ast.GenDecl); ok {
					for _, sp := range gd.Specs {
						if vs, ok := sp.(*ast.ValueSpec); ok {
							for i, n := range vs.Names {
								if i < len(vs.Values) {
									env.noteAssign(st, info.Defs[n], vs.Values[i])
								} else {
									env.noteAssign(st, info.Defs[n], nil)
								}
							}
						}
					}
				}
			}
			return st, true
		},
		OnCond: func(st *r2pState, cond ast.Expr, taken bool) (*r2pState, bool) {
			if ps, ok := famCall(st, cond); ok {
				st.trace = append(st.trace, fmt.Sprintf("%s answers %v (line %d)", exprStr(cond), taken, env.line(cond.Pos())))
				if taken == absorbing {
					if st.sawAbs == "" {
						st.sawAbs = fmt.Sprintf("%s (line %d)", exprStr(cond), env.line(cond.Pos()))
					}
				} else {
					for _, p := range ps {
						st.insp[p] = true
					}
				}
				return st, true
			}
			return st, env.applyCond(st, cond, taken)
		},
		OnCase: func(st *r2pState, sw *ast.SwitchStmt, vals []ast.Expr, others []ast.Expr) (*r2pState, bool) {
			cc := r2pClauseOf(sw, vals)
			if cc == nil {
				// no clause matches
				if o := loops.orig[sw]; o != nil && ast.Stmt(o.(*ast.SwitchStmt)) == u.hostSwitch {
					return st, false
				}
				return st, true
			}
			return st, filter.allow(sw, cc)
		},
		OnTypeCase: func(st *r2pState, sw *ast.TypeSwitchStmt, cc *ast.CaseClause) (*r2pState, bool) {
			if !filter.allow(sw, cc) {
				return st, false
			}
			// the clause variable stands for the switched value
			if as, ok := sw.Assign.(*ast.AssignStmt); ok {
				if ta, ok := ast.Unparen(as.Rhs[0]).(*ast.TypeAssertExpr); ok {
					if p := env.rawPathOf(st, ta.X); p != "" {
						var occ ast.Node = cc
						if o := loops.orig[cc]; o != nil {
							occ = o
						}
						if obj := info.Implicits[occ]; obj != nil {
							st.alias[obj] = p
						}
					}
				}
			}
			return st, true
		},
		OnRange: func(st *r2pState, r *ast.RangeStmt) (*r2pState, bool) {
			env.onRange(st, r)
			return st, true
		},
		IsPanic: func(s ast.Stmt) bool { return IsPanicCall(info, s) },
		Exit: func(st *r2pState, o outcome) {
			if o.kind != cReturn || o.ret == nil || len(o.ret.Results) != 1 || !st.feasible() {
				return
			}
			npaths++
			insp := r2pCopyMap(st.insp)
			kind, val := classify(st, o.ret.Results[0], insp)
			if kind == r2pRetConst && val == absorbing {
				return // the safe answer needs no inspection
			}
			nonAbs++
			var missing []string
			for _, rq := range reqs {
				if r2pCovers(insp, rq.path) || st.emptyUpTo(rq.path) {
					continue
				}
				// a by-value component struct is covered through its own requirements
				if n, ok := types.Unalias(rq.field.Var.Type()).(*types.Named); ok && m.structs[n] != nil {
					sub := false
					for _, r2 := range reqs {
						if strings.HasPrefix(r2.path, rq.path+".") {
							sub = true
						}
					}
					if sub {
						continue
					}
				}
				missing = append(missing, rq.owner.Short()+"."+rq.field.Name)
			}
			ret := exprStr(o.ret.Results[0])
			switch {
			case kind == r2pRetUnknown && (len(missing) > 0 || st.sawAbs != ""):
				undec = append(undec, witness{env.line(o.at), fmt.Sprintf("returns `%s`, which is neither a literal nor built from calls of the family; not inspected before: %s", ret, strings.Join(missing, ", ")), st.traceStr()})
			case st.sawAbs != "":
				viol = append(viol, witness{env.line(o.at), fmt.Sprintf("returns `%s` although %s answered %v, the absorbing value", ret, st.sawAbs, absorbing), st.traceStr()})
			case len(missing) > 0:
				viol = append(viol, witness{env.line(o.at), fmt.Sprintf("returns `%s` (the non-absorbing answer, or a child's own answer) without having inspected %s, and the path does not establish that it is absent", ret, strings.Join(missing, ", ")), st.traceStr()})
			}
		},
	}
	w.Run(body, r2pNewState())
	ob := Obligation{Key: key, Pos: c.Pos(u.pos), Nontrivial: len(reqs) > 0}
	desc := fmt.Sprintf("[predicate, absorbing value %v] %s: %d required children", absorbing, u.subject.Short(), len(reqs))
	if len(exempt) > 0 {
		desc += fmt.Sprintf(" (context-opening, exempt: %s)", strings.Join(exempt, ", "))
	}
	switch {
	case w.Overflow || len(w.Unsupported) > 0:
		ob.Status, ob.Detail = Undecided, desc+": path enumeration gave up"
	case len(viol) > 0:
		ob.Status = Violated
		v := viol[0]
		ob.Detail = fmt.Sprintf("%s; the path [%s] %s (line %d); %d such paths of %d", desc, v.trace, v.what, v.line, len(viol), npaths)
	case len(undec) > 0:
		ob.Status = Undecided
		v := undec[0]
		ob.Detail = fmt.Sprintf("%s; the path [%s] %s (line %d)", desc, v.trace, v.what, v.line)
	case npaths == 0:
		ob.Status, ob.Detail = Info, desc+": no returning path (the clause panics or falls through)"
	default:
		ob.Status, ob.Detail = Discharged, fmt.Sprintf("%s; on all %d returning paths (%d answer non-absorbing) every child is inspected, absent or exempt", desc, npaths, nonAbs)
	}
	return []Obligation{ob}
}
