package main

// R-loop-carried-state (r4emit): receiver state assigned from the key / value
// of a map-range loop is not read once the iteration that set it is over.

import (
	"fmt"
	"go/ast"
	"go/token"
	"go/types"
	"sort"
	"strings"
)

func init() {
	register(&Rule{ID: "R-loop-carried-state", Floor: 2, Run: ruleR4LoopCarried,
		Doc: "a struct field that a loop over a MAP assigns from the loop's key or value in its iterations (the compiler's `current module` while it walks map[string]AnalyzedProgram) holds, after the loop and at the start of the next iteration, the entry the map iteration happened to visit last. On every path, such a field is read (directly, or by a callee that reads it) only inside the iteration after the assignment, or after it has been re-assigned from something that is not loop-carried; a function that returns with the field still loop-carried hands the staleness to its callers. And a table of host-visible source names filled from the per-module function table inside such a loop is filled under an equality test on the loop key (one designated module). Necessary for C16/C15/C14: the name table the host uses to invoke functions (Mappings.Functions) must be the ENTRY module's; read through a stale `current module` it is the table of an arbitrary module, so `main` or any function called by name is missing or is another module's function, differently from run to run"})
}

type r4emCarried struct {
	field *types.Var
	loops []token.Pos
}

func ruleR4LoopCarried(c *Ctx) []Obligation {
	r2LoopCtx = c
	var obs []Obligation
	nFields := 0
	for _, p := range c.All {
		rel := relPkg(p.PkgPath)
		if !strings.HasPrefix(rel, "homescript") {
			continue
		}
		fns := vmFuncs(c, rel)
		byObj := map[*types.Func]*vmFn{}
		for _, fn := range fns {
			if obj, _ := fn.info.Defs[fn.fd.Name].(*types.Func); obj != nil {
				byObj[obj] = fn
			}
		}
		// setters: functions whose first statement that mentions a receiver field F is the top-level
		// assignment `recv.F = <parameter>` (`enterModule(name)`, or a per-module helper that starts by
		// recording the module): a call of them is an assignment of F from the argument
		type setterT struct {
			field *types.Var
			idx   int
		}
		setters := map[*types.Func]setterT{}
		for _, fn := range fns {
			obj, _ := fn.info.Defs[fn.fd.Name].(*types.Func)
			if obj == nil || fn.fd.Recv == nil || len(fn.fd.Recv.List) != 1 || len(fn.fd.Recv.List[0].Names) != 1 {
				continue
			}
			recv := fn.info.Defs[fn.fd.Recv.List[0].Names[0]]
			params := vmParamObjs(fn)
			for _, st := range fn.fd.Body.List {
				as, ok := st.(*ast.AssignStmt)
				if ok && as.Tok == token.ASSIGN && len(as.Lhs) == 1 && len(as.Rhs) == 1 {
					if sel, isSel := ast.Unparen(as.Lhs[0]).(*ast.SelectorExpr); isSel && vmObjOf(fn.info, sel.X) == recv {
						if f := vmFieldOf(fn.info, sel); f != nil {
							po := vmObjOf(fn.info, as.Rhs[0])
							for i, p := range params {
								if p != nil && p == po {
									setters[obj] = setterT{f, i}
								}
							}
						}
					}
				}
				// stop at the first statement that mentions any field of the receiver
				mentions := false
				ast.Inspect(st, func(n ast.Node) bool {
					if sel, ok := n.(*ast.SelectorExpr); ok && vmObjOf(fn.info, sel.X) == recv && vmFieldOf(fn.info, sel) != nil {
						mentions = true
					}
					return !mentions
				})
				if mentions {
					break
				}
			}
		}
		// setsField: the statement (of a loop body / a path) assigns field f; returns the value expression
		setsField := func(info *types.Info, st ast.Stmt, f *types.Var) (ast.Expr, bool) {
			switch x := st.(type) {
			case *ast.AssignStmt:
				for i, l := range x.Lhs {
					if vmFieldOf(info, l) == f && i < len(x.Rhs) {
						if _, isIdx := ast.Unparen(l).(*ast.IndexExpr); !isIdx {
							return x.Rhs[i], true
						}
					}
				}
			case *ast.ExprStmt:
				if call, ok := ast.Unparen(x.X).(*ast.CallExpr); ok {
					if sd, ok := setters[CalleeOf(info, call)]; ok && sd.field == f && sd.idx < len(call.Args) {
						return call.Args[sd.idx], true
					}
				}
			}
			return nil, false
		}
		// ---- carried fields: assigned in a map-range body from the key / value
		carried := map[*types.Var]bool{}
		mapLoopOf := func(info *types.Info, s ast.Stmt) *ast.RangeStmt {
			rs, ok := s.(*ast.RangeStmt)
			if !ok {
				return nil
			}
			if _, isMap := info.TypeOf(rs.X).Underlying().(*types.Map); !isMap {
				return nil
			}
			return rs
		}
		derivedOf := func(info *types.Info, rs *ast.RangeStmt) map[types.Object]bool {
			d := map[types.Object]bool{}
			if o := vmObjOf(info, rs.Key); o != nil && rs.Key != nil {
				d[o] = true
			}
			if rs.Value != nil {
				if o := vmObjOf(info, rs.Value); o != nil {
					d[o] = true
				}
			}
			for round := 0; round < 2; round++ {
				ast.Inspect(rs.Body, func(n ast.Node) bool {
					if as, ok := n.(*ast.AssignStmt); ok && len(as.Lhs) == len(as.Rhs) {
						for i, rh := range as.Rhs {
							for o := range d {
								if vmMentionsObj(info, rh, o) {
									if lo := vmObjOf(info, as.Lhs[i]); lo != nil {
										d[lo] = true
									}
								}
							}
						}
					}
					return true
				})
			}
			return d
		}
		for _, fn := range fns {
			info := fn.info
			ast.Inspect(fn.fd.Body, func(n ast.Node) bool {
				s, ok := n.(ast.Stmt)
				if !ok {
					return true
				}
				rs := mapLoopOf(info, s)
				if rs == nil {
					return true
				}
				d := derivedOf(info, rs)
				// direct statements of the body (every iteration)
				for _, b := range rs.Body.List {
					if es, isEs := b.(*ast.ExprStmt); isEs {
						if call, ok := ast.Unparen(es.X).(*ast.CallExpr); ok {
							if sd, ok := setters[CalleeOf(info, call)]; ok && sd.idx < len(call.Args) {
								if sel, isSel := ast.Unparen(call.Fun).(*ast.SelectorExpr); isSel {
									if _, isIdent := ast.Unparen(sel.X).(*ast.Ident); isIdent {
										for o := range d {
											if vmMentionsObj(info, call.Args[sd.idx], o) && !vmMentionsObj(info, sel.X, o) {
												carried[sd.field] = true
											}
										}
									}
								}
							}
						}
						continue
					}
					as, ok := b.(*ast.AssignStmt)
					if !ok || as.Tok != token.ASSIGN {
						continue
					}
					for i, l := range as.Lhs {
						f := vmFieldOf(info, l)
						if f == nil || i >= len(as.Rhs) {
							continue
						}
						if _, isIdx := ast.Unparen(l).(*ast.IndexExpr); isIdx {
							continue
						}
						// state of a loop-invariant object: `recv.F`, the owner is not selected by the loop
						sel, isSel := ast.Unparen(l).(*ast.SelectorExpr)
						if !isSel {
							continue
						}
						ownerDependsOnLoop := false
						for o := range d {
							if vmMentionsObj(info, sel.X, o) {
								ownerDependsOnLoop = true
							}
						}
						if _, isIdent := ast.Unparen(sel.X).(*ast.Ident); !isIdent || ownerDependsOnLoop {
							continue
						}
						for o := range d {
							if vmMentionsObj(info, as.Rhs[i], o) {
								carried[f] = true
							}
						}
					}
				}
				return true
			})
		}
		if len(carried) == 0 {
			continue
		}
		var fields []*types.Var
		for f := range carried {
			fields = append(fields, f)
		}
		sort.Slice(fields, func(i, j int) bool { return vmFieldName(fields[i]) < vmFieldName(fields[j]) })
		// ---- per field
		for _, f := range fields {
			nFields++
			// functions that read the field (any mention that is not a plain assignment target)
			reads := map[*types.Func]bool{}
			callees := map[*types.Func][]*types.Func{}
			for _, fn := range fns {
				obj, _ := fn.info.Defs[fn.fd.Name].(*types.Func)
				if obj == nil {
					continue
				}
				targets := map[ast.Node]bool{}
				ast.Inspect(fn.fd.Body, func(n ast.Node) bool {
					switch x := n.(type) {
					case *ast.AssignStmt:
						if x.Tok == token.ASSIGN || x.Tok == token.DEFINE {
							for _, l := range x.Lhs {
								if sel, ok := ast.Unparen(l).(*ast.SelectorExpr); ok && vmFieldOf(fn.info, sel) == f {
									targets[sel] = true
								}
							}
						}
					case *ast.CallExpr:
						if g := CalleeOf(fn.info, x); g != nil && byObj[g] != nil {
							callees[obj] = append(callees[obj], g)
						}
					}
					return true
				})
				ast.Inspect(fn.fd.Body, func(n ast.Node) bool {
					if sel, ok := n.(*ast.SelectorExpr); ok && vmFieldOf(fn.info, sel) == f && !targets[sel] {
						reads[obj] = true
					}
					return true
				})
			}
			for changed := true; changed; {
				changed = false
				for g, cs := range callees {
					if reads[g] {
						continue
					}
					for _, h := range cs {
						if reads[h] {
							reads[g] = true
							changed = true
							break
						}
					}
				}
			}
			// functions writing the field in a map loop (walk them) and, by fixpoint, functions that leave it stale
			leavesStale := map[*types.Func]bool{}
			// static superset of the functions that can return with the field loop-carried: those with
			// a carrying loop and their transitive callers (used to slice each function once)
			maybeStale := map[*types.Func]bool{}
			for _, fn := range fns {
				obj, _ := fn.info.Defs[fn.fd.Name].(*types.Func)
				if obj == nil {
					continue
				}
				ast.Inspect(fn.fd.Body, func(n ast.Node) bool {
					if x, ok := n.(*ast.RangeStmt); ok && mapLoopOf(fn.info, x) != nil {
						for _, b := range x.Body.List {
							if _, sets := setsField(fn.info, b, f); sets {
								maybeStale[obj] = true
							}
						}
					}
					return true
				})
			}
			for changed := true; changed; {
				changed = false
				for g, cs := range callees {
					if maybeStale[g] {
						continue
					}
					for _, h := range cs {
						if maybeStale[h] {
							maybeStale[g] = true
							changed = true
							break
						}
					}
				}
			}
			walkCache := map[*types.Func]*vmWalkResult{}
			type finding struct {
				key, pos, detail string
			}
			var findings []finding
			var checked []string
			for round := 0; round < 3; round++ {
				findings = nil
				checked = nil
				changed := false
				for _, fn := range fns {
					obj, _ := fn.info.Defs[fn.fd.Name].(*types.Func)
					if obj == nil {
						continue
					}
					info := fn.info
					// relevant function: has a carrying loop, or calls a function that leaves the field stale
					interesting := false
					ast.Inspect(fn.fd.Body, func(n ast.Node) bool {
						switch x := n.(type) {
						case *ast.CallExpr:
							if g := CalleeOf(info, x); g != nil && maybeStale[g] {
								interesting = true
							}
						case *ast.RangeStmt:
							if mapLoopOf(info, x) != nil {
								for _, b := range x.Body.List {
									if _, sets := setsField(info, b, f); sets {
										interesting = true
									}
								}
							}
						}
						return !interesting
					})
					if !interesting {
						continue
					}
					checked = append(checked, fn.name)
					relevant := func(n ast.Node) bool {
						switch x := n.(type) {
						case *ast.SelectorExpr:
							return vmFieldOf(info, x) == f
						case *ast.CallExpr:
							g := CalleeOf(info, x)
							if g == nil {
								if id, ok := x.Fun.(*ast.Ident); ok {
									if b, isB := info.Uses[id].(*types.Builtin); isB && b.Name() == "panic" {
										return true
									}
								}
								return false
							}
							if sd, isSetter := setters[g]; isSetter && sd.field == f {
								return true
							}
							return reads[g] || maybeStale[g]
						case *ast.RangeStmt:
							return mapLoopOf(info, x) != nil && vmMentionsField(info, x.Body, f)
						}
						return false
					}
					res := walkCache[obj]
					if res == nil {
						res = vmWalk(vmWalkOpts{fn: fn, correlate: true, replace: vmSlicer(relevant)})
						walkCache[obj] = res
					}
					if res.overflow {
						findings = append(findings, finding{fn.name + "|" + vmFieldName(f) + "|<paths>", c.Pos(fn.fd.Pos()), "undecided: path cap exceeded"})
						continue
					}
					// derived variables of every carrying loop in this function
					loopDerived := map[ast.Stmt]map[types.Object]bool{}
					ast.Inspect(fn.fd.Body, func(n ast.Node) bool {
						if s, ok := n.(ast.Stmt); ok {
							if rs := mapLoopOf(info, s); rs != nil {
								loopDerived[rs] = derivedOf(info, rs)
							}
						}
						return true
					})
					// the walker rebuilds loop statements: match them by position
					derivedAt := map[token.Pos]map[types.Object]bool{}
					for s, d := range loopDerived {
						derivedAt[s.Pos()] = d
					}
					bad := map[string]string{}
					stale := false
					for i := range res.paths {
						p := &res.paths[i]
						if p.o.kind == cPanic {
							continue
						}
						const (
							stClean = iota
							stFresh
							stStale
						)
						st := stClean
						var staleSince token.Pos
						var active []token.Pos // carrying loops whose iteration is running
						report := func(e vmEv, how string) {
							k := c.Pos(e.Pos)
							if _, dup := bad[k]; dup {
								return
							}
							bad[k] = fmt.Sprintf("%s @%s while %s still holds the key/value of the map iteration that ended @%s (path [%s]): the value is the entry the map iteration visited last, not a chosen one", how, c.Pos(e.Pos), vmFieldName(f), c.Pos(staleSince), vmTrunc(p.decisions(), 160))
						}
						for _, e := range p.ev {
							switch e.K {
							case evRange:
								if st == stStale && e.X != nil && vmMentionsField(info, e.X, f) {
									report(e, "the field is read (collection of a range loop)")
								}
								if e.Loop != nil && derivedAt[e.Loop.Pos()] != nil {
									active = append(active, e.Loop.Pos())
								}
							case evIter:
								if e.Loop != nil && derivedAt[e.Loop.Pos()] != nil {
									if st == stFresh {
										st, staleSince = stStale, e.Loop.Pos()
									}
									if len(active) > 0 {
										active = active[:len(active)-1]
									}
								}
							case evAssign:
								if vmFieldOf(info, e.Lhs) == f {
									if _, isIdx := ast.Unparen(e.Lhs).(*ast.IndexExpr); isIdx {
										if st == stStale {
											report(e, "the field is read")
										}
										continue
									}
									fromLoop := false
									for _, lp := range active {
										for o := range derivedAt[lp] {
											if e.Rhs != nil && vmMentionsObj(info, e.Rhs, o) {
												fromLoop = true
											}
										}
									}
									if e.Rhs != nil && vmMentionsField(info, e.Rhs, f) && st == stStale {
										report(e, "the field is read")
									}
									if fromLoop {
										st = stFresh
									} else {
										st = stClean
									}
									continue
								}
								if e.Rhs != nil && vmMentionsField(info, e.Rhs, f) && st == stStale {
									report(e, "the field is read")
								}
								if st == stStale && vmMentionsField(info, e.Lhs, f) {
									report(e, "the field is read")
								}
							case evCond:
								if st == stStale && vmMentionsField(info, e.X, f) {
									report(e, "the field is read")
								}
							case evRet:
								if e.Ret != nil && st == stStale && vmMentionsField(info, e.Ret, f) {
									report(e, "the field is read")
								}
							case evCall:
								if e.Deferred {
									continue
								}
								if sd, isSetter := setters[e.Fn]; isSetter && sd.field == f && sd.idx < len(e.Call.Args) {
									fromLoop := false
									for _, lp := range active {
										for o := range derivedAt[lp] {
											if vmMentionsObj(info, e.Call.Args[sd.idx], o) {
												fromLoop = true
											}
										}
									}
									if fromLoop {
										st = stFresh
									} else {
										st = stClean
									}
									continue
								}
								if st == stStale {
									hit := false
									for _, a := range e.Call.Args {
										if vmMentionsField(info, a, f) {
											hit = true
										}
									}
									if hit {
										report(e, "the field is read")
									} else if e.Fn != nil && reads[e.Fn] && byObj[e.Fn] != nil {
										report(e, "a callee that reads the field ("+e.Fn.Name()+") is called")
									}
								}
								if e.Fn != nil && leavesStale[e.Fn] {
									st, staleSince = stStale, e.Pos
								}
							}
						}
						if st == stStale || st == stFresh {
							stale = true
						}
					}
					if stale && !leavesStale[obj] {
						leavesStale[obj] = true
						changed = true
					}
					var ks []string
					for k := range bad {
						ks = append(ks, k)
					}
					sort.Strings(ks)
					var ds []string
					for _, k := range ks {
						ds = append(ds, bad[k])
					}
					if len(ds) > 3 {
						ds = append(ds[:3], fmt.Sprintf("(+%d more sites)", len(ds)-3))
					}
					findings = append(findings, finding{fn.name + "|" + vmFieldName(f) + "|read only while it holds the current iteration's key/value or a re-assigned value", c.Pos(fn.fd.Pos()), strings.Join(ds, " | ")})
				}
				if !changed {
					break
				}
			}
			for _, fd := range findings {
				ob := Obligation{Key: fd.key, Pos: fd.pos, Nontrivial: true}
				switch {
				case strings.HasPrefix(fd.detail, "undecided"):
					ob.Status, ob.Detail = Undecided, fd.detail
				case fd.detail != "":
					ob.Status, ob.Detail = Violated, fd.detail
				default:
					ob.Status, ob.Detail = Discharged, "no read of the field while it is loop-carried"
				}
				obs = append(obs, ob)
			}
			var ls []string
			for g := range leavesStale {
				ls = append(ls, g.Name())
			}
			sort.Strings(ls)
			obs = append(obs, Obligation{Key: relPkg(p.PkgPath) + "|" + vmFieldName(f) + "|inventory", Status: Info, Detail: fmt.Sprintf("loop-carried field; functions checked: %v; functions that return with it loop-carried: %v", checked, ls)})
		}
	}
	if nFields == 0 {
		obs = append(obs, Obligation{Key: "loop-carried fields", Status: Undecided, Detail: "no struct field is assigned from the key/value of a map-range loop: re-anchor the rule"})
	}
	obs = append(obs, r4emEntryTable(c)...)
	return obs
}

// r4emEntryTable: stores into a source-name table (map[string]string field of
// the compiler's mapping record) whose values come from the per-module
// function table and that run inside a loop over the module map are guarded
// by an equality test on the loop key.
func r4emEntryTable(c *Ctx) []Obligation {
	roles := vmCompRoles(c)
	a := r3emLinkAnchors(c)
	var obs []Obligation
	n := 0
	for _, fn := range roles.fns {
		info := fn.info
		par := r2Parents(fn.fd.Body)
		ast.Inspect(fn.fd.Body, func(nd ast.Node) bool {
			as, ok := nd.(*ast.AssignStmt)
			if !ok || len(as.Lhs) != 1 || len(as.Rhs) != 1 {
				return true
			}
			ix, ok := ast.Unparen(as.Lhs[0]).(*ast.IndexExpr)
			if !ok {
				return true
			}
			tf := vmFieldOf(info, ix.X)
			if tf == nil {
				return true
			}
			mt, ok := tf.Type().Underlying().(*types.Map)
			if !ok || !types.Identical(mt.Key(), types.Typ[types.String]) || !types.Identical(mt.Elem(), types.Typ[types.String]) {
				return true
			}
			// the stored value comes from the function table: enclosing range over Compiler.modules[K]
			var src *ast.RangeStmt
			var modLoop *ast.RangeStmt
			for cur := par[as]; cur != nil; cur = par[cur] {
				rs, ok := cur.(*ast.RangeStmt)
				if !ok {
					continue
				}
				if ixx, ok := ast.Unparen(rs.X).(*ast.IndexExpr); ok && vmFieldOf(info, ixx.X) == a.table && src == nil {
					src = rs
					continue
				}
				if _, isMap := info.TypeOf(rs.X).Underlying().(*types.Map); isMap && src != nil && modLoop == nil && vmFieldOf(info, rs.X) != a.table {
					modLoop = rs
				}
			}
			if src == nil {
				return true
			}
			n++
			ob := Obligation{Key: fmt.Sprintf("%s|%s|filled from the function table of one designated module", fn.name, vmFieldName(tf)), Pos: c.Pos(as.Pos()), Nontrivial: true}
			key := ast.Unparen(src.X).(*ast.IndexExpr).Index
			switch {
			case modLoop == nil:
				ob.Status, ob.Detail = Discharged, fmt.Sprintf("filled outside any loop over a module map from the table of `%s` (staleness of that expression is the first obligation's)", exprStr(key))
			default:
				// an equality guard on the loop key between the module loop and the store
				guard := ""
				keys := map[types.Object]bool{}
				if lk := vmObjOf(info, modLoop.Key); lk != nil && modLoop.Key != nil {
					keys[lk] = true
				}
				// copies of the key (`moduleName := name`)
				for round := 0; round < 2; round++ {
					ast.Inspect(modLoop.Body, func(m ast.Node) bool {
						if as2, ok := m.(*ast.AssignStmt); ok && len(as2.Lhs) == len(as2.Rhs) {
							for i, rh := range as2.Rhs {
								if o := vmObjOf(info, rh); o != nil && keys[o] {
									if lo := vmObjOf(info, as2.Lhs[i]); lo != nil {
										keys[lo] = true
									}
								}
							}
						}
						return true
					})
				}
				for cur := par[ast.Node(src)]; cur != nil && cur != ast.Node(modLoop); cur = par[cur] {
					if is, ok := cur.(*ast.IfStmt); ok {
						if be, ok := ast.Unparen(is.Cond).(*ast.BinaryExpr); ok && be.Op == token.EQL {
							ox, oy := vmObjOf(info, be.X), vmObjOf(info, be.Y)
							if (ox != nil && keys[ox]) || (oy != nil && keys[oy]) {
								guard = exprStr(is.Cond)
							}
						}
					}
				}
				if guard != "" {
					ob.Status, ob.Detail = Discharged, fmt.Sprintf("inside the loop over `%s`, under `%s`", exprStr(modLoop.X), guard)
				} else {
					ob.Status, ob.Detail = Violated, fmt.Sprintf("the store runs in every iteration of the loop over `%s` without an equality test on the loop key: the source names of ALL modules are merged into one table, same-named functions of different modules overwrite each other in map order, and the host's call-by-name reaches an arbitrary module's function", exprStr(modLoop.X))
				}
			}
			obs = append(obs, ob)
			return true
		})
	}
	if n == 0 {
		obs = append(obs, Obligation{Key: "compiler|source-name table of functions", Status: Undecided, Detail: "no map[string]string field is filled from Compiler." + a.table.Name() + "[…]: re-anchor the rule"})
	}
	return obs
}
