package main

import (
	"fmt"
	"go/ast"
	"go/types"
	"regexp"
	"sort"
	"strings"
)

// R-analyzer-preregister: a name looked up with a panicking accessor was registered by a pre-pass over
// the same nodes under no narrower guard.

func init() {
	register(&Rule{ID: "R-analyzer-preregister", Floor: 2, Run: ruleR3Prereg,
		Doc: "registration/use agreement inside the analyzer (the analyzer-side sibling of the compiler's R-fn-preregister). A *panicking accessor* is found by shape: a method with a string key parameter that searches a registry field of its receiver (range over self.F with a return inside) and ends in panic when nothing matches (Module.setCurrentFunc over Module.Functions). Its *registrar* is the method that appends to / stores into the same field (addFunc). A *user* is a function that calls the accessor with a key taken from a field of its node parameter (functionDefinition: node.Ident), a *registrant* one that calls the registrar with data built from the same field of a parameter of the same node type (functionSignature). In every *driver* — a function from which both are reached, with the tree walkers in between re-rooted at their call sites (analyzeModule → implBlock → functionDefinition) — each application of the user to a node term (elem(module.Functions), elem(elem(module.ImplBlocks).Methods)) has an application of the registrant to the same term that comes earlier in the driver and whose guard is implied by the user's guard: the pre-pass runs over the same collection and skips nothing the main pass visits. Otherwise the accessor panics on a name the pre-pass skipped: the analyzer crashes on an ill-formed program instead of reporting it (C05, C03 reject side)."})
}

type r3prAccessor struct {
	fn    *types.Func
	field *types.Var
	fd    *ast.FuncDecl
}

func ruleR3Prereg(c *Ctx) []Obligation {
	e := r2sibEngineOf(c)
	p := c.Pkg("homescript/analyzer")
	info := p.TypesInfo
	var out []Obligation

	recvField := func(fd *ast.FuncDecl, e ast.Expr) *types.Var {
		sel, ok := ast.Unparen(e).(*ast.SelectorExpr)
		if !ok || fd.Recv == nil || len(fd.Recv.List) == 0 || len(fd.Recv.List[0].Names) == 0 {
			return nil
		}
		id, ok := ast.Unparen(sel.X).(*ast.Ident)
		if !ok || info.Uses[id] != info.Defs[fd.Recv.List[0].Names[0]] {
			return nil
		}
		v, _ := info.Uses[sel.Sel].(*types.Var)
		return v
	}

	// 1. panicking accessors
	var accessors []r3prAccessor
	for _, fd := range AllFuncDecls(p) {
		fn, _ := info.Defs[fd.Name].(*types.Func)
		if fn == nil || fd.Recv == nil || len(fd.Body.List) == 0 {
			continue
		}
		sig := fn.Type().(*types.Signature)
		hasKey := false
		for i := 0; i < sig.Params().Len(); i++ {
			if b, ok := sig.Params().At(i).Type().Underlying().(*types.Basic); ok && b.Info()&types.IsString != 0 {
				hasKey = true
			}
		}
		if !hasKey || !IsPanicCall(info, fd.Body.List[len(fd.Body.List)-1]) {
			continue
		}
		for _, st := range fd.Body.List {
			rng, ok := st.(*ast.RangeStmt)
			if !ok {
				continue
			}
			f := recvField(fd, rng.X)
			if f == nil {
				continue
			}
			found := false
			ast.Inspect(rng.Body, func(n ast.Node) bool {
				if _, ok := n.(*ast.ReturnStmt); ok {
					found = true
				}
				return true
			})
			if found {
				accessors = append(accessors, r3prAccessor{fn, f, fd})
			}
		}
	}
	if len(accessors) == 0 {
		return []Obligation{{Key: "anchor|panicking accessor", Status: Undecided, Detail: "no method of package analyzer searches a registry field and panics on a miss: the registration discipline this rule checks has moved"}}
	}

	// static calls inside the package
	decl := map[*types.Func]*ast.FuncDecl{}
	calls := map[*types.Func]map[*types.Func]bool{}
	for _, fd := range AllFuncDecls(p) {
		fn, _ := info.Defs[fd.Name].(*types.Func)
		if fn == nil {
			continue
		}
		decl[fn] = fd
		calls[fn] = map[*types.Func]bool{}
		ast.Inspect(fd.Body, func(n ast.Node) bool {
			if call, ok := n.(*ast.CallExpr); ok {
				if cal := CalleeOf(info, call); cal != nil && cal.Pkg() == p.Types {
					calls[fn][cal] = true
				}
			}
			return true
		})
	}
	reachMemo := map[[2]*types.Func]bool{}
	var reach func(from, to *types.Func) bool
	reach = func(from, to *types.Func) bool {
		k := [2]*types.Func{from, to}
		if v, ok := reachMemo[k]; ok {
			return v
		}
		seen := map[*types.Func]bool{}
		var dfs func(x *types.Func) bool
		dfs = func(x *types.Func) bool {
			for y := range calls[x] {
				if y == to {
					return true
				}
				if !seen[y] {
					seen[y] = true
					if dfs(y) {
						return true
					}
				}
			}
			return false
		}
		r := dfs(from)
		reachMemo[k] = r
		return r
	}

	rootOf := func(term string) string {
		// `$0.Ident.Ident()` → `$0.Ident`: the parameter and its first field
		if !strings.HasPrefix(term, "$") {
			return ""
		}
		i := strings.Index(term, ".")
		if i < 0 {
			return term
		}
		j := i + 1
		for j < len(term) && (term[j] == '_' || term[j] >= 'a' && term[j] <= 'z' || term[j] >= 'A' && term[j] <= 'Z' || term[j] >= '0' && term[j] <= '9') {
			j++
		}
		return term[:j]
	}

	for _, acc := range accessors {
		accName := r2sibQualName(acc.fn)
		out = append(out, Obligation{Key: accName + "|accessor", Pos: c.Pos(acc.fd.Pos()), Nontrivial: true,
			Detail: fmt.Sprintf("%s searches %s and panics on a miss", accName, acc.field.Name())})
		// 2. registrars of the same field
		regs := map[*types.Func]bool{}
		// a function that stores into the registry itself (the registrar inlined: x.Functions = append(x.Functions,
		// &declared)) with data built from a field of its node parameter is registrar and registrant in one
		directRoots := map[*types.Func][]string{}
		rootRe := regexp.MustCompile(`\$\d+\.\w+`)
		for fn, fd := range decl {
			f := r2sibFuncOf(c, p, fd)
			ast.Inspect(fd.Body, func(n ast.Node) bool {
				as, ok := n.(*ast.AssignStmt)
				if !ok {
					return true
				}
				for i, l := range as.Lhs {
					if ix, ok := ast.Unparen(l).(*ast.IndexExpr); ok {
						l = ix.X
					}
					if v := recvField(fd, l); v != nil && v == acc.field {
						regs[fn] = true
						continue
					}
					// the registry field reached through another value (self.currentModule.Functions)
					sel, ok := ast.Unparen(l).(*ast.SelectorExpr)
					if !ok || info.Uses[sel.Sel] != types.Object(acc.field) || fn == acc.fn {
						continue
					}
					regs[fn] = true
					if len(as.Lhs) == len(as.Rhs) {
						rhs := ast.Unparen(as.Rhs[i])
						stored := []ast.Expr{rhs}
						if call, ok := rhs.(*ast.CallExpr); ok {
							if id, ok := ast.Unparen(call.Fun).(*ast.Ident); ok && id.Name == "append" && len(call.Args) >= 2 {
								stored = call.Args[1:]
							}
						}
						for _, sv := range stored {
							directRoots[fn] = append(directRoots[fn], rootRe.FindAllString(f.norm(sv), -1)...)
						}
					}
				}
				return true
			})
		}
		// 3. users and registrants
		type role struct {
			fn   *types.Func
			root string
		}
		var users, registrants []role
		for fn, roots := range directRoots {
			for _, r := range roots {
				registrants = append(registrants, role{fn, r})
			}
		}
		for fn, fd := range decl {
			if fn == acc.fn || regs[fn] && len(directRoots[fn]) == 0 {
				continue
			}
			f := r2sibFuncOf(c, p, fd)
			ast.Inspect(fd.Body, func(n ast.Node) bool {
				call, ok := n.(*ast.CallExpr)
				if !ok {
					return true
				}
				cal := CalleeOf(info, call)
				switch {
				case cal == acc.fn:
					for _, a := range call.Args {
						if r := rootOf(f.norm(a)); r != "" {
							users = append(users, role{fn, r})
						}
					}
				case cal != nil && regs[cal]:
					re := regexp.MustCompile(`\$\d+\.\w+`)
					for _, a := range call.Args {
						for _, r := range re.FindAllString(f.norm(a), -1) {
							registrants = append(registrants, role{fn, r})
						}
					}
				}
				return true
			})
		}
		sort.Slice(users, func(i, j int) bool { return users[i].fn.Name() < users[j].fn.Name() })
		sort.Slice(registrants, func(i, j int) bool { return registrants[i].fn.Name() < registrants[j].fn.Name() })
		if len(regs) == 0 || len(users) == 0 {
			out = append(out, Obligation{Key: accName + "|roles", Pos: c.Pos(acc.fd.Pos()), Status: Undecided,
				Detail: fmt.Sprintf("registrars found: %d, users found: %d — the registration discipline of %s is not understood", len(regs), len(users), accName)})
			continue
		}
		for _, u := range users {
			usig := u.fn.Type().(*types.Signature)
			// the registrant that takes the same node type and builds its data from the same field
			var rg *types.Func
			for _, r := range registrants {
				rsig := r.fn.Type().(*types.Signature)
				if r.root == u.root && rsig.Params().Len() > 0 && usig.Params().Len() > 0 && types.Identical(rsig.Params().At(0).Type(), usig.Params().At(0).Type()) {
					rg = r.fn
				}
			}
			uName := r2sibQualName(u.fn)
			if rg == nil {
				out = append(out, Obligation{Key: accName + "|" + uName + "|registrant", Pos: c.Pos(decl[u.fn].Pos()), Status: Undecided,
					Detail: fmt.Sprintf("%s looks %s up with %s, but no function registers data built from the same field of the same node type", uName, u.root, accName)})
				continue
			}
			rgName := r2sibQualName(rg)
			// 4. drivers: functions that reach both; walkers in between are re-rooted, other drivers are not
			isDriver := func(fn *types.Func) bool {
				return fn != u.fn && fn != rg && reach(fn, u.fn) && reach(fn, rg)
			}
			var inl []string
			for fn := range decl {
				if fn != u.fn && fn != rg && !isDriver(fn) && (reach(fn, u.fn) || reach(fn, rg)) {
					inl = append(inl, regexp.QuoteMeta(r2sibQualName(fn)))
				}
			}
			sort.Strings(inl)
			var inlRe *regexp.Regexp
			if len(inl) > 0 {
				inlRe = regexp.MustCompile(`^(` + strings.Join(inl, "|") + `)$`)
			}
			callRe := regexp.MustCompile(`^(` + regexp.QuoteMeta(uName) + `|` + regexp.QuoteMeta(rgName) + `)$`)
			var drivers []*types.Func
			for fn := range decl {
				if isDriver(fn) {
					drivers = append(drivers, fn)
				}
			}
			sort.Slice(drivers, func(i, j int) bool { return drivers[i].Name() < drivers[j].Name() })
			nApplied := 0
			for _, d := range drivers {
				fd := decl[d]
				f := r2sibFuncOf(c, p, fd)
				relevant := func(n ast.Node) bool {
					call, ok := n.(*ast.CallExpr)
					if !ok {
						return false
					}
					cal := CalleeOf(info, call)
					if cal == nil {
						return false
					}
					qn := r2sibQualName(cal)
					return callRe.MatchString(qn) || inlRe != nil && inlRe.MatchString(qn)
				}
				// other drivers are analysed on their own, never re-rooted into this one
				for _, o := range drivers {
					e.busy[o] = true
				}
				sum := e.extract(f, fd.Body.List, r2sibOpts{Calls: callRe, CallArgs: true, InlineDescent: inlRe, Only: map[string]bool{"call": true}, Relevant: relevant}, 0)
				for _, o := range drivers {
					delete(e.busy, o)
				}
				dName := r2sibQualName(d)
				var uses, regsEv []*r2sibEvent
				for _, ev := range sum.events {
					if ev.Kind != "call" {
						continue
					}
					switch ev.Attrs["callee"] {
					case uName:
						uses = append(uses, ev)
					case rgName:
						regsEv = append(regsEv, ev)
					}
				}
				if len(uses) == 0 {
					continue
				}
				if !sum.ok {
					out = append(out, Obligation{Key: accName + "|" + dName + "|paths", Pos: c.Pos(fd.Pos()), Status: Undecided, Detail: "paths of the driver not enumerated: " + sum.why})
					continue
				}
				// position of the call in the driver itself (root of the via chain)
				rootPos := func(ev *r2sibEvent) int {
					if ev.Via == "" {
						return int(ev.Pos)
					}
					first := ev.Via
					if i := strings.Index(first, ">"); i >= 0 {
						first = first[:i]
					}
					n := 0
					fmt.Sscanf(first[strings.LastIndex(first, "@")+1:], "%d", &n)
					return n
				}
				byTerm := map[string][]*r2sibEvent{}
				var terms []string
				for _, ev := range uses {
					t := ev.Attrs["term"]
					if byTerm[t] == nil {
						terms = append(terms, t)
					}
					byTerm[t] = append(byTerm[t], ev)
				}
				sort.Strings(terms)
				for _, t := range terms {
					nApplied++
					ob := Obligation{Key: fmt.Sprintf("%s|%s|%s(%s) is registered first", accName, dName, u.fn.Name(), f.pretty(t)), Pos: c.Pos(byTerm[t][0].Pos), Nontrivial: true}
					var problems []string
					for _, use := range byTerm[t] {
						var cands []*r2sibEvent
						for _, r := range regsEv {
							if r.Attrs["term"] == t {
								cands = append(cands, r)
							}
						}
						if len(cands) == 0 {
							problems = append(problems, fmt.Sprintf("%s is applied to %s (%s) but %s is never applied to that node term in %s: %s panics on the unregistered name", u.fn.Name(), f.pretty(t), c.Pos(use.Pos), rg.Name(), d.Name(), acc.fn.Name()))
							continue
						}
						ok := false
						why := ""
						for _, r := range cands {
							if rootPos(r) >= rootPos(use) {
								why = fmt.Sprintf("the registration at %s does not precede the use", c.Pos(r.Pos))
								continue
							}
							imp, _, decided, wit, _ := r2sibRelateW(use.Guard, r.Guard, nil)
							if imp {
								ok = true
								break
							}
							if !decided {
								why = "guards not comparable (too many atoms)"
								continue
							}
							why = fmt.Sprintf("the pre-pass registers %s only when [%s] but the main pass uses it when [%s]; e.g. used and not registered when %s", f.pretty(t), f.pretty(r2sibGuardString(r.Guard, nil)), f.pretty(r2sibGuardString(use.Guard, nil)), f.pretty(wit))
						}
						if !ok {
							problems = append(problems, fmt.Sprintf("%s(%s) at %s: %s — %s panics on the name the pre-pass skipped", u.fn.Name(), f.pretty(t), c.Pos(use.Pos), why, acc.fn.Name()))
						}
					}
					if len(problems) > 0 {
						ob.Status = Violated
						ob.Detail = strings.Join(problems, "; ")
					} else {
						ob.Detail = fmt.Sprintf("%s is applied to %s earlier in %s under a guard implied by every use", rg.Name(), f.pretty(t), d.Name())
					}
					out = append(out, ob)
				}
			}
			if nApplied == 0 {
				out = append(out, Obligation{Key: accName + "|" + uName + "|driver", Pos: c.Pos(decl[u.fn].Pos()), Status: Undecided,
					Detail: fmt.Sprintf("no function applies %s and %s to nodes of one tree: the pre-pass was not found", uName, rgName)})
			}
		}
	}
	out = append(out, r6sibPassOrderObligations(c)...)
	return out
}
