package main

// R-operand-snapshot (C04, C01): the tree-walking interpreter evaluates an
// operand to a *cell* (for a variable: the variable's own cell). If it keeps
// that pointer while it evaluates another operand — which may run arbitrary
// script code, e.g. a call that assigns the variable — and reads through it
// afterwards, it reads the operand's value after the sibling ran; the VM
// pushed the value when the operand was evaluated.

import (
	"fmt"
	"go/ast"
	"go/token"
	"go/types"
	"sort"
	"strings"
)

func init() {
	register(&Rule{ID: "R-operand-snapshot", Floor: 6, Run: ruleOperandSnapshot,
		Doc: "C04/C01: in the interpreter, the result of evaluating a sub-expression is a pointer to a cell that can be a variable's own cell (identifier, member, index; block/match/try/grouped pass it through). For every interpreter function that evaluates two or more sub-expressions: a pointer obtained from an earlier evaluation must not be read through (`*p`, `(*p).m`) after a later evaluation has run, unless its value was copied out before (`v := *p`) — the later operand may change the variable (`COUNTER + bump()`), and the VM has already pushed the operand's value. Writes through the pointer (assignment targets) are the point of keeping it and are not reads."})
}

func ruleOperandSnapshot(c *Ctx) []Obligation {
	var obs []Obligation
	in := mbLoadLib(c, mbRelInterp, "interp")
	p := c.Pkg(mbRelInEngine)
	info := p.TypesInfo
	// evaluators: methods of the engine taking an analysed expression / block and returning (*Value, *Interrupt)
	isEval := func(fn *types.Func) bool {
		if fn == nil || fn.Pkg() != p.Types {
			return false
		}
		sig := fn.Type().(*types.Signature)
		if sig.Recv() == nil || sig.Results().Len() < 2 || !in.isValuePtr(sig.Results().At(0).Type()) {
			return false
		}
		last := sig.Results().At(sig.Results().Len() - 1).Type()
		pt, ok := last.(*types.Pointer)
		return ok && types.Identical(pt.Elem(), in.intrT) && sig.Params().Len() >= 1
	}
	for _, fd := range AllFuncDecls(p) {
		type ev struct {
			obj types.Object
			pos token.Pos // end of the evaluating call
			txt string
		}
		var evals []ev
		ast.Inspect(fd.Body, func(n ast.Node) bool {
			as, ok := n.(*ast.AssignStmt)
			if !ok || len(as.Rhs) != 1 || len(as.Lhs) < 2 {
				return true
			}
			call, ok := ast.Unparen(as.Rhs[0]).(*ast.CallExpr)
			if !ok || !isEval(CalleeOf(info, call)) {
				return true
			}
			if o := r2tObj(info, as.Lhs[0]); o != nil {
				evals = append(evals, ev{o, call.End(), exprStr(call)})
			}
			return true
		})
		if len(evals) < 2 {
			continue
		}
		sort.Slice(evals, func(i, j int) bool { return evals[i].pos < evals[j].pos })
		seen := map[string]int{}
		for i, e := range evals {
			// later evaluations in the same innermost clause / block region: those whose position follows
			var later []ev
			for _, f := range evals[i+1:] {
				if f.obj != e.obj && r6oSamePath(fd, e.pos, f.pos) {
					later = append(later, f)
				}
			}
			if len(later) == 0 {
				continue
			}
			// other names of the same pointer: `q = p`
			names := map[types.Object]bool{e.obj: true}
			for changed := true; changed; {
				changed = false
				ast.Inspect(fd.Body, func(n ast.Node) bool {
					as, ok := n.(*ast.AssignStmt)
					if !ok || len(as.Lhs) != len(as.Rhs) {
						return true
					}
					for k, rh := range as.Rhs {
						if id, ok := ast.Unparen(rh).(*ast.Ident); ok && names[r2tObj(info, id)] {
							if o := r2tObj(info, as.Lhs[k]); o != nil && !names[o] {
								if _, isIdent := ast.Unparen(as.Lhs[k]).(*ast.Ident); isIdent {
									names[o] = true
									changed = true
								}
							}
						}
					}
					return true
				})
			}
			// reads through e.obj after the first later evaluation
			first := later[0]
			var reads []token.Pos
			copied := token.NoPos
			var stack []ast.Node
			ast.Inspect(fd.Body, func(n ast.Node) bool {
				if n == nil {
					stack = stack[:len(stack)-1]
					return true
				}
				stack = append(stack, n)
				st, ok := n.(*ast.StarExpr)
				if !ok || !names[r2tObj(info, st.X)] {
					return true
				}
				// a write `*p = …` is not a read
				if len(stack) >= 2 {
					if as, ok := stack[len(stack)-2].(*ast.AssignStmt); ok {
						for _, lh := range as.Lhs {
							if lh == ast.Expr(st) {
								return true
							}
						}
						// `v := *p` before the later evaluation: a snapshot
						if st.Pos() < first.pos-token.Pos(len(first.txt)) && len(as.Rhs) == 1 && ast.Unparen(as.Rhs[0]) == ast.Expr(st) {
							copied = st.Pos()
						}
					}
				}
				if st.Pos() > first.pos && r6oSamePath(fd, first.pos, st.Pos()) {
					reads = append(reads, st.Pos())
				}
				return true
			})
			where := "interpreter." + FuncName(fd)
			path := r6oClausePath(info, fd, e.pos)
			if path != "" {
				where += "/" + path
			}
			base := fmt.Sprintf("operand|%s|%s", where, e.obj.Name())
			seen[base]++
			key := base
			if seen[base] > 1 {
				key = fmt.Sprintf("%s #%d", base, seen[base])
			}
			o := Obligation{Key: key, Pos: c.Pos(e.pos), Nontrivial: true}
			if len(reads) == 0 {
				o.Status, o.Detail = Discharged, fmt.Sprintf("`%s` is not read through after `%s` ran", e.obj.Name(), first.txt)
			} else {
				var ps []string
				for _, r := range reads {
					ps = append(ps, c.Pos(r))
				}
				o.Status = Violated
				o.Detail = fmt.Sprintf("the cell returned by `%s` is kept in `%s` while `%s` is evaluated and is read through afterwards (%s): if the first operand is a variable (or a block/match/try ending in one) and the second operand assigns it, the operator sees the new value — `COUNTER + bump()` gives 111 here and 101 on the VM. Copy the value out (`v := *%s`) before evaluating the other operand.", e.txt, e.obj.Name(), first.txt, strings.Join(ps, ", "), e.obj.Name())
				_ = copied
			}
			obs = append(obs, o)
		}
	}
	return obs
}

// r6oSamePath: b is reachable after a on one path: the innermost case clause enclosing a also
// encloses b (two clauses of one switch are alternative paths).
func r6oSamePath(fd *ast.FuncDecl, a, b token.Pos) bool {
	var encl *ast.CaseClause
	ast.Inspect(fd.Body, func(n ast.Node) bool {
		if cc, ok := n.(*ast.CaseClause); ok && cc.Pos() <= a && a <= cc.End() {
			encl = cc
		}
		return true
	})
	if encl == nil {
		return true
	}
	return encl.Pos() <= b && b <= encl.End()
}

func r6oClausePath(info *types.Info, fd *ast.FuncDecl, a token.Pos) string {
	var parts []string
	ast.Inspect(fd.Body, func(n ast.Node) bool {
		if cc, ok := n.(*ast.CaseClause); ok && cc.Pos() <= a && a <= cc.End() && len(cc.List) > 0 {
			if k := ConstOf(info, cc.List[0]); k != nil {
				parts = append(parts, k.Name())
			}
		}
		return true
	})
	return strings.Join(parts, "/")
}
