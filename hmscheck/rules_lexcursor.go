package main

import (
	"fmt"
	"go/ast"
	"go/constant"
	"go/token"
	"go/types"
	"strings"
)

// R-lex-cursor: every lexer rule of this checker models the scanner as a cursor over
// the runes of the source: `current` is the rune at the cursor or nil past the end,
// `next` the rune after it or nil, and advance() moves the cursor by exactly one rune.
// That model is discovered by role (discoverLexRoles) — this rule *checks* it against
// the code, and it is itself a clause of C06 (the token stream is a function of the
// input text: every rune of the input and nothing else is presented to the scanner).
func init() {
	register(&Rule{ID: "R-lex-cursor", Floor: 5, Run: ruleLexCursor,
		Doc: "the lexer's cursor model: (1) the rune buffer the constructor stores holds exactly the runes of the source string — its length is a rune count ([]rune(s), utf8.RuneCountInString, an append/counter per range iteration), never a byte count (len(s) over-counts for non-ASCII input and leaves NUL runes behind the text); (2) constructor and advance() set current = &buf[i] exactly when i < len(buf) and nil otherwise, next = &buf[i+1] exactly when i+1 < len(buf) and nil otherwise, on every path (interval analysis of len(buf)-i along the enumerated paths); (3) advance() increments the index exactly once on every path and the end-of-input tests use the length of the same buffer"})
}

const lcInf = 1 << 40

type lcLin struct {
	idx, n, c int // idx*index + n*len(buffer) + c
	ok        bool
}

type lcState struct {
	lo, hi   int // bounds of d = len(buffer) - index (index = value after the increments so far)
	inc      int // increments of the index so far
	cur, nxt string
	opaque   []string // integer comparisons on the path that could not be related to len(buffer)-index
	env      map[types.Object]lcLin
	bufs     map[types.Object]bool // locals holding the buffer
	bad      []string
}

func lcClone(s *lcState) *lcState {
	n := *s
	n.env = map[types.Object]lcLin{}
	for k, v := range s.env {
		n.env[k] = v
	}
	n.bufs = map[types.Object]bool{}
	for k, v := range s.bufs {
		n.bufs[k] = v
	}
	n.bad = append([]string(nil), s.bad...)
	n.opaque = append([]string(nil), s.opaque...)
	return &n
}

func ruleLexCursor(c *Ctx) []Obligation {
	r := discoverLexRoles(c)
	info := r.info
	p := r.pkg
	st := r.lexerT.Underlying().(*types.Struct)
	// the buffer field ([]rune) and the index field (integer incremented by advance)
	var bufF, idxF *types.Var
	for i := 0; i < st.NumFields(); i++ {
		f := st.Field(i)
		if sl, ok := f.Type().Underlying().(*types.Slice); ok {
			if b, ok := sl.Elem().Underlying().(*types.Basic); ok && b.Kind() == types.Int32 {
				bufF = f
			}
		}
	}
	advFD := FuncDecl(p, "Lexer", r.advance.Name())
	if bufF == nil || advFD == nil {
		return []Obligation{{Key: "lexer cursor model", Status: Undecided, Detail: "anchor unresolved: the []rune buffer field / the advance method"}}
	}
	recvOf := func(fd *ast.FuncDecl) types.Object {
		if fd.Recv != nil && len(fd.Recv.List[0].Names) > 0 {
			return info.Defs[fd.Recv.List[0].Names[0]]
		}
		return nil
	}
	selfField := func(recv types.Object, e ast.Expr) *types.Var {
		sel, ok := ast.Unparen(e).(*ast.SelectorExpr)
		if !ok {
			return nil
		}
		id, ok := ast.Unparen(sel.X).(*ast.Ident)
		if !ok || recv == nil || info.Uses[id] != recv {
			return nil
		}
		fv, _ := info.Uses[sel.Sel].(*types.Var)
		return fv
	}
	advRecv := recvOf(advFD)
	ast.Inspect(advFD.Body, func(n ast.Node) bool {
		switch x := n.(type) {
		case *ast.IncDecStmt:
			if fv := selfField(advRecv, x.X); fv != nil && x.Tok == token.INC {
				idxF = fv
			}
		case *ast.AssignStmt:
			if len(x.Lhs) == 1 && (x.Tok == token.ADD_ASSIGN) {
				if fv := selfField(advRecv, x.Lhs[0]); fv != nil {
					if b, ok := fv.Type().Underlying().(*types.Basic); ok && b.Info()&types.IsInteger != 0 {
						idxF = fv
					}
				}
			}
		}
		return true
	})
	if idxF == nil {
		return []Obligation{{Key: "lexer cursor model", Status: Undecided, Detail: "anchor unresolved: the index field advance() increments"}}
	}
	var obs []Obligation

	// ---- the walker shared by constructor and advance
	walk := func(fd *ast.FuncDecl, recv types.Object, isCtor bool, bufLocal func(*lcState, ast.Expr) bool, onExit func(*lcState, outcome)) (overflow bool, unsupported int) {
		var lin func(s *lcState, e ast.Expr) lcLin
		isBuf := func(s *lcState, e ast.Expr) bool {
			e = ast.Unparen(e)
			if fv := selfField(recv, e); fv == bufF {
				return true
			}
			if id, ok := e.(*ast.Ident); ok && s.bufs[info.Uses[id]] {
				return true
			}
			return bufLocal != nil && bufLocal(s, e)
		}
		lin = func(s *lcState, e ast.Expr) lcLin {
			e = ast.Unparen(e)
			if tv, ok := info.Types[e]; ok && tv.Value != nil && tv.Value.Kind() == constant.Int {
				n, _ := constant.Int64Val(tv.Value)
				return lcLin{c: int(n), ok: true}
			}
			switch x := e.(type) {
			case *ast.Ident:
				if v, ok := s.env[info.Uses[x]]; ok {
					return v
				}
			case *ast.SelectorExpr:
				if fv := selfField(recv, x); fv == idxF {
					return lcLin{idx: 1, ok: true}
				}
			case *ast.CallExpr:
				if info.Types[x.Fun].IsType() && len(x.Args) == 1 {
					return lin(s, x.Args[0])
				}
				if id, ok := x.Fun.(*ast.Ident); ok && id.Name == "len" && len(x.Args) == 1 && isBuf(s, x.Args[0]) {
					return lcLin{n: 1, ok: true}
				}
			case *ast.BinaryExpr:
				a, b := lin(s, x.X), lin(s, x.Y)
				if a.ok && b.ok {
					switch x.Op {
					case token.ADD:
						return lcLin{a.idx + b.idx, a.n + b.n, a.c + b.c, true}
					case token.SUB:
						return lcLin{a.idx - b.idx, a.n - b.n, a.c - b.c, true}
					}
				}
			}
			return lcLin{}
		}
		// value assigned to a cursor field: "nil" | "&buf[i+k]" | "?"
		cursorVal := func(s *lcState, e ast.Expr) string {
			e = ast.Unparen(e)
			if id, ok := e.(*ast.Ident); ok {
				if id.Name == "nil" {
					return "nil"
				}
				if v, ok := s.env[info.Uses[id]]; ok && v.ok && v.n == -7 {
					// pointer local encoded by cursorLocal below
					return fmt.Sprintf("&buf[i%+d]", v.c)
				}
				if obj := info.Uses[id]; obj != nil {
					if pv, ok := s.env[obj]; ok && !pv.ok && pv.c == -1 {
						return "nil"
					}
				}
			}
			if un, ok := e.(*ast.UnaryExpr); ok && un.Op == token.AND {
				if ix, ok := ast.Unparen(un.X).(*ast.IndexExpr); ok && isBuf(s, ix.X) {
					l := lin(s, ix.Index)
					if isCtor {
						if l.ok && l.idx == 0 && l.n == 0 {
							return fmt.Sprintf("&buf[i%+d]", l.c)
						}
					} else if l.ok && l.idx == 1 && l.n == 0 {
						return fmt.Sprintf("&buf[i%+d]", l.c)
					}
				}
			}
			return "?"
		}
		var w *Walker[*lcState]
		assign := func(s *lcState, lhs, rhs ast.Expr) {
			// cursor fields (advance) or pointer locals (constructor)
			if fv := selfField(recv, lhs); fv != nil {
				switch fv {
				case r.curF:
					s.cur = cursorVal(s, rhs)
					return
				case r.nextF:
					s.nxt = cursorVal(s, rhs)
					return
				case idxF:
					s.bad = append(s.bad, fmt.Sprintf("%s: the index is assigned (%s) instead of incremented", c.Pos(lhs.Pos()), exprStr(rhs)))
					return
				case bufF:
					s.bad = append(s.bad, fmt.Sprintf("%s: the rune buffer is replaced", c.Pos(lhs.Pos())))
					return
				}
			}
			if id, ok := ast.Unparen(lhs).(*ast.Ident); ok {
				obj := info.Defs[id]
				if obj == nil {
					obj = info.Uses[id]
				}
				if obj == nil {
					return
				}
				if isBuf(s, rhs) {
					s.bufs[obj] = true
					return
				}
				if se, ok := ast.Unparen(rhs).(*ast.SliceExpr); ok && se.Low == nil && se.High != nil && se.Max == nil && isBuf(s, se.X) {
					// truncation: the buffer's length IS the bound from here on
					s.bufs[obj] = true
					if kid, ok := ast.Unparen(se.High).(*ast.Ident); ok {
						if kobj := info.Uses[kid]; kobj != nil {
							s.env[kobj] = lcLin{n: 1, ok: true}
						}
					}
					return
				}
				if pt, ok := obj.Type().(*types.Pointer); ok {
					if b, ok := pt.Elem().Underlying().(*types.Basic); ok && b.Kind() == types.Int32 {
						// pointer local of the constructor: remember what it points at
						switch v := cursorVal(s, rhs); {
						case v == "nil":
							s.env[obj] = lcLin{c: -1}
						case strings.HasPrefix(v, "&buf[i"):
							var k int
							fmt.Sscanf(v, "&buf[i%d]", &k)
							s.env[obj] = lcLin{n: -7, c: k, ok: true}
						default:
							delete(s.env, obj)
						}
						return
					}
				}
				if l := lin(s, rhs); l.ok {
					s.env[obj] = l
				} else {
					delete(s.env, obj)
				}
			}
		}
		w = &Walker[*lcState]{
			Clone:   lcClone,
			IsPanic: func(s ast.Stmt) bool { return IsPanicCall(info, s) },
			OnCond: func(s *lcState, cond ast.Expr, taken bool) (*lcState, bool) {
				b, ok := ast.Unparen(cond).(*ast.BinaryExpr)
				if !ok {
					return s, true
				}
				x, y := lin(s, b.X), lin(s, b.Y)
				if !x.ok || !y.ok {
					if bt, isB := info.TypeOf(b.X).Underlying().(*types.Basic); isB && bt.Info()&types.IsInteger != 0 {
						switch b.Op {
						case token.LSS, token.LEQ, token.GTR, token.GEQ, token.EQL, token.NEQ:
							s.opaque = append(s.opaque, exprStr(cond))
						}
					}
					return s, true
				}
				// diff = x - y  compared with 0; express through d = N - idx (idx = value incl. increments so far)
				di, dn, dc := x.idx-y.idx, x.n-y.n, x.c-y.c
				if isCtor {
					// index is 0 in the constructor: d = N
					if di != 0 {
						return s, true
					}
					di = -dn
				}
				if dn == 0 && di == 0 {
					return s, true // constant comparison, not about the cursor
				}
				if dn != -di || (dn != 1 && dn != -1) {
					return s, true
				}
				// diff = dn*d + dc
				op := b.Op
				if !taken {
					switch op {
					case token.LSS:
						op = token.GEQ
					case token.LEQ:
						op = token.GTR
					case token.GTR:
						op = token.LEQ
					case token.GEQ:
						op = token.LSS
					case token.EQL:
						op = token.NEQ
					case token.NEQ:
						op = token.EQL
					}
				}
				// dn*d + dc op 0
				lo, hi := s.lo, s.hi
				setLo := func(v int) {
					if v > lo {
						lo = v
					}
				}
				setHi := func(v int) {
					if v < hi {
						hi = v
					}
				}
				if dn == 1 { // d + dc op 0  → d op -dc
					switch op {
					case token.LSS:
						setHi(-dc - 1)
					case token.LEQ:
						setHi(-dc)
					case token.GTR:
						setLo(-dc + 1)
					case token.GEQ:
						setLo(-dc)
					case token.EQL:
						setLo(-dc)
						setHi(-dc)
					case token.NEQ:
						if lo == -dc {
							lo++
						}
						if hi == -dc {
							hi--
						}
					}
				} else { // -d + dc op 0 → d (rev op) dc
					switch op {
					case token.LSS: // -d+dc<0 → d>dc
						setLo(dc + 1)
					case token.LEQ:
						setLo(dc)
					case token.GTR:
						setHi(dc - 1)
					case token.GEQ:
						setHi(dc)
					case token.EQL:
						setLo(dc)
						setHi(dc)
					case token.NEQ:
						if lo == dc {
							lo++
						}
						if hi == dc {
							hi--
						}
					}
				}
				if lo > hi {
					return s, false
				}
				s.lo, s.hi = lo, hi
				return s, true
			},
			OnCase: func(s *lcState, sw *ast.SwitchStmt, vals, others []ast.Expr) (*lcState, bool) {
				// switch over the length / the index: decompose into comparisons
				if sw.Tag == nil {
					return s, true
				}
				if vals == nil {
					for _, o := range others {
						s2, ok := w.OnCond(s, &ast.BinaryExpr{X: sw.Tag, Op: token.EQL, Y: o}, false)
						if !ok {
							return s, false
						}
						s = s2
					}
					return s, true
				}
				if len(vals) == 1 {
					return w.OnCond(s, &ast.BinaryExpr{X: sw.Tag, Op: token.EQL, Y: vals[0]}, true)
				}
				return s, true
			},
			OnStmt: func(s *lcState, stmt ast.Stmt) (*lcState, bool) {
				switch x := stmt.(type) {
				case *ast.IncDecStmt:
					if fv := selfField(recv, x.X); fv == idxF {
						if x.Tok == token.INC {
							s.inc++
							if s.lo > -lcInf {
								s.lo--
							}
							if s.hi < lcInf {
								s.hi--
							}
							// values computed from the old index are stale
							for k, v := range s.env {
								if v.ok && v.idx != 0 {
									delete(s.env, k)
								}
							}
						} else {
							s.bad = append(s.bad, fmt.Sprintf("%s: the index is decremented", c.Pos(x.Pos())))
						}
					}
				case *ast.AssignStmt:
					if x.Tok == token.ADD_ASSIGN && len(x.Lhs) == 1 {
						if fv := selfField(recv, x.Lhs[0]); fv == idxF {
							if l := lin(s, x.Rhs[0]); l.ok && l.idx == 0 && l.n == 0 && l.c == 1 {
								s.inc++
								if s.lo > -lcInf {
									s.lo--
								}
								if s.hi < lcInf {
									s.hi--
								}
							} else {
								s.bad = append(s.bad, fmt.Sprintf("%s: the index advances by %s, not by one", c.Pos(x.Pos()), exprStr(x.Rhs[0])))
							}
							return s, true
						}
					}
					if len(x.Lhs) == len(x.Rhs) {
						for i := range x.Lhs {
							assign(s, x.Lhs[i], x.Rhs[i])
						}
					}
				case *ast.DeclStmt:
					if gd, ok := x.Decl.(*ast.GenDecl); ok {
						for _, sp := range gd.Specs {
							vs, ok := sp.(*ast.ValueSpec)
							if !ok {
								continue
							}
							for i, n := range vs.Names {
								if i < len(vs.Values) {
									assign(s, n, vs.Values[i])
								} else if _, isPtr := info.Defs[n].Type().(*types.Pointer); isPtr {
									s.env[info.Defs[n]] = lcLin{c: -1} // nil pointer
								}
							}
						}
					}
				}
				return s, true
			},
		}
		w.Exit = func(s *lcState, o outcome) { onExit(s, o) }
		init := &lcState{lo: -lcInf, hi: lcInf, env: map[types.Object]lcLin{}, bufs: map[types.Object]bool{}}
		if isCtor {
			init.lo = 0 // a length
		}
		w.Run(fd.Body, init)
		return w.Overflow, len(w.Unsupported)
	}
	judge := func(cur, nxt string, lo, hi int) []string {
		var bad []string
		rng := fmt.Sprintf("len(buf)-i ∈ [%s,%s]", lcB(lo), lcB(hi))
		switch cur {
		case "nil":
			if hi > 0 {
				bad = append(bad, "current = nil although a rune may be left at the cursor ("+rng+")")
			}
		case "&buf[i+0]":
			if lo < 1 {
				bad = append(bad, "current = &buf[i] although the cursor may be past the end ("+rng+")")
			}
		case "":
			bad = append(bad, "current is not set on this path")
		default:
			bad = append(bad, "current = "+cur+" is not the rune at the cursor / nil")
		}
		switch nxt {
		case "nil":
			if hi > 1 {
				bad = append(bad, "next = nil although a rune may follow the cursor ("+rng+")")
			}
		case "&buf[i+1]":
			if lo < 2 {
				bad = append(bad, "next = &buf[i+1] although no rune may follow the cursor ("+rng+")")
			}
		case "":
			bad = append(bad, "next is not set on this path")
		default:
			bad = append(bad, "next = "+nxt+" is not the rune after the cursor / nil")
		}
		return bad
	}

	// ---- (3)+(2b) advance
	{
		o := Obligation{Key: "lexer." + "advance" + "|one step, current/next track the buffer", Pos: c.Pos(advFD.Pos()), Nontrivial: true}
		var bad, opq []string
		paths := 0
		overflow, unsup := walk(advFD, advRecv, false, nil, func(s *lcState, out outcome) {
			if out.kind == cPanic {
				return
			}
			paths++
			bad = append(bad, s.bad...)
			if s.inc != 1 {
				bad = append(bad, fmt.Sprintf("the index is incremented %d time(s) on a path", s.inc))
			}
			if j := judge(s.cur, s.nxt, s.lo, s.hi); len(j) > 0 && len(s.opaque) > 0 {
				opq = append(opq, fmt.Sprintf("%s (conditions not related to the buffer length: %s)", strings.Join(j, "; "), strings.Join(s.opaque, ", ")))
			} else {
				bad = append(bad, j...)
			}
		})
		switch {
		case overflow || unsup > 0:
			o.Status, o.Detail = Undecided, "path enumeration overflow / unsupported control flow"
		case len(bad) == 0 && len(opq) > 0:
			o.Status, o.Detail = Undecided, strings.Join(uniqStrings(opq), "; ")
		case len(bad) > 0:
			o.Status, o.Detail = Violated, strings.Join(uniqStrings(bad), "; ")
		default:
			o.Status, o.Detail = Discharged, fmt.Sprintf("%d paths: index+1 once; current=&buf[i] iff i<len(buf) else nil; next=&buf[i+1] iff i+1<len(buf) else nil", paths)
		}
		obs = append(obs, o)
	}

	// ---- constructors: functions of the package returning a Lexer built by a composite literal
	for _, fd := range AllFuncDecls(p) {
		if fd.Recv != nil || fd.Body == nil {
			continue
		}
		fn, _ := info.Defs[fd.Name].(*types.Func)
		if fn == nil {
			continue
		}
		sig := fn.Type().(*types.Signature)
		if sig.Results().Len() != 1 || recvNamed(sig.Results().At(0).Type()) != r.lexerT {
			continue
		}
		var lit *ast.CompositeLit
		ast.Inspect(fd.Body, func(n ast.Node) bool {
			if cl, ok := n.(*ast.CompositeLit); ok && recvNamed(info.TypeOf(cl)) == r.lexerT {
				lit = cl
			}
			return true
		})
		if lit == nil {
			continue
		}
		fieldExpr := map[*types.Var]ast.Expr{}
		for _, el := range lit.Elts {
			if kv, ok := el.(*ast.KeyValueExpr); ok {
				if id, ok := kv.Key.(*ast.Ident); ok {
					if fv, ok := info.Uses[id].(*types.Var); ok {
						fieldExpr[fv] = kv.Value
					}
				}
			}
		}
		name := fd.Name.Name
		// (1) the buffer holds the runes of the source
		o1 := Obligation{Key: "lexer." + name + "|rune buffer holds exactly the runes of the source", Pos: c.Pos(fd.Pos()), Nontrivial: true}
		bufExpr := fieldExpr[bufF]
		if bufExpr == nil {
			o1.Status, o1.Detail = Undecided, "the constructor's literal does not set the rune buffer"
		} else {
			unit, why := lcLengthUnit(info, fd, bufExpr, 0)
			switch unit {
			case "runes":
				o1.Status, o1.Detail = Discharged, why
			case "bytes":
				o1.Status, o1.Detail = Violated, why
			default:
				o1.Status, o1.Detail = Undecided, why
			}
		}
		obs = append(obs, o1)
		// (1b) … of the UNCHANGED source: every location (index, line, column) refers to the text the host supplied
		if bufExpr != nil {
			o1b := Obligation{Key: "lexer." + name + "|rune buffer is the unmodified source parameter", Pos: c.Pos(fd.Pos()), Nontrivial: true}
			resolve := func(e ast.Expr) ast.Expr {
				for depth := 0; depth < 4; depth++ {
					e = ast.Unparen(e)
					id, ok := e.(*ast.Ident)
					if !ok {
						return e
					}
					obj := info.Uses[id]
					var defs []ast.Expr
					ast.Inspect(fd.Body, func(n ast.Node) bool {
						if as, ok := n.(*ast.AssignStmt); ok && len(as.Lhs) == len(as.Rhs) {
							for i, l := range as.Lhs {
								if lid, ok := l.(*ast.Ident); ok && obj != nil && (info.Defs[lid] == obj || info.Uses[lid] == obj) {
									defs = append(defs, as.Rhs[i])
								}
							}
						}
						return true
					})
					if len(defs) != 1 {
						return e
					}
					e = defs[0]
				}
				return e
			}
			isParam := func(e ast.Expr) bool {
				id, ok := ast.Unparen(e).(*ast.Ident)
				if !ok {
					return false
				}
				v, ok := info.Uses[id].(*types.Var)
				if !ok {
					return false
				}
				sig := info.Defs[fd.Name].Type().(*types.Signature)
				for i := 0; i < sig.Params().Len(); i++ {
					if sig.Params().At(i) == v {
						return true
					}
				}
				return false
			}
			be := resolve(bufExpr)
			conv, isCall := be.(*ast.CallExpr)
			switch {
			case isCall && len(conv.Args) == 1 && info.Types[conv.Fun].IsType():
				src := resolve(conv.Args[0])
				if isParam(src) {
					o1b.Status, o1b.Detail = Discharged, "[]rune(" + exprStr(src) + ") of the constructor's own parameter"
				} else if _, isC := src.(*ast.CallExpr); isC {
					o1b.Status, o1b.Detail = Violated, "the buffer is built from " + exprStr(src) + ": the source text is transformed before it is lexed, so token indices / columns and the content of string literals no longer refer to the text the host supplied"
				} else {
					o1b.Status, o1b.Detail = Undecided, "the converted expression " + exprStr(src) + " is not a parameter of the constructor"
				}
			default:
				o1b.Status, o1b.Detail = Undecided, "the buffer expression " + exprStr(be) + " is not a conversion of the source"
			}
			obs = append(obs, o1b)
		}
		// index starts at 0
		if ie := fieldExpr[idxF]; ie != nil {
			if tv := info.Types[ie]; tv.Value == nil || constant.Sign(tv.Value) != 0 {
				obs = append(obs, Obligation{Key: "lexer." + name + "|index starts at 0", Pos: c.Pos(ie.Pos()), Status: Violated, Detail: "the cursor index is initialised with " + exprStr(ie), Nontrivial: true})
			} else {
				obs = append(obs, Obligation{Key: "lexer." + name + "|index starts at 0", Pos: c.Pos(ie.Pos()), Status: Discharged, Detail: "constant 0"})
			}
		} else {
			obs = append(obs, Obligation{Key: "lexer." + name + "|index starts at 0", Pos: c.Pos(fd.Pos()), Status: Discharged, Detail: "zero value"})
		}
		// (2) initial current/next
		o2 := Obligation{Key: "lexer." + name + "|initial current/next track the buffer", Pos: c.Pos(fd.Pos()), Nontrivial: true}
		var bufObj types.Object
		if id, ok := ast.Unparen(bufExpr).(*ast.Ident); ok {
			bufObj = info.Uses[id]
		}
		var bad, opq []string
		paths := 0
		overflow, unsup := walk(fd, nil, true, func(s *lcState, e ast.Expr) bool {
			id, ok := ast.Unparen(e).(*ast.Ident)
			return ok && bufObj != nil && info.Uses[id] == bufObj
		}, func(s *lcState, out outcome) {
			if out.kind != cReturn && out.kind != cNormal {
				return
			}
			paths++
			bad = append(bad, s.bad...)
			val := func(e ast.Expr) string {
				if e == nil {
					return "nil"
				}
				e = ast.Unparen(e)
				if id, ok := e.(*ast.Ident); ok {
					if id.Name == "nil" {
						return "nil"
					}
					if v, ok := s.env[info.Uses[id]]; ok {
						if v.ok && v.n == -7 {
							return fmt.Sprintf("&buf[i%+d]", v.c)
						}
						if !v.ok && v.c == -1 {
							return "nil"
						}
					}
				}
				if un, ok := e.(*ast.UnaryExpr); ok && un.Op == token.AND {
					if ix, ok := ast.Unparen(un.X).(*ast.IndexExpr); ok {
						if id, ok := ast.Unparen(ix.X).(*ast.Ident); ok && bufObj != nil && info.Uses[id] == bufObj {
							if tv := info.Types[ix.Index]; tv.Value != nil {
								n, _ := constant.Int64Val(tv.Value)
								return fmt.Sprintf("&buf[i%+d]", n)
							}
						}
					}
				}
				return "?"
			}
			if j := judge(val(fieldExpr[r.curF]), val(fieldExpr[r.nextF]), s.lo, s.hi); len(j) > 0 && len(s.opaque) > 0 {
				opq = append(opq, fmt.Sprintf("%s (conditions not related to the buffer length: %s)", strings.Join(j, "; "), strings.Join(s.opaque, ", ")))
			} else {
				bad = append(bad, j...)
			}
		})
		switch {
		case overflow || unsup > 0:
			o2.Status, o2.Detail = Undecided, "path enumeration overflow / unsupported control flow"
		case len(bad) == 0 && len(opq) > 0:
			o2.Status, o2.Detail = Undecided, strings.Join(uniqStrings(opq), "; ")
		case len(bad) > 0:
			o2.Status, o2.Detail = Violated, strings.Join(uniqStrings(bad), "; ")
		case paths == 0:
			o2.Status, o2.Detail = Undecided, "no returning path enumerated"
		default:
			o2.Status, o2.Detail = Discharged, fmt.Sprintf("%d paths: current=&buf[0] iff len(buf)>0 else nil; next=&buf[1] iff len(buf)>1 else nil", paths)
		}
		obs = append(obs, o2)
	}
	// (3b) every other len(...) compared with the index in the lexer is the buffer's
	{
		o := Obligation{Key: "lexer|end-of-input tests use the buffer's own length", Pos: c.Pos(advFD.Pos()), Nontrivial: true}
		var bad []string
		n := 0
		for _, fd := range AllFuncDecls(p) {
			if fd.Recv == nil || fd.Body == nil || recvTypeName(fd.Recv.List[0].Type) != "Lexer" {
				continue
			}
			recv := recvOf(fd)
			ast.Inspect(fd.Body, func(nd ast.Node) bool {
				b, ok := nd.(*ast.BinaryExpr)
				if !ok {
					return true
				}
				switch b.Op {
				case token.LSS, token.LEQ, token.GTR, token.GEQ, token.EQL, token.NEQ:
				default:
					return true
				}
				mentionsIdx, lens := false, []ast.Expr{}
				ast.Inspect(b, func(m ast.Node) bool {
					if e, ok := m.(ast.Expr); ok {
						if fv := selfField(recv, e); fv == idxF {
							mentionsIdx = true
						}
					}
					if call, ok := m.(*ast.CallExpr); ok {
						if id, ok := call.Fun.(*ast.Ident); ok && id.Name == "len" && len(call.Args) == 1 {
							lens = append(lens, call.Args[0])
						}
					}
					return true
				})
				if mentionsIdx {
					for _, l := range lens {
						n++
						if fv := selfField(recv, l); fv != bufF {
							bad = append(bad, fmt.Sprintf("%s: the index is compared with len(%s), not with the length of the rune buffer", c.Pos(b.Pos()), exprStr(l)))
						}
					}
				}
				return true
			})
		}
		if len(bad) > 0 {
			o.Status, o.Detail = Violated, strings.Join(bad, "; ")
		} else {
			o.Status, o.Detail = Discharged, fmt.Sprintf("%d direct comparison(s) of the index with a length, all with len(buffer) (aliases are followed by the path analysis of advance)", n)
		}
		obs = append(obs, o)
	}
	return obs
}

func lcB(v int) string {
	if v >= lcInf {
		return "+∞"
	}
	if v <= -lcInf {
		return "-∞"
	}
	return fmt.Sprint(v)
}

// lcLengthUnit decides in which unit the length of a []rune expression built from a string is
// counted: "runes" (exactly the runes of the string), "bytes" (len(string): over-counts for
// non-ASCII text) or "" (not understood). Locals are followed to their definitions in fd.
func lcLengthUnit(info *types.Info, fd *ast.FuncDecl, e ast.Expr, depth int) (string, string) {
	e = ast.Unparen(e)
	if depth > 6 {
		return "", "definition chain too long"
	}
	isString := func(x ast.Expr) bool {
		b, ok := info.TypeOf(x).Underlying().(*types.Basic)
		return ok && b.Info()&types.IsString != 0
	}
	// integer expression unit: "runes" | "bytes" | "zero" | ""
	var intUnit func(x ast.Expr, d int) string
	defsOf := func(obj types.Object) (defs []ast.Expr, incInRangeOverString bool, other bool) {
		ast.Inspect(fd.Body, func(n ast.Node) bool {
			switch s := n.(type) {
			case *ast.AssignStmt:
				for i, l := range s.Lhs {
					if id, ok := l.(*ast.Ident); ok && (info.Defs[id] == obj || info.Uses[id] == obj) {
						if s.Tok == token.ASSIGN || s.Tok == token.DEFINE {
							if i < len(s.Rhs) {
								defs = append(defs, s.Rhs[i])
							} else {
								other = true
							}
						} else {
							other = true
						}
					}
				}
			case *ast.ValueSpec:
				for i, nme := range s.Names {
					if info.Defs[nme] == obj && i < len(s.Values) {
						defs = append(defs, s.Values[i])
					}
				}
			case *ast.RangeStmt:
				if isString(s.X) {
					cnt := 0
					bad := false
					ast.Inspect(s.Body, func(m ast.Node) bool {
						switch y := m.(type) {
						case *ast.IncDecStmt:
							if id, ok := y.X.(*ast.Ident); ok && info.Uses[id] == obj {
								if y.Tok == token.INC {
									cnt++
								} else {
									bad = true
								}
							}
						case *ast.IfStmt, *ast.ForStmt, *ast.SwitchStmt, *ast.BranchStmt:
							// a conditional increment is not a count of the runes
							ast.Inspect(y, func(k ast.Node) bool {
								if inc, ok := k.(*ast.IncDecStmt); ok {
									if id, ok := inc.X.(*ast.Ident); ok && info.Uses[id] == obj {
										bad = true
									}
								}
								return true
							})
						}
						return true
					})
					if cnt == 1 && !bad {
						incInRangeOverString = true
					} else if cnt > 0 || bad {
						other = true
					}
				}
			}
			return true
		})
		return
	}
	intUnit = func(x ast.Expr, d int) string {
		x = ast.Unparen(x)
		if d > 6 {
			return ""
		}
		if tv := info.Types[x]; tv.Value != nil {
			if constant.Sign(tv.Value) == 0 {
				return "zero"
			}
			return ""
		}
		switch y := x.(type) {
		case *ast.CallExpr:
			if info.Types[y.Fun].IsType() && len(y.Args) == 1 {
				return intUnit(y.Args[0], d+1)
			}
			if id, ok := y.Fun.(*ast.Ident); ok && id.Name == "len" && len(y.Args) == 1 {
				if isString(y.Args[0]) {
					return "bytes"
				}
				if u, _ := lcLengthUnit(info, fd, y.Args[0], d+1); u != "" {
					return u
				}
				return ""
			}
			if fn := CalleeOf(info, y); fn != nil && fn.Pkg() != nil && fn.Pkg().Path() == "unicode/utf8" && (fn.Name() == "RuneCountInString" || fn.Name() == "RuneCount") {
				return "runes"
			}
		case *ast.Ident:
			obj := info.Uses[y]
			if obj == nil {
				return ""
			}
			defs, inc, other := defsOf(obj)
			if other {
				return ""
			}
			if inc {
				for _, df := range defs {
					if intUnit(df, d+1) != "zero" {
						return ""
					}
				}
				return "runes"
			}
			if len(defs) == 1 {
				return intUnit(defs[0], d+1)
			}
		}
		return ""
	}
	switch x := e.(type) {
	case *ast.CallExpr:
		// conversion []rune(s)
		if info.Types[x.Fun].IsType() && len(x.Args) == 1 && isString(x.Args[0]) {
			return "runes", "conversion []rune(" + exprStr(x.Args[0]) + ")"
		}
		if id, ok := x.Fun.(*ast.Ident); ok && id.Name == "make" && len(x.Args) >= 2 {
			switch intUnit(x.Args[1], 0) {
			case "bytes":
				return "bytes", fmt.Sprintf("the buffer is allocated with a BYTE length (%s): a source with non-ASCII runes has fewer runes than bytes, the surplus elements stay NUL and are presented to the scanner as input behind the text (end of input is tested against len(buffer))", exprStr(x))
			case "runes":
				return "runes", "allocated with a rune count: " + exprStr(x)
			case "zero":
				return "", "allocated empty and filled later: " + exprStr(x) + " (append chains are followed from the variable)"
			}
			return "", "length of " + exprStr(x) + " not understood"
		}
		if id, ok := x.Fun.(*ast.Ident); ok && id.Name == "append" {
			return "", "append result"
		}
	case *ast.SliceExpr:
		if x.Low == nil && x.High != nil && x.Max == nil {
			switch intUnit(x.High, 0) {
			case "runes":
				return "runes", "truncated to a rune count: " + exprStr(x)
			case "bytes":
				return "bytes", "truncated to a byte count: " + exprStr(x)
			}
		}
		return "", "slice bounds of " + exprStr(x) + " not understood"
	case *ast.Ident:
		obj := info.Uses[x]
		if obj == nil {
			return "", "unresolved identifier"
		}
		// all definitions of the local; an append-per-rune loop over a buffer that started empty counts runes
		var defs []ast.Expr
		appendInRange, otherAppend := false, false
		ast.Inspect(fd.Body, func(n ast.Node) bool {
			switch s := n.(type) {
			case *ast.AssignStmt:
				for i, l := range s.Lhs {
					if id, ok := l.(*ast.Ident); ok && (info.Defs[id] == obj || info.Uses[id] == obj) && i < len(s.Rhs) {
						if call, ok := ast.Unparen(s.Rhs[i]).(*ast.CallExpr); ok {
							if fid, ok := call.Fun.(*ast.Ident); ok && fid.Name == "append" && len(call.Args) == 2 {
								if a0, ok := ast.Unparen(call.Args[0]).(*ast.Ident); ok && info.Uses[a0] == obj {
									// where? directly in the body of a range over a string
									otherAppend = true
									continue
								}
							}
						}
						defs = append(defs, s.Rhs[i])
					}
				}
			case *ast.ValueSpec:
				for i, nme := range s.Names {
					if info.Defs[nme] == obj && i < len(s.Values) {
						defs = append(defs, s.Values[i])
					}
				}
			case *ast.RangeStmt:
				if isString(s.X) {
					n := 0
					for _, st := range s.Body.List {
						if as, ok := st.(*ast.AssignStmt); ok && len(as.Lhs) == 1 && len(as.Rhs) == 1 {
							if id, ok := as.Lhs[0].(*ast.Ident); ok && info.Uses[id] == obj {
								if call, ok := ast.Unparen(as.Rhs[0]).(*ast.CallExpr); ok {
									if fid, ok := call.Fun.(*ast.Ident); ok && fid.Name == "append" && len(call.Args) == 2 {
										n++
									}
								}
							}
						}
					}
					if n == 1 {
						appendInRange = true
					}
				}
			}
			return true
		})
		if len(defs) == 2 {
			// allocate, fill, truncate: the last definition re-slices the variable itself
			if se, ok := ast.Unparen(defs[1]).(*ast.SliceExpr); ok {
				if id, ok := ast.Unparen(se.X).(*ast.Ident); ok && info.Uses[id] == obj {
					return lcLengthUnit(info, fd, se, depth+1)
				}
			}
		}
		if len(defs) == 1 {
			u, why := lcLengthUnit(info, fd, defs[0], depth+1)
			if u != "" && !otherAppend {
				return u, why
			}
			if otherAppend && appendInRange {
				// started empty?
				if call, ok := ast.Unparen(defs[0]).(*ast.CallExpr); ok {
					if id, ok := call.Fun.(*ast.Ident); ok && id.Name == "make" && len(call.Args) >= 2 && intUnit(call.Args[1], 0) == "zero" {
						return "runes", "starts empty and one rune is appended per iteration of a range over the source"
					}
				}
				if cl, ok := ast.Unparen(defs[0]).(*ast.CompositeLit); ok && len(cl.Elts) == 0 {
					return "runes", "starts empty and one rune is appended per iteration of a range over the source"
				}
			}
			return "", why
		}
		if len(defs) == 0 && appendInRange {
			return "runes", "nil slice, one rune appended per iteration of a range over the source"
		}
		return "", fmt.Sprintf("%d definitions of %s", len(defs), x.Name)
	}
	return "", "shape of " + exprStr(e) + " not understood"
}

// ---------------------------------------------------------------------------
// R-lex-filename: every position the lexer hands out names the lexer's file.

func init() {
	register(&Rule{ID: "R-lex-filename", Floor: 20, Run: ruleLexFilename,
		Doc: "every errors.Span literal built in package lexer sets Filename to the lexer's own file name (directly, or through a parameter that receives it at every call site), except the span of the placeholder token of the zero kind that accompanies an error; and the span of every error the lexer creates is such a literal (or a local bound to one), never the span of a placeholder token: a token or syntax error without file name cannot be located in the text of its module (rendering looks the text up by file name)"})
}

func ruleLexFilename(c *Ctx) []Obligation {
	r := discoverLexRoles(c)
	info := r.info
	p := r.pkg
	var obs []Obligation
	// the zero token kind (placeholder)
	var zeroKind *types.Const
	for _, n := range p.Types.Scope().Names() {
		if k, ok := p.Types.Scope().Lookup(n).(*types.Const); ok && types.Identical(k.Type(), r.kindT) {
			if v, ok := constant.Int64Val(constant.ToInt(k.Val())); ok && v == 0 {
				zeroKind = k
			}
		}
	}
	// is e the lexer's filename? (self.<fileF>, or a string parameter that gets it at every call site)
	var isFile func(fd *ast.FuncDecl, e ast.Expr, depth int) (bool, string)
	callSites := func(fn *types.Func) []*ast.CallExpr {
		var out []*ast.CallExpr
		for _, lp := range c.All {
			for _, f := range lp.Syntax {
				ast.Inspect(f, func(n ast.Node) bool {
					if call, ok := n.(*ast.CallExpr); ok && CalleeOf(lp.TypesInfo, call) == fn {
						out = append(out, call)
					}
					return true
				})
			}
		}
		return out
	}
	isFile = func(fd *ast.FuncDecl, e ast.Expr, depth int) (bool, string) {
		e = ast.Unparen(e)
		if sel, ok := e.(*ast.SelectorExpr); ok {
			if fv, ok := info.Uses[sel.Sel].(*types.Var); ok && fv == r.fileF {
				return true, "the lexer's file name field"
			}
		}
		if id, ok := e.(*ast.Ident); ok && depth < 3 {
			obj, _ := info.Uses[id].(*types.Var)
			if obj == nil {
				return false, "not a variable"
			}
			// parameter of fd?
			idx := -1
			i := 0
			for _, f := range fd.Type.Params.List {
				for _, n := range f.Names {
					if info.Defs[n] == obj {
						idx = i
					}
					i++
				}
			}
			if idx >= 0 {
				fn, _ := info.Defs[fd.Name].(*types.Func)
				sites := callSites(fn)
				if len(sites) == 0 {
					return true, "parameter of an exported constructor (the host names the file)"
				}
				for _, cs := range sites {
					// only call sites inside the lexer package are judged (others hand in the host's name)
					var cfd *ast.FuncDecl
					for _, d := range AllFuncDecls(p) {
						if d.Body != nil && cs.Pos() >= d.Body.Pos() && cs.End() <= d.Body.End() {
							cfd = d
						}
					}
					if cfd == nil || idx >= len(cs.Args) {
						continue
					}
					if ok, _ := isFile(cfd, cs.Args[idx], depth+1); !ok {
						return false, "argument " + exprStr(cs.Args[idx]) + " at " + c.Pos(cs.Pos())
					}
				}
				return true, "parameter that receives the file name at every call site"
			}
		}
		return false, exprStr(e)
	}
	spanLitOK := func(fd *ast.FuncDecl, cl *ast.CompositeLit) (bool, string) {
		for _, el := range cl.Elts {
			if kv, ok := el.(*ast.KeyValueExpr); ok {
				if k, ok := kv.Key.(*ast.Ident); ok && k.Name == "Filename" {
					return isFile(fd, kv.Value, 0)
				}
			}
		}
		if len(cl.Elts) == 3 {
			if _, keyed := cl.Elts[0].(*ast.KeyValueExpr); !keyed {
				return isFile(fd, cl.Elts[2], 0)
			}
		}
		return false, "no Filename"
	}
	isPlaceholderSpan := func(fd *ast.FuncDecl, cl *ast.CompositeLit) bool {
		// the literal is the span argument of the token constructor called with the zero kind
		found := false
		ast.Inspect(fd.Body, func(n ast.Node) bool {
			call, ok := n.(*ast.CallExpr)
			if !ok || CalleeOf(info, call) != r.newToken || len(call.Args) != 3 {
				return true
			}
			if ast.Unparen(call.Args[2]) == ast.Expr(cl) {
				if k := ConstOf(info, call.Args[0]); k != nil && k == zeroKind {
					found = true
				}
			}
			return true
		})
		return found
	}
	seen := map[string]int{}
	placeholderFns := map[*types.Func]bool{} // functions returning a placeholder token
	for _, fd := range AllFuncDecls(p) {
		if fd.Body == nil {
			continue
		}
		fname := FuncName(fd)
		ast.Inspect(fd.Body, func(n ast.Node) bool {
			cl, ok := n.(*ast.CompositeLit)
			if !ok {
				return true
			}
			if t := info.TypeOf(cl); t == nil || !types.Identical(t, r.spanT) {
				return true
			}
			key := "lexer." + fname + "|span literal names the file"
			seen[key]++
			if seen[key] > 1 {
				key += fmt.Sprintf("#%d", seen[key])
			}
			o := Obligation{Key: key, Pos: c.Pos(cl.Pos()), Nontrivial: true}
			if isPlaceholderSpan(fd, cl) {
				o.Status, o.Detail = Info, "span of the placeholder token of kind "+zeroKind.Name()+" (accompanies an error, never positioned)"
				if fn, ok := info.Defs[fd.Name].(*types.Func); ok {
					placeholderFns[fn] = true
				}
				obs = append(obs, o)
				return true
			}
			if ok, why := spanLitOK(fd, cl); ok {
				o.Status, o.Detail = Discharged, "Filename is "+why
			} else {
				o.Status, o.Detail = Violated, "the span literal does not carry the lexer's file name ("+why+"): the token / error built from it cannot be located in its module's text"
			}
			obs = append(obs, o)
			return true
		})
	}
	// errors: the span argument of every error constructor call in the lexer
	ep := c.Pkg("homescript/errors")
	for _, fd := range AllFuncDecls(p) {
		if fd.Body == nil {
			continue
		}
		fname := FuncName(fd)
		ast.Inspect(fd.Body, func(n ast.Node) bool {
			call, ok := n.(*ast.CallExpr)
			if !ok {
				return true
			}
			fn := CalleeOf(info, call)
			if fn == nil || fn.Pkg() != ep.Types {
				return true
			}
			sig := fn.Type().(*types.Signature)
			idx := -1
			for i := 0; i < sig.Params().Len(); i++ {
				if types.Identical(sig.Params().At(i).Type(), r.spanT) {
					idx = i
				}
			}
			if idx < 0 || idx >= len(call.Args) {
				return true
			}
			key := "lexer." + fname + "|error span is built for the error"
			seen[key]++
			if seen[key] > 1 {
				key += fmt.Sprintf("#%d", seen[key])
			}
			o := Obligation{Key: key, Pos: c.Pos(call.Pos()), Nontrivial: true}
			arg := ast.Unparen(call.Args[idx])
			switch x := arg.(type) {
			case *ast.CompositeLit:
				o.Status, o.Detail = Discharged, "span literal (judged above)"
			case *ast.Ident:
				o.Status, o.Detail = Discharged, "local / parameter "+x.Name
				// a local bound to a token's span?
				if v, ok := info.Uses[x].(*types.Var); ok {
					ast.Inspect(fd.Body, func(m ast.Node) bool {
						if as, ok := m.(*ast.AssignStmt); ok {
							for i, l := range as.Lhs {
								if id, ok := l.(*ast.Ident); ok && (info.Defs[id] == v || info.Uses[id] == v) && i < len(as.Rhs) {
									if sel, ok := ast.Unparen(as.Rhs[i]).(*ast.SelectorExpr); ok && recvNamed(info.TypeOf(sel.X)) == r.tokenT {
										o.Status, o.Detail = Undecided, "the error span is copied from a token ("+exprStr(as.Rhs[i])+"): provenance of that token not decided"
									}
								}
							}
						}
						return true
					})
				}
			case *ast.SelectorExpr:
				if recvNamed(info.TypeOf(x.X)) == r.tokenT {
					// span of a token: which token?
					o.Status, o.Detail = Undecided, "the error span is the span of the token "+exprStr(x.X)
					if id, ok := ast.Unparen(x.X).(*ast.Ident); ok {
						if v, ok := info.Uses[id].(*types.Var); ok {
							ast.Inspect(fd.Body, func(m ast.Node) bool {
								if as, ok := m.(*ast.AssignStmt); ok {
									for i, l := range as.Lhs {
										if lid, ok := l.(*ast.Ident); ok && (info.Defs[lid] == v || info.Uses[lid] == v) && i < len(as.Rhs) {
											if cc, ok := ast.Unparen(as.Rhs[i]).(*ast.CallExpr); ok {
												if g := CalleeOf(info, cc); g != nil && placeholderFns[g] {
													o.Status, o.Detail = Violated, "the error's span is taken from the placeholder token built by "+g.Name()+", whose span has no file name"
												}
											}
										}
									}
								}
								return true
							})
						}
					}
				} else {
					o.Status, o.Detail = Discharged, "span held in "+exprStr(x)
				}
			case *ast.CallExpr:
				// Location.Until(end, filename)
				if g := CalleeOf(info, x); g != nil && g == r.until && len(x.Args) == 2 {
					if ok, why := isFile(fd, x.Args[1], 0); ok {
						o.Status, o.Detail = Discharged, "span built by Until with "+why
					} else {
						o.Status, o.Detail = Violated, "span built by Until without the lexer's file name ("+why+")"
					}
				} else {
					o.Status, o.Detail = Undecided, "span argument "+exprStr(arg)+" not understood"
				}
			default:
				o.Status, o.Detail = Undecided, "span argument "+exprStr(arg)+" not understood"
			}
			obs = append(obs, o)
			return true
		})
	}
	return obs
}
