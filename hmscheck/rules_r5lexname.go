package main

import (
	"fmt"
	"go/ast"
	"go/types"
)

// R-lex-parse-filename: the file name handed to a lexer ends up in every token span (and so in every
// syntax error and diagnostic of that text); the name handed to the parser built on that lexer is the
// name the module is known by. The two must be the same value, otherwise the positions of an
// (imported) module's tokens name another file.
func init() {
	register(&Rule{ID: "R-lex-parse-filename", Floor: 3, Run: ruleLexParseFilename,
		Doc: "for every construction of a parser from a lexer built in the same function (constructors found by signature: a function of package lexer taking two strings and returning the lexer type; a function of package parser taking that lexer type and a string): the name operand of the lexer constructor and the name operand of the parser constructor are the same expression (after resolving once-assigned locals)"})
}

func ruleLexParseFilename(c *Ctx) []Obligation {
	lp, pp := c.Pkg("homescript/lexer"), c.Pkg("homescript/parser")
	if lp == nil || pp == nil {
		return []Obligation{{Key: "anchor", Status: Undecided, Detail: "lexer or parser package not loaded", Nontrivial: true}}
	}
	// constructors by signature
	var lexCtor, parCtor *types.Func
	var lexType types.Type
	for _, name := range lp.Types.Scope().Names() {
		fn, ok := lp.Types.Scope().Lookup(name).(*types.Func)
		if !ok {
			continue
		}
		sig := fn.Type().(*types.Signature)
		if sig.Params().Len() == 2 && sig.Results().Len() == 1 && isStringT(sig.Params().At(0).Type()) && isStringT(sig.Params().At(1).Type()) {
			if n := recvNamed(sig.Results().At(0).Type()); n != nil && n.Obj().Pkg() == lp.Types {
				lexCtor, lexType = fn, sig.Results().At(0).Type()
			}
		}
	}
	if lexCtor == nil {
		return []Obligation{{Key: "anchor", Status: Undecided, Detail: "no lexer constructor func(string, string) found", Nontrivial: true}}
	}
	parNameIdx := -1
	for _, name := range pp.Types.Scope().Names() {
		fn, ok := pp.Types.Scope().Lookup(name).(*types.Func)
		if !ok {
			continue
		}
		sig := fn.Type().(*types.Signature)
		hasLex, strIdx := false, -1
		for i := 0; i < sig.Params().Len(); i++ {
			if types.Identical(sig.Params().At(i).Type(), lexType) {
				hasLex = true
			}
			if isStringT(sig.Params().At(i).Type()) {
				strIdx = i
			}
		}
		if hasLex && strIdx >= 0 && sig.Results().Len() == 1 {
			parCtor, parNameIdx = fn, strIdx
		}
	}
	if parCtor == nil {
		return []Obligation{{Key: "anchor", Status: Undecided, Detail: "no parser constructor taking the lexer type and a name found", Nontrivial: true}}
	}
	var obs []Obligation
	for _, p := range c.All {
		info := p.TypesInfo
		for _, fd := range AllFuncDecls(p) {
			if fd.Body == nil {
				continue
			}
			resolve := func(e ast.Expr) ast.Expr {
				e = ast.Unparen(e)
				id, ok := e.(*ast.Ident)
				if !ok {
					return e
				}
				obj := info.Uses[id]
				if obj == nil {
					return e
				}
				var defs []ast.Expr
				ast.Inspect(fd.Body, func(n ast.Node) bool {
					if as, ok := n.(*ast.AssignStmt); ok && len(as.Lhs) == len(as.Rhs) {
						for i, l := range as.Lhs {
							if lid, ok := l.(*ast.Ident); ok && (info.Defs[lid] == obj || info.Uses[lid] == obj) {
								defs = append(defs, as.Rhs[i])
							}
						}
					}
					return true
				})
				if len(defs) == 1 {
					return ast.Unparen(defs[0])
				}
				return e
			}
			n := 0
			ast.Inspect(fd.Body, func(nd ast.Node) bool {
				call, ok := nd.(*ast.CallExpr)
				if !ok || CalleeOf(info, call) != parCtor || len(call.Args) <= parNameIdx {
					return true
				}
				n++
				key := fmt.Sprintf("%s.%s|parser #%d|lexer and parser are given the same file name", relPkg(p.PkgPath), FuncName(fd), n)
				o := Obligation{Key: key, Pos: c.Pos(call.Pos()), Nontrivial: true}
				// the lexer argument
				var lexCall *ast.CallExpr
				for _, a := range call.Args {
					if t := info.TypeOf(a); t != nil && types.Identical(t, lexType) {
						if lc, ok := resolve(a).(*ast.CallExpr); ok && CalleeOf(info, lc) == lexCtor {
							lexCall = lc
						}
					}
				}
				if lexCall == nil {
					o.Status, o.Detail = Info, "the lexer is not constructed in this function (passed in): its name is decided by the caller"
					obs = append(obs, o)
					return true
				}
				ln, pn := exprStr(resolve(lexCall.Args[1])), exprStr(resolve(call.Args[parNameIdx]))
				if ln == pn {
					o.Status, o.Detail = Discharged, "both constructors receive "+ln
				} else {
					o.Status, o.Detail = Violated, fmt.Sprintf("the lexer is given %s, the parser %s: token spans (and every syntax error / diagnostic placed at them) name another file than the module is known by", ln, pn)
				}
				obs = append(obs, o)
				return true
			})
		}
	}
	return obs
}

func isStringT(t types.Type) bool {
	b, ok := t.Underlying().(*types.Basic)
	return ok && b.Kind() == types.String
}

// R-literal-radix: the lexer admits only decimal digits (and separators) in a number token; the place
// that decodes the token's text must read it in base 10. A base of 0 lets strconv infer the base from
// a prefix, so `010` becomes 8 and `08` a syntax error.
func init() {
	register(&Rule{ID: "R-literal-radix", Floor: 1, Run: ruleLiteralRadix,
		Doc: "every strconv.ParseInt / ParseUint call of the parser package that decodes a token value passes the constant base 10 (the lexical grammar's int literal is a sequence of decimal digits; the lexer's escape decoder, whose radices are prescribed per escape form, is R-lex-escapes' business)"})
}

func ruleLiteralRadix(c *Ctx) []Obligation {
	pp := c.Pkg("homescript/parser")
	if pp == nil {
		return []Obligation{{Key: "anchor", Status: Undecided, Detail: "parser package not loaded", Nontrivial: true}}
	}
	info := pp.TypesInfo
	var obs []Obligation
	for _, fd := range AllFuncDecls(pp) {
		if fd.Body == nil {
			continue
		}
		n := 0
		ast.Inspect(fd.Body, func(nd ast.Node) bool {
			call, ok := nd.(*ast.CallExpr)
			if !ok || len(call.Args) < 2 {
				return true
			}
			fn := CalleeOf(info, call)
			if fn == nil || fn.Pkg() == nil || fn.Pkg().Path() != "strconv" || (fn.Name() != "ParseInt" && fn.Name() != "ParseUint") {
				return true
			}
			n++
			o := Obligation{Key: fmt.Sprintf("parser.%s|%s #%d|decimal", FuncName(fd), fn.Name(), n), Pos: c.Pos(call.Pos()), Nontrivial: true}
			tv := info.Types[call.Args[1]]
			switch {
			case tv.Value == nil:
				o.Status, o.Detail = Undecided, "the base "+exprStr(call.Args[1])+" is not a constant"
			case tv.Value.String() == "10":
				o.Status, o.Detail = Discharged, "base 10"
			default:
				o.Status, o.Detail = Violated, "the literal is decoded with base "+tv.Value.String()+": the lexer's int token is a run of decimal digits, so a leading zero (or a prefix strconv recognises) changes the value or turns a valid literal into an error"
			}
			obs = append(obs, o)
			return true
		})
	}
	if len(obs) == 0 {
		obs = append(obs, Obligation{Key: "anchor", Status: Undecided, Detail: "no strconv.ParseInt call found in the parser: the int literal decoder moved", Nontrivial: true})
	}
	return obs
}
