package main

import (
	"fmt"
	"strings"
)

// Minimal reader for the ISO-EBNF dialect of grammar.ebnf: enough to evaluate
// the lexical productions (character classes, repetition groups).

type ebnfNode struct {
	kind string // "alt" "seq" "rep" "opt" "term" "ref" "special" "except" "times"
	kids []*ebnfNode
	text string
	n    int
}

type ebnfGrammar struct {
	prods map[string]*ebnfNode
}

type ebnfTok struct{ kind, text string }

func ebnfLex(src string) []ebnfTok {
	var out []ebnfTok
	rs := []rune(src)
	for i := 0; i < len(rs); {
		ch := rs[i]
		switch {
		case ch == ' ' || ch == '\n' || ch == '\t' || ch == '\r':
			i++
		case ch == '(' && i+1 < len(rs) && rs[i+1] == '*':
			j := i + 2
			for j+1 < len(rs) && !(rs[j] == '*' && rs[j+1] == ')') {
				j++
			}
			i = j + 2
		case ch == '\'' || ch == '"':
			j := i + 1
			for j < len(rs) && rs[j] != ch {
				j++
			}
			out = append(out, ebnfTok{"term", string(rs[i+1 : j])})
			i = j + 1
		case ch == '?':
			j := i + 1
			for j < len(rs) && rs[j] != '?' {
				j++
			}
			out = append(out, ebnfTok{"special", strings.TrimSpace(string(rs[i+1 : j]))})
			i = j + 1
		case ch >= '0' && ch <= '9':
			j := i
			for j < len(rs) && rs[j] >= '0' && rs[j] <= '9' {
				j++
			}
			out = append(out, ebnfTok{"int", string(rs[i:j])})
			i = j
		case ch == '_' || ch >= 'a' && ch <= 'z' || ch >= 'A' && ch <= 'Z':
			j := i
			for j < len(rs) && (rs[j] == '_' || rs[j] >= 'a' && rs[j] <= 'z' || rs[j] >= 'A' && rs[j] <= 'Z' || rs[j] >= '0' && rs[j] <= '9') {
				j++
			}
			out = append(out, ebnfTok{"id", string(rs[i:j])})
			i = j
		default:
			out = append(out, ebnfTok{"sym", string(ch)})
			i++
		}
	}
	return out
}

type ebnfParser struct {
	toks []ebnfTok
	pos  int
	err  error
}

func (p *ebnfParser) peek() ebnfTok {
	if p.pos < len(p.toks) {
		return p.toks[p.pos]
	}
	return ebnfTok{"eof", ""}
}
func (p *ebnfParser) isSym(s string) bool { t := p.peek(); return t.kind == "sym" && t.text == s }
func (p *ebnfParser) next() ebnfTok    { t := p.peek(); p.pos++; return t }

func parseEBNF(src string) (*ebnfGrammar, error) {
	p := &ebnfParser{toks: ebnfLex(src)}
	g := &ebnfGrammar{prods: map[string]*ebnfNode{}}
	for p.peek().kind != "eof" && p.err == nil {
		name := p.next()
		if name.kind != "id" || !p.isSym("=") {
			return nil, fmt.Errorf("ebnf: expected production at token %d (%q)", p.pos, name.text)
		}
		p.next()
		g.prods[name.text] = p.alt()
		if !p.isSym(";") {
			return nil, fmt.Errorf("ebnf: production %s: expected ';' at token %d (%q)", name.text, p.pos, p.peek().text)
		}
		p.next()
	}
	return g, p.err
}

func (p *ebnfParser) alt() *ebnfNode {
	n := &ebnfNode{kind: "alt"}
	n.kids = append(n.kids, p.seq())
	for p.isSym("|") {
		p.next()
		n.kids = append(n.kids, p.seq())
	}
	if len(n.kids) == 1 {
		return n.kids[0]
	}
	return n
}

func (p *ebnfParser) seq() *ebnfNode {
	n := &ebnfNode{kind: "seq"}
	n.kids = append(n.kids, p.factor())
	for p.isSym(",") {
		p.next()
		n.kids = append(n.kids, p.factor())
	}
	if len(n.kids) == 1 {
		return n.kids[0]
	}
	return n
}

func (p *ebnfParser) factor() *ebnfNode {
	var n *ebnfNode
	if p.peek().kind == "int" {
		cnt := 0
		fmt.Sscan(p.next().text, &cnt)
		if p.isSym("*") {
			p.next()
		}
		n = &ebnfNode{kind: "times", n: cnt, kids: []*ebnfNode{p.primary()}}
	} else {
		n = p.primary()
	}
	if p.isSym("-") {
		p.next()
		n = &ebnfNode{kind: "except", kids: []*ebnfNode{n, p.primary()}}
	}
	return n
}

func (p *ebnfParser) primary() *ebnfNode {
	t := p.next()
	switch {
	case t.kind == "term":
		return &ebnfNode{kind: "term", text: t.text}
	case t.kind == "id":
		return &ebnfNode{kind: "ref", text: t.text}
	case t.kind == "special":
		return &ebnfNode{kind: "special", text: t.text}
	case t.kind == "sym" && t.text == "{":
		n := &ebnfNode{kind: "rep", kids: []*ebnfNode{p.alt()}}
		if p.isSym("}") {
			p.next()
		}
		return n
	case t.kind == "sym" && t.text == "[":
		n := &ebnfNode{kind: "opt", kids: []*ebnfNode{p.alt()}}
		if p.isSym("]") {
			p.next()
		}
		return n
	case t.kind == "sym" && t.text == "(":
		n := p.alt()
		if p.isSym(")") {
			p.next()
		}
		return n
	}
	if p.err == nil {
		p.err = fmt.Errorf("ebnf: unexpected token %q at %d", t.text, p.pos)
	}
	return &ebnfNode{kind: "special", text: "error"}
}

// class evaluates a node to a rune set when it denotes a set of single runes.
func (g *ebnfGrammar) class(n *ebnfNode, depth int) (runeSet, bool) {
	if depth > 8 {
		return runeSet{}, false
	}
	switch n.kind {
	case "term":
		rs := []rune(n.text)
		if len(rs) != 1 {
			return runeSet{}, false
		}
		return runeSet{[][2]rune{{rs[0], rs[0]}}}, true
	case "ref":
		if p, ok := g.prods[n.text]; ok {
			return g.class(p, depth+1)
		}
	case "alt":
		var out runeSet
		for _, k := range n.kids {
			s, ok := g.class(k, depth+1)
			if !ok {
				return runeSet{}, false
			}
			out.ranges = append(out.ranges, s.ranges...)
		}
		return out.norm(), true
	}
	return runeSet{}, false
}

// repClasses returns the character classes of the repetition groups of a
// production, in order.
func (g *ebnfGrammar) repClasses(name string) ([]runeSet, bool) {
	p, ok := g.prods[name]
	if !ok {
		return nil, false
	}
	var out []runeSet
	okAll := true
	var walk func(n *ebnfNode)
	walk = func(n *ebnfNode) {
		if n.kind == "rep" {
			if s, ok := g.class(n.kids[0], 0); ok {
				out = append(out, s)
			} else {
				okAll = false
			}
			return
		}
		for _, k := range n.kids {
			walk(k)
		}
	}
	walk(p)
	return out, okAll
}
