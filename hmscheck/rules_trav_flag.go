package main

// trav: R-flag-forwarding — a recursive traversal that carries a context flag
// must hand the flag on at every re-entry on a sub-node of its own domain.

import (
	"fmt"
	"go/ast"
	"go/token"
	"go/types"
	"sort"
	"strings"

	"golang.org/x/tools/go/packages"
)

func init() {
	register(&Rule{ID: "R-flag-forwarding", Floor: 20, Run: ruleFlagForwarding,
		Doc: "A flag-carrying traversal family is a set of functions over AST nodes with a bool parameter that they pass to one another in that position " +
			"(fuzzer Transformer.Expression/expressionVariants/infixExpr with needsToBeStatic; Analyzer.ConvertType with createErrors); a bool field of the traversal driver that a member sets from its flag parameter carries the flag as well " +
			"(then every assignment to that field inside the traversal must come from the flag parameter or restore a value saved from the field), and a local assigned once from the flag is the flag. " +
			"For every call that (re-)enters the family: if the node argument is a component of a node of the family's own domain (e.g. an operand of the expression being rewritten, the inner type of a type) " +
			"the flag argument must be the caller's own flag or a value implied by it (flag || x); a constant there silently changes the context for the sub-tree. " +
			"A constant is legitimate exactly where a new context starts: the node argument is a component of a node outside the domain (a statement, a block, a declaration that carries the type) — decided from the owner struct's type, not by site. " +
			"A helper without the flag that is entered with the current node and re-enters the family on a domain component with a constant has dropped the flag. " +
			"Necessary: the flag is the only way the sub-traversal can know the restriction (static initialiser, error reporting mode) of its context."})
}

// travFlagPos: where a context flag is carried — the idx-th (bool) parameter of fn, or
// (field != nil) a bool field of the traversal driver that a function of the family
// sets from its flag parameter for the duration of a sub-traversal.
type travFlagPos struct {
	fn    *types.Func
	idx   int
	field *types.Var
}

func ruleFlagForwarding(c *Ctx) []Obligation {
	m := travGetModel(c)
	var obs []Obligation
	for _, rel := range travPkgs {
		if !c.HasPkg(rel) {
			continue
		}
		obs = append(obs, travFlagPkg(c, m, c.Pkg(rel))...)
	}
	return obs
}

func travIsBool(t types.Type) bool {
	b, ok := types.Unalias(t).Underlying().(*types.Basic)
	return ok && b.Kind() == types.Bool
}

// node parameter: interface of one of the ASTs (code interfaces, type syntax) or a node struct.
func travNodeParam(m *travModel, sg *types.Signature) int {
	for i := 0; i < sg.Params().Len(); i++ {
		t := sg.Params().At(i).Type()
		if n := travNamed(t); n != nil {
			if m.codeIfc[n] || n == m.hmsType {
				return i
			}
		}
		for _, s := range m.carrierStructs(t) {
			if !s.IsSem && s.T != m.identT {
				return i
			}
		}
	}
	return -1
}

func travFlagPkg(c *Ctx, m *travModel, p *packages.Package) []Obligation {
	info := p.TypesInfo
	type fnInfo struct {
		fd   *ast.FuncDecl
		fn   *types.Func
		sg   *types.Signature
		node int
		recv types.Object // the receiver variable (nil: plain function / unnamed receiver)
	}
	fns := map[*types.Func]*fnInfo{}
	var order []*fnInfo
	for _, fd := range AllFuncDecls(p) {
		fn, _ := info.Defs[fd.Name].(*types.Func)
		if fn == nil {
			continue
		}
		sg := fn.Type().(*types.Signature)
		fi := &fnInfo{fd: fd, fn: fn, sg: sg, node: travNodeParam(m, sg)}
		if fd.Recv != nil && len(fd.Recv.List) > 0 && len(fd.Recv.List[0].Names) > 0 {
			fi.recv = info.Defs[fd.Recv.List[0].Names[0]]
		}
		fns[fn] = fi
		order = append(order, fi)
	}
	// locals assigned exactly once: `x := e` makes x another name for e
	defs := map[types.Object][]ast.Expr{}
	for _, fi := range order {
		ast.Inspect(fi.fd.Body, func(n ast.Node) bool {
			switch x := n.(type) {
			case *ast.AssignStmt:
				for i, l := range x.Lhs {
					id, ok := ast.Unparen(l).(*ast.Ident)
					if !ok {
						continue
					}
					o := info.Defs[id]
					if o == nil {
						o = info.Uses[id]
					}
					if o == nil {
						continue
					}
					if len(x.Lhs) == len(x.Rhs) && (x.Tok == token.DEFINE || x.Tok == token.ASSIGN) {
						defs[o] = append(defs[o], x.Rhs[i])
					} else {
						defs[o] = append(defs[o], nil, nil) // multi-value / compound assignment: not an alias
					}
				}
			case *ast.ValueSpec:
				for i, id := range x.Names {
					if o := info.Defs[id]; o != nil {
						if len(x.Names) == len(x.Values) {
							defs[o] = append(defs[o], x.Values[i])
						} else {
							defs[o] = append(defs[o], nil)
						}
					}
				}
			case *ast.IncDecStmt:
				if id, ok := ast.Unparen(x.X).(*ast.Ident); ok {
					if o := info.Uses[id]; o != nil {
						defs[o] = append(defs[o], nil, nil)
					}
				}
			case *ast.UnaryExpr:
				if x.Op == token.AND {
					if id, ok := ast.Unparen(x.X).(*ast.Ident); ok {
						if o := info.Uses[id]; o != nil {
							defs[o] = append(defs[o], nil, nil) // address taken
						}
					}
				}
			}
			return true
		})
	}
	aliasOf := func(o types.Object) ast.Expr {
		if v, ok := o.(*types.Var); !ok || v.IsField() {
			return nil
		}
		if d := defs[o]; len(d) == 1 {
			return d[0]
		}
		return nil
	}
	// the bool field of fi's receiver that e selects (recv.F), or nil
	recvField := func(fi *fnInfo, e ast.Expr) *types.Var {
		se, ok := ast.Unparen(e).(*ast.SelectorExpr)
		if !ok || fi.recv == nil {
			return nil
		}
		id, ok := ast.Unparen(se.X).(*ast.Ident)
		if !ok || info.Uses[id] != fi.recv {
			return nil
		}
		if v, ok := info.Uses[se.Sel].(*types.Var); ok && v.IsField() && travIsBool(v.Type()) {
			return v
		}
		return nil
	}
	paramIdx := func(fi *fnInfo, o types.Object) int {
		for i := 0; i < fi.sg.Params().Len(); i++ {
			if fi.sg.Params().At(i) == o {
				return i
			}
		}
		return -1
	}
	// does expression e (in fi) carry the flag o — a bool parameter object or a bool field of the
	// receiver — positively (o, o || x, x || o, or a local that is just another name for such a value)?
	var impliedD func(fi *fnInfo, e ast.Expr, o types.Object, depth int) bool
	impliedD = func(fi *fnInfo, e ast.Expr, o types.Object, depth int) bool {
		if e == nil || depth > 4 {
			return false
		}
		switch x := ast.Unparen(e).(type) {
		case *ast.Ident:
			if info.Uses[x] == o {
				return true
			}
			if u := info.Uses[x]; u != nil {
				if rhs := aliasOf(u); rhs != nil {
					return impliedD(fi, rhs, o, depth+1)
				}
			}
		case *ast.SelectorExpr:
			if fv, ok := o.(*types.Var); ok && fv.IsField() {
				return recvField(fi, x) == fv
			}
		case *ast.BinaryExpr:
			if x.Op == token.LOR {
				return impliedD(fi, x.X, o, depth) || impliedD(fi, x.Y, o, depth)
			}
		}
		return false
	}
	implied := func(fi *fnInfo, e ast.Expr, o types.Object) bool { return impliedD(fi, e, o, 0) }
	// the bool fields of fi's receiver struct
	recvBoolFields := func(fi *fnInfo) []*types.Var {
		rv := fi.sg.Recv()
		if rv == nil || fi.recv == nil {
			return nil
		}
		n := travNamed(rv.Type())
		if n == nil {
			return nil
		}
		st, ok := n.Underlying().(*types.Struct)
		if !ok {
			return nil
		}
		var out []*types.Var
		for i := 0; i < st.NumFields(); i++ {
			if travIsBool(st.Field(i).Type()) {
				out = append(out, st.Field(i))
			}
		}
		return out
	}
	// family positions: (f,p) passes p into (g,j)
	parent := map[travFlagPos]travFlagPos{}
	var find func(a travFlagPos) travFlagPos
	find = func(a travFlagPos) travFlagPos {
		if q, ok := parent[a]; ok && q != a {
			r := find(q)
			parent[a] = r
			return r
		}
		parent[a] = a
		return a
	}
	inFam := map[travFlagPos]bool{}
	edges := map[travFlagPos][]travFlagPos{}
	link := func(a, b travFlagPos) {
		inFam[a], inFam[b] = true, true
		edges[a] = append(edges[a], b)
		ra, rb := find(a), find(b)
		if ra != rb {
			parent[ra] = rb
		}
	}
	for _, fi := range order {
		if fi.node < 0 {
			continue
		}
		ast.Inspect(fi.fd.Body, func(n ast.Node) bool {
			call, ok := n.(*ast.CallExpr)
			if !ok {
				return true
			}
			g := fns[CalleeOf(info, call)]
			if g == nil || g.node < 0 || len(call.Args) != g.sg.Params().Len() {
				return true
			}
			for j := 0; j < g.sg.Params().Len(); j++ {
				if !travIsBool(g.sg.Params().At(j).Type()) {
					continue
				}
				for pi := 0; pi < fi.sg.Params().Len(); pi++ {
					po := fi.sg.Params().At(pi)
					if travIsBool(po.Type()) && implied(fi, call.Args[j], po) {
						link(travFlagPos{fn: fi.fn, idx: pi}, travFlagPos{fn: g.fn, idx: j})
					}
				}
				// the flag is handed on from a field of the driver (set by a member of the family, see below)
				for _, fv := range recvBoolFields(fi) {
					if implied(fi, call.Args[j], fv) {
						link(travFlagPos{field: fv}, travFlagPos{fn: g.fn, idx: j})
					}
				}
			}
			return true
		})
		// a function that stores its flag parameter in a field of the driver: the field carries the flag
		ast.Inspect(fi.fd.Body, func(n ast.Node) bool {
			as, ok := n.(*ast.AssignStmt)
			if !ok || as.Tok != token.ASSIGN || len(as.Lhs) != len(as.Rhs) {
				return true
			}
			for i, l := range as.Lhs {
				fv := recvField(fi, l)
				if fv == nil {
					continue
				}
				for pi := 0; pi < fi.sg.Params().Len(); pi++ {
					po := fi.sg.Params().At(pi)
					if travIsBool(po.Type()) && implied(fi, as.Rhs[i], po) {
						link(travFlagPos{fn: fi.fn, idx: pi}, travFlagPos{field: fv})
					}
				}
			}
			return true
		})
	}
	// only recursive families are traversals: some member reaches itself through flag-forwarding calls
	recursive := map[travFlagPos]bool{} // by family root
	for start := range inFam {
		seen := map[travFlagPos]bool{}
		var dfs func(a travFlagPos) bool
		dfs = func(a travFlagPos) bool {
			for _, b := range edges[a] {
				if b == start {
					return true
				}
				if !seen[b] {
					seen[b] = true
					if dfs(b) {
						return true
					}
				}
			}
			return false
		}
		if dfs(start) {
			recursive[find(start)] = true
		}
	}
	for pos := range inFam {
		if !recursive[find(pos)] {
			delete(inFam, pos)
		}
	}
	if len(inFam) == 0 {
		return nil
	}
	// domain of each family: node interfaces of its members' node parameters (a struct parameter contributes the code interfaces it implements)
	domain := map[travFlagPos]map[*types.Named]bool{}
	for pos := range inFam {
		r := find(pos)
		if domain[r] == nil {
			domain[r] = map[*types.Named]bool{}
		}
		if pos.field != nil {
			continue
		}
		fi := fns[pos.fn]
		t := fi.sg.Params().At(fi.node).Type()
		if n := travNamed(t); n != nil && (m.codeIfc[n] || n == m.hmsType) {
			domain[r][n] = true
		}
	}
	inDomain := func(r travFlagPos, s *travStruct) bool {
		for ifc := range domain[r] {
			it := ifc.Underlying().(*types.Interface)
			if types.Implements(s.T, it) || types.Implements(types.NewPointer(s.T), it) {
				return true
			}
		}
		return false
	}
	// the static-context exemption: a family whose flag is set to true for global initialisers, whose constancy the analyzer demands
	neverConstant := func(s *travStruct) bool {
		for i := 0; i < s.T.NumMethods(); i++ {
			f := s.T.Method(i)
			sg := f.Type().(*types.Signature)
			if sg.Params().Len() != 0 || sg.Results().Len() != 1 || !travIsBool(sg.Results().At(0).Type()) {
				continue
			}
			isIfcMethod := false
			for ci := range m.codeIfc {
				it := ci.Underlying().(*types.Interface)
				for k := 0; k < it.NumMethods(); k++ {
					if it.Method(k).Name() == f.Name() {
						isIfcMethod = true
					}
				}
			}
			if d := m.decls[f]; d != nil && isIfcMethod && travSoleReturnC(d.Pkg.TypesInfo, d.Fd.Body.List) == "false" {
				return true
			}
		}
		return false
	}
	staticFamily := map[travFlagPos]string{}

	type site struct {
		fi      *fnInfo
		call    *ast.CallExpr
		g       *fnInfo
		j       int
		owner   *travStruct
		ownerFd string
		self    bool // the node argument is the caller's own node
	}
	var sites []*site
	// owner of a node argument
	ownerOf := func(fi *fnInfo, e ast.Expr) (*travStruct, string, bool) {
		var res func(e ast.Expr, depth int) (*travStruct, string, bool)
		res = func(e ast.Expr, depth int) (*travStruct, string, bool) {
			if depth > 4 {
				return nil, "", false
			}
			switch x := ast.Unparen(e).(type) {
			case *ast.StarExpr:
				return res(x.X, depth+1)
			case *ast.IndexExpr:
				return res(x.X, depth+1)
			case *ast.TypeAssertExpr:
				return res(x.X, depth+1)
			case *ast.SelectorExpr:
				if sel := info.Selections[x]; sel != nil && sel.Kind() == types.FieldVal {
					if s := m.structs[travNamed(sel.Recv())]; s != nil {
						return s, x.Sel.Name, false
					}
				}
			case *ast.Ident:
				o := info.Uses[x]
				if o == nil {
					return nil, "", false
				}
				if paramIdx(fi, o) >= 0 {
					return nil, "", true
				}
				// range variable / local alias
				var found *travStruct
				var fname string
				self := false
				ast.Inspect(fi.fd.Body, func(n ast.Node) bool {
					switch y := n.(type) {
					case *ast.RangeStmt:
						if id, ok := y.Value.(*ast.Ident); ok && info.Defs[id] == o {
							found, fname, self = res(y.X, depth+1)
						}
					case *ast.AssignStmt:
						if y.Tok == token.DEFINE && len(y.Lhs) == len(y.Rhs) {
							for i, l := range y.Lhs {
								if id, ok := l.(*ast.Ident); ok && info.Defs[id] == o {
									found, fname, self = res(y.Rhs[i], depth+1)
								}
							}
						}
					}
					return true
				})
				return found, fname, self
			}
			return nil, "", false
		}
		return res(e, 0)
	}
	for _, fi := range order {
		ast.Inspect(fi.fd.Body, func(n ast.Node) bool {
			call, ok := n.(*ast.CallExpr)
			if !ok {
				return true
			}
			g := fns[CalleeOf(info, call)]
			if g == nil || g.node < 0 || len(call.Args) != g.sg.Params().Len() {
				return true
			}
			for j := 0; j < g.sg.Params().Len(); j++ {
				if !inFam[travFlagPos{fn: g.fn, idx: j}] {
					continue
				}
				ow, fdn, self := ownerOf(fi, call.Args[g.node])
				sites = append(sites, &site{fi: fi, call: call, g: g, j: j, owner: ow, ownerFd: fdn, self: self})
			}
			return true
		})
	}
	// static families: a site passing literal true for a component of a global let of the analyzed program
	for _, s := range sites {
		if id, ok := ast.Unparen(s.call.Args[s.j]).(*ast.Ident); ok && id.Name == "true" && s.owner != nil && m.inA(s.owner.T) {
			progHasGlobals := false
			for _, f := range m.structs[m.progA].Fields {
				for _, cs := range m.carrierStructs(f.Var.Type()) {
					if cs == s.owner {
						progHasGlobals = true
					}
				}
			}
			if progHasGlobals && travNodeParam(m, s.fi.sg) >= 0 && len(m.carrierStructs(s.fi.sg.Params().At(travNodeParam(m, s.fi.sg)).Type())) > 0 {
				staticFamily[find(travFlagPos{fn: s.g.fn, idx: s.j})] = fmt.Sprintf("%s enters with true for %s.%s of the program's top-level declarations", travFuncKey(p, s.fi.fd), s.owner.Short(), s.ownerFd)
			}
		}
	}
	var obs []Obligation
	seen := map[string]int{}
	for _, s := range sites {
		gpos := travFlagPos{fn: s.g.fn, idx: s.j}
		root := find(gpos)
		flagName := s.g.sg.Params().At(s.j).Name()
		what := "?"
		switch {
		case s.self:
			what = "the current node"
		case s.owner != nil:
			what = s.owner.Short() + "." + s.ownerFd
		default:
			what = exprStr(s.call.Args[s.g.node])
		}
		key := fmt.Sprintf("%s|%s(%s)|%s", travFuncKey(p, s.fi.fd), s.g.fn.Name(), what, flagName)
		seen[key]++
		if seen[key] > 1 {
			key = fmt.Sprintf("%s#%d", key, seen[key])
		}
		ob := Obligation{Key: key, Pos: c.Pos(s.call.Pos()), Nontrivial: true}
		arg := s.call.Args[s.j]
		// the caller's own flag position in the same family: a parameter, or the driver field that carries the flag
		var callerFlag types.Object
		for _, fv := range recvBoolFields(s.fi) {
			if pp := (travFlagPos{field: fv}); inFam[pp] && find(pp) == root {
				callerFlag = fv
			}
		}
		for pi := 0; pi < s.fi.sg.Params().Len(); pi++ {
			if pp := (travFlagPos{fn: s.fi.fn, idx: pi}); inFam[pp] && find(pp) == root {
				if callerFlag != nil && !implied(s.fi, arg, s.fi.sg.Params().At(pi)) && implied(s.fi, arg, callerFlag) {
					continue // the argument is the field, which this function has set from its parameter
				}
				callerFlag = s.fi.sg.Params().At(pi)
			}
		}
		inDom := s.self || (s.owner != nil && inDomain(root, s.owner))
		var domNames []string
		for d := range domain[root] {
			domNames = append(domNames, d.Obj().Name())
		}
		sort.Strings(domNames)
		dom := strings.Join(domNames, "/")
		switch {
		case callerFlag != nil && implied(s.fi, arg, callerFlag):
			ob.Status, ob.Detail = Discharged, fmt.Sprintf("passes `%s`, implied by the caller's flag %s", exprStr(arg), callerFlag.Name())
		case s.owner == nil && !s.self && travIsCallResult(info, s.fi.fd, s.call.Args[s.g.node]):
			ob.Status, ob.Detail = Discharged, fmt.Sprintf("flag argument `%s`: `%s` is a freshly produced tree (a call result), not a component of the node being traversed: a new root", exprStr(arg), exprStr(s.call.Args[s.g.node]))
		case s.owner == nil && !s.self:
			ob.Status, ob.Detail = Undecided, fmt.Sprintf("cannot determine which node `%s` is a component of; flag argument is `%s`", exprStr(s.call.Args[s.g.node]), exprStr(arg))
		case !inDom:
			ob.Status, ob.Detail = Discharged, fmt.Sprintf("flag argument `%s`: new context — %s is a component of %s, which is not a %s node (a statement/block/declaration starts its own context)", exprStr(arg), what, s.owner.Short(), dom)
		default:
			k := s.owner
			if k == nil && s.fi.node >= 0 {
				for _, cs := range m.carrierStructs(s.fi.sg.Params().At(s.fi.node).Type()) {
					k = cs
				}
			}
			how := "the caller carries the flag `" + func() string {
				if callerFlag != nil {
					return callerFlag.Name()
				}
				return "-"
			}() + "` but passes"
			if callerFlag == nil {
				how = "the caller is a helper without the flag (entered with a " + dom + " node) and re-enters the family with"
			}
			ob.Status = Violated
			ob.Detail = fmt.Sprintf("%s `%s` for %s, a component of a %s node: the context flag %s of %s is replaced by a constant for this sub-tree", how, exprStr(arg), what, dom, flagName, s.g.fn.Name())
			if w := staticFamily[root]; w != "" && k != nil && neverConstant(k) {
				ob.Status = Info
				ob.Detail += fmt.Sprintf(" — informational only: %s, and %s.Constant() is `return false`, so a %s can never occur inside a constant (static) initialiser", w, k.Short(), k.Short())
			}
		}
		obs = append(obs, ob)
	}
	// a flag carried in a field of the driver: inside the traversal it may only be set from the flag
	// parameter of a family member (a sub-traversal starts) or put back to a value saved from it (it ends)
	seenW := map[string]int{}
	for _, fi := range order {
		if fi.node < 0 {
			continue
		}
		ast.Inspect(fi.fd.Body, func(n ast.Node) bool {
			as, ok := n.(*ast.AssignStmt)
			if !ok || len(as.Lhs) != len(as.Rhs) {
				return true
			}
			for i, l := range as.Lhs {
				fv := recvField(fi, l)
				if fv == nil || !inFam[travFlagPos{field: fv}] {
					continue
				}
				root := find(travFlagPos{field: fv})
				key := fmt.Sprintf("%s|sets the flag field %s", travFuncKey(p, fi.fd), fv.Name())
				seenW[key]++
				if seenW[key] > 1 {
					key = fmt.Sprintf("%s#%d", key, seenW[key])
				}
				ob := Obligation{Key: key, Pos: c.Pos(as.Pos()), Nontrivial: true}
				rhs := as.Rhs[i]
				asg := exprStr(l) + " " + as.Tok.String() + " " + exprStr(rhs)
				fromParam := false
				for pi := 0; pi < fi.sg.Params().Len(); pi++ {
					if pp := (travFlagPos{fn: fi.fn, idx: pi}); inFam[pp] && find(pp) == root && implied(fi, rhs, fi.sg.Params().At(pi)) {
						fromParam = true
					}
				}
				switch {
				case as.Tok != token.ASSIGN:
					ob.Status, ob.Detail = Undecided, fmt.Sprintf("compound assignment `%s` to the flag field %s", asg, fv.Name())
				case fromParam:
					ob.Status, ob.Detail = Discharged, fmt.Sprintf("`%s`: set from the function's own flag parameter (a sub-traversal starts in the context its caller asks for)", asg)
				case implied(fi, rhs, fv):
					ob.Status, ob.Detail = Discharged, fmt.Sprintf("`%s`: put back to a value saved from the field itself (the sub-traversal is over)", asg)
				default:
					ob.Status = Violated
					ob.Detail = fmt.Sprintf("`%s` overwrites the context flag %s of the traversal with a value that derives neither from the function's flag parameter nor from the saved field: the rest of the traversal runs in the wrong context", asg, fv.Name())
				}
				obs = append(obs, ob)
			}
			return true
		})
	}
	return obs
}

// travIsCallResult: e is a call, or a local defined from a (multi-value) call.
func travIsCallResult(info *types.Info, fd *ast.FuncDecl, e ast.Expr) bool {
	e = ast.Unparen(e)
	if _, ok := e.(*ast.CallExpr); ok {
		return true
	}
	id, ok := e.(*ast.Ident)
	if !ok {
		return false
	}
	o := info.Uses[id]
	res := false
	ast.Inspect(fd.Body, func(n ast.Node) bool {
		as, ok := n.(*ast.AssignStmt)
		if !ok || as.Tok != token.DEFINE {
			return true
		}
		for i, l := range as.Lhs {
			if lid, ok := l.(*ast.Ident); ok && info.Defs[lid] == o {
				r := as.Rhs[0]
				if len(as.Rhs) == len(as.Lhs) {
					r = as.Rhs[i]
				}
				if c, ok := ast.Unparen(r).(*ast.CallExpr); ok {
					if tv, isT := info.Types[c.Fun]; !(isT && tv.IsType()) {
						res = true
					}
				}
			}
		}
		return true
	})
	return res
}
