package main

// R-frame-slots (r2emit group): slots created == slots counted.

import (
	"fmt"
	"go/ast"
	"go/token"
	"go/types"
	"sort"
	"strings"
)

func init() {
	register(&Rule{ID: "R-frame-slots", Floor: 5, Run: ruleR2FrameSlots,
		Doc: "frame size: renameVariables gives every mangled variable name of a function its own memory slot 0..n-1 and Core.absolute addresses slot k at MemoryPointer-k, while the function prologue reserves exactly Function.CntVariables slots (AddMempointer). Therefore on every path of the compiler, every call of the helper that registers a fresh mangled variable name (the method that writes the current scope map) whose result can reach a local-variable instruction (SetVarImm/GetVarImm) is matched by at least one increment of the current function's variable counter — inside the helper or at the call site; counted >= created, summed over helper calls and loop iterations (symbolic trip counts), by induction over the mutually recursive compile functions. The counter is only ever incremented, and the prologue/epilogue operand is read from it after the last child compilation of the function. Necessary for C01/C09: one uncounted slot makes the function's highest-numbered variable live at the caller's slot 0, so a call silently overwrites a local of the caller"})
}

type r2Slots struct {
	c         *Ctx
	roles     *vmCompilerRoles
	counter   *types.Var
	registrar *types.Func
	localOps  map[*types.Const]bool
	rec       map[*types.Func]bool
	summ      map[*types.Func]*r2Lin
	busy      map[*types.Func]bool
	siteSlot  map[*ast.CallExpr]bool // registrar call site → creates a local slot
	siteWhy   map[*ast.CallExpr]string
	walks     map[*types.Func]*vmWalkResult
	summWhy   map[*types.Func]string
}

// r2SeqEffect sums the effects of ev[lo:hi], multiplying the segment of a loop
// iteration by the loop's trip symbol.
func r2SeqEffect(info *types.Info, ev []vmEv, lo, hi int, single func(e vmEv) r2Lin, problems *[]string) r2Lin {
	total := r2LinC(0)
	for i := lo; i < hi; {
		// the outermost iteration that starts here
		j := -1
		for k := hi - 1; k > i; k-- {
			if ev[k].K == evIter && ev[k].From == i {
				j = k
				break
			}
		}
		if j >= 0 {
			inner := r2SeqEffect(info, ev, i, j, single, problems)
			sym := vmTripSymbol(info, ev[j].Loop)
			// (trip count) × (per-iteration effect); products of trip symbols are fresh
			// non-negative symbols, so the sign analysis stays exact enough
			if inner.c != 0 {
				total = total.add(r2LinS(sym, inner.c))
			}
			for k, v := range inner.s {
				total = total.add(r2LinS(sym+"·"+k, v))
			}
			i = j + 1
			continue
		}
		total = total.add(single(ev[i]))
		i++
	}
	return total
}

func (s *r2Slots) relevantFor(fn *vmFn) func(n ast.Node) bool {
	info := fn.info
	return func(n ast.Node) bool {
		switch x := n.(type) {
		case *ast.CallExpr:
			g := CalleeOf(info, x)
			if g == nil {
				if id, ok := x.Fun.(*ast.Ident); ok {
					if b, isB := info.Uses[id].(*types.Builtin); isB && b.Name() == "panic" {
						return true
					}
				}
				return false
			}
			if g == s.registrar {
				return true
			}
			if s.roles.byObj[g] != nil && !s.rec[g] {
				if l := s.summary(g); l == nil || !(l.isConst() && l.c == 0) {
					return true
				}
			}
			return vmAlwaysPanics(s.c, g)
		case *ast.AssignStmt:
			for _, l := range x.Lhs {
				if vmFieldOf(info, l) == s.counter {
					return true
				}
			}
		case *ast.IncDecStmt:
			if vmFieldOf(info, x.X) == s.counter {
				return true
			}
		}
		return false
	}
}

func (s *r2Slots) walk(g *types.Func) *vmWalkResult {
	if w, ok := s.walks[g]; ok {
		return w
	}
	fn := s.roles.byObj[g]
	w := vmWalk(vmWalkOpts{fn: fn, correlate: true, replace: vmSlicer(s.relevantFor(fn))})
	s.walks[g] = w
	return w
}

func (s *r2Slots) single(fn *vmFn, problems *[]string) func(e vmEv) r2Lin {
	info := fn.info
	return func(e vmEv) r2Lin {
		switch e.K {
		case evCall:
			if e.Fn == nil || e.Deferred {
				return r2LinC(0)
			}
			out := r2LinC(0)
			if e.Fn == s.registrar && s.siteSlot[e.Call] {
				out = out.add(r2LinC(-1))
			}
			if s.roles.byObj[e.Fn] != nil && !s.rec[e.Fn] {
				if l := s.summary(e.Fn); l != nil {
					out = out.add(*l)
				} else {
					*problems = append(*problems, "callee "+e.Fn.Name()+" could not be summarised ("+s.summWhy[e.Fn]+")")
				}
			}
			return out
		case evIncDec:
			if vmFieldOf(info, e.X) == s.counter {
				if e.Tok == token.INC {
					return r2LinC(1)
				}
				*problems = append(*problems, fmt.Sprintf("the variable counter is decremented @%s", s.c.Pos(e.Pos)))
			}
		case evAssign:
			if vmFieldOf(info, e.Lhs) != s.counter {
				return r2LinC(0)
			}
			if e.Tok == token.ADD_ASSIGN && e.Rhs != nil {
				if k, ok := r2ConstInt(info, e.Rhs); ok && k >= 0 {
					return r2LinC(int(k))
				}
				rhs := vmStripConv(info, e.Rhs)
				if a := r2IsLenOf(info, rhs); a != nil {
					return r2LinS("len("+exprStr(a)+")", 1)
				}
				if be, ok := rhs.(*ast.BinaryExpr); ok && be.Op == token.ADD {
					// const + len(X)
					out := r2LinC(0)
					okAll := true
					for _, t := range []ast.Expr{be.X, be.Y} {
						if k, ok := r2ConstInt(info, t); ok && k >= 0 {
							out = out.add(r2LinC(int(k)))
						} else if a := r2IsLenOf(info, t); a != nil {
							out = out.add(r2LinS("len("+exprStr(a)+")", 1))
						} else {
							okAll = false
						}
					}
					if okAll {
						return out
					}
				}
				*problems = append(*problems, fmt.Sprintf("increment by `%s` @%s is neither a constant nor len(collection)", vmTrunc(exprStr(e.Rhs), 40), s.c.Pos(e.Pos)))
				return r2LinC(0)
			}
			*problems = append(*problems, fmt.Sprintf("the variable counter is overwritten (`%s %s %s`) @%s: slots counted so far are lost", exprStr(e.Lhs), e.Tok, vmTrunc(exprStr(e.Rhs), 30), s.c.Pos(e.Pos)))
		}
		return r2LinC(0)
	}
}

// summary: worst (pointwise minimal) balance of a non-recursive function over its non-panicking paths.
func (s *r2Slots) summary(g *types.Func) *r2Lin {
	if l, ok := s.summ[g]; ok {
		return l
	}
	if s.busy[g] {
		return nil
	}
	fn := s.roles.byObj[g]
	if fn == nil {
		z := r2LinC(0)
		return &z
	}
	s.busy[g] = true
	defer delete(s.busy, g)
	// quick exit: function mentions nothing relevant
	w := s.walk(g)
	if w.overflow {
		s.summ[g] = nil
		s.summWhy[g] = "path cap exceeded"
		return nil
	}
	var worst *r2Lin
	var problems []string
	for i := range w.paths {
		p := &w.paths[i]
		if p.o.kind == cPanic {
			continue
		}
		l := r2SeqEffect(fn.info, p.ev, 0, len(p.ev), s.single(fn, &problems), &problems)
		if worst == nil {
			worst = &l
			continue
		}
		m := r2LinC(min(worst.c, l.c))
		keys := map[string]bool{}
		for k := range worst.s {
			keys[k] = true
		}
		for k := range l.s {
			keys[k] = true
		}
		for k := range keys {
			if v := min(worst.s[k], l.s[k]); v != 0 {
				m = m.add(r2LinS(k, v))
			}
		}
		worst = &m
	}
	if worst == nil {
		z := r2LinC(0)
		worst = &z
	}
	if len(problems) > 0 {
		s.summ[g] = nil
		s.summWhy[g] = strings.Join(vmUniq(problems), "; ")
		return nil
	}
	s.summ[g] = worst
	return worst
}

func ruleR2FrameSlots(c *Ctx) []Obligation {
	r2LoopCtx = c
	roles := vmCompRoles(c)
	comp := c.Pkg("homescript/compiler")
	s := &r2Slots{c: c, roles: roles, localOps: map[*types.Const]bool{}, rec: map[*types.Func]bool{}, summ: map[*types.Func]*r2Lin{}, busy: map[*types.Func]bool{}, siteSlot: map[*ast.CallExpr]bool{}, siteWhy: map[*ast.CallExpr]string{}, walks: map[*types.Func]*vmWalkResult{}, summWhy: map[*types.Func]string{}}
	// the variable counter: the integer field of compiler.Function
	if obj := comp.Types.Scope().Lookup("Function"); obj != nil {
		if st, ok := obj.Type().Underlying().(*types.Struct); ok {
			for i := 0; i < st.NumFields(); i++ {
				if b, ok := st.Field(i).Type().Underlying().(*types.Basic); ok && b.Info()&types.IsInteger != 0 {
					if s.counter != nil {
						fatalf("anchor ambiguous: compiler.Function has several integer fields (%s, %s)", s.counter.Name(), st.Field(i).Name())
					}
					s.counter = st.Field(i)
				}
			}
		}
	}
	if s.counter == nil {
		fatalf("anchor unresolved: integer field of compiler.Function (the variable counter)")
	}
	// the registrar: the Compiler method that returns a string and stores into a map[string]string (the current scope)
	for _, fn := range roles.fns {
		obj, _ := fn.info.Defs[fn.fd.Name].(*types.Func)
		if obj == nil || fn.fd.Recv == nil {
			continue
		}
		sig := obj.Type().(*types.Signature)
		if sig.Results().Len() != 1 || !types.Identical(sig.Results().At(0).Type(), types.Typ[types.String]) {
			continue
		}
		ast.Inspect(fn.fd.Body, func(n ast.Node) bool {
			as, ok := n.(*ast.AssignStmt)
			if !ok {
				return true
			}
			for _, l := range as.Lhs {
				ix, ok := ast.Unparen(l).(*ast.IndexExpr)
				if !ok {
					continue
				}
				m, ok := fn.info.TypeOf(ix.X).Underlying().(*types.Map)
				if !ok || !types.Identical(m.Key(), types.Typ[types.String]) || !types.Identical(m.Elem(), types.Typ[types.String]) {
					continue
				}
				if s.registrar != nil && s.registrar != obj {
					fatalf("anchor ambiguous: %s and %s both return a string and write a map[string]string scope", s.registrar.Name(), obj.Name())
				}
				s.registrar = obj
			}
			return true
		})
	}
	if s.registrar == nil {
		fatalf("anchor unresolved: the Compiler method that registers a mangled variable name in the current scope")
	}
	for _, n := range []string{"Opcode_SetVarImm", "Opcode_GetVarImm"} {
		s.localOps[vmConst(c, "homescript/compiler", n)] = true
	}
	// recursive functions
	for f := range roles.callees {
		if roles.reachableFrom(f)[f] {
			s.rec[f] = true
		}
	}
	// classify registrar call sites
	nSites, nSlotSites := 0, 0
	for _, fn := range roles.fns {
		fi := fn.info
		ast.Inspect(fn.fd.Body, func(n ast.Node) bool {
			as, isAs := n.(*ast.AssignStmt)
			var call *ast.CallExpr
			var res types.Object
			if isAs && len(as.Rhs) == 1 && len(as.Lhs) == 1 {
				if cl, ok := ast.Unparen(as.Rhs[0]).(*ast.CallExpr); ok && CalleeOf(fi, cl) == s.registrar {
					call, res = cl, vmObjOf(fi, as.Lhs[0])
				}
			}
			if call == nil {
				return true
			}
			nSites++
			// opcodes of the instructions that receive the result
			ops := map[*types.Const]bool{}
			unresolved := false
			used := false
			ast.Inspect(fn.fd.Body, func(m ast.Node) bool {
				ic, ok := m.(*ast.CallExpr)
				if !ok || res == nil {
					return true
				}
				// an emission (primitive, forwarding wrapper, single-instruction helper) that carries the name
				em, isEm := r2EmitIdx(c).of(fn, ic)
				if !isEm {
					return true
				}
				carries := false
				for _, a := range em.args {
					if a != nil && vmMentionsObj(fi, a, res) {
						carries = true
					}
				}
				if !carries {
					return true
				}
				used = true
				foundOp := false
				for _, a := range []ast.Expr{em.opExpr} {
					if a == nil {
						continue
					}
					foundOp = true
					if k := ConstOf(fi, a); k != nil {
						ops[k] = true
						continue
					}
					// opcode variable: all constants assigned to it in the function
					ov := vmObjOf(fi, a)
					any := false
					ast.Inspect(fn.fd.Body, func(q ast.Node) bool {
						if as2, ok := q.(*ast.AssignStmt); ok {
							for i, l := range as2.Lhs {
								if ov != nil && vmObjOf(fi, l) == ov && i < len(as2.Rhs) {
									if k := ConstOf(fi, as2.Rhs[i]); k != nil {
										ops[k] = true
										any = true
									} else {
										unresolved = true
									}
								}
							}
						}
						return true
					})
					if !any {
						unresolved = true
					}
				}
				if !foundOp {
					unresolved = true
				}
				return true
			})
			isSlot := !used || unresolved
			var names []string
			for k := range ops {
				names = append(names, k.Name())
				if s.localOps[k] {
					isSlot = true
				}
			}
			sort.Strings(names)
			s.siteSlot[call] = isSlot
			if isSlot {
				nSlotSites++
			}
			s.siteWhy[call] = fmt.Sprintf("%s @%s → %v", fn.name, c.Pos(call.Pos()), names)
			return true
		})
		// registrar calls whose result is not bound to a variable (returned, passed on): slot-creating
		ast.Inspect(fn.fd.Body, func(n ast.Node) bool {
			if cl, ok := n.(*ast.CallExpr); ok && CalleeOf(fi, cl) == s.registrar {
				if _, seen := s.siteSlot[cl]; !seen {
					s.siteSlot[cl] = true
					s.siteWhy[cl] = fmt.Sprintf("%s @%s → (result not bound to a variable)", fn.name, c.Pos(cl.Pos()))
					nSites++
					nSlotSites++
				}
			}
			return true
		})
	}
	var obs []Obligation
	if nSlotSites == 0 {
		return []Obligation{{Key: "compiler|slot-creating sites", Status: Undecided, Detail: fmt.Sprintf("no call of %s reaches a local-variable instruction: re-anchor the rule", s.registrar.Name())}}
	}
	var inv []string
	for cl, why := range s.siteWhy {
		tag := "slot"
		if !s.siteSlot[cl] {
			tag = "no slot (global only)"
		}
		inv = append(inv, why+" : "+tag)
	}
	sort.Strings(inv)
	obs = append(obs, Obligation{Key: "compiler|inventory of sites registering a variable name", Status: Info, Detail: fmt.Sprintf("registrar %s, counter %s; %d site(s), %d may create a frame slot:\n      %s", s.registrar.Name(), vmFieldName(s.counter), nSites, nSlotSites, strings.Join(inv, "\n      "))})

	// which functions carry obligations: recursive ones and roots
	called := map[*types.Func]bool{}
	for _, cs := range roles.callees {
		for g := range cs {
			called[g] = true
		}
	}
	var fobjs []*types.Func
	for f := range roles.byObj {
		fobjs = append(fobjs, f)
	}
	sort.Slice(fobjs, func(i, j int) bool { return roles.byObj[fobjs[i]].name < roles.byObj[fobjs[j]].name })
	for _, f := range fobjs {
		fn := roles.byObj[f]
		if !(s.rec[f] || !called[f]) {
			continue
		}
		w := s.walk(f)
		if w.overflow {
			obs = append(obs, Obligation{Key: fn.name + "|<paths>", Pos: c.Pos(fn.fd.Pos()), Status: Undecided, Detail: "path cap exceeded"})
			continue
		}
		tops := vmTopPosSet(c, fn)
		type unit struct {
			worst    *r2Lin
			witness  string
			n        int
			touched  bool
			problems []string
			pos      token.Pos
		}
		units := map[string]*unit{}
		for i := range w.paths {
			p := &w.paths[i]
			if p.o.kind == cPanic {
				continue
			}
			name := vmUnitOf(fn.info, tops, p)
			u := units[name]
			if u == nil {
				u = &unit{pos: fn.fd.Pos()}
				for _, e := range p.ev {
					if e.K == evCase && tops[e.Pos] {
						u.pos = vmClausePos(e)
						break
					}
				}
				units[name] = u
			}
			u.n++
			var problems []string
			touched := false
			single := s.single(fn, &problems)
			l := r2SeqEffect(fn.info, p.ev, 0, len(p.ev), func(e vmEv) r2Lin {
				d := single(e)
				if !(d.isConst() && d.c == 0) {
					touched = true
				}
				if e.K == evCall && (e.Fn == s.registrar || (e.Fn != nil && s.roles.byObj[e.Fn] != nil && !s.rec[e.Fn] && s.mentionsRegistrar(e.Fn))) {
					touched = true
				}
				return d
			}, &problems)
			u.problems = append(u.problems, problems...)
			if touched {
				u.touched = true
			}
			if u.worst == nil || (!l.nonNeg() && u.worst.nonNeg()) || (l.nonNeg() == u.worst.nonNeg() && l.lessEq(*u.worst) && !u.worst.lessEq(l)) {
				ll := l
				u.worst = &ll
				u.witness = fmt.Sprintf("path [%s] (%s): %s", p.decisions(), p.exitStr(c), s.describe(fn, p))
			}
		}
		var names []string
		for n := range units {
			names = append(names, n)
		}
		sort.Strings(names)
		for _, n := range names {
			u := units[n]
			if !u.touched && len(u.problems) == 0 {
				continue
			}
			key := fn.name
			if n != "" {
				key += "|" + n
			}
			ob := Obligation{Key: key + "|variable slots counted >= slots created on every path", Pos: c.Pos(u.pos), Nontrivial: true}
			switch {
			case len(u.problems) > 0:
				ob.Status, ob.Detail = Violated, strings.Join(vmUniq(u.problems), " | ")
				for _, pr := range u.problems {
					if strings.HasPrefix(pr, "non-linear") || strings.HasPrefix(pr, "increment by") || strings.HasPrefix(pr, "callee") {
						ob.Status = Undecided
					}
				}
			case u.worst != nil && !u.worst.nonNeg():
				ob.Status = Violated
				ob.Detail = fmt.Sprintf("balance (counted - created) = %s on %s. The frame reserved by the prologue is smaller than the number of slots renameVariables hands out: the function's highest-numbered variable is stored at MemoryPointer-n of the CALLER's frame (its slot 0), so calling this function overwrites the caller's first parameter / local", u.worst.String(), u.witness)
			default:
				ob.Status, ob.Detail = Discharged, fmt.Sprintf("%d path(s); worst balance (counted - created) = %s; e.g. %s", u.n, u.worst.String(), vmTrunc(u.witness, 400))
			}
			obs = append(obs, ob)
		}
	}
	// the frame size is read after the last child compilation / slot creation
	for _, f := range fobjs {
		fn := roles.byObj[f]
		reads := false
		ast.Inspect(fn.fd.Body, func(n ast.Node) bool {
			switch x := n.(type) {
			case *ast.AssignStmt:
				for _, r := range x.Rhs {
					if vmMentionsField(fn.info, r, s.counter) {
						reads = true
					}
				}
			case *ast.CallExpr:
				for _, a := range x.Args {
					if vmMentionsField(fn.info, a, s.counter) {
						reads = true
					}
				}
			}
			return true
		})
		if !reads {
			continue
		}
		relevant := func(n ast.Node) bool {
			switch x := n.(type) {
			case *ast.CallExpr:
				g := CalleeOf(fn.info, x)
				return g != nil && (roles.emitters[g] || g == s.registrar)
			case *ast.AssignStmt:
				return vmMentionsField(fn.info, x, s.counter)
			case *ast.IncDecStmt:
				return vmMentionsField(fn.info, x, s.counter)
			}
			return false
		}
		w := vmWalk(vmWalkOpts{fn: fn, correlate: true, replace: vmSlicer(relevant)})
		ob := Obligation{Key: fn.name + "|the frame size is read from the counter after the last slot can be created", Pos: c.Pos(fn.fd.Pos()), Nontrivial: true}
		if w.overflow {
			ob.Status, ob.Detail = Undecided, "path cap exceeded"
			obs = append(obs, ob)
			continue
		}
		var bad []string
		nRead := 0
		for i := range w.paths {
			p := &w.paths[i]
			if p.o.kind == cPanic {
				continue
			}
			readAt := -1
			for j, e := range p.ev {
				isRead := false
				switch e.K {
				case evAssign:
					isRead = e.Rhs != nil && vmMentionsField(fn.info, e.Rhs, s.counter) && vmFieldOf(fn.info, e.Lhs) != s.counter
				case evCall:
					for _, a := range e.Call.Args {
						if vmMentionsField(fn.info, a, s.counter) {
							isRead = true
						}
					}
				}
				if isRead && readAt < 0 {
					readAt = j
					nRead++
					continue
				}
				if readAt < 0 {
					continue
				}
				late := ""
				switch e.K {
				case evCall:
					if e.Fn == s.registrar {
						late = "a variable name is registered"
					} else if e.Fn != nil && roles.byObj[e.Fn] != nil && !e.Deferred && s.canCreateSlot(e.Fn) {
						// a callee that can register a variable name or touch the counter (a child
						// compilation); pure emission helpers (epilogue, wrappers of insert) cannot
						late = "a child compilation (" + e.Fn.Name() + ") runs"
					}
				case evIncDec:
					if vmFieldOf(fn.info, e.X) == s.counter {
						late = "the counter is incremented"
					}
				case evAssign:
					if vmFieldOf(fn.info, e.Lhs) == s.counter {
						late = "the counter is written"
					}
				}
				if late != "" {
					bad = append(bad, fmt.Sprintf("%s @%s after the counter was read @%s (path [%s]): slots created later are not part of the reserved frame", late, c.Pos(e.Pos), c.Pos(p.ev[readAt].Pos), vmTrunc(p.decisions(), 200)))
				}
			}
		}
		switch {
		case len(bad) > 0:
			ob.Status, ob.Detail = Violated, strings.Join(vmUniq(bad), " | ")
		case nRead == 0:
			ob.Status, ob.Detail = Undecided, "the function mentions the counter but no path reads it"
		default:
			ob.Status, ob.Detail = Discharged, fmt.Sprintf("on %d path(s) nothing that creates a slot follows the read", nRead)
		}
		obs = append(obs, ob)
	}
	return obs
}

// canCreateSlot: g (transitively) reaches the registrar or writes the variable counter.
func (s *r2Slots) canCreateSlot(g *types.Func) bool {
	if s.mentionsRegistrar(g) {
		return true
	}
	touches := func(h *types.Func) bool {
		fn := s.roles.byObj[h]
		return fn != nil && vmWritesField(fn.info, fn.fd.Body, s.counter)
	}
	if touches(g) {
		return true
	}
	for h := range s.roles.reachableFrom(g) {
		if touches(h) {
			return true
		}
	}
	return false
}

func (s *r2Slots) mentionsRegistrar(g *types.Func) bool {
	if g == s.registrar {
		return true
	}
	if s.roles.callees[g][s.registrar] {
		return true
	}
	return s.roles.reachableFrom(g)[s.registrar]
}

// describe renders the counting-relevant events of a path.
func (s *r2Slots) describe(fn *vmFn, p *vmPath) string {
	var out []string
	for _, e := range p.ev {
		switch e.K {
		case evCall:
			if e.Fn == nil {
				continue
			}
			if e.Fn == s.registrar {
				t := fmt.Sprintf("%s(%s) @%s", e.Fn.Name(), vmTrunc(exprStr(e.Call.Args[0]), 40), s.c.Pos(e.Pos))
				if s.siteSlot[e.Call] {
					t += " creates a slot"
				}
				if l := s.summary(e.Fn); l != nil {
					t += fmt.Sprintf(" (helper counts %s)", l.String())
				}
				out = append(out, t)
			} else if s.roles.byObj[e.Fn] != nil && !s.rec[e.Fn] {
				if l := s.summary(e.Fn); l != nil && !(l.isConst() && l.c == 0) {
					out = append(out, fmt.Sprintf("%s() nets %s", e.Fn.Name(), l.String()))
				}
			}
		case evIncDec:
			if vmFieldOf(fn.info, e.X) == s.counter {
				out = append(out, fmt.Sprintf("counter%s @%s", e.Tok, s.c.Pos(e.Pos)))
			}
		case evAssign:
			if vmFieldOf(fn.info, e.Lhs) == s.counter {
				out = append(out, fmt.Sprintf("counter %s %s @%s", e.Tok, vmTrunc(exprStr(e.Rhs), 30), s.c.Pos(e.Pos)))
			}
		case evIter:
			out = append(out, "(×"+vmTripSymbol(fn.info, e.Loop)+")")
		}
	}
	if len(out) == 0 {
		return "nothing counted, nothing created"
	}
	return strings.Join(out, "; ")
}
