package main

// R-scope-binding (r2emit group): a variable name is registered in the scope
// in which its binder makes it visible.

import (
	"fmt"
	"go/ast"
	"go/types"
	"sort"
	"strings"
)

func init() {
	register(&Rule{ID: "R-scope-binding", Floor: 4, Run: ruleR2ScopeBinding,
		Doc: "lexical scoping in the bytecode compiler: the helper that registers a fresh mangled variable name writes it into the scope that is current AT THE CALL. On every path of a lowering, between that call and the instruction that binds the name (the first Set*Imm carrying it) no scope is pushed or popped: a push in between means the name was registered in the ENCLOSING scope although the analyzer and the interpreter declare it in the construct's own scope (push scope, then declare), so after the construct the enclosing scope still resolves the identifier to the construct's variable — an outer variable of the same name is shadowed for the rest of the block and reads a slot that may never have been written; a pop in between loses the name before it is bound. Necessary for C01/C04 (lexical block scoping; VM and interpreter agree)"})
}

func ruleR2ScopeBinding(c *Ctx) []Obligation {
	r2LoopCtx = c
	roles := vmCompRoles(c)
	// the registrar, by the same role as in R-frame-slots
	var registrar *types.Func
	for _, fn := range roles.fns {
		obj, _ := fn.info.Defs[fn.fd.Name].(*types.Func)
		if obj == nil || fn.fd.Recv == nil {
			continue
		}
		sig := obj.Type().(*types.Signature)
		if sig.Results().Len() != 1 || !types.Identical(sig.Results().At(0).Type(), types.Typ[types.String]) {
			continue
		}
		ast.Inspect(fn.fd.Body, func(n ast.Node) bool {
			as, ok := n.(*ast.AssignStmt)
			if !ok {
				return true
			}
			for _, l := range as.Lhs {
				ix, ok := ast.Unparen(l).(*ast.IndexExpr)
				if !ok {
					continue
				}
				m, ok := fn.info.TypeOf(ix.X).Underlying().(*types.Map)
				if ok && types.Identical(m.Key(), types.Typ[types.String]) && types.Identical(m.Elem(), types.Typ[types.String]) {
					registrar = obj
				}
			}
			return true
		})
	}
	if registrar == nil {
		fatalf("anchor unresolved: the Compiler method that registers a mangled variable name in the current scope")
	}
	type verdict struct {
		pos      string
		arg      string
		bad      []string
		paths    int
		unbound  int
		bindings map[string]bool
	}
	verdicts := map[string]*verdict{}
	var keys []string
	var obs []Obligation
	for _, fn := range roles.fns {
		obj, _ := fn.info.Defs[fn.fd.Name].(*types.Func)
		if obj == nil || obj == registrar || !roles.callees[obj][registrar] {
			continue
		}
		info := fn.info
		relevant := func(n ast.Node) bool {
			call, ok := n.(*ast.CallExpr)
			if !ok {
				return false
			}
			g := CalleeOf(info, call)
			if g == nil {
				return false
			}
			if g == registrar || r2EmitIdx(c).isForward(g) || r2EmitIdx(c).singleOf(g) != nil {
				return true
			}
			if _, ok := roles.scopes.push[g]; ok {
				return true
			}
			if _, ok := roles.scopes.pop[g]; ok {
				return true
			}
			return false
		}
		res := vmWalk(vmWalkOpts{fn: fn, correlate: true, replace: vmSlicer(relevant)})
		if res.overflow {
			obs = append(obs, Obligation{Key: fn.name + "|<paths>", Pos: c.Pos(fn.fd.Pos()), Status: Undecided, Detail: "path cap exceeded"})
			continue
		}
		count := map[string]int{}
		siteKey := map[*ast.CallExpr]string{}
		keyOf := func(call *ast.CallExpr) string {
			if k, ok := siteKey[call]; ok {
				return k
			}
			arg := "?"
			if len(call.Args) > 0 {
				arg = vmTrunc(exprStr(call.Args[0]), 50)
			}
			k := r2UnitKey(c, fn, call.Pos()) + "|" + registrar.Name() + "(" + arg + ")"
			count[k]++
			if count[k] > 1 {
				k += fmt.Sprintf(" #%d", count[k])
			}
			siteKey[call] = k
			return k
		}
		for i := range res.paths {
			p := &res.paths[i]
			if p.o.kind == cPanic {
				continue
			}
			type pending struct {
				call *ast.CallExpr
				at   int
			}
			open := map[types.Object]pending{}
			for j, e := range p.ev {
				switch e.K {
				case evAssign:
					if e.Rhs == nil {
						continue
					}
					if call, ok := ast.Unparen(e.Rhs).(*ast.CallExpr); ok && CalleeOf(info, call) == registrar {
						if o := vmObjOf(info, e.Lhs); o != nil {
							// the call event precedes its assignment event
							at := j
							for k := j - 1; k >= 0; k-- {
								if p.ev[k].K == evCall && p.ev[k].Call == call {
									at = k
									break
								}
							}
							open[o] = pending{call, at}
							k := keyOf(call)
							if verdicts[k] == nil {
								verdicts[k] = &verdict{pos: c.Pos(call.Pos()), bindings: map[string]bool{}}
								keys = append(keys, k)
							}
							verdicts[k].paths++
						}
					}
				case evCall:
					if e.Deferred {
						continue
					}
					// an emission (primitive, forwarding wrapper, single-instruction helper) carrying the name
					em, isEm := r2EmitIdx(c).of(fn, e.Call)
					if !isEm {
						continue
					}
					for o, pd := range open {
						carries := false
						for _, a := range em.args {
							if a != nil && vmMentionsObj(info, a, o) {
								carries = true
							}
						}
						if !carries {
							continue
						}
						v := verdicts[keyOf(pd.call)]
						v.bindings[c.Pos(e.Pos)] = true
						for k := pd.at + 1; k < j; k++ {
							m := p.ev[k]
							if m.K != evCall || m.Deferred || m.Fn == nil {
								continue
							}
							if _, ok := roles.scopes.push[m.Fn]; ok {
								v.bad = append(v.bad, fmt.Sprintf("%s() @%s runs between the registration @%s and the binding instruction @%s: the name is registered in the enclosing scope and stays resolvable (to this construct's slot) after the construct", m.Fn.Name(), c.Pos(m.Pos), c.Pos(pd.call.Pos()), c.Pos(e.Pos)))
							}
							if _, ok := roles.scopes.pop[m.Fn]; ok {
								v.bad = append(v.bad, fmt.Sprintf("%s() @%s runs between the registration @%s and the binding instruction @%s: the scope holding the name is gone before the name is bound", m.Fn.Name(), c.Pos(m.Pos), c.Pos(pd.call.Pos()), c.Pos(e.Pos)))
							}
						}
						delete(open, o)
					}
				}
			}
			for _, pd := range open {
				verdicts[keyOf(pd.call)].unbound++
			}
		}
	}
	sort.Strings(keys)
	for _, k := range keys {
		v := verdicts[k]
		ob := Obligation{Key: k + "|registered in the scope that is current when the name is bound", Pos: v.pos, Nontrivial: true}
		var bs []string
		for b := range v.bindings {
			bs = append(bs, b)
		}
		sort.Strings(bs)
		switch {
		case len(v.bad) > 0:
			ob.Status, ob.Detail = Violated, strings.Join(vmUniq(v.bad), " | ")
		case len(bs) == 0:
			ob.Status, ob.Detail = Info, "the result is not bound by an instruction of this function (returned / passed on)"
		default:
			ob.Status, ob.Detail = Discharged, fmt.Sprintf("%d path(s); bound @%s with no scope push/pop in between", v.paths, strings.Join(bs, ", "))
		}
		obs = append(obs, ob)
	}
	if len(keys) == 0 {
		obs = append(obs, Obligation{Key: "compiler|registrar call sites", Status: Undecided, Detail: "no call site of " + registrar.Name() + " binds its result to a variable"})
	}
	return obs
}
