package main

import (
	"fmt"
	"go/ast"
	"go/constant"
	"go/token"
	"go/types"
	"sort"
	"strings"
)

func init() {
	register(&Rule{ID: "R-must-pass-limits", Floor: 7, Run: ruleVMMustLimits,
		Doc: "resource limits are tests every execution passes: (1) every cycle of the VM's outer loop in Core.Run decides `len(Stack)` against Limits.StackMaxSize and `len(CallStack)` against Limits.CallStackMaxSize before any instruction runs, and each overflow branch sends a fatal interrupt on the core's signal channel and returns (helpers of the package that send, compare a limit or poll are spliced into the loop body); the instruction quantum between two such cycles is bounded by a compile-time constant; (2) the Opcode_AddMempointer case compares Core.MemoryPointer with Limits.MaxMemorySize after updating it, the overflow branch returns the fatal interrupt, and the continuing branch establishes MemoryPointer <= len(Memory)-1 for the frame indexing Memory[MemoryPointer-slot] — the bound is derived from the allocation `make(..., MaxMemorySize±k)` of Core.Memory and from the index expression, not from the operator text; (3) the interpreter's callFunc decides the call-depth counter against its limit before it evaluates anything or increments the counter, and the exceeded branch returns an interrupt. Necessary for C09/C02: without the comparison on every cycle a program exceeds the limit unnoticed; with a non-strict memory guard the next variable access indexes Memory[len(Memory)] and the Go runtime panic kills the host"})
	register(&Rule{ID: "R-must-pass-cancel", Floor: 8, Run: ruleVMMustCancel,
		Doc: "cancellation polls are passed by every execution: (1) the VM's poll function receives from the context's Done channel without blocking, yields an interrupt when it is closed and nil otherwise; every cycle of the outer loop of Core.Run passes the poll before instructions run and its positive branch signals and returns; (2) in the interpreter every iteration of every condition-less Go loop (the loops implementing loop/while/for) passes a poll on all paths, where a call counts if every non-panicking path through the callee polls (least fixpoint over the package); (3) VM.Wait calls the context's cancel function on every path that returns an interrupt. Necessary for C10: a loop iteration that can complete without polling makes `loop {}` uncancellable"})
}

// --------------------------------------------------------- outer loop of Run

type vmInnerQuantum struct{ loop *ast.ForStmt }

type vmRunLoops struct {
	fn    *vmFn
	outer *ast.ForStmt
	inner *ast.ForStmt
	res   *vmWalkResult
}

var vmRunLoopsCache = map[*Ctx]*vmRunLoops{}

func vmRunOuter(c *Ctx) *vmRunLoops {
	if r := vmRunLoopsCache[c]; r != nil {
		return r
	}
	roles := vmRoles(c)
	fn := roles.run
	disp, _ := roles.dispatch.info.Defs[roles.dispatch.fd.Name].(*types.Func)
	contains := func(n ast.Node) bool {
		found := false
		ast.Inspect(n, func(m ast.Node) bool {
			if call, ok := m.(*ast.CallExpr); ok && CalleeOf(fn.info, call) == disp {
				found = true
			}
			return !found
		})
		return found
	}
	rl := &vmRunLoops{fn: fn}
	var find func(n ast.Node, depth int)
	find = func(n ast.Node, depth int) {
		ast.Inspect(n, func(m ast.Node) bool {
			if m == n {
				return true
			}
			if _, ok := m.(*ast.FuncLit); ok {
				return false
			}
			if f, ok := m.(*ast.ForStmt); ok && contains(f) {
				if depth == 0 && rl.outer == nil {
					rl.outer = f
					find(f.Body, 1)
				} else if depth == 1 && rl.inner == nil {
					rl.inner = f
				}
				return false
			}
			return true
		})
	}
	find(fn.fd.Body, 0)
	if rl.outer == nil {
		fatalf("anchor unresolved: Core.Run has no loop around the call of the instruction dispatcher")
	}
	rl.res = vmWalk(vmWalkOpts{fn: fn, body: rl.outer.Body, inline: vmRunInline(c), replace: func(s ast.Stmt) (any, bool) {
		if f, ok := s.(*ast.ForStmt); ok && f == rl.inner {
			return vmInnerQuantum{f}, true
		}
		if s == ast.Stmt(rl.outer) {
			return nil, false
		}
		// the call of the dispatcher outside an inner loop: the quantum is a single instruction
		if rl.inner == nil {
			if es, ok := s.(*ast.ExprStmt); ok && contains(es) {
				return vmInnerQuantum{}, true
			}
			if is, ok := s.(*ast.IfStmt); ok && contains(is) {
				return vmInnerQuantum{}, true
			}
		}
		return nil, false
	}})
	vmRunLoopsCache[c] = rl
	return rl
}

// vmRunInline: the helpers of package runtime that matter to the rules about
// the run loop — functions that (transitively) send on the core's signal
// channel, compare a configured limit, test the handler stack, poll the
// cancellation context or select on Done(). The poll functions themselves and
// the instruction dispatcher stay calls (they are the rules' anchors).
var vmRunInlineCache = map[*Ctx]func(callee *vmFn, call *ast.CallExpr) bool{}

func vmRunInline(c *Ctx) func(callee *vmFn, call *ast.CallExpr) bool {
	if f := vmRunInlineCache[c]; f != nil {
		return f
	}
	roles := vmRoles(c)
	rt := c.Pkg("homescript/runtime")
	signal := vmStructField(rt, "Core", "SignalHandle")
	handlers := vmStructField(rt, "Core", "ExceptionCatchLabels")
	limits := map[*types.Var]bool{}
	if lt := rt.Types.Scope().Lookup("CoreLimits"); lt != nil {
		if st, ok := lt.Type().Underlying().(*types.Struct); ok {
			for i := 0; i < st.NumFields(); i++ {
				limits[st.Field(i)] = true
			}
		}
	}
	polls := vmPollFns(roles.fns)
	closer := vmNewCloser(c, func(fn *vmFn, n ast.Node) bool {
		switch x := n.(type) {
		case *ast.SendStmt:
			return vmFieldOf(fn.info, x.Chan) == signal
		case *ast.BinaryExpr:
			switch x.Op {
			case token.GTR, token.GEQ, token.LSS, token.LEQ, token.EQL, token.NEQ:
				found := false
				ast.Inspect(x, func(m ast.Node) bool {
					if sel, ok := m.(*ast.SelectorExpr); ok {
						if s := fn.info.Selections[sel]; s != nil {
							if v, ok := s.Obj().(*types.Var); ok && (limits[v] || v == handlers) {
								found = true
							}
						}
					}
					return !found
				})
				return found
			}
		case *ast.SelectorExpr:
			// any read of the handler stack (`handlers := core.ExceptionCatchLabels` in a helper)
			if s := fn.info.Selections[x]; s != nil && s.Obj() == handlers {
				return true
			}
		case *ast.CallExpr:
			if _, isPoll := polls[vmOrigin(CalleeOf(fn.info, x))]; isPoll {
				return true
			}
		case *ast.SelectStmt:
			return vmIsDoneRecv(fn.info, x)
		}
		return false
	})
	disp := vmDefaultInline(roles.dispatch)
	f := func(callee *vmFn, call *ast.CallExpr) bool {
		if callee.pkg != roles.run.pkg {
			return false
		}
		obj, _ := callee.info.Defs[callee.fd.Name].(*types.Func)
		if _, isPoll := polls[obj]; isPoll || roles.nodes[obj] != nil || roles.handlers[obj] != nil {
			return false
		}
		if disp != nil && disp(callee, call) {
			return false
		}
		return closer.relevant(callee)
	}
	vmRunInlineCache[c] = f
	return f
}

// vmLenOfField: e is len(x.F) for field F.
func vmLenOfField(info *types.Info, e ast.Expr, f *types.Var) bool {
	call, ok := vmStripConv(info, e).(*ast.CallExpr)
	if !ok || len(call.Args) != 1 {
		return false
	}
	id, ok := call.Fun.(*ast.Ident)
	if !ok {
		return false
	}
	if b, isB := info.Uses[id].(*types.Builtin); !isB || b.Name() != "len" {
		return false
	}
	return vmFieldOf(info, call.Args[0]) == f
}

// vmCmp normalises a comparison atom to "L exceeds R" semantics: returns
// (strict, lhsIsX) for atoms X>Y, X>=Y, Y<X, Y<=X, and negated forms.
type vmCmpAtom struct {
	x, y       ast.Expr // x OP y with OP ∈ {>, >=} after normalisation
	strict     bool     // >
	whenTaken  bool     // the normalised relation holds when the atom is decided `whenTaken`
	recognised bool
}

func vmNormCmp(e ast.Expr) vmCmpAtom {
	b, ok := ast.Unparen(e).(*ast.BinaryExpr)
	if !ok {
		return vmCmpAtom{}
	}
	switch b.Op {
	case token.GTR:
		return vmCmpAtom{x: b.X, y: b.Y, strict: true, whenTaken: true, recognised: true}
	case token.GEQ:
		return vmCmpAtom{x: b.X, y: b.Y, strict: false, whenTaken: true, recognised: true}
	case token.LSS: // X < Y  ≡  Y > X
		return vmCmpAtom{x: b.Y, y: b.X, strict: true, whenTaken: true, recognised: true}
	case token.LEQ: // X <= Y ≡ Y >= X
		return vmCmpAtom{x: b.Y, y: b.X, strict: false, whenTaken: true, recognised: true}
	}
	return vmCmpAtom{}
}

// vmLimitDecision: for a cond event, is it a comparison of len(stackField)
// with limitField, and does the decision taken mean "limit exceeded"?
func vmLimitDecision(info *types.Info, p *vmPath, j int, stackField, limitField *types.Var) (is, exceeded bool) {
	e := p.ev[j]
	if e.K != evCond {
		return false, false
	}
	a := vmNormCmp(e.X)
	if !a.recognised {
		return false, false
	}
	// operands held in locals (`limit := int(self.Limits.StackMaxSize)`) are looked through
	a.x, _, _ = vmResolveAt(info, p.binds, p.ev, j, vmStripConv(info, a.x))
	a.y, _, _ = vmResolveAt(info, p.binds, p.ev, j, vmStripConv(info, a.y))
	switch {
	case vmLenOfField(info, a.x, stackField) && vmMentionsField(info, a.y, limitField):
		// len > limit (or >=): holds ⇒ exceeded
		return true, e.Taken
	case vmLenOfField(info, a.y, stackField) && vmMentionsField(info, a.x, limitField):
		// limit > len: holds ⇒ within; fails ⇒ exceeded
		return true, !e.Taken
	}
	return false, false
}

func vmIndexOfMarker(p *vmPath) int {
	for i, e := range p.ev {
		if e.K == evMarker {
			if _, ok := e.Payload.(vmInnerQuantum); ok {
				return i
			}
		}
	}
	return -1
}

// vmSignalsAndReturns: after event index `from` the path sends a non-nil value
// on the core's signal channel and ends in a return without reaching the
// instruction quantum.
func vmSignalsAndReturns(c *Ctx, fn *vmFn, p *vmPath, from int, signal *types.Var, wantFatal bool) (ok bool, why string) {
	if p.o.kind != cReturn {
		return false, "the branch does not return (" + p.exitStr(c) + ")"
	}
	if m := vmIndexOfMarker(p); m >= 0 && m > from {
		return false, "the branch goes on to execute instructions"
	}
	for i := from + 1; i < len(p.ev); i++ {
		e := p.ev[i]
		if e.K == evSend && vmFieldOf(fn.info, e.X) == signal {
			val := e.Val
			if p.binds != nil {
				// the value travelled through the parameter of a helper (`self.signal(x)`)
				val, _, _ = vmResolveAt(fn.info, p.binds, p.ev, i, val)
			}
			if vmIsNil(fn.info, val) {
				return false, "nil is sent on the signal channel"
			}
			if wantFatal {
				call, isCall := ast.Unparen(val).(*ast.CallExpr)
				fatal := vmFuncObj(c, "homescript/runtime/value", "NewVMFatalException")
				if !isCall || !vmReturnsVia(c, CalleeOf(fn.info, call), fatal, 0) {
					return false, fmt.Sprintf("the value sent (`%s`) is not built by value.NewVMFatalException", vmTrunc(exprStr(e.Val), 60))
				}
			}
			return true, ""
		}
	}
	return false, "nothing is sent on Core.SignalHandle before the return"
}

func ruleVMMustLimits(c *Ctx) []Obligation {
	var obs []Obligation
	roles := vmRoles(c)
	rl := vmRunOuter(c)
	fn := rl.fn
	rt := c.Pkg("homescript/runtime")
	signal := vmStructField(rt, "Core", "SignalHandle")
	if signal == nil {
		fatalf("anchor unresolved: runtime.Core.SignalHandle")
	}
	prefix := fn.name + "|outer cycle|"
	if rl.res.overflow {
		obs = append(obs, Obligation{Key: prefix + "<paths>", Pos: c.Pos(rl.outer.Pos()), Status: Undecided, Detail: "path cap exceeded"})
	}
	for _, lim := range []struct{ what, stack, limit string }{
		{"operand-stack", "Stack", "StackMaxSize"},
		{"call-stack", "CallStack", "CallStackMaxSize"},
	} {
		sf := vmStructField(rt, "Core", lim.stack)
		lf := vmStructField(rt, "CoreLimits", lim.limit)
		if sf == nil || lf == nil {
			fatalf("anchor unresolved: Core.%s / CoreLimits.%s", lim.stack, lim.limit)
		}
		var badPass, badBranch []string
		nReach, nOver := 0, 0
		pos := rl.outer.Pos()
		for i := range rl.res.paths {
			p := &rl.res.paths[i]
			m := vmIndexOfMarker(p)
			first, firstExceeded := -1, false
			for j, e := range p.ev {
				if is, ex := vmLimitDecision(fn.info, p, j, sf, lf); is {
					first, firstExceeded = j, ex
					pos = e.Pos
					break
				}
			}
			if m >= 0 {
				nReach++
				if first < 0 || first > m {
					badPass = append(badPass, fmt.Sprintf("a cycle reaches the instruction quantum without comparing len(%s) with Limits.%s (path [%s])", lim.stack, lim.limit, p.decisions()))
				} else if firstExceeded {
					badPass = append(badPass, fmt.Sprintf("the limit-exceeded decision continues to the instruction quantum (path [%s])", p.decisions()))
				}
			}
			if first >= 0 && firstExceeded {
				nOver++
				if ok, why := vmSignalsAndReturns(c, fn, p, first, signal, true); !ok {
					badBranch = append(badBranch, fmt.Sprintf("%s (path [%s])", why, p.decisions()))
				}
			}
		}
		if nReach == 0 {
			badPass = append(badPass, "no path of the outer loop body reaches the instruction quantum")
		}
		if nOver == 0 {
			badBranch = append(badBranch, "no limit-exceeded branch found")
		}
		obs = append(obs, vmOb(c, prefix+lim.what+" limit: len("+lim.stack+") is compared with Limits."+lim.limit+" on every cycle before instructions run", pos, badPass, fmt.Sprintf("%d path(s) reach the instruction quantum, all through the within-limit decision", nReach)))
		obs = append(obs, vmOb(c, prefix+lim.what+" limit: the exceeded branch sends a fatal interrupt on Core.SignalHandle and returns", pos, badBranch, fmt.Sprintf("%d exceeded path(s)", nOver)))
	}
	// quantum bound
	{
		var bad []string
		pos := rl.outer.Pos()
		if rl.inner == nil {
			// single instruction per cycle: trivially bounded
		} else {
			pos = rl.inner.Pos()
			f := rl.inner
			// the loop counts a local from/to compile-time constants in unit steps:
			//   for c := …; c < K; c++      (also  K > c,  c <= K,  c != K)
			//   for c := K; c > 0; c--      (also  0 < c,  c >= 1,  c != 0)
			var ctr types.Object
			isConst := func(e ast.Expr) bool { return e != nil && fn.info.Types[e].Value != nil }
			dir := 0 // +1 counts up to a constant, -1 counts down to a constant, 0 unknown (c != K)
			var neqBound ast.Expr
			if a := vmNormCmp(f.Cond); a.recognised {
				switch {
				case isConst(a.x) && !isConst(a.y): // K > c
					ctr, dir = vmObjOf(fn.info, a.y), +1
				case isConst(a.y) && !isConst(a.x): // c > K
					ctr, dir = vmObjOf(fn.info, a.x), -1
				}
			} else if b, ok := ast.Unparen(f.Cond).(*ast.BinaryExpr); ok && b.Op == token.NEQ {
				switch {
				case isConst(b.Y) && !isConst(b.X):
					ctr, neqBound = vmObjOf(fn.info, b.X), b.Y
				case isConst(b.X) && !isConst(b.Y):
					ctr, neqBound = vmObjOf(fn.info, b.Y), b.X
				}
			}
			okShape := ctr != nil
			if !okShape {
				bad = append(bad, fmt.Sprintf("the inner loop condition `%s` does not compare a counter with a compile-time constant", exprStr(f.Cond)))
			} else {
				inc, ok := f.Post.(*ast.IncDecStmt)
				step := 0
				if ok && vmObjOf(fn.info, inc.X) == ctr {
					step = map[token.Token]int{token.INC: +1, token.DEC: -1}[inc.Tok]
				}
				initConst := false
				if as, ok := f.Init.(*ast.AssignStmt); ok && len(as.Lhs) == 1 && len(as.Rhs) == 1 && vmObjOf(fn.info, as.Lhs[0]) == ctr && isConst(as.Rhs[0]) {
					initConst = true
				}
				switch {
				case step == 0:
					bad = append(bad, "the inner loop does not step its counter by one in the post statement")
				case dir != 0 && step != dir:
					bad = append(bad, fmt.Sprintf("the inner loop steps its counter away from the bound of `%s`", exprStr(f.Cond)))
				case (dir <= 0 || step < 0) && !initConst:
					bad = append(bad, "the inner loop counts down (or to an exact value) from a start that is not a compile-time constant")
				case neqBound != nil:
					// c != K is only a bound when the counter moves towards K
					as := f.Init.(*ast.AssignStmt)
					from, to := fn.info.Types[as.Rhs[0]].Value, fn.info.Types[neqBound].Value
					if (step > 0 && !constant.Compare(from, token.LEQ, to)) || (step < 0 && !constant.Compare(from, token.GEQ, to)) {
						bad = append(bad, fmt.Sprintf("the inner loop steps its counter away from the value `%s` it stops at", exprStr(neqBound)))
					}
				}
				ast.Inspect(f.Body, func(n ast.Node) bool {
					switch x := n.(type) {
					case *ast.AssignStmt:
						for _, l := range x.Lhs {
							if vmObjOf(fn.info, l) == ctr && x.Tok != token.DEFINE {
								bad = append(bad, "the quantum counter is assigned inside the loop body at "+c.Pos(x.Pos()))
							}
						}
					case *ast.IncDecStmt:
						if vmObjOf(fn.info, x.X) == ctr {
							bad = append(bad, "the quantum counter is modified inside the loop body at "+c.Pos(x.Pos()))
						}
					}
					return true
				})
			}
		}
		detail := "one instruction per cycle"
		if rl.inner != nil {
			detail = fmt.Sprintf("inner loop `%s` runs at most a constant number of instructions between two limit checks", exprStr(rl.inner.Cond))
		}
		obs = append(obs, vmOb(c, fn.name+"|instruction quantum between two cycles is bounded by a compile-time constant", pos, bad, detail))
	}
	obs = append(obs, vmMemGuard(c, roles)...)
	obs = append(obs, vmInterpLimit(c)...)
	return obs
}

func vmOb(c *Ctx, key string, pos token.Pos, bad []string, ok string) Obligation {
	ob := Obligation{Key: key, Pos: c.Pos(pos), Status: Discharged, Detail: ok, Nontrivial: true}
	if bad = vmUniq(bad); len(bad) > 0 {
		ob.Status = Violated
		if len(bad) > 3 {
			bad = append(bad[:3], fmt.Sprintf("… %d more", len(bad)-3))
		}
		ob.Detail = strings.Join(bad, " || ")
	}
	return ob
}

// ------------------------------------------------------ memory pointer guard

// vmLinOf parses e as  base + k  where base mentions field f exactly as the
// only non-constant operand: returns k.
func vmFieldPlusConst(info *types.Info, e ast.Expr, f *types.Var) (k int64, ok bool) {
	e = vmStripConv(info, e)
	if vmFieldOf(info, e) == f {
		return 0, true
	}
	if b, isB := e.(*ast.BinaryExpr); isB && (b.Op == token.ADD || b.Op == token.SUB) {
		if tv := info.Types[b.Y]; tv.Value != nil {
			if n, exact := constant.Int64Val(constant.ToInt(tv.Value)); exact {
				if k0, ok0 := vmFieldPlusConst(info, b.X, f); ok0 {
					if b.Op == token.ADD {
						return k0 + n, true
					}
					return k0 - n, true
				}
			}
		}
		if tv := info.Types[b.X]; tv.Value != nil && b.Op == token.ADD {
			if n, exact := constant.Int64Val(constant.ToInt(tv.Value)); exact {
				if k0, ok0 := vmFieldPlusConst(info, b.Y, f); ok0 {
					return k0 + n, true
				}
			}
		}
	}
	return 0, false
}

func vmMemGuard(c *Ctx, roles *vmVMRoles) []Obligation {
	rt := c.Pkg("homescript/runtime")
	mp := vmStructField(rt, "Core", "MemoryPointer")
	mem := vmStructField(rt, "Core", "Memory")
	max := vmStructField(rt, "CoreLimits", "MaxMemorySize")
	if mp == nil || mem == nil || max == nil {
		fatalf("anchor unresolved: Core.MemoryPointer / Core.Memory / CoreLimits.MaxMemorySize")
	}
	op := vmConst(c, "homescript/compiler", "Opcode_AddMempointer")
	fn := roles.dispatch
	info := fn.info
	cl := vmClauseOf(info, roles.dispSw, op)
	key := fn.name + "|case Opcode_AddMempointer|"
	if cl == nil {
		return []Obligation{{Key: key + "memory guard", Pos: c.Pos(roles.dispSw.Pos()), Status: Undecided, Detail: "the dispatcher has no case for Opcode_AddMempointer"}}
	}
	// (1) len(Memory) = MaxMemorySize + a, from the allocation
	var allocs []string
	a, haveA, allocOK := int64(0), false, true
	for _, f := range roles.fns {
		ast.Inspect(f.fd.Body, func(n ast.Node) bool {
			var val ast.Expr
			switch x := n.(type) {
			case *ast.KeyValueExpr:
				if id, ok := x.Key.(*ast.Ident); ok && f.info.Uses[id] == mem {
					val = x.Value
				}
			case *ast.AssignStmt:
				for i, l := range x.Lhs {
					if vmFieldOf(f.info, l) == mem && i < len(x.Rhs) {
						val = x.Rhs[i]
					}
				}
			}
			if val == nil {
				return true
			}
			call, ok := ast.Unparen(val).(*ast.CallExpr)
			isMake := false
			if ok {
				if id, isId := call.Fun.(*ast.Ident); isId {
					if b, isB := f.info.Uses[id].(*types.Builtin); isB && b.Name() == "make" && len(call.Args) >= 2 {
						isMake = true
					}
				}
			}
			if !isMake {
				allocOK = false
				allocs = append(allocs, fmt.Sprintf("Core.Memory is set to `%s` at %s (not a make with explicit length)", vmTrunc(exprStr(val), 50), c.Pos(val.Pos())))
				return true
			}
			k, ok := vmFieldPlusConst(f.info, call.Args[1], max)
			if !ok {
				allocOK = false
				allocs = append(allocs, fmt.Sprintf("the length `%s` of Core.Memory at %s is not MaxMemorySize±const", exprStr(call.Args[1]), c.Pos(val.Pos())))
				return true
			}
			if !haveA || k < a {
				a = k
			}
			haveA = true
			allocs = append(allocs, fmt.Sprintf("len(Core.Memory) = MaxMemorySize%+d from `%s` at %s", k, exprStr(val), c.Pos(val.Pos())))
			return true
		})
	}
	// (2) the largest index used: Memory[MemoryPointer - slot + b]
	var idxs []string
	b, haveB, idxOK := int64(0), false, true
	decls := vmDeclIndex(c)
	var formOf func(f *vmFn, e ast.Expr, depth int) (k int64, sign int, ok bool)
	// returns: index = MemoryPointer + sign*slot + k (sign ∈ {-1,0,+1})
	formOf = func(f *vmFn, e ast.Expr, depth int) (int64, int, bool) {
		e = vmStripConv(f.info, e)
		if depth > 4 {
			return 0, 0, false
		}
		if vmFieldOf(f.info, e) == mp {
			return 0, 0, true
		}
		switch x := e.(type) {
		case *ast.Ident:
			// single definition in the function
			var def ast.Expr
			n := 0
			obj := vmObjOf(f.info, x)
			ast.Inspect(f.fd.Body, func(m ast.Node) bool {
				if as, ok := m.(*ast.AssignStmt); ok {
					for i, l := range as.Lhs {
						if vmObjOf(f.info, l) == obj && i < len(as.Rhs) && len(as.Lhs) == len(as.Rhs) {
							def = as.Rhs[i]
							n++
						}
					}
				}
				return true
			})
			if n == 1 {
				return formOf(f, def, depth+1)
			}
		case *ast.CallExpr:
			g := decls.of(CalleeOf(f.info, x))
			if g != nil && len(g.fd.Body.List) == 1 {
				if ret, ok := g.fd.Body.List[0].(*ast.ReturnStmt); ok && len(ret.Results) == 1 {
					return formOf(g, ret.Results[0], depth+1)
				}
			}
		case *ast.BinaryExpr:
			if x.Op == token.ADD || x.Op == token.SUB {
				k0, s0, ok0 := formOf(f, x.X, depth+1)
				if ok0 {
					if tv := f.info.Types[x.Y]; tv.Value != nil {
						if n, exact := constant.Int64Val(constant.ToInt(tv.Value)); exact {
							if x.Op == token.ADD {
								return k0 + n, s0, true
							}
							return k0 - n, s0, true
						}
					}
					if s0 == 0 {
						if x.Op == token.SUB {
							return k0, -1, true
						}
						return k0, +1, true
					}
				}
			}
		}
		return 0, 0, false
	}
	for _, f := range roles.fns {
		ast.Inspect(f.fd.Body, func(n ast.Node) bool {
			ix, ok := n.(*ast.IndexExpr)
			if !ok || vmFieldOf(f.info, ix.X) != mem {
				return true
			}
			k, sign, ok := formOf(f, ix.Index, 0)
			switch {
			case !ok:
				idxOK = false
				idxs = append(idxs, fmt.Sprintf("index `%s` at %s is not of the form MemoryPointer ± slot + const", exprStr(ix.Index), c.Pos(ix.Pos())))
			case sign > 0:
				idxOK = false
				idxs = append(idxs, fmt.Sprintf("index `%s` at %s grows above the memory pointer: no bound follows from the guard", exprStr(ix.Index), c.Pos(ix.Pos())))
			default:
				if !haveB || k > b {
					b = k
				}
				haveB = true
				form := "MemoryPointer"
				if sign < 0 {
					form += " - slot"
				}
				idxs = append(idxs, fmt.Sprintf("Memory[%s%+d] at %s", form, k, c.Pos(ix.Pos())))
			}
			return true
		})
	}
	// (3) the guard on the paths of the case
	tops := map[token.Pos]bool{roles.dispSw.Pos(): true}
	dispInline, runInline := vmDefaultInline(fn), vmRunInline(c)
	res := vmWalk(vmWalkOpts{fn: fn, inline: func(callee *vmFn, call *ast.CallExpr) bool {
		return (dispInline != nil && dispInline(callee, call)) || runInline(callee, call)
	}})
	var badStrict, badBranch []string
	nCont, nOver := 0, 0
	need := a - b - 1 // MemoryPointer <= MaxMemorySize + need
	for i := range res.paths {
		p := &res.paths[i]
		if vmUnitOf(info, tops, p) != "case Opcode_AddMempointer" || p.o.kind == cPanic {
			continue
		}
		lastWrite := -1
		for j, e := range p.ev {
			if (e.K == evAssign && vmFieldOf(info, e.Lhs) == mp) || (e.K == evIncDec && vmFieldOf(info, e.X) == mp) {
				lastWrite = j
			}
		}
		// guard decisions after the last write
		bound, haveBound, exceeded := int64(0), false, false
		guardText := ""
		for j, e := range p.ev {
			if e.K != evCond || j < lastWrite {
				continue
			}
			at := vmNormCmp(e.X)
			if !at.recognised {
				continue
			}
			// operands held in locals (`capacity := int(self.Limits.MaxMemorySize)`) are looked through;
			// a local that captured the memory pointer before its last update is not the memory pointer
			look := func(x ast.Expr) ast.Expr {
				r, k, _ := vmResolveAt(info, p.binds, p.ev, j, vmStripConv(info, x))
				if r != nil && vmMentionsField(info, r, mp) && k < lastWrite {
					return x
				}
				return r
			}
			at.x, at.y = look(at.x), look(at.y)
			xmp := vmFieldOf(info, vmStripConv(info, at.x)) == mp
			ymp := vmFieldOf(info, vmStripConv(info, at.y)) == mp
			var k int64
			var ok bool
			holds := e.Taken // does "x > y" / "x >= y" hold?
			switch {
			case xmp:
				k, ok = vmFieldPlusConst(info, at.y, max)
				if !ok {
					continue
				}
				// MP > Max+k (strict) or MP >= Max+k
				if holds {
					exceeded = true
				} else if at.strict {
					bound, haveBound = k, true // MP <= Max+k
				} else {
					bound, haveBound = k-1, true // MP <= Max+k-1
				}
			case ymp:
				k, ok = vmFieldPlusConst(info, at.x, max)
				if !ok {
					continue
				}
				// Max+k > MP (strict) or Max+k >= MP
				if !holds {
					exceeded = true
				} else if at.strict {
					bound, haveBound = k-1, true
				} else {
					bound, haveBound = k, true
				}
			default:
				continue
			}
			guardText = fmt.Sprintf("`%s` decided %v", exprStr(e.X), e.Taken)
		}
		isInterrupt := p.o.kind == cReturn && len(p.o.ret.Results) == 1 && !vmIsNil(info, p.o.ret.Results[0])
		if exceeded {
			nOver++
			fatal := vmFuncObj(c, "homescript/runtime/value", "NewVMFatalException")
			call, isCall := ast.Unparen(func() ast.Expr {
				if p.o.ret != nil && len(p.o.ret.Results) == 1 {
					return p.o.ret.Results[0]
				}
				return &ast.Ident{Name: "_"}
			}()).(*ast.CallExpr)
			if !isInterrupt || !isCall || !vmReturnsVia(c, CalleeOf(info, call), fatal, 0) {
				badBranch = append(badBranch, fmt.Sprintf("the limit-exceeded branch does not return an interrupt built by value.NewVMFatalException (%s; path [%s])", p.exitStr(c), p.decisions()))
			}
			continue
		}
		if isInterrupt {
			continue
		}
		nCont++
		switch {
		case !haveBound:
			badStrict = append(badStrict, fmt.Sprintf("a continuing path never compares MemoryPointer with Limits.MaxMemorySize after its last update (path [%s])", p.decisions()))
		case haveA && haveB && bound > need:
			badStrict = append(badStrict, fmt.Sprintf("the continuing branch (%s) only establishes MemoryPointer <= MaxMemorySize%+d, but frames index up to Memory[MemoryPointer%+d] and len(Memory) = MaxMemorySize%+d, so MemoryPointer <= MaxMemorySize%+d is required: with MemoryPointer == MaxMemorySize%+d the next variable access indexes one past the end of Memory and the Go runtime panic kills the host (path [%s])", guardText, bound, b, a, need, bound, p.decisions()))
		}
	}
	if nCont == 0 {
		badStrict = append(badStrict, "the case has no continuing path")
	}
	if nOver == 0 {
		badBranch = append(badBranch, "the case has no limit-exceeded branch")
	}
	deriv := strings.Join(append(allocs, idxs...), "; ")
	ob1 := vmOb(c, key+"continuing branch establishes MemoryPointer <= len(Memory)-1 (bound derived from the allocation and the frame indexing)", cl.Pos(), badStrict,
		fmt.Sprintf("%d continuing path(s) establish MemoryPointer <= MaxMemorySize%+d; derivation: %s; assumption: slot numbers are >= 0 (slot 0 exists in every non-empty frame, so the bound is tight)", nCont, need, deriv))
	if !allocOK || !idxOK || !haveA || !haveB {
		ob1.Status = Undecided
		ob1.Detail = "cannot derive the required bound: " + deriv
	} else if ob1.Status == Violated {
		ob1.Detail += "; derivation: " + deriv
	}
	ob2 := vmOb(c, key+"limit-exceeded branch returns the fatal interrupt", cl.Pos(), badBranch, fmt.Sprintf("%d exceeded path(s) return value.NewVMFatalException(…)", nOver))
	return []Obligation{ob1, ob2}
}

// --------------------------------------------------- interpreter call limit

// vmWrapperIncrements: the wrapper (or a wrapper it calls) increments the counter field.
func vmWrapperIncrements(c *Ctx, g *vmFn, counter *types.Var, w *vmWrapperFinder, depth int) bool {
	found := false
	ast.Inspect(g.fd.Body, func(n ast.Node) bool {
		switch x := n.(type) {
		case *ast.IncDecStmt:
			if x.Tok == token.INC && vmFieldOf(g.info, x.X) == counter {
				found = true
			}
		case *ast.CallExpr:
			if depth < 3 {
				if f := CalleeOf(g.info, x); f != nil && w.isWrapper(f) {
					if h := vmDeclIndex(c).of(f); h != nil && vmWrapperIncrements(c, h, counter, w, depth+1) {
						found = true
					}
				}
			}
		}
		return !found
	})
	return found
}

func vmInterpLimit(c *Ctx) []Obligation {
	r := vmInterp(c)
	var obs []Obligation
	found := 0
	// helpers are spliced in: the enter-frame wrappers found by R-pairing-interp (the increment
	// may live in one) and functions whose own body compares the counter with the limit
	bal := vmInterpBalance(c)
	comparesLimit := func(g *vmFn) bool {
		found := false
		ast.Inspect(g.fd.Body, func(n ast.Node) bool {
			if b, ok := n.(*ast.BinaryExpr); ok {
				switch b.Op {
				case token.GTR, token.GEQ, token.LSS, token.LEQ:
					x, y := vmFieldOf(g.info, vmStripConv(g.info, b.X)), vmFieldOf(g.info, vmStripConv(g.info, b.Y))
					if (x == r.counter && y == r.limit && y != nil) || (y == r.counter && x == r.limit && x != nil) {
						found = true
					}
				}
			}
			return !found
		})
		return found
	}
	incrementsDirectly := func(g *vmFn) bool {
		incs := false
		ast.Inspect(g.fd.Body, func(n ast.Node) bool {
			if x, ok := n.(*ast.IncDecStmt); ok && x.Tok == token.INC && vmFieldOf(g.info, x.X) == r.counter {
				incs = true
			}
			return true
		})
		return incs
	}
	var inline func(callee *vmFn, call *ast.CallExpr) bool
	inline = func(callee *vmFn, call *ast.CallExpr) bool {
		if callee.pkg != c.Pkg("homescript/interpreter") {
			return false
		}
		obj, _ := callee.info.Defs[callee.fd.Name].(*types.Func)
		if bal.wrappers.isWrapper(obj) {
			return true
		}
		return comparesLimit(callee) && !incrementsDirectly(callee)
	}
	for _, fn := range r.fns {
		// the units: functions that increment the counter themselves or through a wrapper,
		// the wrappers excluded (they are decided where they are spliced in)
		obj, _ := fn.info.Defs[fn.fd.Name].(*types.Func)
		if bal.wrappers.isWrapper(obj) {
			continue
		}
		incs := incrementsDirectly(fn)
		ast.Inspect(fn.fd.Body, func(n ast.Node) bool {
			if call, ok := n.(*ast.CallExpr); ok && !incs {
				if g := vmDeclIndex(c).of(CalleeOf(fn.info, call)); g != nil && bal.wrappers.isWrapper(CalleeOf(fn.info, call)) && vmWrapperIncrements(c, g, r.counter, bal.wrappers, 0) {
					incs = true
				}
			}
			return true
		})
		if !incs {
			continue
		}
		found++
		if r.limit == nil {
			obs = append(obs, Obligation{Key: fn.name + "|call-depth limit", Pos: c.Pos(fn.fd.Pos()), Status: Violated, Detail: "the call-depth counter " + vmFieldName(r.counter) + " is never compared with a limit field"})
			continue
		}
		res := vmWalk(vmWalkOpts{fn: fn, inline: inline})
		var badEntry, badBranch []string
		nOk, nOver := 0, 0
		pkgT := fn.pkg.Types
		for i := range res.paths {
			p := &res.paths[i]
			cmp, exceeded, firstWork := -1, false, -1
			for j, e := range p.ev {
				switch e.K {
				case evCond:
					if cmp >= 0 {
						continue
					}
					a := vmNormCmp(e.X)
					if !a.recognised {
						continue
					}
					x, y := vmFieldOf(fn.info, vmStripConv(fn.info, a.x)), vmFieldOf(fn.info, vmStripConv(fn.info, a.y))
					if x == r.counter && y == r.limit {
						cmp, exceeded = j, e.Taken
					} else if y == r.counter && x == r.limit {
						cmp, exceeded = j, !e.Taken
					}
				case evIncDec:
					if vmFieldOf(fn.info, e.X) == r.counter && firstWork < 0 {
						firstWork = j
					}
				case evCall:
					if firstWork < 0 && !e.Deferred && ((e.Fn != nil && e.Fn.Pkg() == pkgT) || e.Fn == nil) {
						if e.Fn == nil {
							// dynamic call (builtin callback, closure)
							if _, isConv := fn.info.Types[e.Call.Fun]; isConv && fn.info.Types[e.Call.Fun].IsType() {
								continue
							}
						}
						firstWork = j
					}
				}
			}
			if cmp >= 0 && exceeded {
				nOver++
				if firstWork >= 0 && firstWork < cmp {
					badEntry = append(badEntry, fmt.Sprintf("work happens before the limit test (path [%s])", p.decisions()))
				}
				last := ast.Expr(nil)
				if p.o.ret != nil && len(p.o.ret.Results) > 0 {
					last = p.o.ret.Results[len(p.o.ret.Results)-1]
				}
				if p.o.kind != cReturn || last == nil || vmIsNil(fn.info, last) || !vmKnownNonNil(c, fn.info, p, last) {
					badBranch = append(badBranch, fmt.Sprintf("the exceeded branch does not return a (non-nil) interrupt: %s (path [%s])", p.exitStr(c), p.decisions()))
				}
				for j := cmp; j < len(p.ev); j++ {
					if p.ev[j].K == evIncDec && vmFieldOf(fn.info, p.ev[j].X) == r.counter && p.ev[j].Tok == token.INC {
						badBranch = append(badBranch, "the exceeded branch still increments the counter")
					}
				}
				continue
			}
			if firstWork >= 0 {
				if cmp < 0 || cmp > firstWork {
					badEntry = append(badEntry, fmt.Sprintf("a path evaluates / increments before (or without) comparing %s with %s (path [%s])", vmFieldName(r.counter), vmFieldName(r.limit), p.decisions()))
				} else {
					nOk++
				}
			}
		}
		if nOver == 0 {
			badBranch = append(badBranch, "no limit-exceeded branch")
		}
		obs = append(obs, vmOb(c, fn.name+"|call-depth limit: "+vmFieldName(r.counter)+" is compared with "+vmFieldName(r.limit)+" at entry, before anything is evaluated", fn.fd.Pos(), badEntry, fmt.Sprintf("%d working path(s), all after the within-limit decision", nOk)))
		obs = append(obs, vmOb(c, fn.name+"|call-depth limit: the exceeded branch returns an interrupt without incrementing", fn.fd.Pos(), badBranch, fmt.Sprintf("%d exceeded path(s)", nOver)))
	}
	if found == 0 {
		obs = append(obs, Obligation{Key: "interpreter|call-depth limit", Pos: "?", Status: Undecided, Detail: "no function increments the call-depth counter"})
	}
	return obs
}

// ------------------------------------------------------------ cancellation

// vmDoneRecv: the expression receives from X.Done() of a context.
func vmIsDoneRecv(info *types.Info, n ast.Node) bool {
	found := false
	ast.Inspect(n, func(m ast.Node) bool {
		u, ok := m.(*ast.UnaryExpr)
		if !ok || u.Op != token.ARROW {
			return true
		}
		call, ok := ast.Unparen(u.X).(*ast.CallExpr)
		if !ok {
			return true
		}
		if f := CalleeOf(info, call); f != nil && f.Name() == "Done" && f.Pkg() != nil && f.Pkg().Path() == "context" {
			found = true
		}
		return !found
	})
	return found
}

// vmPollFns: functions of a package that receive from a context's Done channel.
func vmPollFns(fns []*vmFn) map[*types.Func]*vmFn {
	out := map[*types.Func]*vmFn{}
	for _, fn := range fns {
		// a poll *function* reports its verdict to the caller: it has a result. A function
		// without results that selects on Done() polls inline (handled at the use site).
		if fn.fd.Type.Results == nil || len(fn.fd.Type.Results.List) == 0 {
			continue
		}
		if vmIsDoneRecv(fn.info, fn.fd.Body) {
			if obj, ok := fn.info.Defs[fn.fd.Name].(*types.Func); ok {
				out[obj] = fn
			}
		}
	}
	return out
}

// vmPollShape checks a poll function: the Done clause returns non-nil, the
// default clause returns nil, and the select cannot block.
func vmPollShape(c *Ctx, fn *vmFn) Obligation {
	res := vmWalk(vmWalkOpts{fn: fn})
	var bad []string
	nPos, nNeg := 0, 0
	for i := range res.paths {
		p := &res.paths[i]
		var sel *vmEv
		for j := range p.ev {
			if p.ev[j].K == evCase && p.ev[j].Select && p.ev[j].SelStmt != nil && vmIsDoneRecv(fn.info, p.ev[j].SelStmt) {
				sel = &p.ev[j]
			}
		}
		if sel == nil {
			if p.o.kind == cPanic {
				bad = append(bad, "a receive from Done() outside a select with default blocks until cancellation")
			} else {
				bad = append(bad, fmt.Sprintf("a path answers without consulting ctx.Done() (%s; path [%s]): a cancellation that arrives while this shortcut applies is not seen", p.exitStr(c), p.decisions()))
			}
			continue
		}
		hasDefault := false
		for _, cl := range sel.SelStmt.Body.List {
			if cl.(*ast.CommClause).Comm == nil {
				hasDefault = true
			}
		}
		if !hasDefault {
			bad = append(bad, "the select has no default clause: the poll blocks")
		}
		var last ast.Expr
		if p.o.ret != nil && len(p.o.ret.Results) > 0 {
			last = p.o.ret.Results[len(p.o.ret.Results)-1]
		}
		positive := false
		if sel.Vals != nil {
			// which comm clause? the next recv event tells
			for j := range p.ev {
				if p.ev[j].K == evRecv && vmIsDoneRecv(fn.info, &ast.UnaryExpr{Op: token.ARROW, X: p.ev[j].X}) {
					positive = true
				}
			}
		}
		if positive {
			nPos++
			if p.o.kind != cReturn || last == nil || vmIsNil(fn.info, last) || !vmKnownNonNil(c, fn.info, p, last) {
				bad = append(bad, "the Done clause does not return a non-nil interrupt ("+p.exitStr(c)+")")
			}
		} else if sel.Vals == nil {
			nNeg++
			if p.o.kind != cReturn || last == nil || !vmIsNil(fn.info, last) {
				bad = append(bad, "the default clause does not return nil ("+p.exitStr(c)+")")
			}
		}
	}
	if nPos == 0 {
		bad = append(bad, "no path receives from Done()")
	}
	return vmOb(c, fn.name+"|poll: non-blocking receive from ctx.Done(); closed ⇒ interrupt, open ⇒ nil", fn.fd.Pos(), bad, fmt.Sprintf("%d positive / %d negative path(s)", nPos, nNeg))
}

// vmPollDecision: is cond event e the nil test of a poll result? positive =
// "an interrupt was returned".
func vmPollDecision(info *types.Info, p *vmPath, j int, polls map[*types.Func]*vmFn) (is, positive bool) {
	e := p.ev[j]
	if e.K != evCond {
		return false, false
	}
	b, ok := ast.Unparen(e.X).(*ast.BinaryExpr)
	if !ok || (b.Op != token.NEQ && b.Op != token.EQL) {
		return false, false
	}
	var x ast.Expr
	if vmIsNil(info, b.Y) {
		x = b.X
	} else if vmIsNil(info, b.X) {
		x = b.Y
	} else {
		return false, false
	}
	isPoll := false
	if call, ok := ast.Unparen(x).(*ast.CallExpr); ok {
		_, isPoll = polls[CalleeOf(info, call)]
	} else if obj := vmObjOf(info, x); obj != nil {
		if rhs := vmLastAssign(info, p.ev, j, obj); rhs != nil {
			if call, ok := ast.Unparen(rhs).(*ast.CallExpr); ok {
				_, isPoll = polls[CalleeOf(info, call)]
			}
		}
	}
	if !isPoll {
		return false, false
	}
	return true, (b.Op == token.NEQ) == e.Taken
}

func ruleVMMustCancel(c *Ctx) []Obligation {
	var obs []Obligation
	roles := vmRoles(c)
	rt := c.Pkg("homescript/runtime")
	signal := vmStructField(rt, "Core", "SignalHandle")
	// (1) VM
	polls := vmPollFns(roles.fns)
	var pollNames []string
	for _, f := range polls {
		pollNames = append(pollNames, f.name)
		obs = append(obs, vmPollShape(c, f))
	}
	sort.Strings(pollNames)
	rl := vmRunOuter(c)
	fn := rl.fn
	{
		var badPass, badBranch []string
		nReach, nPos := 0, 0
		pos := rl.outer.Pos()
		for i := range rl.res.paths {
			p := &rl.res.paths[i]
			m := vmIndexOfMarker(p)
			first, positive := -1, false
			for j := range p.ev {
				if is, posi := vmPollDecision(fn.info, p, j, polls); is {
					first, positive = j, posi
					pos = p.ev[j].Pos
					break
				}
				// inline select on Done()
				if e := p.ev[j]; e.K == evCase && e.Select && e.SelStmt != nil && vmIsDoneRecv(fn.info, e.SelStmt) {
					first, positive = j, e.Vals != nil
					break
				}
			}
			if m >= 0 {
				nReach++
				if first < 0 || first > m {
					badPass = append(badPass, fmt.Sprintf("a cycle reaches the instruction quantum without polling the cancellation context (path [%s])", p.decisions()))
				} else if positive {
					badPass = append(badPass, fmt.Sprintf("a positive poll continues to the instruction quantum (path [%s])", p.decisions()))
				}
			}
			if first >= 0 && positive {
				nPos++
				if ok, why := vmSignalsAndReturns(c, fn, p, first, signal, false); !ok {
					badBranch = append(badBranch, fmt.Sprintf("%s (path [%s])", why, p.decisions()))
				}
			}
		}
		if nReach == 0 {
			badPass = append(badPass, "no path reaches the instruction quantum")
		}
		if nPos == 0 {
			badBranch = append(badBranch, "no positive poll branch in the outer loop")
		}
		obs = append(obs, vmOb(c, fn.name+"|outer cycle|cancellation is polled on every cycle before instructions run", pos, badPass, fmt.Sprintf("%d path(s) reach the instruction quantum, all through a negative poll (poll functions: %v)", nReach, pollNames)))
		obs = append(obs, vmOb(c, fn.name+"|outer cycle|a positive poll sends the interrupt on Core.SignalHandle and returns", pos, badBranch, fmt.Sprintf("%d positive path(s)", nPos)))
	}
	// (3) Wait calls the cancel function on the interrupt branch
	{
		wait := vmMustFn(c, "homescript/runtime", "VM", "Wait")
		isCancelCall := func(info *types.Info, call *ast.CallExpr) bool {
			if CalleeOf(info, call) != nil {
				return false
			}
			nt := vmNamed(info.TypeOf(call.Fun))
			return nt != nil && nt.Obj().Name() == "CancelFunc" && nt.Obj().Pkg() != nil && nt.Obj().Pkg().Path() == "context"
		}
		// the cancellation may be written in a helper of the package
		cancels := vmNewCloser(c, func(fn *vmFn, n ast.Node) bool {
			call, ok := n.(*ast.CallExpr)
			return ok && isCancelCall(fn.info, call)
		})
		res := vmWalk(vmWalkOpts{fn: wait, inline: func(callee *vmFn, call *ast.CallExpr) bool {
			return callee.pkg == wait.pkg && cancels.relevant(callee)
		}})
		var bad []string
		n := 0
		for i := range res.paths {
			p := &res.paths[i]
			if p.o.kind != cReturn || len(p.o.ret.Results) == 0 {
				continue
			}
			last := p.o.ret.Results[len(p.o.ret.Results)-1]
			if vmIsNil(wait.info, last) {
				continue
			}
			n++
			called := false
			for _, e := range p.ev {
				if e.K == evCall && e.Fn == nil && e.Call != nil && isCancelCall(wait.info, e.Call) {
					called = true
				}
			}
			if !called {
				bad = append(bad, fmt.Sprintf("%s returns the interrupt `%s` without calling the context's cancel function: the other cores keep running (path [%s])", p.exitStr(c), exprStr(last), p.decisions()))
			}
		}
		if n == 0 {
			bad = append(bad, "VM.Wait has no path returning an interrupt")
		}
		if res.overflow {
			bad = append(bad, "path cap exceeded")
		}
		obs = append(obs, vmOb(c, wait.name+"|the cancel function is called on every path that returns an interrupt", wait.fd.Pos(), bad, fmt.Sprintf("%d interrupt-returning path(s)", n)))
	}
	// (2) interpreter
	obs = append(obs, vmInterpPolls(c)...)
	return obs
}

func vmInterpPolls(c *Ctx) []Obligation {
	r := vmInterp(c)
	var obs []Obligation
	polls := vmPollFns(r.fns)
	if len(polls) == 0 {
		return []Obligation{{Key: "interpreter|cancellation poll", Pos: "?", Status: Violated, Detail: "no function of package interpreter receives from a context's Done channel"}}
	}
	for _, f := range polls {
		obs = append(obs, vmPollShape(c, f))
	}
	pkgT := c.Pkg("homescript/interpreter").Types
	// traces of every function (sliced to calls of package functions)
	type fnTr struct {
		fn  *vmFn
		res *vmWalkResult
	}
	trs := map[*types.Func]*fnTr{}
	var order []*types.Func
	for _, fn := range r.fns {
		obj, _ := fn.info.Defs[fn.fd.Name].(*types.Func)
		if obj == nil {
			continue
		}
		info := fn.info
		res := vmWalk(vmWalkOpts{fn: fn, correlate: true, replace: vmSlicer(func(n ast.Node) bool {
			if call, ok := n.(*ast.CallExpr); ok {
				if g := CalleeOf(info, call); g != nil && g.Pkg() == pkgT {
					return true
				}
				if id, ok := call.Fun.(*ast.Ident); ok {
					if b, isB := info.Uses[id].(*types.Builtin); isB && b.Name() == "panic" {
						return true
					}
				}
			}
			return false
		})})
		trs[obj] = &fnTr{fn: fn, res: res}
		order = append(order, obj)
	}
	must := map[*types.Func]bool{}
	for f := range polls {
		must[f] = true
	}
	pollsIn := func(fn *vmFn, ev []vmEv, from int) bool {
		for j := from; j < len(ev); j++ {
			e := ev[j]
			if e.K == evCall && e.Fn != nil && must[e.Fn] && !e.Deferred {
				return true
			}
			if e.K == evRecv && vmIsDoneRecv(fn.info, &ast.UnaryExpr{Op: token.ARROW, X: e.X}) {
				return true
			}
		}
		return false
	}
	for changed := true; changed; {
		changed = false
		for _, obj := range order {
			if must[obj] {
				continue
			}
			t := trs[obj]
			if t.res.overflow || len(t.res.paths) == 0 {
				continue
			}
			all, any := true, false
			for i := range t.res.paths {
				p := &t.res.paths[i]
				if p.o.kind == cPanic {
					continue
				}
				any = true
				if !pollsIn(t.fn, p.ev, 0) {
					all = false
					break
				}
			}
			if all && any {
				must[obj] = true
				changed = true
			}
		}
	}
	var mustNames []string
	for f := range must {
		mustNames = append(mustNames, f.Name())
	}
	sort.Strings(mustNames)
	// every condition-less loop
	nLoops := 0
	for _, obj := range order {
		t := trs[obj]
		var loops []*ast.ForStmt
		ast.Inspect(t.fn.fd.Body, func(n ast.Node) bool {
			if _, ok := n.(*ast.FuncLit); ok {
				return false
			}
			if f, ok := n.(*ast.ForStmt); ok && f.Cond == nil {
				loops = append(loops, f)
			}
			return true
		})
		for k, loop := range loops {
			nLoops++
			var bad []string
			n := 0
			if t.res.overflow {
				bad = append(bad, "path cap exceeded")
			}
			for i := range t.res.iters {
				p := &t.res.iters[i]
				last := p.ev[len(p.ev)-1]
				if last.Loop.Pos() != loop.Pos() {
					continue
				}
				n++
				if !pollsIn(t.fn, p.ev, last.From) {
					var calls []string
					for j := last.From; j < len(p.ev); j++ {
						if e := p.ev[j]; e.K == evCall && e.Fn != nil && e.Fn.Pkg() == pkgT {
							calls = append(calls, e.Fn.Name())
						}
					}
					bad = append(bad, fmt.Sprintf("an iteration completes without passing a cancellation poll: it only calls %v, none of which polls on all of its paths (iteration path [%s])", calls, p.decisions()))
				}
			}
			if n == 0 && len(bad) == 0 {
				// no iteration completes (every path leaves the loop): nothing to poll
			}
			obs = append(obs, vmOb(c, fmt.Sprintf("%s|loop #%d|every iteration passes a cancellation poll", t.fn.name, k+1), loop.Pos(), bad, fmt.Sprintf("%d completed-iteration path(s), each passes a poll (functions that poll on all paths: %v)", n, mustNames)))
		}
	}
	if nLoops == 0 {
		obs = append(obs, Obligation{Key: "interpreter|loops", Pos: "?", Status: Undecided, Detail: "no condition-less loop found in package interpreter: anchor lost"})
	}
	// the loop statements of the language are implemented by functions with such loops
	stmtKinds := []string{"LoopStatementKind", "WhileStatementKind", "ForStatementKind"}
	for _, k := range stmtKinds {
		konst := vmConst(c, "homescript/analyzer/ast", k)
		ok := false
		where := token.NoPos
		for _, obj := range order {
			t := trs[obj]
			pos, bodies := vmKindClauses(c, t.fn, konst)
			for _, body := range bodies {
				where = pos
				for _, s := range body {
					ast.Inspect(s, func(n ast.Node) bool {
						if call, isCall := n.(*ast.CallExpr); isCall {
							if g := trs[CalleeOf(t.fn.info, call)]; g != nil {
								ast.Inspect(g.fn.fd.Body, func(m ast.Node) bool {
									if f, isFor := m.(*ast.ForStmt); isFor && f.Cond == nil {
										ok = true
									}
									return true
								})
							}
						}
						return true
					})
				}
			}
		}
		var bad []string
		if !ok {
			bad = append(bad, "the statement dispatcher's clause for "+k+" does not lead to a function with a checked loop")
		}
		obs = append(obs, vmOb(c, "interpreter|"+k+" is executed by one of the checked loops", where, bad, "clause calls a function whose condition-less loop is checked above"))
	}
	return obs
}
