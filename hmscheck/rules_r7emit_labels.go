package main

// R-label-target (r7emit): every label a lowering defines is the target of a
// jump on the same paths.

import (
	"fmt"
	"go/ast"
	"go/token"
	"go/types"
	"sort"
	"strings"
)

func init() {
	register(&Rule{ID: "R-label-target", Floor: 10, Run: ruleR7LabelTarget,
		Doc: "no orphan labels in the bytecode compiler: a lowering creates a label because some control transfer of the same construct has to arrive there (the code behind the label restores the stack shape of that arrival: the Drop of a match's control value, a loop's cleanup, a catch block's binder). For every label-defining emission (the Label opcode) of every lowering, and for every combination of the lowering's branch decisions outside loops, the label variable (followed through copies and map/slice stores: `branches[i] = name`) is also mentioned by something other than a Label emission on those paths — a jump, a conditional jump, a handler installation, a loop-context record, a field of the function record. A label that is defined but never referenced under some decision means the transfers that used to arrive there now go elsewhere and skip the code behind the label: `match x { 1 => .. }` without default arm jumping to match_after instead of match_default leaves the control value on the operand stack on every non-matching execution. Necessary for C09/C01 (no residue on the operand stack, every arm's entry code runs)"})
}

func ruleR7LabelTarget(c *Ctx) []Obligation {
	r2LoopCtx = c
	roles := vmCompRoles(c)
	ex := r2EmitIdx(c)
	labelOp := vmConst(c, "homescript/compiler", "Opcode_Label")
	var obs []Obligation
	total := 0
	for _, fn := range roles.fns {
		info := fn.info
		obj, _ := info.Defs[fn.fd.Name].(*types.Func)
		if obj == nil || !roles.emitters[obj] {
			continue
		}
		// label-defining emissions of this function
		type defSite struct {
			call *ast.CallExpr
			arg  ast.Expr
			root types.Object
		}
		var defs []defSite
		ast.Inspect(fn.fd.Body, func(n ast.Node) bool {
			call, ok := n.(*ast.CallExpr)
			if !ok {
				return true
			}
			em, isEm := ex.of(fn, call)
			if !isEm || em == nil || em.op != labelOp || len(em.args) == 0 {
				return true
			}
			for _, a := range em.args {
				if b, ok := info.TypeOf(a).Underlying().(*types.Basic); ok && b.Info()&types.IsString != 0 {
					if v, isVar := vmObjOf(info, vmRootOf(a)).(*types.Var); isVar && v != nil && !v.IsField() {
						defs = append(defs, defSite{call, a, v})
					}
					break
				}
			}
			return true
		})
		// a label received as a parameter was created by the caller: its jumps are the caller's business
		{
			params := map[types.Object]bool{}
			for _, po := range vmParamObjs(fn) {
				if po != nil {
					params[po] = true
				}
			}
			kept := defs[:0]
			for _, d := range defs {
				if !params[d.root] {
					kept = append(kept, d)
				}
			}
			defs = kept
		}
		if len(defs) == 0 {
			continue
		}
		// alias classes of local variables: x = y, m[k] = y, x := m[k], struct fields are not followed
		parent := map[types.Object]types.Object{}
		var find func(o types.Object) types.Object
		find = func(o types.Object) types.Object {
			if p, ok := parent[o]; ok && p != o {
				r := find(p)
				parent[o] = r
				return r
			}
			return o
		}
		localRoot := func(e ast.Expr) types.Object {
			e = ast.Unparen(e)
			switch e.(type) {
			case *ast.Ident, *ast.IndexExpr:
			default:
				return nil
			}
			if v, ok := vmObjOf(info, vmRootOf(e)).(*types.Var); ok && v != nil && !v.IsField() {
				return v
			}
			return nil
		}
		linkStmt := map[ast.Stmt]bool{}
		ast.Inspect(fn.fd.Body, func(n ast.Node) bool {
			as, ok := n.(*ast.AssignStmt)
			if !ok || len(as.Lhs) != len(as.Rhs) {
				return true
			}
			for i := range as.Lhs {
				l, r := localRoot(as.Lhs[i]), localRoot(as.Rhs[i])
				if l == nil || r == nil || l == r {
					continue
				}
				// only string-carrying containers / variables
				if a, b := find(l), find(r); a != b {
					parent[a] = b
				}
				linkStmt[as] = true
			}
			return true
		})
		inClass := func(n ast.Node, cls types.Object) bool {
			found := false
			ast.Inspect(n, func(m ast.Node) bool {
				if id, ok := m.(*ast.Ident); ok {
					if o := info.ObjectOf(id); o != nil {
						if _, isVar := o.(*types.Var); isVar && find(o) == cls {
							found = true
						}
					}
				}
				return !found
			})
			return found
		}
		classes := map[types.Object]bool{}
		for _, d := range defs {
			classes[find(d.root)] = true
		}
		mentionsAny := func(n ast.Node) bool {
			for cls := range classes {
				if inClass(n, cls) {
					return true
				}
			}
			return false
		}
		// loops of the function (decisions inside them do not identify a path group)
		type span struct{ lo, hi token.Pos }
		var loops []span
		ast.Inspect(fn.fd.Body, func(n ast.Node) bool {
			switch n.(type) {
			case *ast.ForStmt, *ast.RangeStmt:
				loops = append(loops, span{n.Pos(), n.End()})
			}
			return true
		})
		inLoop := func(p token.Pos) bool {
			for _, s := range loops {
				if s.lo <= p && p < s.hi {
					return true
				}
			}
			return false
		}
		relevant := func(n ast.Node) bool {
			switch x := n.(type) {
			case *ast.CallExpr:
				if g := CalleeOf(info, x); g == nil {
					if id, ok := x.Fun.(*ast.Ident); ok {
						if b, isB := info.Uses[id].(*types.Builtin); isB && b.Name() == "panic" {
							return true
						}
					}
				}
				return mentionsAny(x)
			case *ast.AssignStmt:
				return mentionsAny(x)
			case *ast.ReturnStmt:
				return mentionsAny(x)
			}
			return false
		}
		res := vmWalk(vmWalkOpts{fn: fn, correlate: true, replace: vmSlicer(relevant), maxPaths: 50000})
		if res.overflow {
			obs = append(obs, Obligation{Key: fn.name + "|<paths>", Pos: c.Pos(fn.fd.Pos()), Status: Undecided, Detail: "path cap exceeded"})
			continue
		}
		tops := vmTopPosSet(c, fn)
		type group struct {
			defined    map[*ast.CallExpr]bool
			referenced map[types.Object]string
			sig        string
			conds      map[string]ast.Expr // decisions outside loops, by text
		}
		groups := map[string]*group{}
		for i := range res.paths {
			p := &res.paths[i]
			if !vmNormalExit(p) {
				continue
			}
			var sig []string
			for _, e := range p.ev {
				switch e.K {
				case evCond:
					if !inLoop(e.Pos) {
						sig = append(sig, fmt.Sprintf("%s:%v", vmTrunc(exprStr(e.X), 60), e.Taken))
					}
				case evCase, evTypeCase:
					if !inLoop(e.Pos) {
						var vs []string
						for _, v := range e.Vals {
							vs = append(vs, exprStr(v))
						}
						if e.Vals == nil {
							vs = []string{"default"}
						}
						_ = tops
						sig = append(sig, "case "+strings.Join(vs, ","))
					}
				}
			}
			k := strings.Join(sig, "; ")
			g := groups[k]
			if g == nil {
				g = &group{defined: map[*ast.CallExpr]bool{}, referenced: map[types.Object]string{}, sig: k, conds: map[string]ast.Expr{}}
				groups[k] = g
				for _, e := range p.ev {
					if e.K == evCond && !inLoop(e.Pos) {
						g.conds[exprStr(e.X)] = e.X
					}
				}
			}
			for _, e := range p.ev {
				switch e.K {
				case evCall:
					if e.Call == nil {
						continue
					}
					isDef := false
					for _, d := range defs {
						if d.call == e.Call {
							g.defined[d.call] = true
							isDef = true
						}
					}
					if isDef {
						continue
					}
					// a nested call that is an argument of a defining emission (the instruction constructor) is not a reference
					nested := false
					for _, d := range defs {
						if d.call.Pos() <= e.Call.Pos() && e.Call.End() <= d.call.End() {
							nested = true
						}
					}
					if nested {
						continue
					}
					for cls := range classes {
						if _, ok := g.referenced[cls]; !ok && inClass(e.Call, cls) {
							g.referenced[cls] = c.Pos(e.Pos)
						}
					}
				case evAssign:
					if as, ok := e.Stmt.(*ast.AssignStmt); ok && linkStmt[as] {
						continue
					}
					if e.Rhs == nil {
						continue
					}
					if _, isCall := ast.Unparen(e.Rhs).(*ast.CallExpr); isCall {
						continue // calls are judged by their own event
					}
					lcls := types.Object(nil)
					if l := localRoot(e.Lhs); l != nil {
						lcls = find(l)
					}
					for cls := range classes {
						if cls == lcls {
							continue
						}
						if _, ok := g.referenced[cls]; !ok && inClass(e.Rhs, cls) {
							g.referenced[cls] = c.Pos(e.Pos)
						}
					}
				case evRet:
					if e.Ret != nil {
						for cls := range classes {
							if _, ok := g.referenced[cls]; !ok && inClass(e.Ret, cls) {
								g.referenced[cls] = c.Pos(e.Pos)
							}
						}
					}
				}
			}
		}
		// a decision combination is only judged when its conditions can be correlated: two different
		// conditions over the same variable of which one goes through a call (an accessor such as
		// node.HasElse() next to node.ElseBlock != nil) may be the same fact — their independent
		// combination can be infeasible, so nothing is concluded from it
		undecidable := func(g *group) string {
			var texts []string
			for t := range g.conds {
				texts = append(texts, t)
			}
			sort.Strings(texts)
			objsOf := func(e ast.Expr) map[types.Object]bool {
				m := map[types.Object]bool{}
				ast.Inspect(e, func(n ast.Node) bool {
					if id, ok := n.(*ast.Ident); ok {
						if v, ok := info.ObjectOf(id).(*types.Var); ok && !v.IsField() {
							m[v] = true
						}
					}
					return true
				})
				return m
			}
			hasCall := func(e ast.Expr) bool {
				found := false
				ast.Inspect(e, func(n ast.Node) bool {
					if call, ok := n.(*ast.CallExpr); ok {
						if tv, isT := info.Types[call.Fun]; !isT || !tv.IsType() {
							found = true
						}
					}
					return !found
				})
				return found
			}
			for i := 0; i < len(texts); i++ {
				for j := i + 1; j < len(texts); j++ {
					a, b := g.conds[texts[i]], g.conds[texts[j]]
					if !hasCall(a) && !hasCall(b) {
						continue
					}
					oa := objsOf(a)
					for o := range objsOf(b) {
						if oa[o] {
							return fmt.Sprintf("`%s` and `%s`", vmTrunc(texts[i], 60), vmTrunc(texts[j], 60))
						}
					}
				}
			}
			return ""
		}
		var gkeys []string
		for k := range groups {
			gkeys = append(gkeys, k)
		}
		sort.Strings(gkeys)
		count := map[string]int{}
		sort.Slice(defs, func(i, j int) bool { return defs[i].call.Pos() < defs[j].call.Pos() })
		for _, d := range defs {
			total++
			key := r2UnitKey(c, fn, d.call.Pos()) + "|label " + vmTrunc(exprStr(d.arg), 40)
			count[key]++
			if count[key] > 1 {
				key += fmt.Sprintf(" #%d", count[key])
			}
			ob := Obligation{Key: key + "|is the target of a jump wherever it is defined", Pos: c.Pos(d.call.Pos()), Nontrivial: true}
			cls := find(d.root)
			var bad, skipped []string
			nDef := 0
			for _, k := range gkeys {
				g := groups[k]
				if !g.defined[d.call] {
					continue
				}
				nDef++
				if _, ok := g.referenced[cls]; !ok {
					if u := undecidable(g); u != "" {
						skipped = append(skipped, u)
						continue
					}
					bad = append(bad, "["+vmTrunc(k, 200)+"]")
				}
			}
			switch {
			case len(bad) > 0:
				ob.Status = Violated
				ob.Detail = fmt.Sprintf("under the decisions %s the label is defined but nothing else mentions it (no jump, conditional jump, handler installation or record carries it): the code behind the label is unreachable there, and the transfers that should arrive at it go elsewhere, skipping the stack clean-up / entry code emitted behind the label (e.g. the Drop of a match's control value left by the pop-once comparison: one operand leaks per execution)", strings.Join(bad, ", "))
			case nDef == 0:
				ob.Status, ob.Detail = Info, "no explored non-panicking path emits the label"
			default:
				ob.Status, ob.Detail = Discharged, fmt.Sprintf("defined under %d decision group(s), referenced by another emission / record in each", nDef)
				if len(skipped) > 0 {
					ob.Detail += fmt.Sprintf(" (not concluded from %d combination(s) whose conditions may be the same fact: %s)", len(skipped), strings.Join(vmUniq(skipped), "; "))
				}
			}
			obs = append(obs, ob)
		}
	}
	if total == 0 {
		obs = append(obs, Obligation{Key: "compiler|label definitions", Status: Undecided, Detail: "no emission of the Label opcode with a local label variable was found: re-anchor the rule"})
	}
	sort.SliceStable(obs, func(i, j int) bool { return obs[i].Key < obs[j].Key })
	return obs
}
