package main

// Shared machinery of the `vm` rule group (R-stack-effect, R-pairing-*,
// R-must-pass-*, R-emit-must, R-exception-unwind).
//
// The approach is the same for every rule: a function body is walked with the
// generic Walker (paths.go); along each path an ordered *event trace* is
// recorded (calls in evaluation order, assignments, inc/dec, channel sends,
// branch decisions, switch clauses, loop-iteration boundaries, deferred calls
// replayed LIFO at every exit). The rules then decide their obligations on the
// set of traces. Nothing here matches on source text or line numbers: callees
// are *types.Func objects, fields are *types.Var objects, opcodes are
// *types.Const objects.

import (
	"fmt"
	"go/ast"
	"go/constant"
	"go/token"
	"go/types"
	"sort"
	"strings"

	"golang.org/x/tools/go/packages"
)

// ---------------------------------------------------------------- functions

type vmFn struct {
	c    *Ctx
	pkg  *packages.Package
	info *types.Info
	fd   *ast.FuncDecl
	name string // "runtime.(*Core).Run"
}

func vmNewFn(c *Ctx, pkg *packages.Package, fd *ast.FuncDecl) *vmFn {
	short := relPkg(pkg.PkgPath)
	if i := strings.LastIndex(short, "/"); i >= 0 {
		short = short[i+1:]
	}
	n := fd.Name.Name
	if fd.Recv != nil && len(fd.Recv.List) > 0 {
		r := recvTypeName(fd.Recv.List[0].Type)
		if _, ok := fd.Recv.List[0].Type.(*ast.StarExpr); ok {
			n = "(*" + r + ")." + n
		} else {
			n = r + "." + n
		}
	}
	return &vmFn{c: c, pkg: pkg, info: vmInfo(c), fd: fd, name: short + "." + n}
}

func vmFuncs(c *Ctx, rel string) []*vmFn {
	p := c.Pkg(rel)
	var out []*vmFn
	for _, fd := range AllFuncDecls(p) {
		out = append(out, vmNewFn(c, p, fd))
	}
	return out
}

func vmMustFn(c *Ctx, rel, recv, name string) *vmFn {
	return vmNewFn(c, c.Pkg(rel), c.MustFunc(rel, recv, name))
}

// vmDeclIndex maps function objects of the analysed module to their
// declarations (for summaries: "always panics", "never returns nil").
type vmDecls struct {
	byObj map[*types.Func]*vmFn
}

var vmDeclCache = map[*Ctx]*vmDecls{}

func vmDeclIndex(c *Ctx) *vmDecls {
	if d := vmDeclCache[c]; d != nil {
		return d
	}
	d := &vmDecls{byObj: map[*types.Func]*vmFn{}}
	for _, p := range c.All {
		for _, fd := range AllFuncDecls(p) {
			if obj, ok := p.TypesInfo.Defs[fd.Name].(*types.Func); ok {
				d.byObj[obj] = vmNewFn(c, p, fd)
			}
		}
	}
	vmDeclCache[c] = d
	return d
}

func (d *vmDecls) of(f *types.Func) *vmFn {
	if f == nil {
		return nil
	}
	return d.byObj[f.Origin()]
}

// vmAlwaysPanics: the callee's body unconditionally ends in panic(...).
func vmAlwaysPanics(c *Ctx, f *types.Func) bool {
	fn := vmDeclIndex(c).of(f)
	if fn == nil {
		return false
	}
	return BodyPanics(fn.info, fn.fd.Body.List)
}

// vmNeverNil: every return of f yields a non-nil pointer as its last
// pointer-typed result: `&x`, or a call of a function with the same property.
func vmNeverNil(c *Ctx, f *types.Func, seen map[*types.Func]bool) bool {
	fn := vmDeclIndex(c).of(f)
	if fn == nil || seen[f] {
		return false
	}
	seen[f] = true
	ok, any := true, false
	ast.Inspect(fn.fd.Body, func(n ast.Node) bool {
		switch x := n.(type) {
		case *ast.FuncLit:
			return false
		case *ast.ReturnStmt:
			any = true
			if len(x.Results) == 0 {
				ok = false
				return false
			}
			r := ast.Unparen(x.Results[len(x.Results)-1])
			switch y := r.(type) {
			case *ast.UnaryExpr:
				if y.Op != token.AND {
					ok = false
				}
			case *ast.CallExpr:
				g := CalleeOf(fn.info, y)
				if g == nil || !vmNeverNil(c, g, seen) {
					ok = false
				}
			default:
				ok = false
			}
		}
		return true
	})
	return ok && any
}

// vmReturnsVia: every return of f is a call (transitively) of target.
func vmReturnsVia(c *Ctx, f, target *types.Func, depth int) bool {
	if f == nil || depth > 4 {
		return false
	}
	if f.Origin() == target.Origin() {
		return true
	}
	fn := vmDeclIndex(c).of(f)
	if fn == nil {
		return false
	}
	ok, any := true, false
	ast.Inspect(fn.fd.Body, func(n ast.Node) bool {
		switch x := n.(type) {
		case *ast.FuncLit:
			return false
		case *ast.ReturnStmt:
			any = true
			if len(x.Results) != 1 {
				ok = false
				return false
			}
			call, isCall := ast.Unparen(x.Results[0]).(*ast.CallExpr)
			if !isCall || !vmReturnsVia(c, CalleeOf(fn.info, call), target, depth+1) {
				ok = false
			}
		}
		return true
	})
	return ok && any
}

// ------------------------------------------------------------ type helpers

func vmNamed(t types.Type) *types.Named {
	if t == nil {
		return nil
	}
	t = types.Unalias(t)
	if p, ok := t.(*types.Pointer); ok {
		t = types.Unalias(p.Elem())
	}
	n, _ := t.(*types.Named)
	return n
}

func vmIsNamed(t types.Type, pkgSuffix, name string) bool {
	n := vmNamed(t)
	if n == nil || n.Obj().Pkg() == nil {
		return false
	}
	return n.Obj().Name() == name && (n.Obj().Pkg().Path() == pkgSuffix || strings.HasSuffix(n.Obj().Pkg().Path(), "/"+pkgSuffix))
}

// vmFieldOf resolves a selector expression to the struct field it denotes.
func vmFieldOf(info *types.Info, e ast.Expr) *types.Var {
	e = ast.Unparen(e)
	if s, ok := e.(*ast.StarExpr); ok {
		e = ast.Unparen(s.X)
	}
	sel, ok := e.(*ast.SelectorExpr)
	if !ok {
		return nil
	}
	if s := info.Selections[sel]; s != nil && s.Kind() == types.FieldVal {
		if v, ok := s.Obj().(*types.Var); ok {
			return v
		}
	}
	return nil
}

// vmStructField looks a field up by owner type and name (exported API or a
// field discovered by role).
func vmStructField(pkg *packages.Package, typeName, field string) *types.Var {
	obj := pkg.Types.Scope().Lookup(typeName)
	if obj == nil {
		return nil
	}
	st, ok := obj.Type().Underlying().(*types.Struct)
	if !ok {
		return nil
	}
	for i := 0; i < st.NumFields(); i++ {
		if st.Field(i).Name() == field {
			return st.Field(i)
		}
	}
	return nil
}

// vmOwner returns "Struct.Field" for a field (owner found by scanning the
// package scope of the field's package).
func vmFieldName(v *types.Var) string {
	if v == nil {
		return "?"
	}
	if v.Pkg() != nil {
		sc := v.Pkg().Scope()
		for _, n := range sc.Names() {
			tn, ok := sc.Lookup(n).(*types.TypeName)
			if !ok {
				continue
			}
			st, ok := tn.Type().Underlying().(*types.Struct)
			if !ok {
				continue
			}
			for i := 0; i < st.NumFields(); i++ {
				if st.Field(i) == v {
					return tn.Name() + "." + v.Name()
				}
			}
		}
	}
	return v.Name()
}

func vmOwnerStruct(v *types.Var) (*types.TypeName, *types.Struct) {
	if v == nil || v.Pkg() == nil {
		return nil, nil
	}
	sc := v.Pkg().Scope()
	for _, n := range sc.Names() {
		tn, ok := sc.Lookup(n).(*types.TypeName)
		if !ok {
			continue
		}
		st, ok := tn.Type().Underlying().(*types.Struct)
		if !ok {
			continue
		}
		for i := 0; i < st.NumFields(); i++ {
			if st.Field(i) == v {
				return tn, st
			}
		}
	}
	return nil, nil
}

// vmMentionsField: does the expression read field f anywhere?
func vmMentionsField(info *types.Info, e ast.Node, f *types.Var) bool {
	if e == nil || f == nil {
		return false
	}
	found := false
	ast.Inspect(e, func(n ast.Node) bool {
		if sel, ok := n.(*ast.SelectorExpr); ok {
			if s := info.Selections[sel]; s != nil && s.Obj() == f {
				found = true
			}
		}
		return !found
	})
	return found
}

func vmMentionsObj(info *types.Info, e ast.Node, o types.Object) bool {
	if e == nil || o == nil {
		return false
	}
	found := false
	ast.Inspect(e, func(n ast.Node) bool {
		if id, ok := n.(*ast.Ident); ok && (info.Uses[id] == o || info.Defs[id] == o) {
			found = true
		}
		return !found
	})
	return found
}

func vmObjOf(info *types.Info, e ast.Expr) types.Object {
	id, ok := ast.Unparen(e).(*ast.Ident)
	if !ok {
		return nil
	}
	if o := info.Defs[id]; o != nil {
		return o
	}
	return info.Uses[id]
}

// vmStripConv removes parentheses and type conversions (int(x), uint(x), …).
func vmStripConv(info *types.Info, e ast.Expr) ast.Expr {
	for {
		e = ast.Unparen(e)
		call, ok := e.(*ast.CallExpr)
		if !ok || len(call.Args) != 1 {
			return e
		}
		if tv, ok := info.Types[call.Fun]; ok && tv.IsType() {
			e = call.Args[0]
			continue
		}
		return e
	}
}

func vmIsNil(info *types.Info, e ast.Expr) bool {
	id, ok := ast.Unparen(e).(*ast.Ident)
	if !ok {
		return false
	}
	_, isNil := info.Uses[id].(*types.Nil)
	return isNil
}

// ------------------------------------------------- stack-discipline methods

// vmStackRoles: for a slice-typed struct field F, the methods that push
// (assign `x.F = append(x.F, …)`) and pop (assign `x.F = x.F[:len(x.F)-k]`).
type vmStackRoles struct {
	field *types.Var
	push  map[*types.Func]int // appended element count
	pop   map[*types.Func]int // removed element count
}

func (r *vmStackRoles) names() string {
	var a []string
	for f := range r.push {
		a = append(a, "push="+f.Name())
	}
	for f := range r.pop {
		a = append(a, "pop="+f.Name())
	}
	sort.Strings(a)
	return strings.Join(a, " ")
}

// vmLenPlus parses e as len(x.F)+k, looking through locals of fn that are
// defined exactly once (`top := len(core.Stack) - 1`).
func vmLenPlus(info *types.Info, e ast.Expr, f *types.Var, defs func(types.Object) ast.Expr, depth int) (k int64, ok bool) {
	e = vmStripConv(info, e)
	if depth > 4 {
		return 0, false
	}
	switch x := e.(type) {
	case *ast.CallExpr:
		if id, isId := x.Fun.(*ast.Ident); isId && len(x.Args) == 1 {
			if b, isB := info.Uses[id].(*types.Builtin); isB && b.Name() == "len" && vmFieldOf(info, x.Args[0]) == f {
				return 0, true
			}
		}
	case *ast.Ident:
		if defs != nil {
			if def := defs(vmObjOf(info, x)); def != nil {
				return vmLenPlus(info, def, f, defs, depth+1)
			}
		}
	case *ast.BinaryExpr:
		if x.Op == token.ADD || x.Op == token.SUB {
			if tv := info.Types[x.Y]; tv.Value != nil {
				if n, exact := constant.Int64Val(constant.ToInt(tv.Value)); exact {
					if k0, ok0 := vmLenPlus(info, x.X, f, defs, depth+1); ok0 {
						if x.Op == token.ADD {
							return k0 + n, true
						}
						return k0 - n, true
					}
				}
			}
		}
	}
	return 0, false
}

// vmSliceWrite classifies an assignment `lhs = rhs` to field f: +n for an
// append of n elements, -k for a reslice dropping k trailing elements, ok=false
// when it is some other write.
func vmSliceWrite(info *types.Info, lhs, rhs ast.Expr, f *types.Var) (delta int, ok bool) {
	return vmSliceWriteIn(info, lhs, rhs, f, nil)
}

func vmSliceWriteIn(info *types.Info, lhs, rhs ast.Expr, f *types.Var, defs func(types.Object) ast.Expr) (delta int, ok bool) {
	if vmFieldOf(info, lhs) != f {
		return 0, false
	}
	rhs = ast.Unparen(rhs)
	if call, isCall := rhs.(*ast.CallExpr); isCall {
		if id, isId := call.Fun.(*ast.Ident); isId {
			if b, isB := info.Uses[id].(*types.Builtin); isB && b.Name() == "append" && len(call.Args) >= 2 && vmFieldOf(info, call.Args[0]) == f && !call.Ellipsis.IsValid() {
				return len(call.Args) - 1, true
			}
		}
		return 0, false
	}
	if sl, isSl := rhs.(*ast.SliceExpr); isSl && sl.High != nil && vmFieldOf(info, sl.X) == f {
		if sl.Low != nil {
			if tv := info.Types[sl.Low]; tv.Value == nil || tv.Value.ExactString() != "0" {
				return 0, false
			}
		}
		// x.F[:len(x.F)-k] (also the full slice expression x.F[:n:max]: the capacity does not matter),
		// the bound possibly held in a local
		if k, isLen := vmLenPlus(info, sl.High, f, defs, 0); isLen && k < 0 {
			return int(k), true
		}
	}
	return 0, false
}

// vmDiscoverStack finds the push/pop methods of field f among the functions
// of the package: a method qualifies when its body is straight-line and
// contains exactly one write to f, which is a push or a pop (decided by the
// shape of the write, whatever the locals are called).
func vmDiscoverStack(fns []*vmFn, f *types.Var) *vmStackRoles {
	r := &vmStackRoles{field: f, push: map[*types.Func]int{}, pop: map[*types.Func]int{}}
	for _, fn := range fns {
		obj, _ := fn.info.Defs[fn.fd.Name].(*types.Func)
		if obj == nil {
			continue
		}
		fn := fn
		defs := func(o types.Object) ast.Expr {
			if o == nil {
				return nil
			}
			return vmSingleDef(fn, o)
		}
		writes, delta, clean := 0, 0, true
		for _, s := range fn.fd.Body.List {
			switch x := s.(type) {
			case *ast.AssignStmt:
				for i, l := range x.Lhs {
					if vmFieldOf(fn.info, l) == f && i < len(x.Rhs) {
						d, ok := vmSliceWriteIn(fn.info, l, x.Rhs[i], f, defs)
						writes++
						if !ok {
							clean = false
						}
						delta = d
					}
				}
			case *ast.ReturnStmt, *ast.ExprStmt, *ast.DeclStmt:
			default:
				// branching body: not a primitive push/pop
				if vmWritesField(fn.info, s, f) {
					clean = false
					writes++
				}
			}
		}
		if writes == 1 && clean && len(fn.fd.Body.List) <= 6 {
			if delta > 0 {
				r.push[obj] = delta
			} else if delta < 0 {
				r.pop[obj] = -delta
			}
		}
	}
	return r
}

func vmWritesField(info *types.Info, n ast.Node, f *types.Var) bool {
	found := false
	ast.Inspect(n, func(n ast.Node) bool {
		switch x := n.(type) {
		case *ast.AssignStmt:
			for _, l := range x.Lhs {
				if vmFieldOf(info, vmBaseOfIndex(l)) == f {
					found = true
				}
			}
		case *ast.IncDecStmt:
			if vmFieldOf(info, vmBaseOfIndex(x.X)) == f {
				found = true
			}
		}
		return !found
	})
	return found
}

// vmBaseOfIndex strips index / slice / star wrappers: x.F[i][j] → x.F.
func vmBaseOfIndex(e ast.Expr) ast.Expr {
	for {
		e = ast.Unparen(e)
		switch x := e.(type) {
		case *ast.IndexExpr:
			e = x.X
		case *ast.SliceExpr:
			e = x.X
		case *ast.StarExpr:
			e = x.X
		default:
			return e
		}
	}
}

// ------------------------------------------------------------------ events

type vmEvKind int

const (
	evCall vmEvKind = iota
	evAssign
	evIncDec
	evSend
	evRecv
	evCond
	evCase
	evTypeCase
	evRet
	evIter   // one loop iteration completed; From = index of the first event of the iteration
	evMarker // rewritten statement
	evDeferReg
	evGo
	evRange
)

type vmEv struct {
	K         vmEvKind
	Fn        *types.Func   // evCall
	Call      *ast.CallExpr // evCall
	Lhs, Rhs  ast.Expr      // evAssign (Rhs may be nil for tuple assignments)
	Tok       token.Token   // evAssign / evIncDec
	Stmt      ast.Stmt
	X         ast.Expr // evIncDec operand, evSend channel, evCond condition, evRecv channel
	Val       ast.Expr // evSend value
	Taken     bool     // evCond
	Sw        ast.Stmt // evCase / evTypeCase
	Vals      []ast.Expr
	Others    []ast.Expr
	Select    bool // evCase of a rewritten select
	SelStmt   *ast.SelectStmt
	Loop      ast.Stmt
	From      int
	Payload   any // evMarker
	Deferred  bool
	DeferCond bool // inside a conditional of a deferred function literal
	Ret       *ast.ReturnStmt
	Pos       token.Pos
}

type vmSt struct {
	ev     []vmEv
	conds  map[string]bool
	defers []*ast.DeferStmt
}

func vmCloneSt(s *vmSt) *vmSt {
	n := &vmSt{ev: make([]vmEv, len(s.ev), len(s.ev)+8), conds: make(map[string]bool, len(s.conds)), defers: append([]*ast.DeferStmt(nil), s.defers...)}
	copy(n.ev, s.ev)
	for k, v := range s.conds {
		n.conds[k] = v
	}
	return n
}

type vmPath struct {
	ev    []vmEv
	o     outcome
	binds map[ast.Stmt]vmBindKind // bindings introduced by inlining (nil without)
}

// decisions renders the branch decisions of a path (the witness).
func (p *vmPath) decisions() string {
	var out []string
	for _, e := range p.ev {
		switch e.K {
		case evCond:
			out = append(out, fmt.Sprintf("%s:%v", exprStr(e.X), e.Taken))
		case evCase:
			if e.Select {
				if e.Vals == nil {
					out = append(out, "select:default")
				} else {
					out = append(out, "select:comm")
				}
				continue
			}
			if e.Vals == nil {
				out = append(out, "default")
			} else {
				var v []string
				for _, x := range e.Vals {
					v = append(v, exprStr(x))
				}
				out = append(out, "case "+strings.Join(v, ","))
			}
		case evIter:
			out = append(out, "iter")
		}
	}
	s := strings.Join(out, "; ")
	if len(s) > 600 {
		s = s[:600] + "…"
	}
	return s
}

func (p *vmPath) exitStr(c *Ctx) string {
	switch p.o.kind {
	case cReturn:
		return "return at " + c.Pos(p.o.at)
	case cPanic:
		return "panic at " + c.Pos(p.o.at)
	case cBreak:
		return "break at " + c.Pos(p.o.at)
	case cContinue:
		return "continue at " + c.Pos(p.o.at)
	}
	return "end of body"
}

// hasDecision: the path decided an atom whose text is `text` with value v.
func (p *vmPath) hasDecision(text string, v bool) bool {
	for _, e := range p.ev {
		if e.K == evCond && e.Taken == v && exprStr(e.X) == text {
			return true
		}
	}
	return false
}

// ---------------------------------------------------------------- gatherer

type vmGather struct {
	info      *types.Info
	st        *vmSt
	deferred  bool
	deferCond bool
}

func (g *vmGather) add(e vmEv) {
	e.Deferred = g.deferred
	e.DeferCond = g.deferCond
	g.st.ev = append(g.st.ev, e)
}

// expr records the calls / receives inside an expression in evaluation order.
func (g *vmGather) expr(e ast.Node) {
	if e == nil {
		return
	}
	var stack []ast.Node
	ast.Inspect(e, func(n ast.Node) bool {
		if n == nil {
			top := stack[len(stack)-1]
			stack = stack[:len(stack)-1]
			switch x := top.(type) {
			case *ast.CallExpr:
				if tv, ok := g.info.Types[x.Fun]; ok && tv.IsType() {
					return true // conversion
				}
				g.add(vmEv{K: evCall, Fn: CalleeOf(g.info, x), Call: x, Pos: x.Pos()})
			case *ast.UnaryExpr:
				if x.Op == token.ARROW {
					g.add(vmEv{K: evRecv, X: x.X, Pos: x.Pos()})
				}
			}
			return true
		}
		if _, ok := n.(*ast.FuncLit); ok {
			return false
		}
		stack = append(stack, n)
		return true
	})
}

func (g *vmGather) stmt(s ast.Stmt) {
	switch x := s.(type) {
	case nil:
	case *ast.ExprStmt:
		g.expr(x.X)
	case *ast.AssignStmt:
		for _, r := range x.Rhs {
			g.expr(r)
		}
		for _, l := range x.Lhs {
			g.expr(l)
		}
		for i, l := range x.Lhs {
			var r ast.Expr
			if len(x.Rhs) == len(x.Lhs) {
				r = x.Rhs[i]
			} else if len(x.Rhs) == 1 {
				r = x.Rhs[0]
			}
			g.add(vmEv{K: evAssign, Lhs: l, Rhs: r, Tok: x.Tok, Stmt: x, Pos: x.Pos()})
		}
	case *ast.IncDecStmt:
		g.expr(x.X)
		g.add(vmEv{K: evIncDec, X: x.X, Tok: x.Tok, Stmt: x, Pos: x.Pos()})
	case *ast.SendStmt:
		g.expr(x.Chan)
		g.expr(x.Value)
		g.add(vmEv{K: evSend, X: x.Chan, Val: x.Value, Stmt: x, Pos: x.Pos()})
	case *ast.DeclStmt:
		if gd, ok := x.Decl.(*ast.GenDecl); ok {
			for _, sp := range gd.Specs {
				if vs, ok := sp.(*ast.ValueSpec); ok {
					for _, v := range vs.Values {
						g.expr(v)
					}
					for i, n := range vs.Names {
						var r ast.Expr
						if i < len(vs.Values) {
							r = vs.Values[i]
						}
						g.add(vmEv{K: evAssign, Lhs: n, Rhs: r, Tok: token.DEFINE, Stmt: x, Pos: x.Pos()})
					}
				}
			}
		}
	case *ast.ReturnStmt:
		for _, r := range x.Results {
			g.expr(r)
		}
		g.add(vmEv{K: evRet, Ret: x, Pos: x.Pos()})
	case *ast.GoStmt:
		for _, a := range x.Call.Args {
			g.expr(a)
		}
		g.add(vmEv{K: evGo, Call: x.Call, Pos: x.Pos()})
	case *ast.LabeledStmt:
		g.stmt(x.Stmt)
	}
}

// deferredBody replays a deferred function literal's statements in source
// order; statements under a condition are flagged (rules that depend on them
// report "undecided" instead of guessing).
func (g *vmGather) deferredBody(n ast.Node, cond bool) {
	switch x := n.(type) {
	case *ast.BlockStmt:
		for _, s := range x.List {
			g.deferredBody(s, cond)
		}
	case *ast.IfStmt:
		saved := g.deferCond
		g.stmt(x.Init)
		g.expr(x.Cond)
		g.deferCond = true
		g.deferredBody(x.Body, true)
		if x.Else != nil {
			g.deferredBody(x.Else, true)
		}
		g.deferCond = saved
	case *ast.ForStmt, *ast.RangeStmt, *ast.SwitchStmt, *ast.TypeSwitchStmt, *ast.SelectStmt:
		saved := g.deferCond
		g.deferCond = true
		ast.Inspect(x, func(m ast.Node) bool {
			if s, ok := m.(ast.Stmt); ok && m != n {
				switch s.(type) {
				case *ast.ExprStmt, *ast.AssignStmt, *ast.IncDecStmt, *ast.SendStmt:
					g.stmt(s)
					return false
				}
			}
			return true
		})
		g.deferCond = saved
	case ast.Stmt:
		g.stmt(x)
	}
}

// ---------------------------------------------------------------- rewriter

// vmRewriter rebuilds the statement containers of a body (expressions and
// simple statements are shared with the type-checked tree, so types.Info
// lookups keep working). select statements become synthetic switches (the
// generic Walker has no select support); rules may replace statements by
// markers.
type vmRewriter struct {
	selects map[*ast.SwitchStmt]*ast.SelectStmt
	markers map[ast.Stmt]any
	replace func(s ast.Stmt) (any, bool) // payload → replace s by a marker
	inl     *vmInl                       // helper inlining (nil: none)
}

func vmNewRewriter() *vmRewriter {
	return &vmRewriter{selects: map[*ast.SwitchStmt]*ast.SelectStmt{}, markers: map[ast.Stmt]any{}}
}

func (rw *vmRewriter) block(b *ast.BlockStmt) *ast.BlockStmt {
	if b == nil {
		return nil
	}
	nb := &ast.BlockStmt{Lbrace: b.Lbrace, Rbrace: b.Rbrace}
	nb.List = rw.list(b.List)
	return nb
}

func (rw *vmRewriter) list(l []ast.Stmt) []ast.Stmt {
	out := make([]ast.Stmt, 0, len(l))
	for _, s := range l {
		out = append(out, rw.stmt(s))
	}
	return out
}

func (rw *vmRewriter) stmt(s ast.Stmt) ast.Stmt {
	if rw.replace != nil {
		if payload, ok := rw.replace(s); ok {
			// (an EmptyStmt would be skipped by the Walker, hence an expression statement)
			es := &ast.ExprStmt{X: &ast.Ident{NamePos: s.Pos(), Name: "__vm_marker"}}
			rw.markers[es] = payload
			return es
		}
	}
	if rw.inl != nil {
		if out, ok := rw.inl.tryStmt(rw, s); ok {
			return out
		}
		if ret, ok := s.(*ast.ReturnStmt); ok && rw.inl.ret != nil && rw.inl.ret.label != "" {
			return rw.inl.rewriteReturn(rw, ret)
		}
	}
	switch x := s.(type) {
	case *ast.BlockStmt:
		return rw.block(x)
	case *ast.LabeledStmt:
		return &ast.LabeledStmt{Label: x.Label, Colon: x.Colon, Stmt: rw.stmt(x.Stmt)}
	case *ast.IfStmt:
		n := &ast.IfStmt{If: x.If, Init: x.Init, Cond: x.Cond, Body: rw.block(x.Body)}
		if x.Else != nil {
			n.Else = rw.stmt(x.Else)
		}
		return n
	case *ast.ForStmt:
		return &ast.ForStmt{For: x.For, Init: x.Init, Cond: x.Cond, Post: x.Post, Body: rw.block(x.Body)}
	case *ast.RangeStmt:
		return &ast.RangeStmt{For: x.For, Key: x.Key, Value: x.Value, TokPos: x.TokPos, Tok: x.Tok, Range: x.Range, X: x.X, Body: rw.block(x.Body)}
	case *ast.SwitchStmt:
		n := &ast.SwitchStmt{Switch: x.Switch, Init: x.Init, Tag: x.Tag, Body: &ast.BlockStmt{Lbrace: x.Body.Lbrace, Rbrace: x.Body.Rbrace}}
		for _, c := range x.Body.List {
			cc := c.(*ast.CaseClause)
			n.Body.List = append(n.Body.List, &ast.CaseClause{Case: cc.Case, List: cc.List, Colon: cc.Colon, Body: rw.list(cc.Body)})
		}
		return n
	case *ast.TypeSwitchStmt:
		n := &ast.TypeSwitchStmt{Switch: x.Switch, Init: x.Init, Assign: x.Assign, Body: &ast.BlockStmt{Lbrace: x.Body.Lbrace, Rbrace: x.Body.Rbrace}}
		for _, c := range x.Body.List {
			cc := c.(*ast.CaseClause)
			n.Body.List = append(n.Body.List, &ast.CaseClause{Case: cc.Case, List: cc.List, Colon: cc.Colon, Body: rw.list(cc.Body)})
		}
		return n
	case *ast.SelectStmt:
		n := &ast.SwitchStmt{Switch: x.Select, Tag: &ast.Ident{NamePos: x.Select, Name: "__vm_select"}, Body: &ast.BlockStmt{Lbrace: x.Body.Lbrace, Rbrace: x.Body.Rbrace}}
		hasDefault := false
		for i, c := range x.Body.List {
			cc := c.(*ast.CommClause)
			nc := &ast.CaseClause{Case: cc.Case, Colon: cc.Colon}
			if cc.Comm == nil {
				hasDefault = true
			} else {
				nc.List = []ast.Expr{&ast.Ident{NamePos: cc.Case, Name: fmt.Sprintf("__vm_comm%d", i)}}
				nc.Body = append(nc.Body, cc.Comm)
			}
			nc.Body = append(nc.Body, rw.list(cc.Body)...)
			n.Body.List = append(n.Body.List, nc)
		}
		if !hasDefault {
			// a select without default blocks until a communication is ready: there is no
			// "no clause" continuation. Model it with a default clause that diverges.
			blk := &ast.ExprStmt{X: &ast.Ident{NamePos: x.Select, Name: "__vm_marker"}}
			rw.markers[blk] = vmBlockForever{}
			n.Body.List = append(n.Body.List, &ast.CaseClause{Case: x.Select, Body: []ast.Stmt{blk}})
		}
		rw.selects[n] = x
		return n
	}
	return s
}

type vmBlockForever struct{}

// ------------------------------------------------------------------ walker

type vmWalkOpts struct {
	fn        *vmFn
	body      *ast.BlockStmt // default: fn.fd.Body
	replace   func(s ast.Stmt) (any, bool)
	correlate bool // prune paths that decide the same side-effect-free condition differently
	maxPaths  int
	unroll    int
	// inline: splice the bodies of these callees into the walked body (see rules_vm_inline.go)
	inline func(callee *vmFn, call *ast.CallExpr) bool
}

type vmWalkResult struct {
	paths []vmPath
	// iters: one trace per explored loop iteration, ending in its evIter event
	// (iterations of loops that are never left, `for {}`, appear only here)
	iters       []vmPath
	overflow    bool
	unsupported []token.Pos
	body        *ast.BlockStmt          // rewritten body
	binds       map[ast.Stmt]vmBindKind // synthetic bindings of inlined calls (nil without inlining)
	inlined     map[*types.Func]*vmFn   // callees spliced in
}

func vmWalk(o vmWalkOpts) *vmWalkResult {
	fn := o.fn
	info := fn.info
	c := fn.c
	body := o.body
	if body == nil {
		body = fn.fd.Body
	}
	rw := vmNewRewriter()
	rw.replace = o.replace
	inline := o.inline
	if inline == nil {
		inline = vmDefaultInline(fn)
	}
	if inline != nil {
		rw.inl = vmNewInl(c, inline)
	}
	nb := rw.block(body)
	res := &vmWalkResult{body: nb}
	stable := vmStableObjs(info, fn.fd)
	var binds map[ast.Stmt]vmBindKind
	if rw.inl != nil {
		binds = rw.inl.binds
		res.binds, res.inlined = binds, rw.inl.used
		for _, g := range rw.inl.used {
			for o := range vmStableObjs(info, g.fd) {
				stable[o] = true
			}
		}
	}
	condKey := func(st *vmSt, e ast.Expr) string {
		if binds != nil {
			return vmCanonKey(info, binds, st.ev, len(st.ev), e)
		}
		return vmCondKey(info, e)
	}

	isPanic := func(s ast.Stmt) bool {
		es, ok := s.(*ast.ExprStmt)
		if !ok {
			return false
		}
		if _, isMarker := rw.markers[s]; isMarker {
			_, blocks := rw.markers[s].(vmBlockForever)
			return blocks
		}
		if IsPanicCall(info, s) {
			return true
		}
		if call, ok := es.X.(*ast.CallExpr); ok {
			if f := CalleeOf(info, call); f != nil && vmAlwaysPanics(c, f) {
				return true
			}
		}
		return false
	}

	w := &Walker[*vmSt]{
		Clone:      vmCloneSt,
		IsPanic:    isPanic,
		MaxPaths:   o.maxPaths,
		LoopUnroll: o.unroll,
		OnStmt: func(st *vmSt, s ast.Stmt) (*vmSt, bool) {
			if payload, ok := rw.markers[s]; ok {
				st.ev = append(st.ev, vmEv{K: evMarker, Payload: payload, Stmt: s, Pos: s.Pos()})
				return st, true
			}
			g := &vmGather{info: info, st: st}
			g.stmt(s)
			return st, true
		},
		OnCond: func(st *vmSt, cond ast.Expr, taken bool) (*vmSt, bool) {
			if tv, ok := info.Types[cond]; ok && tv.Value != nil && tv.Value.Kind() == constant.Bool {
				if constant.BoolVal(tv.Value) != taken {
					return st, false
				}
			}
			if binds != nil {
				if val, known := vmDecideAtom(c, info, binds, st.ev, cond); known {
					if val != taken {
						return st, false
					}
					if _, isId := ast.Unparen(cond).(*ast.Ident); isId {
						return st, true // the value of an inlined boolean result: not a decision of its own
					}
				}
			}
			g := &vmGather{info: info, st: st}
			g.expr(cond)
			if o.correlate && vmPureCond(info, cond, stable) {
				key := condKey(st, cond)
				if prev, seen := st.conds[key]; seen && prev != taken {
					return st, false
				}
				st.conds[key] = taken
			}
			st.ev = append(st.ev, vmEv{K: evCond, X: cond, Taken: taken, Pos: cond.Pos()})
			return st, true
		},
		OnCase: func(st *vmSt, sw *ast.SwitchStmt, vals, others []ast.Expr) (*vmSt, bool) {
			selStmt, isSel := rw.selects[sw]
			if !isSel && vmContSwitchPos[sw.Pos()] {
				// the opcode switch of a function the dispatcher handed its instruction to: only the
				// clauses compatible with the clause taken in the caller are feasible
				if set, _, _, seen := vmDispNarrow(info, st.ev, vals, others, true); seen && len(set) == 0 {
					return st, false
				}
			}
			if !isSel {
				// constant tag (dead configuration switches): only the matching clause is feasible
				g := &vmGather{info: info, st: st}
				g.expr(sw.Tag)
				if o.correlate && vmPureCond(info, sw.Tag, stable) {
					key := "switch " + condKey(st, sw.Tag)
					cur := vmCaseKey(vals)
					for k := range st.conds {
						if strings.HasPrefix(k, key+"=") && k != key+"="+cur && st.conds[k] {
							return st, false
						}
					}
					st.conds[key+"="+cur] = true
				}
			}
			st.ev = append(st.ev, vmEv{K: evCase, Sw: sw, Vals: vals, Others: others, Select: isSel, SelStmt: selStmt, Pos: sw.Pos()})
			return st, true
		},
		OnTypeCase: func(st *vmSt, sw *ast.TypeSwitchStmt, cc *ast.CaseClause) (*vmSt, bool) {
			st.ev = append(st.ev, vmEv{K: evTypeCase, Sw: sw, Vals: cc.List, Pos: cc.Pos()})
			return st, true
		},
		OnDefer: func(st *vmSt, d *ast.DeferStmt) (*vmSt, bool) {
			g := &vmGather{info: info, st: st}
			for _, a := range d.Call.Args {
				g.expr(a)
			}
			st.ev = append(st.ev, vmEv{K: evDeferReg, Stmt: d, Call: d.Call, Pos: d.Pos()})
			st.defers = append(st.defers, d)
			return st, true
		},
		OnRange: func(st *vmSt, r *ast.RangeStmt) (*vmSt, bool) {
			g := &vmGather{info: info, st: st}
			g.expr(r.X)
			st.ev = append(st.ev, vmEv{K: evRange, Loop: r, X: r.X, Pos: r.Pos()})
			return st, true
		},
	}
	w.OnLoopIter = func(loop ast.Stmt, before, after *vmSt) {
		after.ev = append(after.ev, vmEv{K: evIter, Loop: loop, From: len(before.ev), Pos: loop.Pos()})
		if len(res.iters) < 50000 {
			res.iters = append(res.iters, vmPath{ev: append([]vmEv(nil), after.ev...), o: outcome{kind: cContinue, at: loop.Pos()}, binds: binds})
		}
	}
	w.Exit = func(st *vmSt, oc outcome) {
		// replay deferred calls, last registered first
		for i := len(st.defers) - 1; i >= 0; i-- {
			d := st.defers[i]
			g := &vmGather{info: info, st: st, deferred: true}
			if lit, ok := ast.Unparen(d.Call.Fun).(*ast.FuncLit); ok {
				g.deferredBody(lit.Body, false)
				continue
			}
			if rw.inl != nil {
				// `defer leave()` where leave is a local closure, or a helper the rule wants to see through
				if id, isId := ast.Unparen(d.Call.Fun).(*ast.Ident); isId {
					if r, _, _ := vmResolveAt(info, binds, st.ev, len(st.ev), id); r != nil {
						if lit, ok := ast.Unparen(r).(*ast.FuncLit); ok && len(d.Call.Args) == 0 {
							g.deferredBody(lit.Body, false)
							continue
						}
					}
				}
				if call, callee := rw.inl.inlinable(d.Call); callee != nil {
					rw.inl.used[CalleeOf(info, call).Origin()] = callee
					g.add(vmEv{K: evMarker, Payload: vmInlineMark{fn: callee, call: call, enter: true}, Pos: d.Pos()})
					for _, b := range rw.inl.bindings(call, callee) {
						g.stmt(b)
					}
					g.deferredBody(callee.fd.Body, false)
					g.add(vmEv{K: evMarker, Payload: vmInlineMark{fn: callee, call: call, enter: false}, Pos: d.Pos()})
					continue
				}
			}
			g.expr(d.Call.Fun)
			g.add(vmEv{K: evCall, Fn: CalleeOf(info, d.Call), Call: d.Call, Pos: d.Pos()})
		}
		res.paths = append(res.paths, vmPath{ev: st.ev, o: oc, binds: binds})
	}
	w.Run(nb, &vmSt{conds: map[string]bool{}})
	res.overflow = w.Overflow
	res.unsupported = w.Unsupported
	return res
}

// vmCondKey: text of the condition plus the identity of the variables it
// reads (shadowed names must not be confused).
func vmCondKey(info *types.Info, e ast.Expr) string {
	var b strings.Builder
	b.WriteString(exprStr(e))
	ast.Inspect(e, func(n ast.Node) bool {
		if id, ok := n.(*ast.Ident); ok {
			if v, ok := info.Uses[id].(*types.Var); ok && !v.IsField() {
				fmt.Fprintf(&b, "@%d", v.Pos())
			}
		}
		return true
	})
	return b.String()
}

func vmCaseKey(vals []ast.Expr) string {
	if vals == nil {
		return "default"
	}
	var v []string
	for _, x := range vals {
		v = append(v, exprStr(x))
	}
	return strings.Join(v, ",")
}

// vmStableObjs: local objects / parameters that are assigned at most once in
// the function (their definition); conditions over them and over field chains
// rooted in them can be correlated along a path.
func vmStableObjs(info *types.Info, fd *ast.FuncDecl) map[types.Object]bool {
	cnt := map[types.Object]int{}
	ast.Inspect(fd, func(n ast.Node) bool {
		switch x := n.(type) {
		case *ast.AssignStmt:
			for _, l := range x.Lhs {
				if id, ok := ast.Unparen(l).(*ast.Ident); ok {
					if o := info.Defs[id]; o != nil {
						cnt[o]++
					} else if o := info.Uses[id]; o != nil {
						cnt[o] += 2
					}
				}
			}
		case *ast.IncDecStmt:
			if o := vmObjOf(info, x.X); o != nil {
				cnt[o] += 2
			}
		case *ast.RangeStmt:
			if o := vmObjOf(info, x.Key); o != nil {
				cnt[o] += 2
			}
			if x.Value != nil {
				if o := vmObjOf(info, x.Value); o != nil {
					cnt[o] += 2
				}
			}
		case *ast.UnaryExpr:
			if x.Op == token.AND {
				if o := vmObjOf(info, x.X); o != nil {
					cnt[o] += 2
				}
			}
		}
		return true
	})
	out := map[types.Object]bool{}
	ast.Inspect(fd, func(n ast.Node) bool {
		if id, ok := n.(*ast.Ident); ok {
			o := info.Defs[id]
			if o == nil {
				o = info.Uses[id]
			}
			if v, ok := o.(*types.Var); ok && !v.IsField() && cnt[o] <= 1 {
				out[o] = true
			}
		}
		return true
	})
	return out
}

// vmPureCond: the condition reads only stable locals, their field chains,
// constants, and calls of accessor methods without arguments (Kind(), Type())
// or len().
func vmPureCond(info *types.Info, e ast.Expr, stable map[types.Object]bool) bool {
	ok := true
	ast.Inspect(e, func(n ast.Node) bool {
		switch x := n.(type) {
		case *ast.Ident:
			o := info.Uses[x]
			switch o.(type) {
			case *types.Var:
				if v := o.(*types.Var); !v.IsField() && !stable[o] {
					ok = false
				}
			case *types.Const, *types.Nil, *types.TypeName, *types.PkgName, *types.Builtin, *types.Func, nil:
			default:
				ok = false
			}
		case *ast.CallExpr:
			if tv, isT := info.Types[x.Fun]; isT && tv.IsType() {
				return true
			}
			if id, isId := x.Fun.(*ast.Ident); isId {
				if b, isB := info.Uses[id].(*types.Builtin); isB && b.Name() == "len" {
					return true
				}
			}
			if len(x.Args) != 0 {
				ok = false
				return false
			}
			f := CalleeOf(info, x)
			if f == nil {
				ok = false
				return false
			}
			sig, _ := f.Type().(*types.Signature)
			if sig == nil || sig.Recv() == nil || sig.Results().Len() != 1 {
				ok = false
				return false
			}
			if _, isPtr := sig.Recv().Type().(*types.Pointer); isPtr {
				ok = false // pointer-receiver methods may mutate
			}
		case *ast.FuncLit:
			ok = false
		case *ast.UnaryExpr:
			if x.Op == token.ARROW {
				ok = false
			}
		}
		return ok
	})
	return ok
}

// ------------------------------------------------------- units (case labels)

// vmTopSwitch finds the statement-level switch of the function body whose tag
// has the given enum type (nil: any enum type).
func vmTopSwitches(c *Ctx, info *types.Info, body *ast.BlockStmt) []*ast.SwitchStmt {
	var out []*ast.SwitchStmt
	for _, s := range body.List {
		if l, ok := s.(*ast.LabeledStmt); ok {
			s = l.Stmt
		}
		sw, ok := s.(*ast.SwitchStmt)
		if !ok || sw.Tag == nil {
			continue
		}
		if c.EnumOf(info.TypeOf(sw.Tag)) != nil {
			out = append(out, sw)
		}
	}
	return out
}

// vmDispNarrow: the opcodes a path through the instruction dispatcher is
// handling, narrowed by every dispatch switch it went through (the root's and
// those of the functions the root hands the instruction to). order lists them
// in the order of the last explicit clause; explicit=false when only default
// clauses were taken.
func vmDispNarrow(info *types.Info, ev []vmEv, extraVals, extraOthers []ast.Expr, withExtra bool) (set map[*types.Const]bool, order []*types.Const, explicit, seen bool) {
	set = map[*types.Const]bool{}
	for _, k := range vmDispEnum {
		set[k] = true
	}
	apply := func(vals, others []ast.Expr) {
		seen = true
		if vals != nil {
			explicit = true
			in := map[*types.Const]bool{}
			order = order[:0]
			for _, x := range vals {
				if k := ConstOf(info, x); k != nil {
					in[k] = true
					order = append(order, k)
				}
			}
			for k := range set {
				if !in[k] {
					delete(set, k)
				}
			}
			return
		}
		for _, x := range others {
			if k := ConstOf(info, x); k != nil {
				delete(set, k)
			}
		}
	}
	for _, e := range ev {
		if e.K == evCase && !e.Select && (e.Pos == vmDispRootPos || vmContSwitchPos[e.Pos]) {
			apply(e.Vals, e.Others)
		}
	}
	if withExtra {
		apply(extraVals, extraOthers)
	}
	return
}

// vmUnitOf: the label of the top-level enum switch clause a path went through
// ("" when the function has no such switch or the path did not enter one).
// For the VM's instruction dispatcher the label names the opcode(s) the path
// handles, also when the clause is reached through several dispatch functions.
func vmUnitOf(info *types.Info, tops map[token.Pos]bool, p *vmPath) string {
	for _, e := range p.ev {
		if e.K == evTypeCase && e.Sw != nil && tops[e.Sw.Pos()] {
			// a type switch over the node types standing for a kind switch
			if e.Vals == nil {
				return "default"
			}
			var v []string
			for _, k := range vmTypeCaseConsts[e.Pos] {
				v = append(v, k.Name())
			}
			return "case " + strings.Join(v, ",")
		}
		if e.K == evCase && !e.Select && tops[e.Pos] {
			if e.Pos == vmDispRootPos && len(vmContSwitchPos) > 0 {
				set, order, explicit, _ := vmDispNarrow(info, p.ev, nil, nil, false)
				if !explicit {
					return "default"
				}
				var v []string
				for _, k := range order {
					if set[k] {
						v = append(v, k.Name())
					}
				}
				if len(v) == 0 {
					return ""
				}
				return "case " + strings.Join(v, ",")
			}
			if e.Vals == nil {
				return "default"
			}
			var v []string
			for _, x := range e.Vals {
				if k := ConstOf(info, x); k != nil {
					v = append(v, k.Name())
				} else {
					v = append(v, exprStr(x))
				}
			}
			return "case " + strings.Join(v, ",")
		}
	}
	return ""
}

func vmTopPosSet(c *Ctx, fn *vmFn) map[token.Pos]bool {
	m := map[token.Pos]bool{}
	for _, sw := range vmTopSwitches(c, fn.info, fn.fd.Body) {
		m[sw.Pos()] = true
	}
	for _, sw := range vmKindTypeSwitches(c, fn) {
		m[sw.Pos()] = true
	}
	return m
}

// A statement-level type switch over a node interface is a kind switch in
// another notation when the interface has exactly one parameterless method
// with an enum result (`Kind()`) and every type listed in a clause implements
// it as `return CONSTANT`: `case ast.AnalyzedForStatement:` is then the
// clause `case ForStatementKind`. The clause names are registered by clause
// position for vmUnitOf.
var (
	vmTypeCaseConsts  = map[token.Pos][]*types.Const{}
	vmKindTypeSwCache = map[*ast.FuncDecl][]*ast.TypeSwitchStmt{}
)

func vmKindTypeSwitches(c *Ctx, fn *vmFn) []*ast.TypeSwitchStmt {
	if out, ok := vmKindTypeSwCache[fn.fd]; ok {
		return out
	}
	var out []*ast.TypeSwitchStmt
	for _, s := range fn.fd.Body.List {
		if l, ok := s.(*ast.LabeledStmt); ok {
			s = l.Stmt
		}
		ts, ok := s.(*ast.TypeSwitchStmt)
		if !ok {
			continue
		}
		// the subject: x.(type) or v := x.(type)
		var subj ast.Expr
		switch a := ts.Assign.(type) {
		case *ast.ExprStmt:
			if ta, ok := a.X.(*ast.TypeAssertExpr); ok {
				subj = ta.X
			}
		case *ast.AssignStmt:
			if len(a.Rhs) == 1 {
				if ta, ok := a.Rhs[0].(*ast.TypeAssertExpr); ok {
					subj = ta.X
				}
			}
		}
		if subj == nil || fn.info.TypeOf(subj) == nil {
			continue
		}
		iface, ok := fn.info.TypeOf(subj).Underlying().(*types.Interface)
		if !ok {
			continue
		}
		var kindM *types.Func
		n := 0
		for i := 0; i < iface.NumMethods(); i++ {
			m := iface.Method(i)
			sig := m.Type().(*types.Signature)
			if sig.Params().Len() == 0 && sig.Results().Len() == 1 && c.EnumOf(sig.Results().At(0).Type()) != nil {
				kindM = m
				n++
			}
		}
		if n != 1 {
			continue
		}
		names := map[token.Pos][]*types.Const{}
		good := true
		for _, cl := range ts.Body.List {
			cc := cl.(*ast.CaseClause)
			var ks []*types.Const
			for _, te := range cc.List {
				t := fn.info.TypeOf(te)
				if t == nil {
					good = false
					break
				}
				obj, _, _ := types.LookupFieldOrMethod(t, true, kindM.Pkg(), kindM.Name())
				mf, _ := obj.(*types.Func)
				decl := vmDeclIndex(c).of(mf)
				if decl == nil {
					good = false
					break
				}
				res := vmExprBodied(decl)
				k := (*types.Const)(nil)
				if res != nil {
					k = ConstOf(decl.info, ast.Unparen(res))
				}
				if k == nil {
					good = false
					break
				}
				ks = append(ks, k)
			}
			if !good {
				break
			}
			names[cc.Pos()] = ks
		}
		if !good {
			continue
		}
		for p, ks := range names {
			vmTypeCaseConsts[p] = ks
		}
		out = append(out, ts)
	}
	vmKindTypeSwCache[fn.fd] = out
	return out
}

// vmKindClauses: the bodies of the clauses for kind constant k in the
// statement-level kind switches of fn, written as a switch over the kind or as
// a type switch over the node types.
func vmKindClauses(c *Ctx, fn *vmFn, k *types.Const) (pos token.Pos, bodies [][]ast.Stmt) {
	for _, sw := range vmTopSwitches(c, fn.info, fn.fd.Body) {
		if cl := vmClauseOf(fn.info, sw, k); cl != nil {
			pos = cl.Pos()
			bodies = append(bodies, cl.Body)
		}
	}
	for _, ts := range vmKindTypeSwitches(c, fn) {
		for _, cl := range ts.Body.List {
			cc := cl.(*ast.CaseClause)
			for _, x := range vmTypeCaseConsts[cc.Pos()] {
				if x == k {
					pos = cc.Pos()
					bodies = append(bodies, cc.Body)
				}
			}
		}
	}
	return
}

// vmClauseOf returns the clause of a top-level switch labelled by constant k.
func vmClauseOf(info *types.Info, sw *ast.SwitchStmt, k *types.Const) *ast.CaseClause {
	for _, c := range sw.Body.List {
		cc := c.(*ast.CaseClause)
		for _, e := range cc.List {
			if ConstOf(info, e) == k {
				return cc
			}
		}
	}
	return nil
}

func vmConst(c *Ctx, rel, name string) *types.Const {
	k, _ := c.Pkg(rel).Types.Scope().Lookup(name).(*types.Const)
	if k == nil {
		fatalf("anchor unresolved: constant %s.%s", rel, name)
	}
	return k
}

func vmFuncObj(c *Ctx, rel, name string) *types.Func {
	f, _ := c.Pkg(rel).Types.Scope().Lookup(name).(*types.Func)
	if f == nil {
		fatalf("anchor unresolved: function %s.%s", rel, name)
	}
	return f
}

func vmUniq(ss []string) []string {
	m := map[string]bool{}
	var out []string
	for _, s := range ss {
		if !m[s] {
			m[s] = true
			out = append(out, s)
		}
	}
	sort.Strings(out)
	return out
}

func vmTrunc(s string, n int) string {
	if len(s) > n {
		return s[:n] + "…"
	}
	return s
}

// ----------------------------------------------------------------- slicing

type vmSkipped struct{}

// vmSlicer returns a replace hook that collapses compound statements which
// contain nothing relevant to the rule and cannot leave the enclosing
// construct (no return, no break/continue/goto that escapes them). Both
// branches of such a statement continue identically for the rule, so one
// continuation is enough; this keeps the path count of long set-up functions
// bounded without changing any verdict.
func vmSlicer(relevant func(n ast.Node) bool) func(s ast.Stmt) (any, bool) {
	return func(s ast.Stmt) (any, bool) {
		switch x := s.(type) {
		case *ast.SwitchStmt:
			if vmContSwitchPos[x.Pos()] {
				// the opcode switch of a function the instruction dispatcher hands its instruction
				// to: its clauses name the unit of the path, it is never collapsed
				return nil, false
			}
		case *ast.IfStmt, *ast.ForStmt, *ast.RangeStmt, *ast.TypeSwitchStmt, *ast.SelectStmt:
		default:
			return nil, false
		}
		keep := false
		var walk func(n ast.Node, breakable, continuable bool)
		walk = func(n ast.Node, breakable, continuable bool) {
			ast.Inspect(n, func(m ast.Node) bool {
				if keep || m == nil {
					return false
				}
				if m != n {
					switch x := m.(type) {
					case *ast.FuncLit:
						if relevant(x) {
							keep = true
						}
						return false
					case *ast.ForStmt, *ast.RangeStmt:
						walk(x, true, true)
						return false
					case *ast.SwitchStmt, *ast.TypeSwitchStmt, *ast.SelectStmt:
						walk(x, true, continuable)
						return false
					}
				}
				switch x := m.(type) {
				case *ast.ReturnStmt, *ast.DeferStmt, *ast.GoStmt, *ast.LabeledStmt:
					keep = true
				case *ast.BranchStmt:
					if x.Label != nil || x.Tok == token.GOTO || x.Tok == token.FALLTHROUGH {
						keep = true
					} else if x.Tok == token.BREAK && !breakable {
						keep = true
					} else if x.Tok == token.CONTINUE && !continuable {
						keep = true
					}
				default:
					if relevant(m) {
						keep = true
					}
				}
				return !keep
			})
		}
		switch s.(type) {
		case *ast.ForStmt, *ast.RangeStmt:
			walk(s, true, true)
		case *ast.IfStmt:
			walk(s, false, false)
		default:
			walk(s, true, false)
		}
		if keep {
			return nil, false
		}
		return vmSkipped{}, true
	}
}
