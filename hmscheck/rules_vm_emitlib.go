package main

// Emission traces of the bytecode compiler: along a path of a compile
// function, the ordered list of instructions inserted (opcode constant +
// constructor arguments), of child compilations (calls of emitter methods that
// take an analysed-AST argument) and of in-place patches of already inserted
// instructions. Shared by R-pairing-emit and R-emit-must.

import (
	"go/ast"
	"go/token"
	"go/types"
	"strings"
)

type vmEmKind int

const (
	emEmit vmEmKind = iota
	emCompile
	emPatch
	emHelper // call of an emitter helper without AST argument (e.g. the operator → opcode helper)
)

type vmEm struct {
	kind      vmEmKind
	op        *types.Const // emEmit / emPatch (nil when not resolvable)
	opText    string
	ctor      *types.Func
	args      []ast.Expr // constructor arguments without the opcode
	node      ast.Expr   // emCompile: the AST argument
	callee    *types.Func
	call      *ast.CallExpr
	pos       token.Pos
	evIdx     int
	resultObj types.Object // variable that receives insert()'s result
	patchIdx  types.Object // emPatch: index variable
	deferred  bool
}

func (e vmEm) opName() string {
	if e.op != nil {
		return e.op.Name()
	}
	return "?(" + e.opText + ")"
}

func (e vmEm) is(name string) bool { return e.kind == emEmit && e.op != nil && e.op.Name() == name }

type vmCompilerRoles struct {
	c          *Ctx
	fns        []*vmFn
	byObj      map[*types.Func]*vmFn
	insert     *types.Func
	insertArg  int        // index of the instruction among the insert role's arguments
	instrField *types.Var // Function.Instructions
	opType     types.Type
	emitters   map[*types.Func]bool // functions that (transitively) reach insert
	callees    map[*types.Func]map[*types.Func]bool
	scopes     *vmStackRoles // Compiler.varScopes
	loops      *vmStackRoles // Compiler.loops
	astPkg     *types.Package
}

var vmCompRolesCache = map[*Ctx]*vmCompilerRoles{}

func vmCompRoles(c *Ctx) *vmCompilerRoles {
	if r := vmCompRolesCache[c]; r != nil {
		return r
	}
	pkg := c.Pkg("homescript/compiler")
	r := &vmCompilerRoles{c: c, fns: vmFuncs(c, "homescript/compiler"), byObj: map[*types.Func]*vmFn{}, emitters: map[*types.Func]bool{}, callees: map[*types.Func]map[*types.Func]bool{}}
	r.astPkg = c.Pkg("homescript/analyzer/ast").Types
	opT := pkg.Types.Scope().Lookup("Opcode")
	if opT == nil {
		fatalf("anchor unresolved: compiler.Opcode")
	}
	r.opType = opT.Type()
	r.instrField = vmStructField(pkg, "Function", "Instructions")
	if r.instrField == nil {
		fatalf("anchor unresolved: compiler.Function.Instructions")
	}
	for _, fn := range r.fns {
		obj, _ := fn.info.Defs[fn.fd.Name].(*types.Func)
		if obj == nil {
			continue
		}
		r.byObj[obj] = fn
		r.callees[obj] = map[*types.Func]bool{}
		ast.Inspect(fn.fd.Body, func(n ast.Node) bool {
			if call, ok := n.(*ast.CallExpr); ok {
				if g := CalleeOf(fn.info, call); g != nil && g.Pkg() == pkg.Types {
					r.callees[obj][g] = true
				}
			}
			return true
		})
	}
	// the insert role: a *Compiler method that appends one of its parameters to Function.Instructions,
	// itself or by forwarding it (straight-line) to such a method (`insert` → `appendTo(fn, instr, span)`,
	// `add` → `insert`). Of a forwarding chain, the role is the method the lowering code calls (the one
	// with the most call sites); the others are its implementation or wrappers of it.
	type cand struct {
		fn  *vmFn
		obj *types.Func
		arg int
	}
	cands := map[*types.Func]*cand{}
	paramIndex := func(fn *vmFn, e ast.Expr) int {
		o := vmObjOf(fn.info, ast.Unparen(e))
		for i, p := range vmParamObjs(fn) {
			if p != nil && p == o {
				return i
			}
		}
		return -1
	}
	isCompilerMethod := func(fn *vmFn) bool {
		return fn.fd.Recv != nil && recvTypeName(fn.fd.Recv.List[0].Type) == "Compiler"
	}
	for _, fn := range r.fns {
		obj, _ := fn.info.Defs[fn.fd.Name].(*types.Func)
		if obj == nil || !isCompilerMethod(fn) {
			continue
		}
		for _, s := range fn.fd.Body.List {
			as, ok := s.(*ast.AssignStmt)
			if !ok || len(as.Lhs) != len(as.Rhs) {
				continue
			}
			// also as one element of a tuple assignment (`fn.Instructions, fn.SourceMap = append(…), append(…)`)
			for k := range as.Lhs {
				if d, ok := vmSliceWrite(fn.info, as.Lhs[k], as.Rhs[k], r.instrField); ok && d == 1 {
					call := ast.Unparen(as.Rhs[k]).(*ast.CallExpr)
					if i := paramIndex(fn, call.Args[1]); i >= 0 {
						cands[obj] = &cand{fn, obj, i}
					}
				}
			}
		}
	}
	for changed := true; changed; {
		changed = false
		for _, fn := range r.fns {
			obj, _ := fn.info.Defs[fn.fd.Name].(*types.Func)
			if obj == nil || cands[obj] != nil || !isCompilerMethod(fn) || !vmStraightLine(fn) {
				continue
			}
			ast.Inspect(fn.fd.Body, func(n ast.Node) bool {
				if call, ok := n.(*ast.CallExpr); ok && cands[obj] == nil {
					if g := cands[vmOrigin(CalleeOf(fn.info, call))]; g != nil && g.arg < len(call.Args) {
						if i := paramIndex(fn, call.Args[g.arg]); i >= 0 {
							cands[obj] = &cand{fn, obj, i}
							changed = true
						}
					}
				}
				return true
			})
		}
	}
	var best *cand
	bestN := -1
	for _, fn := range r.fns {
		obj, _ := fn.info.Defs[fn.fd.Name].(*types.Func)
		cd := cands[obj]
		if cd == nil {
			continue
		}
		sites := 0
		for _, g := range r.fns {
			ast.Inspect(g.fd.Body, func(m ast.Node) bool {
				if call, ok := m.(*ast.CallExpr); ok && vmOrigin(CalleeOf(g.info, call)) == obj {
					sites++
				}
				return true
			})
		}
		if sites > bestN {
			best, bestN = cd, sites
		} else if sites == bestN {
			fatalf("anchor ambiguous: the *Compiler methods %s and %s both append their parameter to Function.Instructions and are called equally often", best.fn.name, cd.fn.name)
		}
	}
	if best != nil {
		r.insert, r.insertArg = best.obj, best.arg
	}
	if r.insert == nil {
		fatalf("anchor unresolved: no *Compiler method appends to Function.Instructions")
	}
	// emitters: least fixpoint of "calls insert"
	r.emitters[r.insert] = true
	for changed := true; changed; {
		changed = false
		for f, cs := range r.callees {
			if r.emitters[f] {
				continue
			}
			for g := range cs {
				if r.emitters[g] {
					r.emitters[f] = true
					changed = true
					break
				}
			}
		}
	}
	// the compiler's scope and loop stacks, by role: slice fields of Compiler that have a
	// push and a pop method; the one whose elements are Loop records is the loop stack.
	if cobj := pkg.Types.Scope().Lookup("Compiler"); cobj != nil {
		if st, ok := cobj.Type().Underlying().(*types.Struct); ok {
			for i := 0; i < st.NumFields(); i++ {
				f := st.Field(i)
				sl, ok := f.Type().Underlying().(*types.Slice)
				if !ok {
					continue
				}
				roles := vmDiscoverStack(r.fns, f)
				if len(roles.push) == 0 || len(roles.pop) == 0 {
					continue
				}
				if n := vmNamed(sl.Elem()); n != nil && n.Obj().Name() == "Loop" {
					r.loops = roles
				} else if r.scopes == nil {
					r.scopes = roles
				} else {
					fatalf("anchor ambiguous: several push/pop stacks in Compiler besides the loop stack (%s, %s)", r.scopes.field.Name(), f.Name())
				}
			}
		}
	}
	if r.scopes == nil || r.loops == nil {
		fatalf("anchor unresolved: push/pop methods of the compiler's scope / loop stacks")
	}
	vmCompRolesCache[c] = r
	return r
}

// reachableFrom: functions reachable from f through static calls inside the package.
func (r *vmCompilerRoles) reachableFrom(f *types.Func) map[*types.Func]bool {
	seen := map[*types.Func]bool{}
	var visit func(g *types.Func)
	visit = func(g *types.Func) {
		for h := range r.callees[g] {
			if !seen[h] {
				seen[h] = true
				visit(h)
			}
		}
	}
	visit(f)
	return seen
}

// lastConstOf resolves an identifier to the constant last assigned to it on
// the path before event index `before`.
func vmLastAssign(info *types.Info, ev []vmEv, before int, obj types.Object) ast.Expr {
	var last ast.Expr
	for i := 0; i < before && i < len(ev); i++ {
		e := ev[i]
		if e.K == evAssign && e.Rhs != nil && vmObjOf(info, e.Lhs) == obj && obj != nil {
			last = e.Rhs
		}
	}
	return last
}

// ctorOf parses an instruction value expression: a constructor call (or a
// variable holding one) → opcode + remaining arguments.
func (r *vmCompilerRoles) instrOf(fn *vmFn, ev []vmEv, at int, e ast.Expr) (op *types.Const, opText string, ctor *types.Func, args []ast.Expr, ok bool) {
	info := fn.info
	e = ast.Unparen(e)
	if id, isId := e.(*ast.Ident); isId {
		if rhs := vmLastAssign(info, ev, at, vmObjOf(info, id)); rhs != nil {
			return r.instrOf(fn, ev, at, rhs)
		}
		return nil, exprStr(e), nil, nil, false
	}
	call, isCall := e.(*ast.CallExpr)
	if !isCall {
		// an instruction written as a composite literal
		if op, opText, args, ok := r.construct(info, e, nil, 0); ok {
			return op, opText, nil, args, true
		}
		return nil, exprStr(e), nil, nil, false
	}
	ctor = CalleeOf(info, call)
	if ctor == nil {
		if op, opText, args, ok := r.construct(info, e, nil, 0); ok {
			return op, opText, nil, args, true
		}
		return nil, exprStr(e), nil, nil, false
	}
	sig := ctor.Type().(*types.Signature)
	opIdx := -1
	for i := 0; i < sig.Params().Len(); i++ {
		if types.Identical(sig.Params().At(i).Type(), r.opType) {
			opIdx = i
			break
		}
	}
	if opIdx >= 0 && opIdx < len(call.Args) {
		oe := ast.Unparen(call.Args[opIdx])
		opText = exprStr(oe)
		op = ConstOf(info, oe)
		if op == nil {
			if id, isId := oe.(*ast.Ident); isId {
				if rhs := vmLastAssign(info, ev, at, vmObjOf(info, id)); rhs != nil {
					op = ConstOf(info, rhs)
				}
			}
		}
		for i, a := range call.Args {
			if i != opIdx {
				args = append(args, a)
			}
		}
		return op, opText, ctor, args, true
	}
	// constructor without opcode parameter: the opcode is fixed in its body
	if cfn := r.byObj[ctor]; cfn != nil {
		ast.Inspect(cfn.fd.Body, func(n ast.Node) bool {
			if kv, isKV := n.(*ast.KeyValueExpr); isKV {
				if k := ConstOf(cfn.info, kv.Value); k != nil && types.Identical(k.Type(), r.opType) {
					op = k
				}
			}
			return true
		})
		if op != nil {
			return op, op.Name(), ctor, call.Args, true
		}
	}
	// a wrapper constructor (`func jumpTo(l string) Instruction { return newJump(Opcode_Jump, l) }`):
	// follow the construction down to the literal, arguments substituted for parameters
	if op, opText, cargs, ok := r.construct(info, e, nil, 0); ok && op != nil {
		return op, opText, ctor, cargs, true
	}
	return nil, exprStr(e), ctor, call.Args, false
}

// construct resolves an instruction-valued expression to its construction: a
// composite literal of an instruction struct (keyed in any order or
// positional; the element of the opcode type is the opcode, the other
// elements are the operands in field order, an array operand flattened), or a
// call of a function whose body is `return <construction>` with the call's
// arguments substituted for its parameters.
func (r *vmCompilerRoles) construct(info *types.Info, e ast.Expr, env map[types.Object]ast.Expr, depth int) (op *types.Const, opText string, args []ast.Expr, ok bool) {
	if depth > 4 {
		return nil, "", nil, false
	}
	subst := func(x ast.Expr) ast.Expr {
		for i := 0; i < 4; i++ {
			id, isId := ast.Unparen(x).(*ast.Ident)
			if !isId || env == nil {
				break
			}
			m, has := env[vmObjOf(info, id)]
			if !has {
				break
			}
			x = m
		}
		return x
	}
	e = ast.Unparen(subst(e))
	switch x := e.(type) {
	case *ast.CompositeLit:
		t := info.TypeOf(x)
		if t == nil {
			return nil, "", nil, false
		}
		st, isStruct := t.Underlying().(*types.Struct)
		if !isStruct {
			return nil, "", nil, false
		}
		vals := make([]ast.Expr, st.NumFields())
		for i, el := range x.Elts {
			if kv, isKV := el.(*ast.KeyValueExpr); isKV {
				key, _ := kv.Key.(*ast.Ident)
				for f := 0; f < st.NumFields(); f++ {
					if key != nil && st.Field(f).Name() == key.Name {
						vals[f] = kv.Value
					}
				}
			} else if i < len(vals) {
				vals[i] = el
			}
		}
		found := false
		for f := 0; f < st.NumFields(); f++ {
			v := vals[f]
			if types.Identical(st.Field(f).Type(), r.opType) {
				found = true
				if v != nil {
					v = subst(v)
					opText = exprStr(v)
					op = ConstOf(info, ast.Unparen(v))
				}
				continue
			}
			if v == nil {
				continue
			}
			v = subst(v)
			if arr, isArr := ast.Unparen(v).(*ast.CompositeLit); isArr {
				if _, isA := info.TypeOf(arr).Underlying().(*types.Array); isA {
					for _, el := range arr.Elts {
						if kv, isKV := el.(*ast.KeyValueExpr); isKV {
							el = kv.Value
						}
						args = append(args, subst(el))
					}
					continue
				}
			}
			args = append(args, v)
		}
		return op, opText, args, found
	case *ast.CallExpr:
		if tv, isT := info.Types[x.Fun]; isT && tv.IsType() && len(x.Args) == 1 {
			return r.construct(info, x.Args[0], env, depth+1)
		}
		g := vmDeclIndex(r.c).of(CalleeOf(info, x))
		if g == nil {
			return nil, "", nil, false
		}
		res := vmExprBodied(g)
		if res == nil {
			return nil, "", nil, false
		}
		params := vmParamObjs(g)
		if len(params) != len(x.Args) || x.Ellipsis.IsValid() {
			return nil, "", nil, false
		}
		env2 := map[types.Object]ast.Expr{}
		for i, p := range params {
			if p != nil {
				env2[p] = subst(x.Args[i])
			}
		}
		return r.construct(info, res, env2, depth+1)
	}
	return nil, "", nil, false
}

// trace extracts the emission trace of a path.
func (r *vmCompilerRoles) trace(fn *vmFn, p *vmPath) []vmEm {
	info := fn.info
	var out []vmEm
	// map insert call → variable receiving its result
	resOf := map[*ast.CallExpr]types.Object{}
	for _, e := range p.ev {
		if e.K == evAssign && e.Rhs != nil {
			if call, ok := ast.Unparen(e.Rhs).(*ast.CallExpr); ok && CalleeOf(info, call) == r.insert {
				resOf[call] = vmObjOf(info, e.Lhs)
			}
		}
	}
	for i, e := range p.ev {
		switch e.K {
		case evCall:
			if e.Fn == nil {
				continue
			}
			if e.Fn == r.insert && len(e.Call.Args) >= 1 {
				op, opText, ctor, args, _ := r.instrOf(fn, p.ev, i, e.Call.Args[0])
				args = vmParamArgs(info, p, i, args)
				out = append(out, vmEm{kind: emEmit, op: op, opText: opText, ctor: ctor, args: args, call: e.Call, pos: e.Pos, evIdx: i, resultObj: resOf[e.Call], deferred: e.Deferred})
				continue
			}
			if r.emitters[e.Fn] {
				var node ast.Expr
				for _, a := range e.Call.Args {
					if n := vmNamed(info.TypeOf(a)); n != nil && n.Obj().Pkg() == r.astPkg {
						node = a
						break
					}
				}
				if node != nil {
					out = append(out, vmEm{kind: emCompile, node: node, callee: e.Fn, call: e.Call, pos: e.Pos, evIdx: i, deferred: e.Deferred})
				} else {
					out = append(out, vmEm{kind: emHelper, callee: e.Fn, call: e.Call, pos: e.Pos, evIdx: i, deferred: e.Deferred})
				}
			}
		case evAssign:
			// x.Instructions[idx] = ctor(...)
			ix, ok := ast.Unparen(e.Lhs).(*ast.IndexExpr)
			if !ok || vmFieldOf(info, ix.X) != r.instrField || e.Rhs == nil {
				continue
			}
			op, opText, ctor, args, _ := r.instrOf(fn, p.ev, i, e.Rhs)
			out = append(out, vmEm{kind: emPatch, op: op, opText: opText, ctor: ctor, args: args, pos: e.Pos, evIdx: i, patchIdx: vmObjOf(info, ix.Index)})
		}
	}
	return out
}

// vmParamArgs: operands that are parameters of a spliced-in emission helper
// are replaced by the arguments the caller bound to them (so that the operand
// of `emitJump(l)` is the caller's label variable).
func vmParamArgs(info *types.Info, p *vmPath, at int, args []ast.Expr) []ast.Expr {
	out := make([]ast.Expr, len(args))
	for i, a := range args {
		out[i] = a
		// `-n`, `(n)`, `*n`: the operand inside is resolved
		switch x := a.(type) {
		case *ast.UnaryExpr:
			if in := vmParamArgs(info, p, at, []ast.Expr{x.X}); in[0] != x.X {
				out[i] = &ast.UnaryExpr{OpPos: x.OpPos, Op: x.Op, X: in[0]}
			}
			continue
		case *ast.ParenExpr:
			out[i] = vmParamArgs(info, p, at, []ast.Expr{x.X})[0]
			continue
		case *ast.StarExpr:
			if in := vmParamArgs(info, p, at, []ast.Expr{x.X}); in[0] != x.X {
				out[i] = &ast.StarExpr{Star: x.Star, X: in[0]}
			}
			continue
		}
		idx := at
		for hop := 0; hop < 6; hop++ {
			id, ok := ast.Unparen(out[i]).(*ast.Ident)
			if !ok {
				break
			}
			if p.binds != nil {
				if next, k, kind := vmResolveStep(info, p.binds, p.ev, idx, id); next != nil && (kind == vmBindParam || kind == vmBindRecv) {
					out[i], idx = next, k
					continue
				}
			}
			// a plain copy of another local (`target := afterLabel`, `target = elseLabel`): the operand
			// denotes the variable the value was copied from
			k, a := vmLastAssignAt(info, p.ev, idx, vmObjOf(info, id))
			if a == nil || a.K != evAssign || a.Rhs == nil || (a.Tok != token.DEFINE && a.Tok != token.ASSIGN) {
				break
			}
			if as, isAs := a.Stmt.(*ast.AssignStmt); isAs && len(as.Lhs) != len(as.Rhs) {
				break
			}
			src, isId := ast.Unparen(a.Rhs).(*ast.Ident)
			if !isId {
				break
			}
			if v, isVar := vmObjOf(info, src).(*types.Var); !isVar || v.IsField() || v.Parent() == nil || v.Parent() == v.Pkg().Scope() {
				break
			}
			out[i], idx = src, k
		}
	}
	return out
}

// vmEmitWrapper: a straight-line emitter helper that takes no AST node
// (`func (c *Compiler) emitJump(l string, s Span) { c.insert(newJump(l), s) }`):
// an emission primitive under another name, spliced into its callers.
func (r *vmCompilerRoles) emitWrapper(callee *vmFn) bool {
	return r.emitWrapperDepth(callee, 0)
}

func (r *vmCompilerRoles) emitWrapperDepth(callee *vmFn, depth int) bool {
	obj, _ := callee.info.Defs[callee.fd.Name].(*types.Func)
	if obj == nil || !r.emitters[obj] || obj == r.insert || callee.pkg.Types != r.insertPkg() || depth > 3 {
		return false
	}
	for _, roles := range []*vmStackRoles{r.scopes, r.loops} {
		if _, is := roles.push[obj]; is {
			return false
		}
		if _, is := roles.pop[obj]; is {
			return false
		}
	}
	if !vmStraightLine(callee) {
		return false
	}
	// it only emits: the emitters it calls are the insert primitive or wrappers themselves (a helper
	// that compiles a child node is a compile function, whatever its shape)
	ok := true
	ast.Inspect(callee.fd.Body, func(n ast.Node) bool {
		if call, isCall := n.(*ast.CallExpr); isCall {
			if g := CalleeOf(callee.info, call); g != nil && r.emitters[g] && g != r.insert {
				if gf := r.byObj[g]; gf == nil || gf.fd == callee.fd || !r.emitWrapperDepth(gf, depth+1) {
					ok = false
				}
			}
		}
		return ok
	})
	return ok
}

func (r *vmCompilerRoles) insertPkg() *types.Package { return r.insert.Pkg() }

// vmStraightLine: a short body of simple statements only.
func vmStraightLine(fn *vmFn) bool {
	if len(fn.fd.Body.List) > 6 {
		return false
	}
	for _, s := range fn.fd.Body.List {
		switch s.(type) {
		case *ast.ExprStmt, *ast.AssignStmt, *ast.ReturnStmt, *ast.DeclStmt, *ast.IncDecStmt:
		default:
			return false
		}
	}
	return true
}

// vmPathObj: the variable an operand denotes on the path, parameters of
// spliced-in helpers replaced by the caller's arguments.
func vmPathObj(info *types.Info, p *vmPath, at int, e ast.Expr) types.Object {
	if e == nil {
		return nil
	}
	r := vmParamArgs(info, p, at, []ast.Expr{e})
	return vmObjOf(info, r[0])
}

func vmTraceStr(tr []vmEm) string {
	var s []string
	for _, e := range tr {
		switch e.kind {
		case emEmit:
			a := ""
			if len(e.args) > 0 {
				var as []string
				for _, x := range e.args {
					as = append(as, vmTrunc(exprStr(x), 40))
				}
				a = "(" + strings.Join(as, ", ") + ")"
			}
			s = append(s, strings.TrimPrefix(e.opName(), "Opcode_")+a)
		case emCompile:
			s = append(s, "«"+vmTrunc(exprStr(e.node), 40)+"»")
		case emPatch:
			s = append(s, "patch["+strings.TrimPrefix(e.opName(), "Opcode_")+"]")
		case emHelper:
			s = append(s, e.callee.Name()+"()")
		}
	}
	return vmTrunc(strings.Join(s, " ; "), 900)
}

// vmCompUnit: all paths of one (function, top-level clause) of the compiler.
type vmCompUnit struct {
	fn    *vmFn
	name  string // "" or "case X"
	pos   token.Pos
	paths []*vmPath
	trs   [][]vmEm
}

func (u *vmCompUnit) key() string {
	if u.name == "" {
		return u.fn.name
	}
	return u.fn.name + "|" + u.name
}

type vmCompWalk struct {
	units    []*vmCompUnit
	problems []Obligation
}

var vmCompWalkCache = map[*Ctx]*vmCompWalk{}

// vmCompUnits walks every emitter function of the compiler once.
func vmCompUnits(c *Ctx) *vmCompWalk {
	if w := vmCompWalkCache[c]; w != nil {
		return w
	}
	r := vmCompRoles(c)
	w := &vmCompWalk{}
	var valueT types.Type
	if vo := c.Pkg("homescript/runtime/value").Types.Scope().Lookup("Value"); vo != nil {
		valueT = vo.Type()
	}
	for _, fn := range r.fns {
		obj, _ := fn.info.Defs[fn.fd.Name].(*types.Func)
		if obj == nil || !r.emitters[obj] || obj == r.insert || r.emitWrapper(fn) {
			continue
		}
		info := fn.info
		res := vmWalk(vmWalkOpts{fn: fn, correlate: true, inline: func(callee *vmFn, call *ast.CallExpr) bool {
			if vmPurePredicate(callee) || r.emitWrapper(callee) {
				return true
			}
			// straight-line wrappers of the scope / loop stack operations (`enterLoop(…)`)
			cobj, _ := callee.info.Defs[callee.fd.Name].(*types.Func)
			return !r.emitters[cobj] && vmStraightLine(callee) && vmCompBalance(c).wrappers.isWrapper(cobj)
		}, replace: vmSlicer(func(n ast.Node) bool {
			switch x := n.(type) {
			case *ast.CallExpr:
				g := CalleeOf(info, x)
				if g == nil {
					return false
				}
				if r.emitters[g] || vmCompBalance(c).wrappers.isWrapper(g) {
					return true
				}
				for _, roles := range []*vmStackRoles{r.scopes, r.loops} {
					if _, ok := roles.push[g]; ok {
						return true
					}
					if _, ok := roles.pop[g]; ok {
						return true
					}
				}
				if id, ok := x.Fun.(*ast.Ident); ok {
					if b, isB := info.Uses[id].(*types.Builtin); isB && b.Name() == "panic" {
						return true
					}
				}
			case *ast.AssignStmt:
				for _, l := range x.Lhs {
					t := info.TypeOf(l)
					if t == nil {
						continue
					}
					if types.Identical(t, r.opType) {
						return true
					}
					if n := vmNamed(t); n != nil && n.Obj().Name() == "Instruction" {
						return true
					}
					// a constant operand prepared in a local (`literal = *value.NewValueInt(…)`)
					if valueT != nil && types.Identical(t, valueT) {
						return true
					}
					if vmFieldOf(info, vmBaseOfIndex(l)) == r.instrField {
						return true
					}
				}
			}
			return false
		})})
		if res.overflow {
			w.problems = append(w.problems, Obligation{Key: fn.name + "|<paths>", Pos: c.Pos(fn.fd.Pos()), Status: Undecided, Detail: "path cap exceeded"})
			continue
		}
		for _, p := range res.unsupported {
			w.problems = append(w.problems, Obligation{Key: fn.name + "|<unsupported control flow>", Pos: c.Pos(p), Status: Undecided, Detail: "goto/fallthrough"})
		}
		tops := vmTopPosSet(c, fn)
		byName := map[string]*vmCompUnit{}
		for i := range res.paths {
			p := &res.paths[i]
			name := vmUnitOf(fn.info, tops, p)
			u := byName[name]
			if u == nil {
				u = &vmCompUnit{fn: fn, name: name, pos: fn.fd.Pos()}
				for _, e := range p.ev {
					if e.K == evCase && tops[e.Pos] {
						u.pos = vmClausePos(e)
						break
					}
					if e.K == evTypeCase && e.Sw != nil && tops[e.Sw.Pos()] {
						u.pos = e.Pos
						break
					}
				}
				byName[name] = u
				w.units = append(w.units, u)
			}
			u.paths = append(u.paths, p)
			u.trs = append(u.trs, r.trace(fn, p))
		}
	}
	vmCompWalkCache[c] = w
	return w
}

func vmClausePos(e vmEv) token.Pos {
	if len(e.Vals) > 0 {
		return e.Vals[0].Pos()
	}
	return e.Pos
}

// normal: the path ends by returning / falling off the end (not by panic).
func vmNormalExit(p *vmPath) bool { return p.o.kind == cReturn || p.o.kind == cNormal }

// ---------------------------------------------------------------- delegation

// A clause of a kind dispatcher may hand its own subject node (possibly
// type-asserted) to another emitter function instead of lowering it in place:
// `case ForStatementKind: self.compileForStmt(node.(AnalyzedForStatement))`.
// That is not a child compilation (the node is the same one), so obligations
// anchored at the clause ("the for lowering …") are decided on the clause's
// paths with the delegate's paths spliced in.

// delegateOf: the emCompile event passes the unit function's own parameter on.
func (r *vmCompilerRoles) delegateOf(fn *vmFn, p *vmPath, e vmEm) *vmFn {
	if e.kind != emCompile || e.callee == nil || e.node == nil {
		return nil
	}
	g := r.byObj[e.callee.Origin()]
	if g == nil || g.fd == fn.fd {
		return nil
	}
	x, _, _ := vmResolveAt(fn.info, p.binds, p.ev, e.evIdx, e.node)
	x = ast.Unparen(x)
	if ta, ok := x.(*ast.TypeAssertExpr); ok {
		x = ast.Unparen(ta.X)
		// `node := node.(T)`: the asserted operand may itself be a shadowing local
		x, _, _ = vmResolveAt(fn.info, p.binds, p.ev, e.evIdx, x)
		x = ast.Unparen(x)
		if ta2, ok := x.(*ast.TypeAssertExpr); ok {
			x = ast.Unparen(ta2.X)
		}
	}
	obj := vmObjOf(fn.info, x)
	if obj == nil {
		return nil
	}
	// a parameter of the function the path started in, or of a delegate already spliced in
	isParam := false
	check := func(f *vmFn) {
		for _, po := range vmParamObjs(f) {
			if po != nil && po == obj {
				isParam = true
			}
		}
	}
	check(fn)
	for _, ev := range p.ev {
		if ev.K == evMarker {
			if m, ok := ev.Payload.(vmInlineMark); ok && m.enter {
				check(m.fn)
			}
		}
	}
	if !isParam {
		return nil
	}
	return g
}

var vmExpandCache = map[*vmCompUnit]*vmCompUnit{}

// vmExpandUnit returns the unit with every delegation spliced in (two levels).
func vmExpandUnit(c *Ctx, r *vmCompilerRoles, w *vmCompWalk, u *vmCompUnit) *vmCompUnit {
	if x := vmExpandCache[u]; x != nil {
		return x
	}
	out := &vmCompUnit{fn: u.fn, name: u.name, pos: u.pos}
	in := vmNewInl(c, nil)
	type item struct {
		p     *vmPath
		tr    []vmEm
		depth int
	}
	var work []item
	for pi := range u.paths {
		work = append(work, item{u.paths[pi], u.trs[pi], 0})
	}
	for len(work) > 0 {
		it := work[0]
		work = work[1:]
		var g *vmFn
		k := -1
		if it.depth < 2 {
			for i, e := range it.tr {
				if d := r.delegateOf(u.fn, it.p, e); d != nil {
					g, k = d, i
					break
				}
			}
		}
		if g == nil {
			out.paths = append(out.paths, it.p)
			out.trs = append(out.trs, it.tr)
			continue
		}
		at := it.tr[k].evIdx
		binds := map[ast.Stmt]vmBindKind{}
		for s, b := range it.p.binds {
			binds[s] = b
		}
		var bindEv []vmEv
		bindEv = append(bindEv, vmEv{K: evMarker, Payload: vmInlineMark{fn: g, call: it.tr[k].call, enter: true}, Pos: it.tr[k].pos})
		for _, s := range in.bindings(it.tr[k].call, g) {
			as := s.(*ast.AssignStmt)
			binds[as] = in.binds[as]
			if len(as.Lhs) == 1 && len(as.Rhs) == 1 {
				bindEv = append(bindEv, vmEv{K: evAssign, Lhs: as.Lhs[0], Rhs: as.Rhs[0], Tok: as.Tok, Stmt: as, Pos: as.Pos()})
			}
		}
		n := 0
		for _, gu := range w.units {
			if gu.fn.fd != g.fd {
				continue
			}
			for qi := range gu.paths {
				q := gu.paths[qi]
				n++
				np := &vmPath{o: it.p.o, binds: binds}
				np.ev = append(np.ev, it.p.ev[:at]...)
				np.ev = append(np.ev, bindEv...)
				np.ev = append(np.ev, q.ev...)
				np.ev = append(np.ev, it.p.ev[at+1:]...)
				for s, b := range q.binds {
					binds[s] = b
				}
				if q.o.kind == cPanic {
					np.o = q.o
					np.ev = np.ev[:at+len(bindEv)+len(q.ev)]
				}
				work = append(work, item{np, r.trace(u.fn, np), it.depth + 1})
			}
		}
		if n == 0 {
			out.paths = append(out.paths, it.p)
			out.trs = append(out.trs, it.tr)
		}
	}
	vmExpandCache[u] = out
	return out
}
